/* Correspondence harness for the DNS message writer (C03).
 *
 * Drives the real record builder API, ares_dns_write(), ares_dns_write_buf_tcp(),
 * ares_create_query()/ares_mkquery() and ares_dns_parse() in-process.
 * One output line per op line; `!MON <signature> <text>` lines are added when the round-trip
 * property itself fails on the implementation (they are not part of the model comparison).
 *
 *   new R id flags opcode rcode                         ares_dns_record_create          -> ok|err
 *   q R name-hex qtype qclass                           ares_dns_record_query_add       -> ok|err
 *   rr R sect name-hex type class ttl [key=val ...]     ares_dns_record_rr_add+setters  -> ok|err|seterr <key>
 *        sect 1=an 2=ns 3=ar; key = numeric ares_dns_rr_key_t; val by datatype:
 *        u8/u16/u32 decimal | addr/addr6/bin hex | name/str hex (`~` = set NULL) |
 *        abin chunk,chunk,... (ares_dns_rr_add_abin each) | opt id:hex,id:hex (ares_dns_rr_set_opt each)
 *   ttldec R n                                          ares_dns_record_ttl_decrement   -> ok
 *   dump R                                              canonical dump through the public getters
 *   write R                                             ares_dns_write                  -> st=<class> [hex]
 *   writetcp R prefix-hex consumed                      ares_dns_write_buf_tcp into a buffer that already
 *                                                       holds prefix (first `consumed` bytes already sent)
 *                                                                                       -> st=<class> [frame hex]
 *   parse R flags hex                                   ares_dns_parse into handle R    -> st=<class> [dump]
 *   reparse R R2                                        write R, parse into R2          -> st=<class> [dump of R2]
 *   mkquery name-hex class type id rd udpsz             ares_create_query / ares_mkquery (udpsz<0)
 *                                                                                       -> st=<class> [hex]
 */
#include "ares_private.h"
#include "hcommon.h"
#include "hcodec_dump.h"

#define MAXR 16
static ares_dns_record_t *recs[MAXR];

static void reset_all(void)
{
  int i;
  for (i = 0; i < MAXR; i++) {
    if (recs[i]) {
      ares_dns_record_destroy(recs[i]);
      recs[i] = NULL;
    }
  }
}

/* ---------------------------------------------------------------- tokeniser (unbounded) */
static char  *w_line = NULL;
static size_t w_cap  = 0;
static char **w_tok  = NULL;
static size_t w_tokcap = 0;

static long w_next(void)
{
  ssize_t n = getline(&w_line, &w_cap, stdin);
  size_t  cnt = 0;
  char   *p;
  if (n < 0) {
    return -1;
  }
  p = w_line;
  while (*p) {
    while (*p == ' ' || *p == '\n' || *p == '\r' || *p == '\t') {
      p++;
    }
    if (!*p) {
      break;
    }
    if (cnt == w_tokcap) {
      w_tokcap = w_tokcap ? w_tokcap * 2 : 64;
      w_tok    = realloc(w_tok, w_tokcap * sizeof(*w_tok));
    }
    w_tok[cnt++] = p;
    while (*p && *p != ' ' && *p != '\n' && *p != '\r' && *p != '\t') {
      p++;
    }
    if (*p) {
      *p++ = 0;
    }
  }
  return (long)cnt;
}

/* hex -> malloc'd bytes (always NUL terminated so it can be used as a C string) */
static unsigned char *unhex(const char *s, size_t *len)
{
  size_t         sl = strlen(s);
  unsigned char *out;
  size_t         n = 0;
  if (s[0] == '-' && s[1] == 0) {
    sl = 0;
  }
  out = malloc(sl / 2 + 1);
  while (n < sl / 2) {
    unsigned int b = 0;
    int          k;
    for (k = 0; k < 2; k++) {
      char c = s[2 * n + k];
      b <<= 4;
      if (c >= '0' && c <= '9') {
        b |= (unsigned)(c - '0');
      } else if (c >= 'a' && c <= 'f') {
        b |= (unsigned)(c - 'a' + 10);
      } else if (c >= 'A' && c <= 'F') {
        b |= (unsigned)(c - 'A' + 10);
      }
    }
    out[n++] = (unsigned char)b;
  }
  out[n] = 0;
  *len   = n;
  return out;
}

static void hexout(const unsigned char *p, size_t n)
{
  static const char hx[] = "0123456789abcdef";
  size_t            i;
  if (n == 0) {
    fputc('-', stdout);
    return;
  }
  for (i = 0; i < n; i++) {
    fputc(hx[p[i] >> 4], stdout);
    fputc(hx[p[i] & 15], stdout);
  }
}

#define stclass(st) hcodec_stclass((int)(st))

#define dump_rec hcodec_dump_record

/* ---------------------------------------------------------------- round-trip monitor
 * Independent of the library: presentation names are compared as label-byte lists computed by
 * this (RFC 1035 5.1) splitter, everything else literally.  */
static int mon_count;

static void MON(const char *sig, const char *fmt, ...)
{
  va_list ap;
  /* the line under construction has been finished by the caller */
  printf("!MON %s ", sig);
  va_start(ap, fmt);
  vprintf(fmt, ap);
  va_end(ap);
  fputc('\n', stdout);
  mon_count++;
}

/* returns number of bytes in out (labels as len-prefixed), or -1 when not a valid presentation name */
static long labels_of(const char *s, unsigned char *out, size_t cap)
{
  size_t n = 0, lab = 0, lablen = 0, i = 0, sl;
  if (s == NULL) {
    return -1;
  }
  sl = strlen(s);
  if (sl == 0 || (sl == 1 && s[0] == '.')) {
    return 0;
  }
  lab = n++;
  while (i < sl) {
    unsigned char c = (unsigned char)s[i++];
    if (c == '.') {
      if (lablen == 0) {
        return -1;
      }
      out[lab] = (unsigned char)lablen;
      if (i == sl) { /* trailing dot */
        return (long)n;
      }
      lab    = n++;
      lablen = 0;
      continue;
    }
    if (c == '\\') {
      if (i >= sl) {
        return -1;
      }
      c = (unsigned char)s[i++];
      if (c >= '0' && c <= '9') {
        unsigned v;
        if (i + 1 >= sl || s[i] < '0' || s[i] > '9' || s[i + 1] < '0' || s[i + 1] > '9') {
          return -1;
        }
        v = (unsigned)(c - '0') * 100 + (unsigned)(s[i] - '0') * 10 + (unsigned)(s[i + 1] - '0');
        if (v > 255) {
          return -1;
        }
        c  = (unsigned char)v;
        i += 2;
      }
    }
    if (n + 2 >= cap || lablen >= 63) {
      return -1;
    }
    out[n++] = c;
    lablen++;
  }
  if (lablen == 0) {
    return -1;
  }
  out[lab] = (unsigned char)lablen;
  return (long)n;
}

static int name_equiv(const char *a, const char *b)
{
  static unsigned char la[2048], lb[2048];
  long                 na, nb;
  if (a == NULL || b == NULL) {
    return a == b;
  }
  if (strcmp(a, b) == 0) {
    return 1;
  }
  na = labels_of(a, la, sizeof(la));
  nb = labels_of(b, lb, sizeof(lb));
  return na >= 0 && na == nb && memcmp(la, lb, (size_t)na) == 0;
}

static int printable(const char *s)
{
  for (; s && *s; s++) {
    if ((unsigned char)*s < 0x20 || (unsigned char)*s > 0x7e) {
      return 0;
    }
  }
  return 1;
}

/* is the text exactly what the parser prints for these labels (no trailing dot, \DDD only for
 * non-printable bytes, \X only for reserved characters)? */
static int canonical_spelling(const char *s)
{
  static unsigned char lab[2048];
  static char          txt[8200];
  long                 n = labels_of(s, lab, sizeof(lab));
  size_t               i = 0, o = 0;
  if (n < 0) {
    return 0;
  }
  while (i < (size_t)n) {
    size_t len = lab[i++], k;
    if (o) {
      txt[o++] = '.';
    }
    for (k = 0; k < len; k++) {
      unsigned char c = lab[i + k];
      if (c < 0x20 || c > 0x7e) {
        o += (size_t)sprintf(txt + o, "\\%03u", (unsigned)c);
      } else {
        if (c == '"' || c == '.' || c == ';' || c == '\\' || c == '(' || c == ')' || c == '@' || c == '$') {
          txt[o++] = '\\';
        }
        txt[o++] = (char)c;
      }
    }
    i += len;
  }
  txt[o] = 0;
  return strcmp(txt, s) == 0;
}

/* why an input is outside the canonical class (diagnosis only; goes into the signature so that a
 * known finding is matched by its cause, not just by "something differs") */
static const char *diagnose(const ares_dns_record_t *r)
{
  unsigned int s;
  size_t       i, k;
  if (ares_dns_record_query_cnt(r) != 1) {
    return "qdcount!=1";
  }
  {
    const char         *name = NULL;
    ares_dns_rec_type_t qt   = 0;
    ares_dns_class_t    qc   = 0;
    ares_dns_record_query_get(r, 0, &name, &qt, &qc);
    if ((unsigned)qt > 65535) {
      return "qtype>65535";
    }
  }
  if ((unsigned)ares_dns_record_get_rcode(r) > 15 && ares_dns_get_opt_rr_const(r) == NULL) {
    return "extrcode-without-opt";
  }
  /* names the splitter of this harness does not accept, or longer than name_copy[512] */
  {
    static unsigned char tmp[4096];
    const char          *name = NULL;
    ares_dns_record_query_get(r, 0, &name, NULL, NULL);
    if (name && strlen(name) > 511) {
      return "name-text>511";
    }
    if (labels_of(name, tmp, sizeof(tmp)) < 0) {
      return "name-not-presentation-format";
    }
    for (s = 1; s <= 3; s++) {
      for (i = 0; i < ares_dns_record_rr_cnt(r, (ares_dns_section_t)s); i++) {
        const ares_dns_rr_t     *rr    = ares_dns_record_rr_get_const(r, (ares_dns_section_t)s, i);
        size_t                   nkeys = 0;
        const ares_dns_rr_key_t *keys  = ares_dns_rr_get_keys(ares_dns_rr_get_type(rr), &nkeys);
        name = ares_dns_rr_get_name(rr);
        if (name && strlen(name) > 511) {
          return "name-text>511";
        }
        if (labels_of(name, tmp, sizeof(tmp)) < 0) {
          return "name-not-presentation-format";
        }
        for (k = 0; k < nkeys; k++) {
          if (ares_dns_rr_key_datatype(keys[k]) == ARES_DATATYPE_NAME && keys[k] != ARES_RR_URI_TARGET) {
            name = ares_dns_rr_get_str(rr, keys[k]);
            if (name && strlen(name) > 511) {
              return "name-text>511";
            }
            if (name && labels_of(name, tmp, sizeof(tmp)) < 0) {
              return "name-not-presentation-format";
            }
          }
        }
      }
    }
  }
  for (s = 1; s <= 3; s++) {
    for (i = 0; i < ares_dns_record_rr_cnt(r, (ares_dns_section_t)s); i++) {
      const ares_dns_rr_t     *rr    = ares_dns_record_rr_get_const(r, (ares_dns_section_t)s, i);
      ares_dns_rec_type_t      type  = ares_dns_rr_get_type(rr);
      size_t                   nkeys = 0;
      const ares_dns_rr_key_t *keys  = ares_dns_rr_get_keys(type, &nkeys);
      if (type == ARES_REC_TYPE_OPT && (ares_dns_rr_get_class(rr) != ARES_CLASS_IN || ares_dns_rr_get_ttl(rr) != 0)) {
        return "opt-class-ttl";
      }
      if (type == ARES_REC_TYPE_OPT && s != 3 && (unsigned)ares_dns_record_get_rcode(r) > 15) {
        return "extrcode-opt-not-in-additional";
      }
      if (type == ARES_REC_TYPE_RAW_RR) {
        unsigned short rt = ares_dns_rr_get_u16(rr, ARES_RR_RAW_RR_TYPE);
        size_t         dl = 0;
        if (ares_dns_rec_type_isvalid((ares_dns_rec_type_t)rt, ARES_FALSE)) {
          return "rawrr-with-decoded-type";
        }
        if (ares_dns_rr_get_bin(rr, ARES_RR_RAW_RR_DATA, &dl) != NULL && dl == 0) {
          return "rawrr-empty-data";
        }
      }
      for (k = 0; k < nkeys; k++) {
        ares_dns_datatype_t dt = ares_dns_rr_key_datatype(keys[k]);
        if (dt == ARES_DATATYPE_STR || keys[k] == ARES_RR_URI_TARGET) {
          if (!printable(ares_dns_rr_get_str(rr, keys[k]))) {
            return "nonprintable-str";
          }
        }
        if (keys[k] == ARES_RR_CAA_TAG) {
          const char *t = ares_dns_rr_get_str(rr, keys[k]);
          if (t != NULL && *t == 0) {
            return "empty-caa-tag";
          }
        }
      }
    }
  }
  /* last: names spelled differently from what the parser prints (only matters for byte identity of a
   * second serialisation: equal names in different spellings are not recognised as equal by the
   * compression) */
  {
    const char *name = NULL;
    ares_dns_record_query_get(r, 0, &name, NULL, NULL);
    if (!canonical_spelling(name)) {
      return "noncanonical-name-spelling";
    }
    for (s = 1; s <= 3; s++) {
      for (i = 0; i < ares_dns_record_rr_cnt(r, (ares_dns_section_t)s); i++) {
        const ares_dns_rr_t     *rr    = ares_dns_record_rr_get_const(r, (ares_dns_section_t)s, i);
        size_t                   nkeys = 0;
        const ares_dns_rr_key_t *keys  = ares_dns_rr_get_keys(ares_dns_rr_get_type(rr), &nkeys);
        if (!canonical_spelling(ares_dns_rr_get_name(rr))) {
          return "noncanonical-name-spelling";
        }
        for (k = 0; k < nkeys; k++) {
          if (ares_dns_rr_key_datatype(keys[k]) == ARES_DATATYPE_NAME && keys[k] != ARES_RR_URI_TARGET) {
            name = ares_dns_rr_get_str(rr, keys[k]);
            if (name && !canonical_spelling(name)) {
              return "noncanonical-name-spelling";
            }
          }
        }
      }
    }
  }
  return "canonical";
}

/* split chunks longer than 255 the way a character-string sequence has to be */
static int abin_equiv(const ares_dns_rr_t *a, const ares_dns_rr_t *b, ares_dns_rr_key_t key)
{
  size_t ca = ares_dns_rr_get_abin_cnt(a, key), cb = ares_dns_rr_get_abin_cnt(b, key);
  size_t ia = 0, ib = 0, offa = 0;
  while (ia < ca) {
    size_t               la = 0, lb = 0, take;
    const unsigned char *pa = ares_dns_rr_get_abin(a, key, ia, &la);
    const unsigned char *pb;
    if (ib >= cb) {
      return 0;
    }
    pb   = ares_dns_rr_get_abin(b, key, ib, &lb);
    take = la - offa > 255 ? 255 : la - offa;
    if (lb != take || (take && memcmp(pa + offa, pb, take) != 0)) {
      return 0;
    }
    ib++;
    offa += take;
    if (offa >= la) {
      ia++;
      offa = 0;
    }
  }
  return ib == cb;
}

/* returns NULL when equal, else a static description of the first differing field */
static const char *rr_diff(const ares_dns_rr_t *a, const ares_dns_rr_t *b, unsigned int ttldec)
{
  static char              buf[64];
  size_t                   nkeys = 0, k;
  ares_dns_rec_type_t      type  = ares_dns_rr_get_type(a);
  const ares_dns_rr_key_t *keys  = ares_dns_rr_get_keys(type, &nkeys);
  unsigned int             ttl   = ares_dns_rr_get_ttl(a);
  if (!name_equiv(ares_dns_rr_get_name(a), ares_dns_rr_get_name(b))) {
    return "rr.name";
  }
  if (type != ares_dns_rr_get_type(b)) {
    return "rr.type";
  }
  if (ares_dns_rr_get_class(a) != ares_dns_rr_get_class(b)) {
    return "rr.class";
  }
  /* the public getter already accounts for the record's ttl_decrement (the writer writes what it returns) */
  (void)ttldec;
  if (ttl != ares_dns_rr_get_ttl(b)) {
    return "rr.ttl";
  }
  for (k = 0; k < nkeys; k++) {
    ares_dns_rr_key_t key = keys[k];
    int               eq  = 1;
    switch (ares_dns_rr_key_datatype(key)) {
      case ARES_DATATYPE_U8:
        eq = ares_dns_rr_get_u8(a, key) == ares_dns_rr_get_u8(b, key);
        break;
      case ARES_DATATYPE_U16:
        eq = ares_dns_rr_get_u16(a, key) == ares_dns_rr_get_u16(b, key);
        break;
      case ARES_DATATYPE_U32:
        eq = ares_dns_rr_get_u32(a, key) == ares_dns_rr_get_u32(b, key);
        break;
      case ARES_DATATYPE_INADDR:
        eq = memcmp(ares_dns_rr_get_addr(a, key), ares_dns_rr_get_addr(b, key), 4) == 0;
        break;
      case ARES_DATATYPE_INADDR6:
        eq = memcmp(ares_dns_rr_get_addr6(a, key), ares_dns_rr_get_addr6(b, key), 16) == 0;
        break;
      case ARES_DATATYPE_NAME:
        if (key == ARES_RR_URI_TARGET) {
          const char *x = ares_dns_rr_get_str(a, key), *y = ares_dns_rr_get_str(b, key);
          eq = x && y && strcmp(x, y) == 0;
        } else {
          eq = name_equiv(ares_dns_rr_get_str(a, key), ares_dns_rr_get_str(b, key));
        }
        break;
      case ARES_DATATYPE_STR:
        {
          const char *x = ares_dns_rr_get_str(a, key), *y = ares_dns_rr_get_str(b, key);
          eq = x && y && strcmp(x, y) == 0;
        }
        break;
      case ARES_DATATYPE_BIN:
      case ARES_DATATYPE_BINP:
        {
          size_t               la = 0, lb = 0;
          const unsigned char *x = ares_dns_rr_get_bin(a, key, &la), *y = ares_dns_rr_get_bin(b, key, &lb);
          eq = (la == lb) && (la == 0 || (x && y && memcmp(x, y, la) == 0));
        }
        break;
      case ARES_DATATYPE_ABINP:
        eq = abin_equiv(a, b, key);
        break;
      case ARES_DATATYPE_OPT:
        {
          size_t ca = ares_dns_rr_get_opt_cnt(a, key), cb = ares_dns_rr_get_opt_cnt(b, key), i;
          eq = ca == cb;
          for (i = 0; eq && i < ca; i++) {
            size_t               la = 0, lb = 0;
            const unsigned char *x = NULL, *y = NULL;
            unsigned short       ida = ares_dns_rr_get_opt(a, key, i, &x, &la);
            unsigned short       idb = ares_dns_rr_get_opt(b, key, i, &y, &lb);
            eq = ida == idb && la == lb && (la == 0 || memcmp(x, y, la) == 0);
          }
        }
        break;
      default:
        break;
    }
    if (!eq) {
      snprintf(buf, sizeof(buf), "rr.key%u", (unsigned)key);
      return buf;
    }
  }
  return NULL;
}

static const char *rec_diff(const ares_dns_record_t *a, const ares_dns_record_t *b)
{
  size_t       i;
  unsigned int s;
  if (ares_dns_record_get_id(a) != ares_dns_record_get_id(b)) {
    return "hdr.id";
  }
  if (ares_dns_record_get_flags(a) != ares_dns_record_get_flags(b)) {
    return "hdr.flags";
  }
  if (ares_dns_record_get_opcode(a) != ares_dns_record_get_opcode(b)) {
    return "hdr.opcode";
  }
  if (ares_dns_record_get_rcode(a) != ares_dns_record_get_rcode(b)) {
    return "hdr.rcode";
  }
  if (ares_dns_record_query_cnt(a) != ares_dns_record_query_cnt(b)) {
    return "qdcount";
  }
  for (i = 0; i < ares_dns_record_query_cnt(a); i++) {
    const char         *na = NULL, *nb = NULL;
    ares_dns_rec_type_t ta = 0, tb = 0;
    ares_dns_class_t    ca = 0, cb = 0;
    ares_dns_record_query_get(a, i, &na, &ta, &ca);
    ares_dns_record_query_get(b, i, &nb, &tb, &cb);
    if (!name_equiv(na, nb)) {
      return "qd.name";
    }
    if (ta != tb) {
      return "qd.type";
    }
    if (ca != cb) {
      return "qd.class";
    }
  }
  for (s = 1; s <= 3; s++) {
    if (ares_dns_record_rr_cnt(a, (ares_dns_section_t)s) != ares_dns_record_rr_cnt(b, (ares_dns_section_t)s)) {
      return "rrcount";
    }
    for (i = 0; i < ares_dns_record_rr_cnt(a, (ares_dns_section_t)s); i++) {
      const char *d = rr_diff(ares_dns_record_rr_get_const(a, (ares_dns_section_t)s, i),
                              ares_dns_record_rr_get_const(b, (ares_dns_section_t)s, i), a->ttl_decrement);
      if (d) {
        return d;
      }
    }
  }
  return NULL;
}

/* The property, evaluated on the implementation: msg (written from r) is <= 65535 bytes, parses,
 * the parsed record equals r field by field, and writes to the same bytes again. */
static void monitor_roundtrip(const ares_dns_record_t *r, const unsigned char *msg, size_t len, const char *ctx)
{
  ares_dns_record_t *p = NULL;
  ares_status_t      st;
  const char        *d;
  unsigned char     *again     = NULL;
  size_t             again_len = 0;
  char               sig[160];

  if (len > 65535) {
    snprintf(sig, sizeof(sig), "%s:len>65535", ctx);
    MON(sig, "serialisation succeeded with %lu bytes", (unsigned long)len);
    return;
  }
  st = ares_dns_parse(msg, len, 0, &p);
  if (st != ARES_SUCCESS) {
    snprintf(sig, sizeof(sig), "%s:reparse-fails:%s:%s", ctx, stclass(st), diagnose(r));
    MON(sig, "written %lu bytes do not parse back (%s)", (unsigned long)len, ares_strerror((int)st));
    return;
  }
  d = rec_diff(r, p);
  if (d != NULL) {
    snprintf(sig, sizeof(sig), "%s:mismatch:%s:%s", ctx, d, diagnose(r));
    MON(sig, "re-parsed record differs from the original at %s", d);
    ares_dns_record_destroy(p);
    return;
  }
  st = ares_dns_write(p, &again, &again_len);
  if (st != ARES_SUCCESS || again_len != len || memcmp(again, msg, len) != 0) {
    /* is the second generation at least a fixed point (same record, same bytes from then on)? */
    ares_dns_record_t *p2     = NULL;
    unsigned char     *third  = NULL;
    size_t             third_len = 0;
    int                stable = st == ARES_SUCCESS && ares_dns_parse(again, again_len, 0, &p2) == ARES_SUCCESS &&
                 rec_diff(p, p2) == NULL && ares_dns_write(p2, &third, &third_len) == ARES_SUCCESS &&
                 third_len == again_len && memcmp(third, again, again_len) == 0;
    snprintf(sig, sizeof(sig), "%s:%s:%s", ctx, stable ? "rewrite-differs" : "rewrite-unstable", diagnose(r));
    MON(sig, "writing the re-parsed record gives %s / %lu bytes instead of the same %lu bytes", stclass(st),
        (unsigned long)again_len, (unsigned long)len);
    ares_free(third);
    ares_dns_record_destroy(p2);
  }
  ares_free(again);
  ares_dns_record_destroy(p);
}

/* ---------------------------------------------------------------- ops */
static ares_dns_record_t *get_rec(const char *h)
{
  int i = atoi(h);
  if (i < 0 || i >= MAXR) {
    return NULL;
  }
  return recs[i];
}

static void set_rec(const char *h, ares_dns_record_t *r)
{
  int i = atoi(h);
  if (i < 0 || i >= MAXR) {
    ares_dns_record_destroy(r);
    return;
  }
  if (recs[i]) {
    ares_dns_record_destroy(recs[i]);
  }
  recs[i] = r;
}

static ares_status_t apply_setter(ares_dns_rr_t *rr, ares_dns_rr_key_t key, char *val)
{
  ares_status_t  st = ARES_SUCCESS;
  size_t         len = 0;
  unsigned char *b;
  switch (ares_dns_rr_key_datatype(key)) {
    case ARES_DATATYPE_U8:
      return ares_dns_rr_set_u8(rr, key, (unsigned char)strtoul(val, NULL, 10));
    case ARES_DATATYPE_U16:
      return ares_dns_rr_set_u16(rr, key, (unsigned short)strtoul(val, NULL, 10));
    case ARES_DATATYPE_U32:
      return ares_dns_rr_set_u32(rr, key, (unsigned int)strtoul(val, NULL, 10));
    case ARES_DATATYPE_INADDR:
      {
        struct in_addr a;
        b = unhex(val, &len);
        memset(&a, 0, sizeof(a));
        memcpy(&a, b, len < 4 ? len : 4);
        free(b);
        return ares_dns_rr_set_addr(rr, key, &a);
      }
    case ARES_DATATYPE_INADDR6:
      {
        struct ares_in6_addr a;
        b = unhex(val, &len);
        memset(&a, 0, sizeof(a));
        memcpy(&a, b, len < 16 ? len : 16);
        free(b);
        return ares_dns_rr_set_addr6(rr, key, &a);
      }
    case ARES_DATATYPE_NAME:
    case ARES_DATATYPE_STR:
      if (val[0] == '~') {
        return ares_dns_rr_set_str(rr, key, NULL);
      }
      b  = unhex(val, &len);
      st = ares_dns_rr_set_str(rr, key, (const char *)b);
      free(b);
      return st;
    case ARES_DATATYPE_BIN:
    case ARES_DATATYPE_BINP:
      b  = unhex(val, &len);
      st = ares_dns_rr_set_bin(rr, key, b, len);
      free(b);
      return st;
    case ARES_DATATYPE_ABINP:
      {
        char *p = val;
        while (p != NULL && st == ARES_SUCCESS) {
          char *c = strchr(p, ',');
          if (c) {
            *c = 0;
          }
          b  = unhex(p, &len);
          st = ares_dns_rr_add_abin(rr, key, b, len);
          free(b);
          p = c ? c + 1 : NULL;
        }
        return st;
      }
    case ARES_DATATYPE_OPT:
      {
        char *p = val;
        while (p != NULL && st == ARES_SUCCESS) {
          char *c = strchr(p, ',');
          char *colon;
          if (c) {
            *c = 0;
          }
          colon = strchr(p, ':');
          if (colon == NULL) {
            return ARES_EFORMERR;
          }
          *colon = 0;
          b      = unhex(colon + 1, &len);
          st     = ares_dns_rr_set_opt(rr, key, (unsigned short)strtoul(p, NULL, 10), b, len);
          free(b);
          p = c ? c + 1 : NULL;
        }
        return st;
      }
    default:
      /* not a key: every typed setter rejects it; use one of them */
      return ares_dns_rr_set_u16(rr, key, 0);
  }
}

static void print_st_hex(ares_status_t st, const unsigned char *p, size_t n)
{
  printf("st=%s", stclass(st));
  if (st == ARES_SUCCESS) {
    fputc(' ', stdout);
    hexout(p, n);
  }
  fputc('\n', stdout);
}

int main(void)
{
  long nt;
  setvbuf(stdout, NULL, _IOFBF, 1 << 20);
  ares_library_init(ARES_LIB_INIT_ALL);
  while ((nt = w_next()) >= 0) {
    char             **t = w_tok;
    ares_dns_record_t *r;
    if (nt == 0) {
      puts("");
      continue;
    }
    if (!strcmp(t[0], "case")) {
      reset_all();
      printf("case %s\n", nt > 1 ? t[1] : "");
      fflush(stdout);
      continue;
    }
    if (t[0][0] == '#') {
      long i;
      for (i = 0; i < nt; i++) {
        printf("%s%s", i ? " " : "", t[i]);
      }
      puts("");
      continue;
    }
    if (!strcmp(t[0], "new") && nt == 6) {
      ares_dns_record_t *nr = NULL;
      ares_status_t      st = ares_dns_record_create(&nr, (unsigned short)strtoul(t[2], NULL, 10),
                                                     (unsigned short)strtoul(t[3], NULL, 10),
                                                     (ares_dns_opcode_t)strtoul(t[4], NULL, 10),
                                                     (ares_dns_rcode_t)strtoul(t[5], NULL, 10));
      if (st == ARES_SUCCESS) {
        set_rec(t[1], nr);
      }
      puts(st == ARES_SUCCESS ? "ok" : "err");
      continue;
    }
    if (!strcmp(t[0], "mkquery") && nt == 7) {
      size_t         nl  = 0;
      unsigned char *nm  = unhex(t[1], &nl);
      unsigned char *out = NULL;
      int            outlen = 0;
      long           udpsz  = strtol(t[6], NULL, 10);
      int            cls = atoi(t[2]), typ = atoi(t[3]), rd = atoi(t[5]);
      unsigned short id = (unsigned short)strtoul(t[4], NULL, 10);
      int            rc;
      if (udpsz < 0) {
        rc = ares_mkquery((const char *)nm, cls, typ, id, rd, &out, &outlen);
      } else {
        rc = ares_create_query((const char *)nm, cls, typ, id, rd, &out, &outlen, (int)udpsz);
      }
      print_st_hex((ares_status_t)rc, out, (size_t)outlen);
      if (rc == ARES_SUCCESS) {
        /* expected record built independently with the public API, then compared */
        ares_dns_record_t *p = NULL;
        ares_status_t      st = ares_dns_parse(out, (size_t)outlen, 0, &p);
        if (outlen > 65535) {
          MON("mkquery:len>65535", "%d bytes", outlen);
        } else if (st != ARES_SUCCESS) {
          MON("mkquery:reparse-fails", "query does not parse back (%s)", ares_strerror((int)st));
        } else {
          const char         *qn = NULL;
          ares_dns_rec_type_t qt = 0;
          ares_dns_class_t    qc = 0;
          const ares_dns_rr_t *opt = ares_dns_get_opt_rr_const(p);
          ares_dns_record_query_get(p, 0, &qn, &qt, &qc);
          if (ares_dns_record_get_id(p) != id || ares_dns_record_get_opcode(p) != ARES_OPCODE_QUERY ||
              ares_dns_record_get_rcode(p) != ARES_RCODE_NOERROR ||
              ares_dns_record_get_flags(p) != (rd ? ARES_FLAG_RD : 0)) {
            MON("mkquery:mismatch:hdr", "header of the written query is not the requested one");
          } else if (ares_dns_record_query_cnt(p) != 1 || !name_equiv(qn, (const char *)nm) ||
                     (int)qt != typ || (int)qc != cls) {
            MON("mkquery:mismatch:question", "question of the written query is not the requested one");
          } else if (ares_dns_record_rr_cnt(p, ARES_SECTION_ANSWER) != 0 ||
                     ares_dns_record_rr_cnt(p, ARES_SECTION_AUTHORITY) != 0 ||
                     ares_dns_record_rr_cnt(p, ARES_SECTION_ADDITIONAL) != (udpsz > 0 ? 1u : 0u)) {
            MON("mkquery:mismatch:rrcount", "unexpected records in the written query");
          } else if (udpsz > 0 && (opt == NULL || ares_dns_rr_get_u16(opt, ARES_RR_OPT_UDP_SIZE) != udpsz ||
                                   ares_dns_rr_get_u8(opt, ARES_RR_OPT_VERSION) != 0 ||
                                   ares_dns_rr_get_u16(opt, ARES_RR_OPT_FLAGS) != 0 ||
                                   ares_dns_rr_get_opt_cnt(opt, ARES_RR_OPT_OPTIONS) != 0)) {
            MON("mkquery:mismatch:opt", "OPT RR of the written query is not the requested one");
          }
        }
        ares_dns_record_destroy(p);
      }
      ares_free_string(out);
      free(nm);
      continue;
    }
    if (!strcmp(t[0], "parse") && nt == 4) {
      size_t             len = 0;
      unsigned char     *b   = unhex(t[3], &len);
      ares_dns_record_t *p   = NULL;
      ares_status_t      st  = ares_dns_parse(b, len, (unsigned int)strtoul(t[2], NULL, 10), &p);
      printf("st=%s", stclass(st));
      if (st == ARES_SUCCESS) {
        fputc(' ', stdout);
        dump_rec(p);
        set_rec(t[1], p);
      }
      fputc('\n', stdout);
      free(b);
      continue;
    }
    if (nt < 2 || (r = get_rec(t[1])) == NULL) {
      puts("bad-handle");
      continue;
    }
    if (!strcmp(t[0], "q") && nt == 5) {
      size_t         nl = 0;
      unsigned char *nm = unhex(t[2], &nl);
      ares_status_t  st = ares_dns_record_query_add(r, (const char *)nm, (ares_dns_rec_type_t)strtoul(t[3], NULL, 10),
                                                    (ares_dns_class_t)strtoul(t[4], NULL, 10));
      free(nm);
      puts(st == ARES_SUCCESS ? "ok" : "err");
    } else if (!strcmp(t[0], "rr") && nt >= 7) {
      size_t         nl = 0;
      unsigned char *nm = unhex(t[3], &nl);
      ares_dns_rr_t *rr = NULL;
      ares_status_t  st = ares_dns_record_rr_add(&rr, r, (ares_dns_section_t)strtoul(t[2], NULL, 10), (const char *)nm,
                                                 (ares_dns_rec_type_t)strtoul(t[4], NULL, 10),
                                                 (ares_dns_class_t)strtoul(t[5], NULL, 10),
                                                 (unsigned int)strtoul(t[6], NULL, 10));
      long           i;
      free(nm);
      if (st != ARES_SUCCESS) {
        puts("err");
        continue;
      }
      for (i = 7; i < nt; i++) {
        char *eq = strchr(t[i], '=');
        if (eq == NULL) {
          st = ARES_EFORMERR;
          break;
        }
        *eq = 0;
        st  = apply_setter(rr, (ares_dns_rr_key_t)strtoul(t[i], NULL, 10), eq + 1);
        if (st != ARES_SUCCESS) {
          break;
        }
      }
      if (st != ARES_SUCCESS) {
        printf("seterr %s\n", i < nt ? t[i] : "?");
      } else {
        puts("ok");
      }
    } else if (!strcmp(t[0], "ttldec") && nt == 3) {
      ares_dns_record_ttl_decrement(r, (unsigned int)strtoul(t[2], NULL, 10));
      puts("ok");
    } else if (!strcmp(t[0], "dump") && nt == 2) {
      dump_rec(r);
      fputc('\n', stdout);
    } else if (!strcmp(t[0], "write") && nt == 2) {
      unsigned char *out = NULL;
      size_t         len = 0;
      ares_status_t  st  = ares_dns_write(r, &out, &len);
      print_st_hex(st, out, len);
      if (st == ARES_SUCCESS) {
        monitor_roundtrip(r, out, len, "write");
      }
      ares_free(out);
    } else if (!strcmp(t[0], "writetcp") && nt == 4) {
      size_t         plen = 0;
      unsigned char *pre  = unhex(t[2], &plen);
      size_t         consumed = (size_t)strtoul(t[3], NULL, 10);
      ares_buf_t    *buf  = ares_buf_create();
      ares_status_t  st;
      size_t         alen = 0;
      const unsigned char *all;
      if (consumed > plen) {
        consumed = plen;
      }
      ares_buf_append(buf, pre, plen);
      ares_buf_consume(buf, consumed);
      st  = ares_dns_write_buf_tcp(r, buf);
      all = ares_buf_peek(buf, &alen);
      if (alen < plen - consumed || (plen - consumed && memcmp(all, pre + consumed, plen - consumed) != 0)) {
        printf("st=%s pre=changed\n", stclass(st));
        MON("tcp:queued-data-changed", "bytes already queued in the output buffer were modified");
      } else if (st != ARES_SUCCESS) {
        printf("st=%s\n", stclass(st));
        if (alen != plen - consumed) {
          MON("tcp:failed-write-left-bytes", "failed write left %lu extra bytes in the output buffer",
              (unsigned long)(alen - (plen - consumed)));
        }
      } else {
        const unsigned char *frame = all + (plen - consumed);
        size_t               flen  = alen - (plen - consumed);
        print_st_hex(st, frame, flen);
        if (flen < 2 || (size_t)((frame[0] << 8) | frame[1]) != flen - 2) {
          MON("tcp:length-prefix-wrong", "frame of %lu bytes carries length prefix %u", (unsigned long)flen,
              flen >= 2 ? (unsigned)((frame[0] << 8) | frame[1]) : 0u);
        } else {
          unsigned char *alone = NULL;
          size_t         alone_len = 0;
          ares_status_t  st2 = ares_dns_write(r, &alone, &alone_len);
          char           ctx[64];
          snprintf(ctx, sizeof(ctx), "tcp@%s", (plen - consumed) ? "queued" : "empty");
          monitor_roundtrip(r, frame + 2, flen - 2, ctx);
          if (st2 == ARES_SUCCESS && (alone_len != flen - 2 || memcmp(alone, frame + 2, alone_len) != 0)) {
            char sig[96];
            snprintf(sig, sizeof(sig), "%s:frame-differs-from-standalone-message", ctx);
            MON(sig, "message inside the frame differs from ares_dns_write() of the same record");
          }
          ares_free(alone);
        }
      }
      ares_buf_destroy(buf);
      free(pre);
    } else if (!strcmp(t[0], "reparse") && nt == 3) {
      unsigned char     *out = NULL;
      size_t             len = 0;
      ares_status_t      st  = ares_dns_write(r, &out, &len);
      ares_dns_record_t *p   = NULL;
      if (st != ARES_SUCCESS) {
        printf("st=%s\n", stclass(st));
      } else {
        st = ares_dns_parse(out, len, 0, &p);
        printf("st=w-ok p-%s", stclass(st));
        if (st == ARES_SUCCESS) {
          fputc(' ', stdout);
          dump_rec(p);
          set_rec(t[2], p);
        }
        fputc('\n', stdout);
      }
      ares_free(out);
    } else {
      puts("bad-op");
    }
  }
  reset_all();
  free(w_line);
  free(w_tok);
  ares_library_cleanup();
  return 0;
}
