/* Channel simulator (C01, C05, C06, C07a, C08-e2e, C09, C10, C12-walk, C13-e2e, C17-e2e, C20):
 * one real ares channel, single threaded, driven through the public API with
 *   - virtual sockets (ares_set_socket_functions_ex): descriptors never reused, every call logged,
 *     scripted failures / short writes / chunked reads / wrong source addresses,
 *   - a virtual clock and a deterministic RNG (guarded hooks),
 *   - a scripted virtual server (replies are built for a given earlier transmission `tx=K`),
 *   - scripted callback reactions (API calls made from inside a completion callback).
 * One input line -> one output line: the events the op caused, " | "-separated, then a status tail.
 */
#include "ares_private.h"
#include "hcommon.h"
#include <errno.h>
#include <arpa/inet.h>
#include <netinet/in.h>
#include <sys/socket.h>
#include <netdb.h>
#include <unistd.h>
#include <stdarg.h>

extern void (*ares_verif_clock_cb)(ares_timeval_t *now);
extern void (*ares_verif_rand_cb)(unsigned char *buf, size_t len);

/* ------------------------------------------------------------------ events */
static char   evbuf[1 << 18];
static size_t evlen = 0;
static void   ev(const char *fmt, ...)
{
  va_list ap;
  if (evlen > sizeof(evbuf) - 2048) {
    return;
  }
  if (evlen) {
    evlen += (size_t)snprintf(evbuf + evlen, sizeof(evbuf) - evlen, " | ");
  }
  va_start(ap, fmt);
  evlen += (size_t)vsnprintf(evbuf + evlen, sizeof(evbuf) - evlen, fmt, ap);
  va_end(ap);
}

/* ------------------------------------------------------------------ allocator with ledger and scripted failure (C14) */
static long alloc_live  = 0; /* live allocations (ledger) */
static long alloc_base  = 0; /* ledger value at the start of the case */
static long alloc_seq   = 0; /* allocations made while armed, since the start of the case */
static long alloc_fail  = -1; /* index (in alloc_seq) of the allocation that fails; -1 = none */
static int  alloc_armed = 0;
static int  alloc_fired = 0;
static const char *cur_op = "-";
static void        ev(const char *fmt, ...);
static void       *a_malloc(size_t n)
{
  void *p;
  if (alloc_armed) {
    if (alloc_seq++ == alloc_fail) {
      alloc_fired++;
      ev("allocfired(%s)", cur_op);
      return NULL;
    }
  }
  p = malloc(n ? n : 1);
  if (p) {
    __atomic_add_fetch(&alloc_live, 1, __ATOMIC_SEQ_CST);
  }
  return p;
}
static void a_free(void *p)
{
  if (p) {
    __atomic_sub_fetch(&alloc_live, 1, __ATOMIC_SEQ_CST);
  }
  free(p);
}
static void *a_realloc(void *p, size_t n)
{
  void *q;
  if (alloc_armed) {
    if (alloc_seq++ == alloc_fail) {
      alloc_fired++;
      ev("allocfired(%s)", cur_op);
      return NULL;
    }
  }
  q = realloc(p, n ? n : 1);
  if (q && p == NULL) {
    __atomic_add_fetch(&alloc_live, 1, __ATOMIC_SEQ_CST);
  }
  return q;
}

/* ------------------------------------------------------------------ clock / rng */
#define CLOCK_BASE_SEC 100000
static unsigned long long vnow_ms = 0;
static void               vclock(ares_timeval_t *now)
{
  now->sec  = (ares_int64_t)(CLOCK_BASE_SEC + vnow_ms / 1000);
  now->usec = (unsigned int)((vnow_ms % 1000) * 1000);
}
static ares_channel_t    *vrand_chan = NULL;
static unsigned long long rng_state = 88172645463325252ULL;
static int                rng_fixed = -1; /* >=0: every byte is this value (except ids) */
static void               vrand(unsigned char *buf, size_t len)
{
  size_t i;
  for (i = 0; i < len; i++) {
    rng_state ^= rng_state << 13;
    rng_state ^= rng_state >> 7;
    rng_state ^= rng_state << 17;
    buf[i]     = (unsigned char)(rng_state >> 24);
  }
  (void)rng_fixed;
  /* draws whose outcome the model cannot see otherwise are part of the observation */
  if (len == 1) {
    ev("rnd(1,%u)", (unsigned)buf[0]);
  } else if (len == 2) {
    ev("rnd(2,%u)", (unsigned)buf[0] + 256u * (unsigned)buf[1]);
  } else if (len == 8 && vrand_chan != NULL && vrand_chan->servers != NULL) {
    /* a fresh client cookie (as opposed to skip-list coin flips, which also draw 8 bytes) */
    ares_slist_node_t *n;
    for (n = ares_slist_node_first(vrand_chan->servers); n != NULL; n = ares_slist_node_next(n)) {
      ares_server_t *sv = ares_slist_node_val(n);
      if (buf == sv->cookie.client) {
        ev("rnd(8,%02x%02x%02x%02x%02x%02x%02x%02x)", buf[0], buf[1], buf[2], buf[3], buf[4], buf[5], buf[6], buf[7]);
      }
    }
  }
}

/* ------------------------------------------------------------------ virtual sockets */
#define FD_BASE 100
static int touch_after = 0; /* chan touchafter=1: completion callbacks read their answer again after their reactions ran */
static int req_sort = 0; /* getaddrinfo without ARES_AI_NOSORT: RFC 6724 sorting probes source addresses with sockets */
#define MAXVS   512
#define MAXRX   64
typedef struct {
  unsigned char *data;
  size_t         len;
  int            wrongsrc;
} rxitem_t;
typedef struct {
  int             used, open, tcp, af, connected;
  char            peer[64];
  unsigned short  port;
  rxitem_t        rx[MAXRX];
  int             rxh, rxt;
  unsigned char  *stream; /* tcp inbound stream */
  size_t          slen, spos;
  int             chunk[64], nchunk, chunkpos; /* tcp read chunk sizes */
  int             eof, reset;
  unsigned char  *out; /* tcp bytes received by the virtual server */
  size_t          olen, oparsed;
  int             wl[64], nwl, wlpos; /* write acceptance sizes (0 = EAGAIN) */
  int             notified_r, notified_w, ever_notified;
} vsock_t;
static vsock_t vs[MAXVS];
static int     nvs = 0;
/* Descriptor numbers.  Events, ops and the model name a socket by its logical id FD_BASE + slot, which is never
 * reused.  With `fdreuse=1` on the chan line the number handed to the library is instead the lowest number not
 * currently open (what POSIX does), so a closed connection's number comes back for the next socket; the layer
 * translates at the boundary.  A correct library behaves identically under both numberings. */
static int fdreuse = 0;
/* numbers that carry a WRITE event in the ares_process_fds() call in progress are not handed out again before the call
 * returns: a stale "writable" for the closed socket would otherwise be taken for the new (still connecting) one, which
 * is an artefact of descriptor-number reuse inside one poll round, not a property of the library under test */
static int wr_reserved[64], nwr_reserved = 0;
static int is_wr_reserved(int k)
{
  int i;
  for (i = 0; i < nwr_reserved; i++) {
    if (wr_reserved[i] == k) {
      return 1;
    }
  }
  return 0;
}
static int slot_real[MAXVS];  /* number the library knows slot i by */
static int real_slot[MAXVS];  /* slot currently open under number FD_BASE + k, or -1 */
static int to_logical(ares_socket_t real)
{
  int k = (int)real - FD_BASE;
  if (!fdreuse) {
    return (int)real;
  }
  if (k < 0 || k >= MAXVS || real_slot[k] < 0) {
    return -1;
  }
  return FD_BASE + real_slot[k];
}
static ares_socket_t to_real(int logical)
{
  int i = logical - FD_BASE;
  if (!fdreuse || i < 0 || i >= nvs) {
    return (ares_socket_t)logical;
  }
  if (!vs[i].open) {
    return (ares_socket_t)(FD_BASE + MAXVS + i); /* a number the library has never seen */
  }
  return (ares_socket_t)slot_real[i];
}

typedef struct {
  char name[16];
  int  nth;
  int  err;
} fault_t;
static fault_t faults[32];
static int     nfaults = 0;
static int     pending_wl[64], npending_wl = 0; /* for the next tcp socket */

static int fault(const char *call)
{
  int i;
  for (i = 0; i < nfaults; i++) {
    if (!strcmp(faults[i].name, call)) {
      if (--faults[i].nth <= 0) {
        int e = faults[i].err;
        memmove(&faults[i], &faults[i + 1], sizeof(faults[0]) * (size_t)(nfaults - i - 1));
        nfaults--;
        errno = e;
        return 1;
      }
    }
  }
  return 0;
}

static vsock_t *vget(ares_socket_t fd, const char *call)
{
  int i = (int)fd - FD_BASE;
  if (i < 0 || i >= nvs) {
    ev("MON:bad-fd(%d,%s)", (int)fd, call);
    return NULL;
  }
  if (!vs[i].open) {
    ev("MON:use-after-close(%d,%s)", (int)fd, call);
    return NULL;
  }
  return &vs[i];
}

/* transmissions seen by the virtual server */
#define MAXTX 4096
typedef struct {
  int            fd;
  unsigned char *msg;
  size_t         len;
} tx_t;
static tx_t txs[MAXTX];
static int  ntx = 0;

static void record_tx(int fd, int tcp, const unsigned char *msg, size_t len)
{
  ares_dns_record_t *rec = NULL;
  char               cookie[100] = "-";
  if (ntx >= MAXTX) {
    return;
  }
  txs[ntx].fd  = fd;
  txs[ntx].msg = malloc(len ? len : 1);
  memcpy(txs[ntx].msg, msg, len);
  txs[ntx].len = len;
  if (ares_dns_parse(msg, len, 0, &rec) == ARES_SUCCESS) {
    const char         *qn = "";
    ares_dns_rec_type_t qt = 0;
    ares_dns_class_t    qc = 0;
    const ares_dns_rr_t *opt = ares_dns_get_opt_rr_const(rec);
    char                 qhex[600];
    size_t               i, l;
    if (ares_dns_record_query_cnt(rec) > 0) {
      ares_dns_record_query_get(rec, 0, &qn, &qt, &qc);
    }
    l = strlen(qn);
    if (l > 255) {
      l = 255;
    }
    for (i = 0; i < l; i++) {
      sprintf(qhex + 2 * i, "%02x", (unsigned char)qn[i]);
    }
    if (l == 0) {
      strcpy(qhex, "-");
    }
    if (opt) {
      const unsigned char *val = NULL;
      size_t               vl  = 0;
      if (ares_dns_rr_get_opt_byid(opt, ARES_RR_OPT_OPTIONS, ARES_OPT_PARAM_COOKIE, &val, &vl)) {
        for (i = 0; i < vl && i < 40; i++) {
          sprintf(cookie + 2 * i, "%02x", val[i]);
        }
      }
    }
    ev("tx(%d,fd=%d,%s,id=%u,q=%s,t=%u,c=%u,rd=%d,edns=%d,ck=%s,len=%zu)", ntx, fd, tcp ? "tcp" : "udp",
       ares_dns_record_get_id(rec), qhex, (unsigned)qt, (unsigned)qc,
       (ares_dns_record_get_flags(rec) & ARES_FLAG_RD) ? 1 : 0, opt ? 1 : 0, cookie, len);
    ares_dns_record_destroy(rec);
  } else {
    ev("tx(%d,fd=%d,%s,unparseable,len=%zu)", ntx, fd, tcp ? "tcp" : "udp", len);
  }
  ntx++;
}

static ares_socket_t v_socket(int af, int type, int protocol, void *ud)
{
  vsock_t *s;
  (void)protocol;
  (void)ud;
  if (fault("socket")) {
    ev("sock!(%s)", type == SOCK_STREAM ? "tcp" : "udp");
    return ARES_SOCKET_BAD;
  }
  if (nvs >= MAXVS) {
    errno = EMFILE;
    return ARES_SOCKET_BAD;
  }
  s = &vs[nvs];
  memset(s, 0, sizeof(*s));
  s->used = s->open = 1;
  s->tcp  = (type == SOCK_STREAM);
  s->af   = af;
  if (s->tcp && npending_wl) {
    memcpy(s->wl, pending_wl, sizeof(int) * (size_t)npending_wl);
    s->nwl      = npending_wl;
    npending_wl = 0;
  }
  ev("sock(%d,%s,%d)", FD_BASE + nvs, s->tcp ? "tcp" : "udp", af == AF_INET6 ? 6 : 4);
  {
    int k = nvs;
    if (fdreuse) {
      for (k = 0; k < MAXVS && (real_slot[k] >= 0 || is_wr_reserved(k)); k++) {
      }
    }
    slot_real[nvs] = FD_BASE + k;
    real_slot[k]   = nvs;
    nvs++;
    return (ares_socket_t)(FD_BASE + k);
  }
}
static int v_close(ares_socket_t rfd_, void *ud)
{
  ares_socket_t fd = (ares_socket_t)to_logical(rfd_);
  vsock_t *s = vget(fd, "close");
  (void)ud;
  if (s == NULL) {
    return -1;
  }
  s->open = 0;
  real_slot[slot_real[(int)fd - FD_BASE] - FD_BASE] = -1;
  ev("close(%d)", (int)fd);
  return 0;
}
static int v_setsockopt(ares_socket_t rfd_, ares_socket_opt_t opt, const void *val, ares_socklen_t len, void *ud)
{
  ares_socket_t fd = (ares_socket_t)to_logical(rfd_);
  vsock_t *s = vget(fd, "setsockopt");
  (void)val;
  (void)len;
  (void)ud;
  if (s == NULL) {
    errno = EBADF;
    return -1;
  }
  if (opt == ARES_SOCKET_OPT_TCP_FASTOPEN) {
    /* fast open not offered by the virtual OS unless asked */
    errno = ENOSYS;
    return -1;
  }
  if (fault("setsockopt")) {
    ev("opt!(%d)", (int)fd);
    return -1;
  }
  ev("opt(%d,%d)", (int)fd, (int)opt);
  return 0;
}
static void fmt_sa(const struct sockaddr *sa, char *out, size_t olen, unsigned short *port)
{
  out[0] = 0;
  *port  = 0;
  if (sa == NULL) {
    return;
  }
  if (sa->sa_family == AF_INET) {
    const struct sockaddr_in *s4 = (const void *)sa;
    inet_ntop(AF_INET, &s4->sin_addr, out, (socklen_t)olen);
    *port = ntohs(s4->sin_port);
  } else if (sa->sa_family == AF_INET6) {
    const struct sockaddr_in6 *s6 = (const void *)sa;
    inet_ntop(AF_INET6, &s6->sin6_addr, out, (socklen_t)olen);
    *port = ntohs(s6->sin6_port);
  }
}
static int v_connect(ares_socket_t rfd_, const struct sockaddr *sa, ares_socklen_t salen, unsigned int flags, void *ud)
{
  ares_socket_t fd = (ares_socket_t)to_logical(rfd_);
  vsock_t *s = vget(fd, "connect");
  (void)salen;
  (void)flags;
  (void)ud;
  if (s == NULL) {
    errno = EBADF;
    return -1;
  }
  fmt_sa(sa, s->peer, sizeof(s->peer), &s->port);
  if (fault("connect")) {
    ev("conn!(%d,%s#%u)", (int)fd, s->peer, s->port);
    return -1;
  }
  ev("conn(%d,%s#%u)", (int)fd, s->peer, s->port);
  s->connected = 1;
  if (s->tcp) {
    errno = EINPROGRESS;
    return -1;
  }
  return 0;
}
static ares_ssize_t v_recvfrom(ares_socket_t rfd_, void *buf, size_t len, int flags, struct sockaddr *from,
                               ares_socklen_t *fromlen, void *ud)
{
  ares_socket_t fd = (ares_socket_t)to_logical(rfd_);
  vsock_t *s = vget(fd, "recvfrom");
  (void)flags;
  (void)ud;
  if (s == NULL) {
    errno = EBADF;
    return -1;
  }
  if (fault("recvfrom")) {
    ev("recv!(%d)", (int)fd);
    return -1;
  }
  if (!s->tcp) {
    rxitem_t it;
    size_t   n;
    if (s->rxh == s->rxt) {
      errno = EAGAIN;
      return -1;
    }
    it = s->rx[s->rxh % MAXRX];
    s->rxh++;
    n = it.len < len ? it.len : len;
    memcpy(buf, it.data, n);
    free(it.data);
    if (from && fromlen) {
      if (s->af == AF_INET6) {
        struct sockaddr_in6 s6;
        memset(&s6, 0, sizeof(s6));
        s6.sin6_family = AF_INET6;
        inet_pton(AF_INET6, it.wrongsrc ? "2001:db8::bad" : s->peer, &s6.sin6_addr);
        s6.sin6_port = htons(s->port);
        memcpy(from, &s6, sizeof(s6) < *fromlen ? sizeof(s6) : *fromlen);
        *fromlen = sizeof(s6);
      } else {
        struct sockaddr_in s4;
        memset(&s4, 0, sizeof(s4));
        s4.sin_family = AF_INET;
        inet_pton(AF_INET, it.wrongsrc ? "192.0.2.66" : s->peer, &s4.sin_addr);
        s4.sin_port = htons(s->port);
        memcpy(from, &s4, sizeof(s4) < *fromlen ? sizeof(s4) : *fromlen);
        *fromlen = sizeof(s4);
      }
    }
    return (ares_ssize_t)n;
  } else {
    size_t avail = s->slen - s->spos;
    size_t n     = avail < len ? avail : len;
    if (avail == 0) {
      if (s->reset) {
        errno = ECONNRESET;
        return -1;
      }
      if (s->eof) {
        return 0;
      }
      errno = EAGAIN;
      return -1;
    }
    if (s->chunkpos < s->nchunk) {
      size_t c = (size_t)s->chunk[s->chunkpos++];
      if (c == 0) {
        errno = EAGAIN;
        return -1;
      }
      if (c < n) {
        n = c;
      }
    }
    memcpy(buf, s->stream + s->spos, n);
    s->spos += n;
    return (ares_ssize_t)n;
  }
}
static ares_ssize_t v_sendto(ares_socket_t rfd_, const void *buf, size_t len, int flags, const struct sockaddr *to,
                             ares_socklen_t tolen, void *ud)
{
  ares_socket_t fd = (ares_socket_t)to_logical(rfd_);
  vsock_t *s = vget(fd, "sendto");
  (void)flags;
  (void)to;
  (void)tolen;
  (void)ud;
  if (s == NULL) {
    errno = EBADF;
    return -1;
  }
  if (fault("sendto")) {
    ev("send!(%d,%d)", (int)fd, errno);
    return -1;
  }
  if (!s->tcp) {
    record_tx((int)fd, 0, buf, len);
    return (ares_ssize_t)len;
  } else {
    size_t n = len;
    if (s->wlpos < s->nwl) {
      size_t c = (size_t)s->wl[s->wlpos++];
      if (c == 0) {
        ev("send(%d,again)", (int)fd);
        errno = EAGAIN;
        return -1;
      }
      if (c < n) {
        n = c;
      }
    }
    s->out = realloc(s->out, s->olen + n + 1);
    memcpy(s->out + s->olen, buf, n);
    s->olen += n;
    if (n != len) {
      ev("send(%d,%zu/%zu)", (int)fd, n, len);
    }
    /* the virtual server extracts whole frames */
    while (s->olen - s->oparsed >= 2) {
      size_t fl = ((size_t)s->out[s->oparsed] << 8) | s->out[s->oparsed + 1];
      if (s->olen - s->oparsed - 2 < fl) {
        break;
      }
      record_tx((int)fd, 1, s->out + s->oparsed + 2, fl);
      s->oparsed += 2 + fl;
    }
    return (ares_ssize_t)n;
  }
}
static int self_variant = 0; /* changes the local address reported by getsockname */
static int v_getsockname(ares_socket_t rfd_, struct sockaddr *sa, ares_socklen_t *salen, void *ud)
{
  ares_socket_t fd = (ares_socket_t)to_logical(rfd_);
  vsock_t *s = vget(fd, "getsockname");
  (void)ud;
  if (s == NULL) {
    errno = EBADF;
    return -1;
  }
  if (fault("getsockname")) {
    return -1;
  }
  if (s->af == AF_INET6) {
    struct sockaddr_in6 s6;
    memset(&s6, 0, sizeof(s6));
    s6.sin6_family = AF_INET6;
    inet_pton(AF_INET6, self_variant ? "2001:db8::2" : "2001:db8::1", &s6.sin6_addr);
    memcpy(sa, &s6, sizeof(s6));
    *salen = sizeof(s6);
  } else {
    struct sockaddr_in s4;
    memset(&s4, 0, sizeof(s4));
    s4.sin_family = AF_INET;
    inet_pton(AF_INET, self_variant ? "198.51.100.2" : "198.51.100.1", &s4.sin_addr);
    memcpy(sa, &s4, sizeof(s4));
    *salen = sizeof(s4);
  }
  return 0;
}
static int v_bind(ares_socket_t rfd_, unsigned int flags, const struct sockaddr *sa, socklen_t salen, void *ud)
{
  ares_socket_t fd = (ares_socket_t)to_logical(rfd_);
  vsock_t *s = vget(fd, "bind");
  (void)flags;
  (void)sa;
  (void)salen;
  (void)ud;
  if (s == NULL) {
    errno = EBADF;
    return -1;
  }
  if (fault("bind")) {
    ev("bind!(%d)", (int)fd);
    return -1;
  }
  ev("bind(%d)", (int)fd);
  return 0;
}
static const struct ares_socket_functions_ex vfuncs = { 1,
                                                        ARES_SOCKFUNC_FLAG_NONBLOCKING,
                                                        v_socket,
                                                        v_close,
                                                        v_setsockopt,
                                                        v_connect,
                                                        v_recvfrom,
                                                        v_sendto,
                                                        v_getsockname,
                                                        v_bind,
                                                        NULL,
                                                        NULL };

static void sock_state_cb(void *data, ares_socket_t rfd_, int r, int w)
{
  ares_socket_t fd = (ares_socket_t)to_logical(rfd_);
  int           i  = (int)fd - FD_BASE;
  (void)data;
  ev("st(%d,%d,%d)", (int)fd, r, w);
  if (i >= 0 && i < nvs) {
    if (!vs[i].open && (r || w)) {
      ev("MON:notify-after-close(%d)", (int)fd);
    }
    if (vs[i].ever_notified && vs[i].notified_r == r && vs[i].notified_w == w) {
      ev("MON:notify-repeat(%d)", (int)fd);
    }
    vs[i].notified_r    = r;
    vs[i].notified_w    = w;
    vs[i].ever_notified = 1;
  }
}
static void server_state_cb(const char *server, ares_bool_t success, int flags, void *data)
{
  (void)data;
  ev("srv(%s,%s,%s)", server, success ? "up" : "down", (flags & ARES_SERV_STATE_TCP) ? "tcp" : "udp");
}

/* ------------------------------------------------------------------ channel + requests */
static ares_channel_t *chan      = NULL;
static int             destroyed = 0;
static int             pendingw  = 0;

typedef struct reaction {
  char kind[12];
  char name[300];
  int  type;
  int  tok;
  int  adv;       /* the callback "takes a while": the virtual clock advances by this many ms before the reaction */
  char react[64]; /* reaction list of the nested request */
} reaction_t;
static reaction_t reactions[64];

typedef struct {
  int  tok;
  int  used;
  int  cbcount;
  char react[64];
  char kind[12];
} req_t;
#define MAXREQ 256
static req_t reqs[MAXREQ];

static const char *stname(int st)
{
  switch (st) {
    case ARES_SUCCESS: return "ok";
    case ARES_ENODATA: return "nodata";
    case ARES_EFORMERR: return "formerr";
    case ARES_ESERVFAIL: return "servfail";
    case ARES_ENOTFOUND: return "notfound";
    case ARES_ENOTIMP: return "notimp";
    case ARES_EREFUSED: return "refused";
    case ARES_EBADQUERY: return "badquery";
    case ARES_EBADNAME: return "badname";
    case ARES_EBADFAMILY: return "badfamily";
    case ARES_EBADRESP: return "badresp";
    case ARES_ECONNREFUSED: return "connrefused";
    case ARES_ETIMEOUT: return "timeout";
    case ARES_EOF: return "eof";
    case ARES_EFILE: return "efile";
    case ARES_ENOMEM: return "nomem";
    case ARES_EDESTRUCTION: return "destruction";
    case ARES_EBADSTR: return "badstr";
    case ARES_ECANCELLED: return "cancelled";
    case ARES_ENOSERVER: return "noserver";
    default: break;
  }
  return "other";
}

static void do_req(int tok, const char *kind, const char *name, int type, int cls, int edns, const char *react,
                   int fam);

static int react_seq = 0;
static void run_reactions(req_t *r)
{
  char  list[64];
  char *p, *save = NULL;
  strncpy(list, r->react, sizeof(list) - 1);
  list[sizeof(list) - 1] = 0;
  for (p = strtok_r(list, ",", &save); p; p = strtok_r(NULL, ",", &save)) {
    int         idx = atoi(p + 1);
    reaction_t *x;
    if (idx < 0 || idx >= 64) {
      continue;
    }
    x = &reactions[idx];
    if (destroyed) {
      return;
    }
    if (x->adv > 0) {
      vnow_ms += (unsigned long long)x->adv;
      ev("now=%llu", vnow_ms);
    }
    if (!strcmp(x->kind, "cancel")) {
      ev("react(cancel)");
      ares_cancel(chan);
    } else if (x->kind[0]) {
      /* every request started by a reaction gets a fresh token */
      int tok = 10000 + react_seq++;
      ev("react(%s,%d)", x->kind, tok);
      do_req(tok, x->kind, x->name, x->type, 1, 0, x->react, AF_INET);
    }
  }
}

static void note_cb(req_t *r, const char *txt)
{
  r->cbcount++;
  if (destroyed == 2) {
    ev("MON:cb-after-destroy(%d)", r->tok);
  }
  if (r->cbcount > 1) {
    ev("MON:cb-twice(%d)", r->tok);
  }
  ev("%s", txt);
}

static void digest(const ares_dns_record_t *rec, char *out, size_t olen)
{
  size_t n, i, k = 0;
  if (rec == NULL) {
    snprintf(out, olen, "-");
    return;
  }
  n = ares_dns_record_rr_cnt(rec, ARES_SECTION_ANSWER);
  k += (size_t)snprintf(out + k, olen - k, "rc=%d,an=%zu", (int)ares_dns_record_get_rcode(rec), n);
  for (i = 0; i < n && i < 4 && k < olen - 80; i++) {
    const ares_dns_rr_t *rr = ares_dns_record_rr_get_const(rec, ARES_SECTION_ANSWER, i);
    char                 a[64] = "?";
    if (ares_dns_rr_get_type(rr) == ARES_REC_TYPE_A) {
      const struct in_addr *ia = ares_dns_rr_get_addr(rr, ARES_RR_A_ADDR);
      if (ia) {
        inet_ntop(AF_INET, ia, a, sizeof(a));
      }
    } else if (ares_dns_rr_get_type(rr) == ARES_REC_TYPE_AAAA) {
      const struct ares_in6_addr *ia = ares_dns_rr_get_addr6(rr, ARES_RR_AAAA_ADDR);
      if (ia) {
        inet_ntop(AF_INET6, ia, a, sizeof(a));
      }
    } else {
      snprintf(a, sizeof(a), "t%d", (int)ares_dns_rr_get_type(rr));
    }
    k += (size_t)snprintf(out + k, olen - k, ",%s/%u", a, ares_dns_rr_get_ttl(rr));
  }
}

static void cb_dnsrec(void *arg, ares_status_t status, size_t timeouts, const ares_dns_record_t *rec)
{
  req_t *r = arg;
  char   d[400], t[600];
  digest(rec, d, sizeof(d));
  snprintf(t, sizeof(t), "cb(%d,%s,to=%zu,%s)", r->tok, stname((int)status), timeouts, d);
  note_cb(r, t);
  run_reactions(r);
  if (rec != NULL && touch_after) {
    /* the answer belongs to the callback until it returns: read it once more after whatever the reactions did */
    char d2[400];
    digest(rec, d2, sizeof(d2));
    if (strcmp(d, d2) != 0) {
      ev("MON:answer-changed-under-callback(%d)", r->tok);
    }
  }
}
static void cb_addrinfo(void *arg, int status, int timeouts, struct ares_addrinfo *ai)
{
  req_t *r = arg;
  char   t[1200];
  size_t k = 0;
  k += (size_t)snprintf(t + k, sizeof(t) - k, "cb(%d,%s,to=%d,ai=", r->tok, stname(status), timeouts);
  if (ai) {
    struct ares_addrinfo_node  *n;
    struct ares_addrinfo_cname *c;
    for (n = ai->nodes; n && k < sizeof(t) - 120; n = n->ai_next) {
      char a[64] = "?";
      if (n->ai_family == AF_INET) {
        inet_ntop(AF_INET, &((struct sockaddr_in *)(void *)n->ai_addr)->sin_addr, a, sizeof(a));
      } else if (n->ai_family == AF_INET6) {
        inet_ntop(AF_INET6, &((struct sockaddr_in6 *)(void *)n->ai_addr)->sin6_addr, a, sizeof(a));
      }
      k += (size_t)snprintf(t + k, sizeof(t) - k, "%s/%d;", a, n->ai_ttl);
    }
    for (c = ai->cnames; c && k < sizeof(t) - 300; c = c->next) {
      k += (size_t)snprintf(t + k, sizeof(t) - k, "cn=%.100s>%.100s/%d;", c->alias ? c->alias : "", c->name ? c->name : "", c->ttl);
    }
    if (ai->name && k < sizeof(t) - 300) {
      k += (size_t)snprintf(t + k, sizeof(t) - k, "name=%.200s", ai->name);
    }
    ares_freeaddrinfo(ai);
  }
  snprintf(t + k, sizeof(t) - k, ")");
  note_cb(r, t);
  run_reactions(r);
}
static void cb_host(void *arg, int status, int timeouts, struct hostent *h)
{
  req_t *r = arg;
  char   t[1200];
  size_t k = 0;
  k += (size_t)snprintf(t + k, sizeof(t) - k, "cb(%d,%s,to=%d,host=", r->tok, stname(status), timeouts);
  if (h) {
    int i;
    k += (size_t)snprintf(t + k, sizeof(t) - k, "%.200s;", h->h_name ? h->h_name : "");
    for (i = 0; h->h_addr_list && h->h_addr_list[i] && k < sizeof(t) - 100; i++) {
      char a[64] = "?";
      inet_ntop(h->h_addrtype, h->h_addr_list[i], a, sizeof(a));
      k += (size_t)snprintf(t + k, sizeof(t) - k, "%s;", a);
    }
  }
  snprintf(t + k, sizeof(t) - k, ")");
  note_cb(r, t);
  run_reactions(r);
}
static void cb_nameinfo(void *arg, int status, int timeouts, char *node, char *service)
{
  req_t *r = arg;
  char   t[700];
  snprintf(t, sizeof(t), "cb(%d,%s,to=%d,node=%.300s,svc=%.100s)", r->tok, stname(status), timeouts, node ? node : "-",
           service ? service : "-");
  note_cb(r, t);
  run_reactions(r);
}

static req_t *new_req(int tok, const char *kind, const char *react)
{
  int i;
  for (i = 0; i < MAXREQ; i++) {
    if (!reqs[i].used) {
      memset(&reqs[i], 0, sizeof(reqs[i]));
      reqs[i].used = 1;
      reqs[i].tok  = tok;
      strncpy(reqs[i].kind, kind, sizeof(reqs[i].kind) - 1);
      strncpy(reqs[i].react, react ? react : "", sizeof(reqs[i].react) - 1);
      return &reqs[i];
    }
  }
  return NULL;
}

static void do_req(int tok, const char *kind, const char *name, int type, int cls, int edns, const char *react,
                   int fam)
{
  req_t *r = new_req(tok, kind, react);
  if (r == NULL || chan == NULL || destroyed) {
    ev("req-rejected(%d)", tok);
    return;
  }
  if (!strcmp(kind, "send") || !strcmp(kind, "search")) {
    ares_dns_record_t *rec = NULL;
    ares_status_t      st;
    unsigned short     qid = 0;
    st = ares_dns_record_create_query(&rec, name, (ares_dns_class_t)cls, (ares_dns_rec_type_t)type, 0, ARES_FLAG_RD,
                                      edns ? 1232 : 0);
    if (st != ARES_SUCCESS) {
      ev("req-build-failed(%d,%s)", tok, stname((int)st));
      r->used = 0;
      return;
    }
    if (!strcmp(kind, "send")) {
      st = ares_send_dnsrec(chan, rec, cb_dnsrec, r, &qid);
    } else {
      st = ares_search_dnsrec(chan, rec, cb_dnsrec, r);
    }
    ev("ret(%d,%s)", tok, stname((int)st));
    ares_dns_record_destroy(rec);
  } else if (!strcmp(kind, "query")) {
    ares_status_t st = ares_query_dnsrec(chan, name, (ares_dns_class_t)cls, (ares_dns_rec_type_t)type, cb_dnsrec, r, NULL);
    ev("ret(%d,%s)", tok, stname((int)st));
  } else if (!strcmp(kind, "gai")) {
    struct ares_addrinfo_hints hints;
    memset(&hints, 0, sizeof(hints));
    hints.ai_family = fam;
    hints.ai_flags  = (req_sort ? 0 : ARES_AI_NOSORT) | ARES_AI_CANONNAME;
    ares_getaddrinfo(chan, name, "53", &hints, cb_addrinfo, r);
    ev("ret(%d,ok)", tok);
  } else if (!strcmp(kind, "ghbn")) {
    ares_gethostbyname(chan, name, fam, cb_host, r);
    ev("ret(%d,ok)", tok);
  } else if (!strcmp(kind, "ghba")) {
    unsigned char a[16];
    if (inet_pton(AF_INET, name, a) == 1) {
      ares_gethostbyaddr(chan, a, 4, AF_INET, cb_host, r);
      ev("ret(%d,ok)", tok);
    } else if (inet_pton(AF_INET6, name, a) == 1) {
      ares_gethostbyaddr(chan, a, 16, AF_INET6, cb_host, r);
      ev("ret(%d,ok)", tok);
    } else {
      ev("req-build-failed(%d,addr)", tok);
    }
  } else if (!strcmp(kind, "gni")) {
    struct sockaddr_in sa;
    memset(&sa, 0, sizeof(sa));
    sa.sin_family = AF_INET;
    sa.sin_port   = htons(53);
    if (inet_pton(AF_INET, name, &sa.sin_addr) == 1) {
      ares_getnameinfo(chan, (struct sockaddr *)&sa, sizeof(sa), ARES_NI_LOOKUPHOST | ARES_NI_NAMEREQD, cb_nameinfo, r);
    } else {
      struct sockaddr_in6 sa6;
      memset(&sa6, 0, sizeof(sa6));
      sa6.sin6_family = AF_INET6;
      sa6.sin6_port   = htons(53);
      if (inet_pton(AF_INET6, name, &sa6.sin6_addr) != 1) {
        ev("req-build-failed(%d,addr)", tok);
        return;
      }
      ares_getnameinfo(chan, (struct sockaddr *)&sa6, sizeof(sa6), ARES_NI_LOOKUPHOST | ARES_NI_NAMEREQD, cb_nameinfo, r);
    }
    ev("ret(%d,ok)", tok);
  } else {
    ev("bad-kind");
  }
}

/* ------------------------------------------------------------------ key=value args */
static const char *arg(int nt, char **t, const char *key, const char *def)
{
  int    i;
  size_t kl = strlen(key);
  for (i = 1; i < nt; i++) {
    if (!strncmp(t[i], key, kl) && t[i][kl] == '=') {
      return t[i] + kl + 1;
    }
  }
  return def;
}
static long argi(int nt, char **t, const char *key, long def)
{
  const char *v = arg(nt, t, key, NULL);
  return v ? strtol(v, NULL, 0) : def;
}

static void pending_write_cb(void *data)
{
  (void)data;
  pendingw = 1;
  ev("pendingwrite");
}

static void teardown(void)
{
  int i;
  vrand_chan = NULL;
  if (chan && !destroyed) {
    destroyed = 1;
    ares_destroy(chan);
    destroyed = 2;
  }
  chan = NULL;
  for (i = 0; i < nvs; i++) {
    while (vs[i].rxh != vs[i].rxt) {
      free(vs[i].rx[vs[i].rxh % MAXRX].data);
      vs[i].rxh++;
    }
    free(vs[i].stream);
    free(vs[i].out);
  }
  for (i = 0; i < ntx; i++) {
    free(txs[i].msg);
  }
  memset(vs, 0, sizeof(vs));
  nvs = ntx = nfaults = npending_wl = 0;
  fdreuse = 0;
  {
    int k;
    for (k = 0; k < MAXVS; k++) {
      real_slot[k] = -1;
    }
  }
  memset(reqs, 0, sizeof(reqs));
  memset(reactions, 0, sizeof(reactions));
  destroyed = 0;
  react_seq = 0;
  pendingw  = 0;
  vnow_ms   = 0;
  self_variant = 0;
  evlen     = 0;
}

static void tail(void)
{
  alloc_armed = 0;
  /* status tail: timeout hint, active queries, interest set */
  if (chan && !destroyed) {
    struct timeval  tv, *tvp;
    ares_socket_t   socks[ARES_GETSOCK_MAXNUM];
    int             bits, i;
    char            fds[400];
    size_t          k = 0;
    tvp = ares_timeout(chan, NULL, &tv);
    bits = ares_getsock(chan, socks, ARES_GETSOCK_MAXNUM);
    fds[0] = 0;
    for (i = 0; i < ARES_GETSOCK_MAXNUM; i++) {
      int r = (((unsigned)bits) >> i) & 1u, w = (((unsigned)bits) >> (i + 16)) & 1u;
      if (r || w) {
        k += (size_t)snprintf(fds + k, sizeof(fds) - k, "%s%d:%s%s", k ? "," : "", to_logical(socks[i]), r ? "r" : "", w ? "w" : "");
      }
    }
    if (tvp) {
      ev("to=%lld", (long long)tvp->tv_sec * 1000 + tvp->tv_usec / 1000);
    } else {
      ev("to=-");
    }
    {
      /* deadlines of the queries waiting for an answer, by query id (internal view: the jitter the
       * library adds to retry timeouts is not otherwise observable per query) */
      char               dl[2000];
      size_t             dk = 0, cnt = 0, a, b;
      long long          ids[128], rem[128];
      ares_llist_node_t *node;
      ares_timeval_t     now;
      vclock(&now);
      for (node = ares_llist_node_first(chan->all_queries); node != NULL && cnt < 128; node = ares_llist_node_next(node)) {
        const ares_query_t *q = ares_llist_node_val(node);
        if (q->node_queries_by_timeout == NULL) {
          continue;
        }
        ids[cnt] = q->qid;
        rem[cnt] = (long long)(q->timeout.sec - now.sec) * 1000 + ((long long)q->timeout.usec - (long long)now.usec) / 1000;
        cnt++;
      }
      for (a = 0; a < cnt; a++) {
        for (b = a + 1; b < cnt; b++) {
          if (ids[b] < ids[a]) {
            long long t = ids[a]; ids[a] = ids[b]; ids[b] = t;
            t = rem[a]; rem[a] = rem[b]; rem[b] = t;
          }
        }
      }
      dl[0] = 0;
      for (a = 0; a < cnt && dk < sizeof(dl) - 40; a++) {
        dk += (size_t)snprintf(dl + dk, sizeof(dl) - dk, "%s%lld:%lld", a ? "," : "", ids[a], rem[a]);
      }
      ev("q=%zu fds=[%s] dl=[%s]", ares_queue_active_queries(chan), fds, dl);
    }
  }
  puts(evlen ? evbuf : "-");
  evlen = 0;
}

/* build a reply for transmission k */
static unsigned char *build_reply(int k, int nt, char **t, size_t *outlen)
{
  ares_dns_record_t   *q = NULL, *r = NULL;
  const char          *kind = arg(nt, t, "kind", "noerror");
  const char          *qn   = "";
  ares_dns_rec_type_t  qt   = ARES_REC_TYPE_A;
  ares_dns_class_t     qc   = ARES_CLASS_IN;
  ares_dns_rcode_t     rc   = ARES_RCODE_NOERROR;
  unsigned short       flags = ARES_FLAG_QR | ARES_FLAG_RD | ARES_FLAG_RA;
  int                  an   = (int)argi(nt, t, "an", 1);
  const char          *ttls = arg(nt, t, "ttl", "300");
  const char          *ck   = arg(nt, t, "cookie", "echo");
  const char          *qnm  = arg(nt, t, "qname", "same");
  int                  marker = (int)argi(nt, t, "mark", k);
  unsigned char       *out = NULL;
  char                 name[300];
  const ares_dns_rr_t *qopt;
  unsigned short       id;
  int                  i;
  char                *tp, *save = NULL, ttlbuf[128];
  unsigned int         ttlv[32];
  int                  nttl = 0;

  *outlen = 0;
  if (!strcmp(kind, "garbage")) {
    *outlen = 7;
    out     = malloc(7);
    memcpy(out, "\x12\x34garb", 7);
    return out;
  }
  if (!strcmp(kind, "empty")) {
    out = malloc(1);
    return out;
  }
  if (ares_dns_parse(txs[k].msg, txs[k].len, 0, &q) != ARES_SUCCESS) {
    return NULL;
  }
  if (ares_dns_record_query_cnt(q) > 0) {
    ares_dns_record_query_get(q, 0, &qn, &qt, &qc);
  }
  strncpy(name, qn, sizeof(name) - 1);
  name[sizeof(name) - 1] = 0;
  if (!strcmp(qnm, "flipcase")) {
    for (i = 0; name[i]; i++) {
      if (isalpha((unsigned char)name[i])) {
        name[i] ^= 0x20;
        break;
      }
    }
  } else if (!strcmp(qnm, "other")) {
    snprintf(name, sizeof(name), "x%.200s", qn);
  }
  if (!strcmp(kind, "nxdomain")) { rc = ARES_RCODE_NXDOMAIN; an = 0; }
  else if (!strcmp(kind, "nodata")) { an = 0; }
  else if (!strcmp(kind, "servfail")) { rc = ARES_RCODE_SERVFAIL; an = 0; }
  else if (!strcmp(kind, "refused")) { rc = ARES_RCODE_REFUSED; an = 0; }
  else if (!strcmp(kind, "notimp")) { rc = ARES_RCODE_NOTIMP; an = 0; }
  else if (!strncmp(kind, "formerr", 7)) { rc = ARES_RCODE_FORMERR; an = 0; }
  else if (!strcmp(kind, "badcookie")) { rc = ARES_RCODE_BADCOOKIE; an = 0; }
  else if (!strcmp(kind, "tc")) { flags |= ARES_FLAG_TC; an = 0; }
  else if (!strcmp(kind, "yxdomain")) { rc = ARES_RCODE_YXDOMAIN; an = 0; }
  id = (unsigned short)(ares_dns_record_get_id(q) + argi(nt, t, "idadd", 0));
  if (ares_dns_record_create(&r, id, flags, ares_dns_record_get_opcode(q), rc) != ARES_SUCCESS) {
    goto done;
  }
  ares_dns_record_query_add(r, name, (ares_dns_rec_type_t)((int)qt + argi(nt, t, "qtadd", 0)),
                            (ares_dns_class_t)((int)qc + argi(nt, t, "qcadd", 0)));
  strncpy(ttlbuf, ttls, sizeof(ttlbuf) - 1);
  ttlbuf[sizeof(ttlbuf) - 1] = 0;
  for (tp = strtok_r(ttlbuf, ",", &save); tp && nttl < 32; tp = strtok_r(NULL, ",", &save)) {
    ttlv[nttl++] = (unsigned int)strtoul(tp, NULL, 10);
  }
  if (nttl == 0) {
    ttlv[nttl++] = 300;
  }
  for (i = 0; i < an; i++) {
    ares_dns_rr_t *rr = NULL;
    unsigned int   ttl = ttlv[i < nttl ? i : nttl - 1];
    if (qt == ARES_REC_TYPE_AAAA) {
      struct ares_in6_addr a6;
      memset(&a6, 0, sizeof(a6));
      a6._S6_un._S6_u8[0]  = 0x20;
      a6._S6_un._S6_u8[1]  = 0x01;
      a6._S6_un._S6_u8[13] = (unsigned char)(marker >> 8);
      a6._S6_un._S6_u8[14] = (unsigned char)marker;
      a6._S6_un._S6_u8[15] = (unsigned char)(i + 1);
      ares_dns_record_rr_add(&rr, r, ARES_SECTION_ANSWER, name, ARES_REC_TYPE_AAAA, ARES_CLASS_IN, ttl);
      ares_dns_rr_set_addr6(rr, ARES_RR_AAAA_ADDR, &a6);
    } else if (qt == ARES_REC_TYPE_PTR) {
      char pn[64];
      snprintf(pn, sizeof(pn), "host%d-%d.example", marker, i + 1);
      ares_dns_record_rr_add(&rr, r, ARES_SECTION_ANSWER, name, ARES_REC_TYPE_PTR, ARES_CLASS_IN, ttl);
      ares_dns_rr_set_str(rr, ARES_RR_PTR_DNAME, pn);
    } else {
      struct in_addr a4;
      unsigned char  b[4];
      b[0] = 10;
      b[1] = (unsigned char)(marker >> 8);
      b[2] = (unsigned char)marker;
      b[3] = (unsigned char)(i + 1);
      memcpy(&a4, b, 4);
      ares_dns_record_rr_add(&rr, r, ARES_SECTION_ANSWER, name, ARES_REC_TYPE_A, ARES_CLASS_IN, ttl);
      ares_dns_rr_set_addr(rr, ARES_RR_A_ADDR, &a4);
    }
  }
  {
    const char *soa = arg(nt, t, "soa", NULL);
    if (soa) {
      ares_dns_rr_t *rr  = NULL;
      unsigned int   sttl = 0, smin = 0;
      sscanf(soa, "%u:%u", &sttl, &smin);
      ares_dns_record_rr_add(&rr, r, ARES_SECTION_AUTHORITY, "example", ARES_REC_TYPE_SOA, ARES_CLASS_IN, sttl);
      ares_dns_rr_set_str(rr, ARES_RR_SOA_MNAME, "ns.example");
      ares_dns_rr_set_str(rr, ARES_RR_SOA_RNAME, "root.example");
      ares_dns_rr_set_u32(rr, ARES_RR_SOA_SERIAL, 1);
      ares_dns_rr_set_u32(rr, ARES_RR_SOA_REFRESH, 1);
      ares_dns_rr_set_u32(rr, ARES_RR_SOA_RETRY, 1);
      ares_dns_rr_set_u32(rr, ARES_RR_SOA_EXPIRE, 1);
      ares_dns_rr_set_u32(rr, ARES_RR_SOA_MINIMUM, smin);
    }
  }
  qopt = ares_dns_get_opt_rr_const(q);
  if ((qopt != NULL && strcmp(kind, "formerr_noopt") != 0 && argi(nt, t, "opt", 1)) || argi(nt, t, "opt", 0) == 2) {
    ares_dns_rr_t *rr = NULL;
    ares_dns_record_rr_add(&rr, r, ARES_SECTION_ADDITIONAL, "", ARES_REC_TYPE_OPT, ARES_CLASS_IN, 0);
    ares_dns_rr_set_u16(rr, ARES_RR_OPT_UDP_SIZE, 1232);
    ares_dns_rr_set_u8(rr, ARES_RR_OPT_VERSION, 0);
    ares_dns_rr_set_u16(rr, ARES_RR_OPT_FLAGS, 0);
    if (strcmp(ck, "none") != 0) {
      const unsigned char *val = NULL;
      size_t               vl  = 0;
      unsigned char        c[64];
      size_t               cl = 0;
      if (qopt) {
        ares_dns_rr_get_opt_byid(qopt, ARES_RR_OPT_OPTIONS, ARES_OPT_PARAM_COOKIE, &val, &vl);
      }
      if (val && vl >= 8) {
        memcpy(c, val, 8);
        cl = 8;
        if (!strcmp(ck, "badclient")) {
          c[0] ^= 0xff;
        }
        if (!strcmp(ck, "echo")) {
          if (vl > 8) {
            memcpy(c + 8, val + 8, vl - 8);
            cl = vl;
          }
        } else if (!strncmp(ck, "new:", 4)) {
          cl += h_unhex(ck + 4, c + 8, 40);
        } else if (!strcmp(ck, "clientonly")) {
          cl = 8;
        } else if (!strcmp(ck, "short")) {
          cl = 4;
        }
        ares_dns_rr_set_opt(rr, ARES_RR_OPT_OPTIONS, ARES_OPT_PARAM_COOKIE, c, cl);
      } else if (!strncmp(ck, "force:", 6)) {
        cl = h_unhex(ck + 6, c, 48);
        ares_dns_rr_set_opt(rr, ARES_RR_OPT_OPTIONS, ARES_OPT_PARAM_COOKIE, c, cl);
      }
    }
  }
  {
    /* hand out a plain malloc copy: the queue frees with free() and the ledger counts library memory only */
    unsigned char *tmp = NULL;
    if (ares_dns_write(r, &tmp, outlen) == ARES_SUCCESS && tmp != NULL) {
      out = malloc(*outlen ? *outlen : 1);
      memcpy(out, tmp, *outlen);
      ares_free(tmp);
    }
  }
done:
  ares_dns_record_destroy(q);
  ares_dns_record_destroy(r);
  return out;
}

/* transmission reference: K (absolute) or -K (K-th latest) */
static long txref(int nt, char **t, const char *key)
{
  const char *v = arg(nt, t, key, NULL);
  long        k;
  if (v == NULL) {
    return -1;
  }
  k = strtol(v, NULL, 10);
  if (k < 0) {
    k = ntx + k;
  }
  if (k < 0 || k >= ntx) {
    return -1;
  }
  return k;
}
static int txfd(int nt, char **t)
{
  long k = txref(nt, t, "tx");
  if (k < 0) {
    return -1;
  }
  return txs[k].fd;
}

static void enqueue(int fd, unsigned char *data, size_t len, int wrongsrc)
{
  vsock_t *s = &vs[fd - FD_BASE];
  if (!s->open) {
    ev("nofd");
    free(data);
    return;
  }
  if (!s->tcp) {
    if (s->rxt - s->rxh >= MAXRX) {
      ev("rxfull");
      free(data);
      return;
    }
    s->rx[s->rxt % MAXRX].data     = data;
    s->rx[s->rxt % MAXRX].len      = len;
    s->rx[s->rxt % MAXRX].wrongsrc = wrongsrc;
    s->rxt++;
  } else {
    s->stream = realloc(s->stream, s->slen + len + 2);
    s->stream[s->slen]     = (unsigned char)(len >> 8);
    s->stream[s->slen + 1] = (unsigned char)len;
    memcpy(s->stream + s->slen + 2, data, len);
    s->slen += len + 2;
    free(data);
  }
  ev("queued(%d,%zu)", fd, len);
}

static int parse_sizes(const char *s, int *out, int max)
{
  int n = 0;
  while (s && *s && n < max) {
    out[n++] = (int)strtol(s, (char **)&s, 10);
    if (*s == ',') {
      s++;
    }
  }
  return n;
}

int main(void)
{
  char *t[MAXTOK];
  int   nt;
  unsetenv("LOCALDOMAIN");
  unsetenv("RES_OPTIONS");
  unsetenv("HOSTALIASES");
  ares_verif_clock_cb = vclock;
  ares_verif_rand_cb  = vrand;
  ares_library_init_mem(ARES_LIB_INIT_ALL, a_malloc, a_free, a_realloc);
  while ((nt = h_next(t)) >= 0) {
    const char *op;
    if (nt == 0) {
      puts("");
      continue;
    }
    op = t[0];
    if (!strcmp(op, "case")) {
      teardown();
      alloc_seq   = 0;
      alloc_fail  = -1;
      alloc_fired = 0;
      alloc_base  = alloc_live;
      rng_state = 88172645463325252ULL ^ (unsigned long long)(nt > 1 ? atol(t[1]) * 2654435761UL : 0);
      printf("case %s\n", nt > 1 ? t[1] : "0");
      fflush(stdout);
      continue;
    }
    if (op[0] == '#') {
      puts(op);
      continue;
    }
    if (!strcmp(op, "allocfail")) {
      alloc_fail = argi(nt, t, "at", -1);
      puts("ok");
      continue;
    }
    if (!strcmp(op, "alloccount")) {
      printf("allocs=%ld fired=%d\n", alloc_seq, alloc_fired);
      continue;
    }
    if (!strcmp(op, "chan")) {
      struct ares_options o;
      int                 mask = 0;
      ares_status_t       st;
      const char         *doms = arg(nt, t, "domains", "");
      char               *dlist[8];
      char                dbuf[512];
      int                 nd = 0;
      teardown();
      memset(&o, 0, sizeof(o));
      o.flags = (int)argi(nt, t, "flags", 0);
      fdreuse = (int)argi(nt, t, "fdreuse", 0);
      touch_after = (int)argi(nt, t, "touchafter", 0);
      mask |= ARES_OPT_FLAGS;
      o.timeout = (int)argi(nt, t, "timeout", 2000);
      mask |= ARES_OPT_TIMEOUTMS;
      o.tries = (int)argi(nt, t, "tries", 3);
      mask |= ARES_OPT_TRIES;
      o.ndots = (int)argi(nt, t, "ndots", 1);
      mask |= ARES_OPT_NDOTS;
      if (argi(nt, t, "maxtimeout", 0) > 0) {
        o.maxtimeout = (int)argi(nt, t, "maxtimeout", 0);
        mask |= ARES_OPT_MAXTIMEOUTMS;
      }
      if (argi(nt, t, "rotate", 0)) {
        mask |= ARES_OPT_ROTATE;
      } else {
        mask |= ARES_OPT_NOROTATE;
      }
      if (argi(nt, t, "udpmax", 0) > 0) {
        o.udp_max_queries = (int)argi(nt, t, "udpmax", 0);
        mask |= ARES_OPT_UDP_MAX_QUERIES;
      }
      o.qcache_max_ttl = (unsigned int)argi(nt, t, "cache", 0);
      mask |= ARES_OPT_QUERY_CACHE;
      o.lookups = (char *)arg(nt, t, "lookups", "b");
      mask |= ARES_OPT_LOOKUPS;
      strncpy(dbuf, doms, sizeof(dbuf) - 1);
      dbuf[sizeof(dbuf) - 1] = 0;
      {
        char *p, *save = NULL;
        for (p = strtok_r(dbuf, ",", &save); p && nd < 8; p = strtok_r(NULL, ",", &save)) {
          dlist[nd++] = p;
        }
      }
      o.domains  = dlist;
      o.ndomains = nd;
      mask |= ARES_OPT_DOMAINS;
      o.resolvconf_path = (char *)"/dev/null";
      mask |= ARES_OPT_RESOLVCONF;
      o.hosts_path = (char *)arg(nt, t, "hosts", "/dev/null");
      mask |= ARES_OPT_HOSTS_FILE;
      o.sock_state_cb = sock_state_cb;
      mask |= ARES_OPT_SOCK_STATE_CB;
      o.server_failover_opts.retry_chance = (unsigned short)argi(nt, t, "retrychance", 0);
      o.server_failover_opts.retry_delay  = (size_t)argi(nt, t, "retrydelay", 5000);
      mask |= ARES_OPT_SERVER_FAILOVER;
      alloc_armed = (int)argi(nt, t, "armed", 0);
      st = (ares_status_t)ares_init_options(&chan, &o, mask);
      alloc_armed = 0;
      if (st != ARES_SUCCESS) {
        chan = NULL;
        printf("err:%s\n", stname((int)st));
        continue;
      }
      vrand_chan = chan;
      ares_set_socket_functions_ex(chan, &vfuncs, NULL);
      ares_set_server_state_callback(chan, server_state_cb, NULL);
      if (argi(nt, t, "pendingwrite", 0)) {
        ares_set_pending_write_cb(chan, pending_write_cb, NULL);
      }
      alloc_armed = (int)argi(nt, t, "armed", 0);
      st = (ares_status_t)ares_set_servers_ports_csv(chan, arg(nt, t, "servers", "10.0.0.1"));
      alloc_armed = 0;
      evlen = 0;
      if (st != ARES_SUCCESS) {
        /* a channel without servers is still a valid channel; report and go on */
        printf("err:servers\n");
        continue;
      }
      printf("ok\n");
      continue;
    }
    if (chan == NULL) {
      puts("no-channel");
      continue;
    }
    if (!strcmp(op, "reaction")) {
      /* reaction idx=N kind=cancel|send|query|search|gai name= type= tok= react= */
      long i = argi(nt, t, "idx", 0);
      if (i >= 0 && i < 64) {
        memset(&reactions[i], 0, sizeof(reactions[i]));
        strncpy(reactions[i].kind, arg(nt, t, "kind", "cancel"), sizeof(reactions[i].kind) - 1);
        strncpy(reactions[i].name, arg(nt, t, "name", "r.example"), sizeof(reactions[i].name) - 1);
        reactions[i].type = (int)argi(nt, t, "type", 1);
        reactions[i].tok  = (int)argi(nt, t, "tok", 900 + i);
        reactions[i].adv  = (int)argi(nt, t, "adv", 0);
        strncpy(reactions[i].react, arg(nt, t, "react", ""), sizeof(reactions[i].react) - 1);
      }
      puts("ok");
      continue;
    }
    if (destroyed) {
      puts("destroyed");
      continue;
    }
    /* the failing allocator is armed only while the library API under test runs, not while the virtual
     * server builds its replies with the same record API */
    alloc_armed = (strcmp(op, "reply") != 0 && strcmp(op, "raw") != 0);
    cur_op      = op;
    if (!strcmp(op, "req")) {
      req_sort = (int)argi(nt, t, "sort", 0);
      do_req((int)argi(nt, t, "tok", 0), arg(nt, t, "kind", "send"), arg(nt, t, "name", "www.example.com"),
             (int)argi(nt, t, "type", 1), (int)argi(nt, t, "class", 1), (int)argi(nt, t, "edns", 0),
             arg(nt, t, "react", ""), (int)argi(nt, t, "fam", AF_INET));
    } else if (!strcmp(op, "reply")) {
      long k = txref(nt, t, "tx");
      if (k < 0) {
        ev("notx");
      } else {
        size_t         len  = 0;
        unsigned char *data = build_reply((int)k, nt, t, &len);
        const char    *on   = arg(nt, t, "on", NULL);
        int            fd   = on ? (int)strtol(on, NULL, 10) : txs[k].fd;
        if (on && (fd < FD_BASE || fd >= FD_BASE + nvs)) {
          ev("nofd");
          free(data);
        } else if (data == NULL) {
          ev("reply-build-failed");
        } else {
          enqueue(fd, data, len, !strcmp(arg(nt, t, "src", "same"), "other"));
        }
      }
    } else if (!strcmp(op, "raw")) {
      int fd = txfd(nt, t);
      if (fd < 0) {
        ev("notx");
      } else {
        unsigned char *d = malloc(70000);
        size_t         l = h_unhex(arg(nt, t, "hex", "-"), d, 70000);
        enqueue(fd, d, l, 0);
      }
    } else if (!strcmp(op, "chunks")) {
      int fd = txfd(nt, t);
      if (fd >= 0) {
        vsock_t *s  = &vs[fd - FD_BASE];
        s->nchunk   = parse_sizes(arg(nt, t, "sizes", ""), s->chunk, 64);
        s->chunkpos = 0;
        ev("ok");
      } else {
        ev("notx");
      }
    } else if (!strcmp(op, "wlimit")) {
      npending_wl = parse_sizes(arg(nt, t, "sizes", ""), pending_wl, 64);
      if (arg(nt, t, "tx", NULL)) {
        int fd = txfd(nt, t);
        if (fd >= 0) {
          vsock_t *s = &vs[fd - FD_BASE];
          memcpy(s->wl, pending_wl, sizeof(int) * (size_t)npending_wl);
          s->nwl      = npending_wl;
          s->wlpos    = 0;
          npending_wl = 0;
        }
      }
      ev("ok");
    } else if (!strcmp(op, "eof") || !strcmp(op, "reset")) {
      int fd = txfd(nt, t);
      if (fd >= 0) {
        if (op[0] == 'e') {
          vs[fd - FD_BASE].eof = 1;
        } else {
          vs[fd - FD_BASE].reset = 1;
        }
        ev("ok");
      } else {
        ev("notx");
      }
    } else if (!strcmp(op, "proc")) {
      /* proc r=<tx k> w=<tx k> : ares_process_fd on the sockets those transmissions used */
      long          rk = txref(nt, t, "r"), wk = txref(nt, t, "w");
      ares_socket_t rfd = (rk >= 0 && rk < ntx) ? (ares_socket_t)txs[rk].fd : ARES_SOCKET_BAD;
      ares_socket_t wfd = (wk >= 0 && wk < ntx) ? (ares_socket_t)txs[wk].fd : ARES_SOCKET_BAD;
      if (arg(nt, t, "rfd", NULL)) {
        rfd = (ares_socket_t)argi(nt, t, "rfd", -1);
      }
      if (arg(nt, t, "wfd", NULL)) {
        wfd = (ares_socket_t)argi(nt, t, "wfd", -1);
      }
      if (rfd != ARES_SOCKET_BAD) {
        rfd = to_real((int)rfd);
      }
      if (wfd != ARES_SOCKET_BAD) {
        wfd = to_real((int)wfd);
      }
      ares_process_fd(chan, rfd, wfd);
    } else if (!strcmp(op, "procall")) {
      /* everything that has pending input becomes readable; sockets announced writable become writable */
      ares_fd_events_t evs[64];
      size_t           n = 0;
      int              i;
      for (i = 0; i < nvs && n < 64; i++) {
        vsock_t *s = &vs[i];
        unsigned e = 0;
        if (!s->open) {
          continue;
        }
        if ((!s->tcp && s->rxh != s->rxt) || (s->tcp && (s->spos < s->slen || s->eof || s->reset))) {
          e |= ARES_FD_EVENT_READ;
        }
        if (s->notified_w) {
          e |= ARES_FD_EVENT_WRITE;
        }
        if (e) {
          evs[n].fd     = to_real(FD_BASE + i);
          evs[n].events = e;
          if ((e & ARES_FD_EVENT_WRITE) && nwr_reserved < 64) {
            wr_reserved[nwr_reserved++] = (int)evs[n].fd - FD_BASE;
          }
          n++;
        }
      }
      ares_process_fds(chan, evs, n, ARES_PROCESS_FLAG_NONE);
      nwr_reserved = 0;
    } else if (!strcmp(op, "tick")) {
      ares_process_fd(chan, ARES_SOCKET_BAD, ARES_SOCKET_BAD);
    } else if (!strcmp(op, "pendingwrite")) {
      ares_process_pending_write(chan);
      pendingw = 0;
    } else if (!strcmp(op, "adv")) {
      vnow_ms += (unsigned long long)argi(nt, t, "ms", nt > 1 ? strtol(t[1], NULL, 10) : 0);
      ev("now=%llu", vnow_ms);
    } else if (!strcmp(op, "cancel")) {
      ares_cancel(chan);
    } else if (!strcmp(op, "destroy")) {
      destroyed  = 1;
      vrand_chan = NULL;
      ares_destroy(chan);
      destroyed = 2;
      {
        int i, open = 0;
        for (i = 0; i < nvs; i++) {
          open += vs[i].open;
        }
        if (open) {
          ev("MON:socket-survives-destroy(%d)", open);
        }
      }
      {
        /* ledger: everything the channel allocated is released; the harness's own records of past
         * transmissions are plain malloc and not counted */
        int  i;
        long mine = 0;
        (void)i;
        if (alloc_live - mine != alloc_base) {
          ev("MON:leak(%ld)", alloc_live - alloc_base);
        }
      }
      puts(evlen ? evbuf : "-");
      evlen = 0;
      continue;
    } else if (!strcmp(op, "setservers")) {
      int st = ares_set_servers_ports_csv(chan, arg(nt, t, "servers", "10.0.0.9"));
      ev("ret(%s)", stname(st));
    } else if (!strcmp(op, "reinit")) {
      ev("ret(%s)", stname((int)ares_reinit(chan)));
      {
        /* the reload runs on its own thread: wait for it so the scenario stays deterministic */
        int spins = 0;
        for (;;) {
          ares_bool_t pending;
          ares_channel_lock(chan);
          pending = chan->reinit_pending;
          ares_channel_unlock(chan);
          if (!pending || ++spins > 20000) {
            break;
          }
          usleep(100);
        }
      }
    } else if (!strcmp(op, "sockfail")) {
      if (nfaults < 32) {
        strncpy(faults[nfaults].name, arg(nt, t, "call", "sendto"), 15);
        faults[nfaults].nth = (int)argi(nt, t, "nth", 1);
        faults[nfaults].err = (int)argi(nt, t, "errno", ECONNREFUSED);
        nfaults++;
      }
      ev("ok");
    } else if (!strcmp(op, "selfip")) {
      self_variant = (int)argi(nt, t, "v", 1);
      ev("ok");
    } else if (!strcmp(op, "timeoutq")) {
      struct timeval tv, maxtv, *r;
      long           m = argi(nt, t, "maxtv", -1);
      maxtv.tv_sec  = m / 1000;
      maxtv.tv_usec = (m % 1000) * 1000;
      r             = ares_timeout(chan, m >= 0 ? &maxtv : NULL, &tv);
      if (r) {
        ev("timeout=%lld", (long long)r->tv_sec * 1000 + r->tv_usec / 1000);
      } else {
        ev("timeout=-");
      }
    } else {
      ev("bad-op");
    }
    tail();
    fflush(stdout);
  }
  teardown();
  ares_library_cleanup();
  return 0;
}
