/* Canonical one-line dump of an ares_dns_record_t through the PUBLIC getters only
 * (DESIGN.md Appendix A.2).  Must print exactly what `Cares.Dns.Rec.dump` prints
 * (lean/CaresModel/Dns/Rec.lean).  Reusable by every harness that shows records.
 *
 *   H id=<n> qr=<b> op=<n> aa=<b> tc=<b> rd=<b> ra=<b> ad=<b> cd=<b> rc=<n> ; Q n=<hex> t=<n> c=<n> ;
 *   RR s=an|ns|ar n=<hex> t=<n> c=<n> ttl=<n> <key>=<value> ...
 *
 * key = numeric ares_dns_rr_key_t in ares_dns_rr_get_keys() order; values: u8/u16/u32 decimal,
 * addr/addr6/name/str/bin hex ("-" empty, "~" NULL), abin [h1,h2,..], opt {id:hex,..}.
 * No trailing newline is printed.  Needs hcommon.h (h_hex). */
#ifndef HCODEC_DUMP_H
#define HCODEC_DUMP_H
#include "ares.h"
#include "hcommon.h"

static void hcodec_hex_or_null(const unsigned char *p, size_t n)
{
  if (p == NULL) {
    fputc('~', stdout);
  } else {
    h_hex(p, n);
  }
}

static void hcodec_dump_val(const ares_dns_rr_t *rr, ares_dns_rr_key_t key)
{
  size_t i;
  size_t len = 0;
  switch (ares_dns_rr_key_datatype(key)) {
    case ARES_DATATYPE_INADDR:
      hcodec_hex_or_null((const unsigned char *)ares_dns_rr_get_addr(rr, key), 4);
      break;
    case ARES_DATATYPE_INADDR6:
      hcodec_hex_or_null((const unsigned char *)ares_dns_rr_get_addr6(rr, key), 16);
      break;
    case ARES_DATATYPE_U8:
      printf("%u", (unsigned int)ares_dns_rr_get_u8(rr, key));
      break;
    case ARES_DATATYPE_U16:
      printf("%u", (unsigned int)ares_dns_rr_get_u16(rr, key));
      break;
    case ARES_DATATYPE_U32:
      printf("%u", ares_dns_rr_get_u32(rr, key));
      break;
    case ARES_DATATYPE_NAME:
    case ARES_DATATYPE_STR:
      {
        const char *s = ares_dns_rr_get_str(rr, key);
        hcodec_hex_or_null((const unsigned char *)s, s ? strlen(s) : 0);
      }
      break;
    case ARES_DATATYPE_BIN:
    case ARES_DATATYPE_BINP:
      {
        const unsigned char *p = ares_dns_rr_get_bin(rr, key, &len);
        hcodec_hex_or_null(p, len);
      }
      break;
    case ARES_DATATYPE_ABINP:
      {
        size_t cnt = ares_dns_rr_get_abin_cnt(rr, key);
        fputc('[', stdout);
        for (i = 0; i < cnt; i++) {
          const unsigned char *p = ares_dns_rr_get_abin(rr, key, i, &len);
          if (i) {
            fputc(',', stdout);
          }
          hcodec_hex_or_null(p, len);
        }
        fputc(']', stdout);
      }
      break;
    case ARES_DATATYPE_OPT:
      {
        size_t cnt = ares_dns_rr_get_opt_cnt(rr, key);
        fputc('{', stdout);
        for (i = 0; i < cnt; i++) {
          const unsigned char *p  = NULL;
          unsigned short       id = ares_dns_rr_get_opt(rr, key, i, &p, &len);
          if (i) {
            fputc(',', stdout);
          }
          printf("%u:", (unsigned int)id);
          h_hex(p, p ? len : 0); /* a zero-length option value is stored as NULL */
        }
        fputc('}', stdout);
      }
      break;
    default:
      fputs("?", stdout);
      break;
  }
}

static void hcodec_dump_rr(const ares_dns_rr_t *rr, const char *sect)
{
  size_t                   i;
  size_t                   cnt  = 0;
  const char              *name = ares_dns_rr_get_name(rr);
  ares_dns_rec_type_t      type = ares_dns_rr_get_type(rr);
  const ares_dns_rr_key_t *keys = ares_dns_rr_get_keys(type, &cnt);
  printf("RR s=%s n=", sect);
  hcodec_hex_or_null((const unsigned char *)name, name ? strlen(name) : 0);
  printf(" t=%u c=%u ttl=%u", (unsigned int)type, (unsigned int)ares_dns_rr_get_class(rr),
         ares_dns_rr_get_ttl(rr));
  for (i = 0; keys != NULL && i < cnt; i++) {
    printf(" %u=", (unsigned int)keys[i]);
    hcodec_dump_val(rr, keys[i]);
  }
}

/* whole record, one line, no newline */
static void hcodec_dump_record(const ares_dns_record_t *rec)
{
  static const ares_dns_section_t sects[3] = { ARES_SECTION_ANSWER, ARES_SECTION_AUTHORITY,
                                               ARES_SECTION_ADDITIONAL };
  static const char              *tags[3]  = { "an", "ns", "ar" };
  unsigned short                  fl       = ares_dns_record_get_flags(rec);
  size_t                          i;
  size_t                          s;
  printf("H id=%u qr=%d op=%u aa=%d tc=%d rd=%d ra=%d ad=%d cd=%d rc=%u",
         (unsigned int)ares_dns_record_get_id(rec), (fl & ARES_FLAG_QR) ? 1 : 0,
         (unsigned int)ares_dns_record_get_opcode(rec), (fl & ARES_FLAG_AA) ? 1 : 0,
         (fl & ARES_FLAG_TC) ? 1 : 0, (fl & ARES_FLAG_RD) ? 1 : 0, (fl & ARES_FLAG_RA) ? 1 : 0,
         (fl & ARES_FLAG_AD) ? 1 : 0, (fl & ARES_FLAG_CD) ? 1 : 0,
         (unsigned int)ares_dns_record_get_rcode(rec));
  for (i = 0; i < ares_dns_record_query_cnt(rec); i++) {
    const char         *name = NULL;
    ares_dns_rec_type_t qtype;
    ares_dns_class_t    qclass;
    if (ares_dns_record_query_get(rec, i, &name, &qtype, &qclass) != ARES_SUCCESS) {
      fputs(" ; Q ?", stdout);
      continue;
    }
    fputs(" ; Q n=", stdout);
    hcodec_hex_or_null((const unsigned char *)name, name ? strlen(name) : 0);
    printf(" t=%u c=%u", (unsigned int)qtype, (unsigned int)qclass);
  }
  for (s = 0; s < 3; s++) {
    for (i = 0; i < ares_dns_record_rr_cnt(rec, sects[s]); i++) {
      fputs(" ; ", stdout);
      hcodec_dump_rr(ares_dns_record_rr_get_const(rec, sects[s], i), tags[s]);
    }
  }
}

/* status -> small class enum used by every codec stream */
static const char *hcodec_stclass(int st)
{
  switch (st) {
    case ARES_SUCCESS:
      return "ok";
    case ARES_EBADRESP:
    case ARES_EBADNAME:
    case ARES_EBADSTR:
    case ARES_EFORMERR:
      return "badresp";
    case ARES_ENOMEM:
      return "nomem";
    case ARES_ENODATA:
      return "nodata";
    case ARES_ENOTFOUND:
      return "notfound";
    default:
      return "other";
  }
}
#endif
