/* Correspondence harness for the container layer (C19, C14): drives the real
 * ares_array / ares_llist / ares_slist / ares_htable_* / ares_buf code in-process. */
#include "ares_private.h"
#include "dsa/ares_htable.h"
#include "dsa/ares_slist.h"
#include "hcommon.h"
#include <stdint.h>

#define MAXH 64

/* ------------------------------------------------------------------------------------------
 * Allocator installed through ares_library_init_mem(): failure schedule (`alloc failnth k`), call counter
 * (`alloc count`), ledger (live blocks must be 0 after a case has been torn down) and zero-filled
 * blocks, so that bytes the library never wrote are deterministic.  Block sizes are kept in a side table
 * (no in-band header) so that ASan red zones stay exact. */
#define ATAB (1u << 16)
static struct {
  void  *p;
  size_t n;
} a_tab[ATAB];
static size_t a_calls   = 0; /* allocation calls (malloc + realloc) since the last `alloc count` */
static long   a_fail_in = 0; /* the a_fail_in-th allocation call from now fails (0 = none) */
static long   a_live    = 0; /* live blocks */

static unsigned a_slot(void *p)
{
  unsigned i = (unsigned)(((size_t)p >> 4) * 2654435761u) & (ATAB - 1);
  while (a_tab[i].p != p && a_tab[i].p != NULL) {
    i = (i + 1) & (ATAB - 1);
  }
  return i;
}

static void a_put(void *p, size_t n)
{
  unsigned i = a_slot(p);
  a_tab[i].p = p;
  a_tab[i].n = n;
}

static size_t a_take(void *p)
{
  unsigned i = a_slot(p), j;
  size_t   n;
  if (a_tab[i].p != p) {
    fprintf(stderr, "h_dsa: free/realloc of a block the library did not allocate\n");
    abort();
  }
  n = a_tab[i].n;
  /* open addressing delete: re-insert the cluster that follows */
  a_tab[i].p = NULL;
  for (j = (i + 1) & (ATAB - 1); a_tab[j].p != NULL; j = (j + 1) & (ATAB - 1)) {
    void  *q  = a_tab[j].p;
    size_t qn = a_tab[j].n;
    a_tab[j].p = NULL;
    a_put(q, qn);
  }
  return n;
}

static int a_should_fail(void)
{
  a_calls++;
  if (a_fail_in > 0 && --a_fail_in == 0) {
    return 1;
  }
  return 0;
}

static void *h_malloc(size_t size)
{
  void *p;
  if (a_should_fail() || size == 0) {
    return NULL;
  }
  p = calloc(1, size);
  if (p == NULL) {
    abort();
  }
  a_put(p, size);
  a_live++;
  return p;
}

static void h_free(void *p)
{
  if (p == NULL) {
    return;
  }
  a_take(p);
  a_live--;
  free(p);
}

static void *h_realloc(void *p, size_t size)
{
  size_t old;
  void  *q;
  if (p == NULL) {
    return h_malloc(size);
  }
  if (a_should_fail()) {
    return NULL;
  }
  old = a_take(p);
  q   = realloc(p, size);
  if (q == NULL) {
    abort();
  }
  if (size > old) {
    memset((unsigned char *)q + old, 0, size - old);
  }
  a_put(q, size);
  return q;
}

static ares_array_t *arrs[MAXH];

/* which operations reported an allocation failure in this case (named in the ledger's `!MON leak-…` line so that a
 * leak can be attributed to the unwind path that caused it) */
static char fail_notes[256];

static void note_failure(const char *what)
{
  if (strstr(fail_notes, what) == NULL && strlen(fail_notes) + strlen(what) + 2 < sizeof(fail_notes)) {
    if (fail_notes[0]) {
      strcat(fail_notes, "+");
    }
    strcat(fail_notes, what);
  }
}
static void          buf_drop(int h);
static void          sl_reset(void);
static void          ll_reset(void);

/* ------------------------------------------------------------------------------------------ hash tables */
enum { HT_NONE = 0, HT_SZVP, HT_STRVP, HT_ASVP, HT_VPVP, HT_VPSTR, HT_DICT, HT_RAW };
static struct {
  int   kind;
  void *h;
} hts[MAXH];

/* `raw`: ares_htable_t used directly with an identity hash, so that the generator decides which keys
 * share a bucket at which table size (collision chains, the pre-allocation logic of the expansion) and
 * the model can predict every allocation. */
typedef struct {
  size_t key;
  size_t val;
} raw_bucket_t;

static unsigned int raw_hash(const void *key, unsigned int seed)
{
  (void)seed;
  return (unsigned int)(*(const size_t *)key);
}

static const void *raw_key(const void *bucket)
{
  return &((const raw_bucket_t *)bucket)->key;
}

static void raw_free(void *bucket)
{
  ares_free(bucket);
}

static ares_bool_t raw_eq(const void *k1, const void *k2)
{
  return *(const size_t *)k1 == *(const size_t *)k2 ? ARES_TRUE : ARES_FALSE;
}

static void ht_destroy(int h)
{
  switch (hts[h].kind) {
    case HT_SZVP:
      ares_htable_szvp_destroy(hts[h].h);
      break;
    case HT_STRVP:
      ares_htable_strvp_destroy(hts[h].h);
      break;
    case HT_ASVP:
      ares_htable_asvp_destroy(hts[h].h);
      break;
    case HT_VPVP:
      ares_htable_vpvp_destroy(hts[h].h);
      break;
    case HT_VPSTR:
      ares_htable_vpstr_destroy(hts[h].h);
      break;
    case HT_DICT:
      ares_htable_dict_destroy(hts[h].h);
      break;
    case HT_RAW:
      ares_htable_destroy(hts[h].h);
      break;
    default:
      break;
  }
  hts[h].kind = HT_NONE;
  hts[h].h    = NULL;
}

static void reset_all(void)
{
  int i;
  for (i = 0; i < MAXH; i++) {
    if (arrs[i]) {
      ares_array_destroy(arrs[i]);
      arrs[i] = NULL;
    }
    if (hts[i].kind != HT_NONE) {
      ht_destroy(i);
    }
    buf_drop(i);
  }
  sl_reset();
  ll_reset();
  a_fail_in = 0;
  a_calls   = 0;
  /* ledger: everything the case allocated must have been released by the containers' destructors */
  if (a_live != 0) {
    printf("!MON leak-%s %ld block(s) still allocated after all containers of the case were destroyed\n",
           fail_notes[0] ? fail_notes : "none", a_live);
    a_live = 0;
  }
  fail_notes[0] = 0;
}

static const char *ststr(ares_status_t st)
{
  if (st == ARES_SUCCESS) {
    return "ok";
  }
  if (st == ARES_ENOMEM) {
    return "nomem";
  }
  return "err";
}

static void dump_arr(ares_array_t *a)
{
  size_t i;
  size_t n = ares_array_len(a);
  fputc('[', stdout);
  for (i = 0; i < n; i++) {
    printf("%s%lu", i ? " " : "", *(unsigned long *)ares_array_at(a, i));
  }
  fputs("]\n", stdout);
}

static void do_arr(int nt, char **t)
{
  const char   *cmd = t[1];
  int           h   = atoi(t[2]);
  unsigned long a1  = nt > 3 ? strtoul(t[3], NULL, 10) : 0;
  unsigned long a2  = nt > 4 ? strtoul(t[4], NULL, 10) : 0;
  ares_array_t *a;
  if (h < 0 || h >= MAXH) {
    puts("bad-handle");
    return;
  }
  if (!strcmp(cmd, "new")) {
    if (arrs[h]) {
      ares_array_destroy(arrs[h]);
    }
    arrs[h] = ares_array_create(sizeof(unsigned long), NULL);
    puts(arrs[h] ? "ok" : "nomem");
    return;
  }
  a = arrs[h];
  if (a == NULL) {
    puts("bad-handle");
    return;
  }
  if (!strcmp(cmd, "ins") && nt == 5) {
    puts(ststr(ares_array_insertdata_at(a, a1, &a2)));
  } else if (!strcmp(cmd, "insfirst") && nt == 4) {
    puts(ststr(ares_array_insertdata_first(a, &a1)));
  } else if (!strcmp(cmd, "inslast") && nt == 4) {
    puts(ststr(ares_array_insertdata_last(a, &a1)));
  } else if (!strcmp(cmd, "setsize") && nt == 4) {
    puts(ststr(ares_array_set_size(a, a1)));
  } else if (!strcmp(cmd, "rm") && nt == 4) {
    puts(ststr(ares_array_remove_at(a, a1)));
  } else if (!strcmp(cmd, "rmfirst") && nt == 3) {
    puts(ststr(ares_array_remove_first(a)));
  } else if (!strcmp(cmd, "rmlast") && nt == 3) {
    puts(ststr(ares_array_remove_last(a)));
  } else if (!strcmp(cmd, "claim") && nt == 4) {
    unsigned long v  = 0;
    ares_status_t st = ares_array_claim_at(&v, sizeof(v), a, a1);
    if (st == ARES_SUCCESS) {
      printf("%lu\n", v);
    } else {
      puts("err");
    }
  } else if (!strcmp(cmd, "at") && nt == 4) {
    unsigned long *p = ares_array_at(a, a1);
    if (p) {
      printf("%lu\n", *p);
    } else {
      puts("none");
    }
  } else if (!strcmp(cmd, "first") && nt == 3) {
    unsigned long *p = ares_array_first(a);
    if (p) {
      printf("%lu\n", *p);
    } else {
      puts("none");
    }
  } else if (!strcmp(cmd, "last") && nt == 3) {
    unsigned long *p = ares_array_last(a);
    if (p) {
      printf("%lu\n", *p);
    } else {
      puts("none");
    }
  } else if (!strcmp(cmd, "len") && nt == 3) {
    printf("%lu\n", (unsigned long)ares_array_len(a));
  } else if (!strcmp(cmd, "dump") && nt == 3) {
    dump_arr(a);
  } else if (!strcmp(cmd, "finish") && nt == 3) {
    size_t         n = 0, i;
    unsigned long *p = ares_array_finish(a, &n);
    if (p == NULL && n != 0) {
      puts("err");
    } else {
      arrs[h] = NULL;
      fputc('[', stdout);
      for (i = 0; i < n; i++) {
        printf("%s%lu", i ? " " : "", p[i]);
      }
      fputs("]\n", stdout);
      ares_free(p);
    }
  } else {
    puts("bad-op");
  }
}


static int cmp_sz(const void *a, const void *b)
{
  size_t x = *(const size_t *)a, y = *(const size_t *)b;
  return x < y ? -1 : (x > y ? 1 : 0);
}

static int cmp_str(const void *a, const void *b)
{
  return strcmp(*(char *const *)a, *(char *const *)b);
}

static void do_ht(int nt, char **t)
{
  const char   *cmd = t[1];
  int           h   = atoi(t[2]);
  int           kind;
  void         *p;
  static char   kbuf[4096], vbuf[4096];
  size_t        nk  = 0;
  const char   *ks  = kbuf, *vs = vbuf;
  if (h < 0 || h >= MAXH) {
    puts("bad-handle");
    return;
  }
  if (!strcmp(cmd, "new") && nt == 4) {
    if (hts[h].kind != HT_NONE) {
      ht_destroy(h);
    }
    if (!strcmp(t[3], "szvp")) {
      hts[h].kind = HT_SZVP;
      hts[h].h    = ares_htable_szvp_create(NULL);
    } else if (!strcmp(t[3], "strvp")) {
      hts[h].kind = HT_STRVP;
      hts[h].h    = ares_htable_strvp_create(NULL);
    } else if (!strcmp(t[3], "asvp")) {
      hts[h].kind = HT_ASVP;
      hts[h].h    = ares_htable_asvp_create(NULL);
    } else if (!strcmp(t[3], "vpvp")) {
      hts[h].kind = HT_VPVP;
      hts[h].h    = ares_htable_vpvp_create(NULL, NULL);
    } else if (!strcmp(t[3], "vpstr")) {
      hts[h].kind = HT_VPSTR;
      hts[h].h    = ares_htable_vpstr_create();
    } else if (!strcmp(t[3], "dict")) {
      hts[h].kind = HT_DICT;
      hts[h].h    = ares_htable_dict_create();
    } else if (!strcmp(t[3], "raw")) {
      hts[h].kind = HT_RAW;
      hts[h].h    = ares_htable_create(raw_hash, raw_key, raw_free, raw_eq);
    } else {
      puts("bad-op");
      return;
    }
    if (hts[h].h == NULL) {
      hts[h].kind = HT_NONE;
      puts("nomem");
    } else {
      puts("ok");
    }
    return;
  }
  kind = hts[h].kind;
  p    = hts[h].h;
  if (kind == HT_NONE) {
    puts("bad-handle");
    return;
  }
  /* keys: decimal numbers, or hex text for the string-keyed tables; values: numbers or hex text */
  if (nt > 3) {
    if (kind == HT_STRVP || kind == HT_DICT) {
      size_t n = h_unhex(t[3], (unsigned char *)kbuf, sizeof(kbuf) - 1);
      kbuf[n]  = 0;
    } else {
      nk = (size_t)strtoul(t[3], NULL, 10);
    }
  }
  if (nt > 4) {
    if (kind == HT_VPSTR || kind == HT_DICT) {
      size_t n = h_unhex(t[4], (unsigned char *)vbuf, sizeof(vbuf) - 1);
      vbuf[n]  = 0;
    }
  }
  if (!strcmp(cmd, "put") && nt == 5) {
    size_t      nv = (size_t)strtoul(t[4], NULL, 10);
    ares_bool_t ok = ARES_FALSE;
    switch (kind) {
      case HT_SZVP:
        ok = ares_htable_szvp_insert(p, nk, (void *)nv);
        break;
      case HT_STRVP:
        ok = ares_htable_strvp_insert(p, ks, (void *)nv);
        break;
      case HT_ASVP:
        ok = ares_htable_asvp_insert(p, (ares_socket_t)nk, (void *)nv);
        break;
      case HT_VPVP:
        ok = ares_htable_vpvp_insert(p, (void *)nk, (void *)nv);
        break;
      case HT_VPSTR:
        ok = ares_htable_vpstr_insert(p, (void *)nk, vs);
        break;
      case HT_DICT:
        ok = ares_htable_dict_insert(p, ks, vs);
        break;
      case HT_RAW:
        {
          raw_bucket_t *b = ares_malloc(sizeof(*b));
          if (b != NULL) {
            b->key = nk;
            b->val = nv;
            ok     = ares_htable_insert(p, b);
            if (!ok) {
              ares_free(b);
            }
          }
        }
        break;
    }
    if (!ok) {
      static const char *const kn[] = { "none", "szvp", "strvp", "asvp", "vpvp", "vpstr", "dict", "raw" };
      char                     what[32];
      snprintf(what, sizeof(what), "%s:put", kn[kind]);
      note_failure(what);
    }
    puts(ok ? "ok" : "err");
  } else if (!strcmp(cmd, "get") && nt == 4) {
    void       *v   = NULL;
    const char *sv  = NULL;
    ares_bool_t ok  = ARES_FALSE;
    int         str = 0;
    switch (kind) {
      case HT_SZVP:
        ok = ares_htable_szvp_get(p, nk, &v);
        break;
      case HT_STRVP:
        ok = ares_htable_strvp_get(p, ks, &v);
        break;
      case HT_ASVP:
        ok = ares_htable_asvp_get(p, (ares_socket_t)nk, &v);
        break;
      case HT_VPVP:
        ok = ares_htable_vpvp_get(p, (void *)nk, &v);
        break;
      case HT_VPSTR:
        ok  = ares_htable_vpstr_get(p, (void *)nk, &sv);
        str = 1;
        break;
      case HT_DICT:
        ok  = ares_htable_dict_get(p, ks, &sv);
        str = 1;
        break;
      case HT_RAW:
        {
          raw_bucket_t *b = ares_htable_get(p, &nk);
          ok              = b != NULL;
          v               = b ? (void *)b->val : NULL;
        }
        break;
    }
    if (!ok) {
      puts("none");
    } else if (str) {
      h_hex((const unsigned char *)sv, strlen(sv));
      puts("");
    } else {
      printf("%lu\n", (unsigned long)(size_t)v);
    }
  } else if (!strcmp(cmd, "claim") && nt == 4 && kind == HT_STRVP) {
    /* values are >= 1, so NULL means "no such key" */
    void *v = ares_htable_strvp_claim(p, ks);
    if (v == NULL) {
      puts("none");
    } else {
      printf("%lu\n", (unsigned long)(size_t)v);
    }
  } else if (!strcmp(cmd, "del") && nt == 4) {
    ares_bool_t ok = ARES_FALSE;
    switch (kind) {
      case HT_SZVP:
        ok = ares_htable_szvp_remove(p, nk);
        break;
      case HT_STRVP:
        ok = ares_htable_strvp_remove(p, ks);
        break;
      case HT_ASVP:
        ok = ares_htable_asvp_remove(p, (ares_socket_t)nk);
        break;
      case HT_VPVP:
        ok = ares_htable_vpvp_remove(p, (void *)nk);
        break;
      case HT_VPSTR:
        ok = ares_htable_vpstr_remove(p, (void *)nk);
        break;
      case HT_DICT:
        ok = ares_htable_dict_remove(p, ks);
        break;
      case HT_RAW:
        ok = ares_htable_remove(p, &nk);
        break;
    }
    puts(ok ? "ok" : "none");
  } else if (!strcmp(cmd, "count") && nt == 3) {
    size_t n = 0;
    switch (kind) {
      case HT_SZVP:
        n = ares_htable_szvp_num_keys(p);
        break;
      case HT_STRVP:
        n = ares_htable_strvp_num_keys(p);
        break;
      case HT_ASVP:
        n = ares_htable_asvp_num_keys(p);
        break;
      case HT_VPVP:
        n = ares_htable_vpvp_num_keys(p);
        break;
      case HT_VPSTR:
        n = ares_htable_vpstr_num_keys(p);
        break;
      case HT_DICT:
        n = ares_htable_dict_num_keys(p);
        break;
      case HT_RAW:
        n = ares_htable_num_keys(p);
        break;
    }
    printf("%lu\n", (unsigned long)n);
  } else if (!strcmp(cmd, "keys") && nt == 3) {
    /* key dumps are sorted: the hash order is not observable behaviour */
    size_t n = 0, i;
    if ((kind == HT_ASVP && ares_htable_asvp_num_keys(p) == 0) || (kind == HT_DICT && ares_htable_dict_num_keys(p) == 0) ||
        (kind == HT_RAW && ares_htable_num_keys(p) == 0)) {
      puts("[]");
    } else if (kind == HT_ASVP) {
      ares_socket_t *ks2 = ares_htable_asvp_keys(p, &n);
      size_t        *sz  = n ? malloc(n * sizeof(*sz)) : NULL;
      if (ks2 == NULL && ares_htable_asvp_num_keys(p) != 0) {
        note_failure("asvp:keys");
        puts("nomem");
        return;
      }
      for (i = 0; i < n; i++) {
        sz[i] = (size_t)ks2[i];
      }
      qsort(sz, n, sizeof(*sz), cmp_sz);
      fputc('[', stdout);
      for (i = 0; i < n; i++) {
        printf("%s%lu", i ? " " : "", (unsigned long)sz[i]);
      }
      puts("]");
      free(sz);
      ares_free(ks2);
    } else if (kind == HT_DICT) {
      char **ks2 = ares_htable_dict_keys(p, &n);
      if (ks2 == NULL && ares_htable_dict_num_keys(p) != 0) {
        note_failure("dict:keys");
        puts("nomem");
        return;
      }
      qsort(ks2, n, sizeof(*ks2), cmp_str);
      fputc('[', stdout);
      for (i = 0; i < n; i++) {
        if (i) {
          fputc(' ', stdout);
        }
        h_hex((const unsigned char *)ks2[i], strlen(ks2[i]));
      }
      puts("]");
      ares_free_array(ks2, n, ares_free);
    } else if (kind == HT_RAW) {
      const void **bs = ares_htable_all_buckets(p, &n);
      size_t      *sz = n ? malloc(n * sizeof(*sz)) : NULL;
      if (bs == NULL && ares_htable_num_keys(p) != 0) {
        puts("nomem");
        return;
      }
      for (i = 0; i < n; i++) {
        sz[i] = ((const raw_bucket_t *)bs[i])->key;
      }
      qsort(sz, n, sizeof(*sz), cmp_sz);
      fputc('[', stdout);
      for (i = 0; i < n; i++) {
        printf("%s%lu", i ? " " : "", (unsigned long)sz[i]);
      }
      puts("]");
      free(sz);
      ares_free(bs);
    } else {
      puts("unsupported");
    }
  } else {
    puts("bad-op");
  }
}

/* ------------------------------------------------------------------------------------------ byte buffers */
static ares_buf_t    *bufs[MAXH];
static unsigned char *bufconst[MAXH]; /* backing store of const buffers (plain malloc: not in the ledger) */
#define BIGBUF 70000
static unsigned char big[BIGBUF];

static void buf_drop(int h)
{
  if (bufs[h]) {
    ares_buf_destroy(bufs[h]);
    bufs[h] = NULL;
  }
  free(bufconst[h]);
  bufconst[h] = NULL;
}

static void put_hex_line(const unsigned char *p, size_t n)
{
  h_hex(p, n);
  puts("");
}

static void do_buf(int nt, char **t)
{
  const char   *cmd = t[1];
  int           h   = atoi(t[2]);
  unsigned long a1  = nt > 3 ? strtoul(t[3], NULL, 10) : 0;
  ares_buf_t   *b;
  if (h < 0 || h >= MAXH) {
    puts("bad-handle");
    return;
  }
  if (!strcmp(cmd, "new") && nt == 3) {
    buf_drop(h);
    bufs[h] = ares_buf_create();
    puts(bufs[h] ? "ok" : "nomem");
    return;
  }
  if (!strcmp(cmd, "const") && nt == 4) {
    size_t n;
    buf_drop(h);
    n           = h_unhex(t[3], big, sizeof(big));
    bufconst[h] = malloc(n ? n : 1);
    memcpy(bufconst[h], big, n);
    bufs[h] = ares_buf_create_const(bufconst[h], n);
    puts(bufs[h] ? "ok" : (n == 0 ? "none" : "nomem"));
    return;
  }
  b = bufs[h];
  if (b == NULL) {
    puts("bad-handle");
    return;
  }
  if (!strcmp(cmd, "app") && nt == 4) {
    size_t n = h_unhex(t[3], big, sizeof(big));
    puts(ststr(ares_buf_append(b, big, n)));
  } else if (!strcmp(cmd, "be16") && nt == 4) {
    puts(ststr(ares_buf_append_be16(b, (unsigned short)a1)));
  } else if (!strcmp(cmd, "be32") && nt == 4) {
    puts(ststr(ares_buf_append_be32(b, (unsigned int)a1)));
  } else if (!strcmp(cmd, "fetch") && nt == 4) {
    if (a1 > sizeof(big) || ares_buf_fetch_bytes(b, big, a1) != ARES_SUCCESS) {
      puts("err");
    } else {
      put_hex_line(big, a1);
    }
  } else if (!strcmp(cmd, "fbe16") && nt == 3) {
    unsigned short v;
    if (ares_buf_fetch_be16(b, &v) != ARES_SUCCESS) {
      puts("err");
    } else {
      printf("%u\n", (unsigned)v);
    }
  } else if (!strcmp(cmd, "fbe32") && nt == 3) {
    unsigned int v;
    if (ares_buf_fetch_be32(b, &v) != ARES_SUCCESS) {
      puts("err");
    } else {
      printf("%u\n", v);
    }
  } else if (!strcmp(cmd, "consume") && nt == 4) {
    puts(ststr(ares_buf_consume(b, a1)));
  } else if (!strcmp(cmd, "tag") && nt == 3) {
    ares_buf_tag(b);
    puts("ok");
  } else if (!strcmp(cmd, "rollback") && nt == 3) {
    puts(ststr(ares_buf_tag_rollback(b)));
  } else if (!strcmp(cmd, "tagclear") && nt == 3) {
    puts(ststr(ares_buf_tag_clear(b)));
  } else if (!strcmp(cmd, "tagfetch") && nt == 3) {
    size_t n = sizeof(big);
    if (ares_buf_tag_fetch_bytes(b, big, &n) != ARES_SUCCESS) {
      puts("err");
    } else {
      put_hex_line(big, n);
    }
  } else if (!strcmp(cmd, "taglen") && nt == 3) {
    printf("%lu\n", (unsigned long)ares_buf_tag_length(b));
  } else if (!strcmp(cmd, "reclaim") && nt == 3) {
    ares_buf_reclaim(b);
    puts("ok");
  } else if (!strcmp(cmd, "setlen") && nt == 4) {
    puts(ststr(ares_buf_set_length(b, a1)));
  } else if (!strcmp(cmd, "len") && nt == 3) {
    printf("%lu\n", (unsigned long)ares_buf_len(b));
  } else if (!strcmp(cmd, "peek") && nt == 3) {
    size_t               n = 0;
    const unsigned char *p = ares_buf_peek(b, &n);
    put_hex_line(p, p ? n : 0);
  } else if (!strcmp(cmd, "setpos") && nt == 4) {
    puts(ststr(ares_buf_set_position(b, a1)));
  } else if (!strcmp(cmd, "getpos") && nt == 3) {
    printf("%lu\n", (unsigned long)ares_buf_get_position(b));
  } else if (!strcmp(cmd, "ws") && nt == 4) {
    printf("%lu\n", (unsigned long)ares_buf_consume_whitespace(b, a1 ? ARES_TRUE : ARES_FALSE));
  } else if (!strcmp(cmd, "nonws") && nt == 3) {
    printf("%lu\n", (unsigned long)ares_buf_consume_nonwhitespace(b));
  } else if (!strcmp(cmd, "line") && nt == 4) {
    printf("%lu\n", (unsigned long)ares_buf_consume_line(b, a1 ? ARES_TRUE : ARES_FALSE));
  } else if (!strcmp(cmd, "until") && nt == 5) {
    static unsigned char cs[256];
    size_t               n = h_unhex(t[3], cs, sizeof(cs));
    size_t               r = ares_buf_consume_until_charset(b, cs, n, atoi(t[4]) ? ARES_TRUE : ARES_FALSE);
    if (r == SIZE_MAX) {
      puts("max");
    } else {
      printf("%lu\n", (unsigned long)r);
    }
  } else if (!strcmp(cmd, "charset") && nt == 4) {
    static unsigned char cs[256];
    size_t               n = h_unhex(t[3], cs, sizeof(cs));
    printf("%lu\n", (unsigned long)ares_buf_consume_charset(b, cs, n));
  } else if (!strcmp(cmd, "split") && nt == 6) {
    static unsigned char ds[256];
    size_t               n   = h_unhex(t[3], ds, sizeof(ds));
    ares_array_t        *arr = NULL;
    ares_status_t        st  = ares_buf_split(b, ds, n, (ares_buf_split_t)atoi(t[4]), (size_t)strtoul(t[5], NULL, 10), &arr);
    if (st != ARES_SUCCESS) {
      puts(ststr(st));
    } else {
      size_t i, cnt = ares_array_len(arr);
      fputc('[', stdout);
      for (i = 0; i < cnt; i++) {
        ares_buf_t         **sp = ares_array_at(arr, i);
        size_t               sl = 0;
        const unsigned char *p  = ares_buf_peek(*sp, &sl);
        if (i) {
          fputc(' ', stdout);
        }
        h_hex(p, p ? sl : 0);
      }
      puts("]");
      ares_array_destroy(arr);
    }
  } else if ((!strcmp(cmd, "finishbin") || !strcmp(cmd, "finishstr")) && nt == 3) {
    size_t         n   = 0;
    int            str = !strcmp(cmd, "finishstr");
    unsigned char *p   = str ? (unsigned char *)ares_buf_finish_str(b, &n) : ares_buf_finish_bin(b, &n);
    if (p == NULL) {
      puts("err");
    } else {
      bufs[h] = NULL;
      free(bufconst[h]);
      bufconst[h] = NULL;
      if (str && p[n] != 0) {
        printf("!MON buf-finish-str the string handed out by ares_buf_finish_str is not NUL terminated\n");
      }
      put_hex_line(p, n);
      ares_free(p);
    }
  } else {
    puts("bad-op");
  }
}

/* ------------------------------------------------------------------------------------------ skip lists */
#define MAXN 512
typedef struct {
  unsigned long key;
  int           id;
} sl_item_t;

static ares_slist_t *slists[MAXH];
static struct {
  ares_slist_node_t *node;
  sl_item_t         *item;
  int                list;
} slnodes[MAXN];
static ares_rand_state *sl_rand = NULL;

/* coin flips of the skip lists: a byte pattern set by `sl rand <hex>` (cyclic); default: an LCG */
static unsigned char sl_pat[64];
static size_t        sl_patlen = 0, sl_patpos = 0;
static unsigned int  sl_lcg    = 12345;
extern void (*ares_verif_rand_cb)(unsigned char *buf, size_t len);

static void sl_rand_cb(unsigned char *buf, size_t len)
{
  size_t i;
  for (i = 0; i < len; i++) {
    if (sl_patlen) {
      buf[i] = sl_pat[sl_patpos++ % sl_patlen];
    } else {
      sl_lcg = sl_lcg * 1103515245u + 12345u;
      buf[i] = (unsigned char)(sl_lcg >> 16);
    }
  }
}

static int sl_cmp(const void *a, const void *b)
{
  unsigned long x = ((const sl_item_t *)a)->key, y = ((const sl_item_t *)b)->key;
  return x < y ? -1 : (x > y ? 1 : 0);
}

static void sl_reset(void)
{
  int i;
  for (i = 0; i < MAXH; i++) {
    if (slists[i]) {
      ares_slist_destroy(slists[i]);
      slists[i] = NULL;
    }
  }
  for (i = 0; i < MAXN; i++) {
    free(slnodes[i].item);
    slnodes[i].item = NULL;
    slnodes[i].node = NULL;
  }
  if (sl_rand) {
    ares_destroy_rand_state(sl_rand);
    sl_rand = NULL;
  }
  ares_verif_rand_cb = NULL;
  sl_patlen          = 0;
  sl_patpos          = 0;
  sl_lcg             = 12345;
}

static void sl_dump(ares_slist_t *l, int backward)
{
  ares_slist_node_t *n;
  int                first = 1;
  fputc('[', stdout);
  for (n = backward ? ares_slist_node_last(l) : ares_slist_node_first(l); n != NULL;
       n = backward ? ares_slist_node_prev(n) : ares_slist_node_next(n)) {
    const sl_item_t *it = ares_slist_node_val(n);
    printf("%s%d:%lu", first ? "" : " ", it->id, it->key);
    first = 0;
  }
  puts("]");
}

static void do_sl(int nt, char **t)
{
  const char   *cmd = t[1];
  int           h   = atoi(t[2]);
  ares_slist_t *l;
  if (!strcmp(cmd, "rand") && nt == 3) {
    sl_patlen = h_unhex(t[2], sl_pat, sizeof(sl_pat));
    sl_patpos = 0;
    puts("ok");
    return;
  }
  /* node-addressed operations */
  if (!strcmp(cmd, "rm") || !strcmp(cmd, "setkey") || !strcmp(cmd, "reinsert") || !strcmp(cmd, "next") ||
      !strcmp(cmd, "prev")) {
    if (h < 0 || h >= MAXN || slnodes[h].node == NULL) {
      puts("bad-handle");
      return;
    }
    if (!strcmp(cmd, "rm") && nt == 3) {
      /* ares_slist_node_claim hands the value back */
      sl_item_t *it = ares_slist_node_claim(slnodes[h].node);
      printf("%d\n", it ? it->id : -1);
      free(slnodes[h].item);
      slnodes[h].item = NULL;
      slnodes[h].node = NULL;
    } else if (!strcmp(cmd, "setkey") && nt == 4) {
      slnodes[h].item->key = strtoul(t[3], NULL, 10);
      puts("ok");
    } else if (!strcmp(cmd, "reinsert") && nt == 3) {
      ares_slist_node_reinsert(slnodes[h].node);
      puts("ok");
    } else if ((!strcmp(cmd, "next") || !strcmp(cmd, "prev")) && nt == 3) {
      ares_slist_node_t *n = !strcmp(cmd, "next") ? ares_slist_node_next(slnodes[h].node) : ares_slist_node_prev(slnodes[h].node);
      if (n == NULL) {
        puts("none");
      } else {
        printf("%d\n", ((const sl_item_t *)ares_slist_node_val(n))->id);
      }
    } else {
      puts("bad-op");
    }
    return;
  }
  if (h < 0 || h >= MAXH) {
    puts("bad-handle");
    return;
  }
  if (!strcmp(cmd, "new") && nt == 3) {
    if (slists[h]) {
      puts("bad-op"); /* the generator never re-creates a live list */
      return;
    }
    if (sl_rand == NULL) {
      sl_rand = ares_init_rand_state();
    }
    ares_verif_rand_cb = sl_rand_cb;
    slists[h]          = sl_rand ? ares_slist_create(sl_rand, sl_cmp, NULL) : NULL;
    puts(slists[h] ? "ok" : "nomem");
    return;
  }
  l = slists[h];
  if (l == NULL) {
    puts("bad-handle");
    return;
  }
  if (!strcmp(cmd, "ins") && nt == 5) {
    int n = atoi(t[3]);
    if (n < 0 || n >= MAXN || slnodes[n].node != NULL) {
      puts("bad-handle");
      return;
    }
    slnodes[n].item      = malloc(sizeof(sl_item_t));
    slnodes[n].item->key = strtoul(t[4], NULL, 10);
    slnodes[n].item->id  = n;
    slnodes[n].list      = h;
    slnodes[n].node      = ares_slist_insert(l, slnodes[n].item);
    if (slnodes[n].node == NULL) {
      free(slnodes[n].item);
      slnodes[n].item = NULL;
      puts("nomem");
    } else {
      puts("ok");
    }
  } else if (!strcmp(cmd, "find") && nt == 4) {
    sl_item_t          probe;
    ares_slist_node_t *n;
    probe.key = strtoul(t[3], NULL, 10);
    probe.id  = -1;
    n         = ares_slist_node_find(l, &probe);
    if (n == NULL) {
      puts("none");
    } else {
      printf("%d\n", ((const sl_item_t *)ares_slist_node_val(n))->id);
    }
  } else if ((!strcmp(cmd, "first") || !strcmp(cmd, "last")) && nt == 3) {
    const sl_item_t *it = !strcmp(cmd, "first") ? ares_slist_first_val(l) : ares_slist_last_val(l);
    if (it == NULL) {
      puts("none");
    } else {
      printf("%d\n", it->id);
    }
  } else if (!strcmp(cmd, "len") && nt == 3) {
    printf("%lu\n", (unsigned long)ares_slist_len(l));
  } else if (!strcmp(cmd, "dumpf") && nt == 3) {
    sl_dump(l, 0);
  } else if (!strcmp(cmd, "dumpb") && nt == 3) {
    sl_dump(l, 1);
  } else {
    puts("bad-op");
  }
}

/* ------------------------------------------------------------------------------------------ linked lists */
static ares_llist_t *llists[MAXH];
static struct {
  ares_llist_node_t *node;
  int                seq; /* creation order */
  int                via_before; /* created by insert_before / insert_after (see ll_reset) */
} llnodes[MAXN];
static int ll_seq = 0;

static void ll_reset(void)
{
  int i, pass;
  /* nodes are released one by one before their lists are destroyed, the ones made by insert_before /
   * insert_after first and newest first: on a tree where those are not linked into the forward chain
   * (F32-C19) ares_llist_destroy() would not reach them */
  for (pass = 0; pass < 2; pass++) {
    for (;;) {
      int best = -1;
      for (i = 0; i < MAXN; i++) {
        if (llnodes[i].node != NULL && (pass == 1 || llnodes[i].via_before) && (best < 0 || llnodes[i].seq > llnodes[best].seq)) {
          best = i;
        }
      }
      if (best < 0) {
        break;
      }
      ares_llist_node_claim(llnodes[best].node);
      llnodes[best].node = NULL;
    }
  }
  for (i = 0; i < MAXH; i++) {
    if (llists[i]) {
      ares_llist_destroy(llists[i]);
      llists[i] = NULL;
    }
  }
  ll_seq = 0;
}

static int ll_list_of(ares_llist_t *l)
{
  int i;
  for (i = 0; i < MAXH; i++) {
    if (llists[i] == l && l != NULL) {
      return i;
    }
  }
  return -1;
}

static void ll_print_node(ares_llist_node_t *n)
{
  if (n == NULL) {
    puts("none");
  } else {
    printf("%lu\n", (unsigned long)(size_t)ares_llist_node_val(n));
  }
}

static void ll_dump(ares_llist_t *l, int backward)
{
  ares_llist_node_t *n;
  int                first = 1, guard = 0;
  fputc('[', stdout);
  for (n = backward ? ares_llist_node_last(l) : ares_llist_node_first(l); n != NULL && guard < 4 * MAXN;
       n = backward ? ares_llist_node_prev(n) : ares_llist_node_next(n), guard++) {
    printf("%s%lu", first ? "" : " ", (unsigned long)(size_t)ares_llist_node_val(n));
    first = 0;
  }
  puts("]");
}

static void ll_register(int n, ares_llist_node_t *node, int via_before)
{
  llnodes[n].node       = node;
  llnodes[n].seq        = ++ll_seq;
  llnodes[n].via_before = via_before;
}

static void do_ll(int nt, char **t)
{
  const char *cmd = t[1];
  int         a   = atoi(t[2]);
  int         b   = nt > 3 ? atoi(t[3]) : -1;
  /* node-addressed operations: ll <cmd> <node> [...] */
  if (!strcmp(cmd, "insbefore") || !strcmp(cmd, "insafter") || !strcmp(cmd, "claim") || !strcmp(cmd, "destroy") ||
      !strcmp(cmd, "mvfirst") || !strcmp(cmd, "mvlast") || !strcmp(cmd, "next") || !strcmp(cmd, "prev") ||
      !strcmp(cmd, "parent")) {
    ares_llist_node_t *node;
    if (a < 0 || a >= MAXN || llnodes[a].node == NULL) {
      puts("bad-handle");
      return;
    }
    node = llnodes[a].node;
    if ((!strcmp(cmd, "insbefore") || !strcmp(cmd, "insafter")) && nt == 4) {
      ares_llist_node_t *nn;
      if (b < 1 || b >= MAXN || llnodes[b].node != NULL) {
        puts("bad-handle");
        return;
      }
      nn = !strcmp(cmd, "insbefore") ? ares_llist_insert_before(node, (void *)(size_t)b) :
                                       ares_llist_insert_after(node, (void *)(size_t)b);
      if (nn == NULL) {
        puts("nomem");
      } else {
        ll_register(b, nn, 1);
        puts("ok");
      }
    } else if (!strcmp(cmd, "claim") && nt == 3) {
      void *v         = ares_llist_node_claim(node);
      llnodes[a].node = NULL;
      printf("%lu\n", (unsigned long)(size_t)v);
    } else if (!strcmp(cmd, "destroy") && nt == 3) {
      ares_llist_node_destroy(node);
      llnodes[a].node = NULL;
      puts("ok");
    } else if ((!strcmp(cmd, "mvfirst") || !strcmp(cmd, "mvlast")) && nt == 4) {
      if (b < 0 || b >= MAXH || llists[b] == NULL) {
        puts("bad-handle");
        return;
      }
      if (!strcmp(cmd, "mvfirst")) {
        ares_llist_node_mvparent_first(node, llists[b]);
      } else {
        ares_llist_node_mvparent_last(node, llists[b]);
      }
      puts("ok");
    } else if (!strcmp(cmd, "next") && nt == 3) {
      ll_print_node(ares_llist_node_next(node));
    } else if (!strcmp(cmd, "prev") && nt == 3) {
      ll_print_node(ares_llist_node_prev(node));
    } else if (!strcmp(cmd, "parent") && nt == 3) {
      printf("%d\n", ll_list_of(ares_llist_node_parent(node)));
    } else {
      puts("bad-op");
    }
    return;
  }
  if (a < 0 || a >= MAXH) {
    puts("bad-handle");
    return;
  }
  if (!strcmp(cmd, "new") && nt == 3) {
    if (llists[a] != NULL) {
      puts("bad-op");
      return;
    }
    llists[a] = ares_llist_create(NULL);
    puts(llists[a] ? "ok" : "nomem");
    return;
  }
  if (llists[a] == NULL) {
    puts("bad-handle");
    return;
  }
  if ((!strcmp(cmd, "insfirst") || !strcmp(cmd, "inslast")) && nt == 4) {
    ares_llist_node_t *nn;
    if (b < 1 || b >= MAXN || llnodes[b].node != NULL) {
      puts("bad-handle");
      return;
    }
    nn = !strcmp(cmd, "insfirst") ? ares_llist_insert_first(llists[a], (void *)(size_t)b) :
                                    ares_llist_insert_last(llists[a], (void *)(size_t)b);
    if (nn == NULL) {
      puts("nomem");
    } else {
      ll_register(b, nn, 0);
      puts("ok");
    }
  } else if (!strcmp(cmd, "idx") && nt == 4) {
    ll_print_node(ares_llist_node_idx(llists[a], (size_t)b));
  } else if (!strcmp(cmd, "first") && nt == 3) {
    ll_print_node(ares_llist_node_first(llists[a]));
  } else if (!strcmp(cmd, "last") && nt == 3) {
    ll_print_node(ares_llist_node_last(llists[a]));
  } else if (!strcmp(cmd, "len") && nt == 3) {
    printf("%lu\n", (unsigned long)ares_llist_len(llists[a]));
  } else if (!strcmp(cmd, "dumpf") && nt == 3) {
    ll_dump(llists[a], 0);
  } else if (!strcmp(cmd, "dumpb") && nt == 3) {
    ll_dump(llists[a], 1);
  } else {
    puts("bad-op");
  }
}

static void do_alloc(int nt, char **t)
{
  if (nt == 3 && !strcmp(t[1], "failnth")) {
    a_fail_in = atol(t[2]);
    puts("ok");
  } else if (nt == 2 && !strcmp(t[1], "count")) {
    printf("%lu\n", (unsigned long)a_calls);
    a_calls = 0;
  } else {
    puts("bad-op");
  }
}

int main(void)
{
  char *t[MAXTOK];
  int   nt;
  ares_library_init_mem(ARES_LIB_INIT_ALL, h_malloc, h_free, h_realloc);
  while ((nt = h_next(t)) >= 0) {
    if (nt == 0) {
      puts("");
    } else if (!strcmp(t[0], "case")) {
      int i;
      reset_all();
      for (i = 0; i < nt; i++) {
        printf("%s%s", i ? " " : "", t[i]);
      }
      puts("");
    } else if (t[0][0] == '#') {
      int i;
      for (i = 0; i < nt; i++) {
        printf("%s%s", i ? " " : "", t[i]);
      }
      puts("");
    } else if (!strcmp(t[0], "arr") && nt >= 3) {
      do_arr(nt, t);
    } else if (!strcmp(t[0], "ht") && nt >= 3) {
      do_ht(nt, t);
    } else if (!strcmp(t[0], "buf") && nt >= 3) {
      do_buf(nt, t);
    } else if (!strcmp(t[0], "sl") && nt >= 3) {
      do_sl(nt, t);
    } else if (!strcmp(t[0], "ll") && nt >= 3) {
      do_ll(nt, t);
    } else if (!strcmp(t[0], "alloc")) {
      do_alloc(nt, t);
    } else {
      puts("bad-op");
    }
    fflush(stdout);
  }
  reset_all();
  ares_library_cleanup();
  return 0;
}
