/* Correspondence harness for the container layer (C19, C14): drives the real
 * ares_array / ares_llist / ares_slist / ares_htable_* / ares_buf code in-process. */
#include "ares_private.h"
#include "hcommon.h"

#define MAXH 64
static ares_array_t *arrs[MAXH];

static void reset_all(void)
{
  int i;
  for (i = 0; i < MAXH; i++) {
    if (arrs[i]) {
      ares_array_destroy(arrs[i]);
      arrs[i] = NULL;
    }
  }
}

static const char *ststr(ares_status_t st)
{
  if (st == ARES_SUCCESS) {
    return "ok";
  }
  if (st == ARES_ENOMEM) {
    return "nomem";
  }
  return "err";
}

static void dump_arr(ares_array_t *a)
{
  size_t i;
  size_t n = ares_array_len(a);
  fputc('[', stdout);
  for (i = 0; i < n; i++) {
    printf("%s%lu", i ? " " : "", *(unsigned long *)ares_array_at(a, i));
  }
  fputs("]\n", stdout);
}

static void do_arr(int nt, char **t)
{
  const char   *cmd = t[1];
  int           h   = atoi(t[2]);
  unsigned long a1  = nt > 3 ? strtoul(t[3], NULL, 10) : 0;
  unsigned long a2  = nt > 4 ? strtoul(t[4], NULL, 10) : 0;
  ares_array_t *a;
  if (h < 0 || h >= MAXH) {
    puts("bad-handle");
    return;
  }
  if (!strcmp(cmd, "new")) {
    if (arrs[h]) {
      ares_array_destroy(arrs[h]);
    }
    arrs[h] = ares_array_create(sizeof(unsigned long), NULL);
    puts(arrs[h] ? "ok" : "nomem");
    return;
  }
  a = arrs[h];
  if (a == NULL) {
    puts("bad-handle");
    return;
  }
  if (!strcmp(cmd, "ins") && nt == 5) {
    puts(ststr(ares_array_insertdata_at(a, a1, &a2)));
  } else if (!strcmp(cmd, "insfirst") && nt == 4) {
    puts(ststr(ares_array_insertdata_first(a, &a1)));
  } else if (!strcmp(cmd, "inslast") && nt == 4) {
    puts(ststr(ares_array_insertdata_last(a, &a1)));
  } else if (!strcmp(cmd, "rm") && nt == 4) {
    puts(ststr(ares_array_remove_at(a, a1)));
  } else if (!strcmp(cmd, "rmfirst") && nt == 3) {
    puts(ststr(ares_array_remove_first(a)));
  } else if (!strcmp(cmd, "rmlast") && nt == 3) {
    puts(ststr(ares_array_remove_last(a)));
  } else if (!strcmp(cmd, "claim") && nt == 4) {
    unsigned long v  = 0;
    ares_status_t st = ares_array_claim_at(&v, sizeof(v), a, a1);
    if (st == ARES_SUCCESS) {
      printf("%lu\n", v);
    } else {
      puts("err");
    }
  } else if (!strcmp(cmd, "at") && nt == 4) {
    unsigned long *p = ares_array_at(a, a1);
    if (p) {
      printf("%lu\n", *p);
    } else {
      puts("none");
    }
  } else if (!strcmp(cmd, "first") && nt == 3) {
    unsigned long *p = ares_array_first(a);
    if (p) {
      printf("%lu\n", *p);
    } else {
      puts("none");
    }
  } else if (!strcmp(cmd, "last") && nt == 3) {
    unsigned long *p = ares_array_last(a);
    if (p) {
      printf("%lu\n", *p);
    } else {
      puts("none");
    }
  } else if (!strcmp(cmd, "len") && nt == 3) {
    printf("%lu\n", (unsigned long)ares_array_len(a));
  } else if (!strcmp(cmd, "dump") && nt == 3) {
    dump_arr(a);
  } else if (!strcmp(cmd, "finish") && nt == 3) {
    size_t         n = 0, i;
    unsigned long *p = ares_array_finish(a, &n);
    if (p == NULL && n != 0) {
      puts("err");
    } else {
      arrs[h] = NULL;
      fputc('[', stdout);
      for (i = 0; i < n; i++) {
        printf("%s%lu", i ? " " : "", p[i]);
      }
      fputs("]\n", stdout);
      ares_free(p);
    }
  } else {
    puts("bad-op");
  }
}

int main(void)
{
  char *t[MAXTOK];
  int   nt;
  ares_library_init(ARES_LIB_INIT_ALL);
  while ((nt = h_next(t)) >= 0) {
    if (nt == 0) {
      puts("");
    } else if (!strcmp(t[0], "case")) {
      int i;
      reset_all();
      for (i = 0; i < nt; i++) {
        printf("%s%s", i ? " " : "", t[i]);
      }
      puts("");
    } else if (t[0][0] == '#') {
      int i;
      for (i = 0; i < nt; i++) {
        printf("%s%s", i ? " " : "", t[i]);
      }
      puts("");
    } else if (!strcmp(t[0], "arr") && nt >= 3) {
      do_arr(nt, t);
    } else {
      puts("bad-op");
    }
    fflush(stdout);
  }
  reset_all();
  ares_library_cleanup();
  return 0;
}
