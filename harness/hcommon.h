/* Shared by all correspondence harnesses: line reader / tokeniser.
 * One input line -> exactly one output line on stdout.  `case <n>` resets state. */
#ifndef HCOMMON_H
#define HCOMMON_H
#include <stdio.h>
#include <stdlib.h>
#include <string.h>
#include <ctype.h>

#define MAXTOK 64
static char  *h_line = NULL;
static size_t h_cap  = 0;

/* returns number of tokens, -1 on EOF */
static int h_next(char **tok)
{
  ssize_t n = getline(&h_line, &h_cap, stdin);
  int     cnt = 0;
  char   *p;
  if (n < 0) {
    return -1;
  }
  p = h_line;
  while (*p) {
    while (*p == ' ' || *p == '\n' || *p == '\r' || *p == '\t') {
      p++;
    }
    if (!*p) {
      break;
    }
    if (cnt < MAXTOK) {
      tok[cnt++] = p;
    }
    while (*p && *p != ' ' && *p != '\n' && *p != '\r' && *p != '\t') {
      p++;
    }
    if (*p) {
      *p++ = 0;
    }
  }
  return cnt;
}

static size_t h_unhex(const char *s, unsigned char *out, size_t cap)
{
  size_t n = 0;
  if (s[0] == '-' && s[1] == 0) {
    return 0;
  }
  while (s[0] && s[1] && n < cap) {
    unsigned int b;
    sscanf(s, "%2x", &b);
    out[n++] = (unsigned char)b;
    s += 2;
  }
  return n;
}

static void h_hex(const unsigned char *p, size_t n)
{
  size_t i;
  if (n == 0) {
    fputc('-', stdout);
  }
  for (i = 0; i < n; i++) {
    printf("%02x", p[i]);
  }
}
#endif
