/* Correspondence harness for the legacy reply parsers (C18) and the pure address-lookup conversions
 * (C13).  Real c-ares code in-process; one output line per op line (plus `!MON …` lines when the
 * property itself is seen to fail on the implementation).
 *
 *   msg <hex>                         ares_dns_parse(flags 0); becomes the current message
 *                                     -> rec st=<n> <canonical record dump | ->
 *   leg a|aaaa <host 0|1> <cap|->     ares_parse_a_reply / _aaaa_reply on the current message
 *   leg caa|mx|naptr|ns|soa|srv|txt|txtext|uri
 *   leg ptr <addrhex|~> <family>
 *   ainew                             fresh struct ares_addrinfo (the "current addrinfo")
 *   aiadd <port> <cname_only 0|1>     ares_parse_into_addrinfo(current record, …, current addrinfo)
 *   ailocal <namehex> <port> <fam>    ares_addrinfo_localhost(…, current addrinfo)
 *   aifake <namehex> <port> <fam> <flags>   ares_getaddrinfo() on a literal (fake_addrinfo path);
 *                                     the result becomes the current addrinfo
 *   ai2h <fam>                        ares_addrinfo2hostent(current addrinfo)
 *   ai2t <fam> <cap>                  ares_addrinfo2addrttl(current addrinfo)
 *   aisort <src,src,…>                ares_sortaddrinfo() on the current addrinfo's nodes; the i-th entry
 *                                     scripts the source address of the i-th node: <v4hex>/<v6hex> = getsockname
 *                                     answer for an AF_INET / AF_INET6 destination, `-` = connect fails,
 *                                     `x` = socket(): EAFNOSUPPORT, anything else: getsockname fails
 *   addr2ptr <fam> <addrhex>          ares_dns_addr_to_ptr
 *   sortlist <fam> <addr/mask,…|-> <addr,addr,…|->   sort_addresses / sort6_addresses (static, reached by
 *                                     #including ares_gethostbyname.c)
 *
 * Every library allocation goes through a counting allocator (ares_library_init_mem); after each
 * call the result is released with its matching free function and the ledger must be back where it
 * was (`!MON leak …`).  addrttl arrays are over-allocated and painted so that a write beyond the
 * offered capacity is seen (`!MON capacity …`). */
#include "ares_private.h"
#include "ares_data.h"
#include "hcommon.h"
#include "hcodec_dump.h"
#include <errno.h>
#include <arpa/inet.h>
#include <netinet/in.h>

/* static sort_addresses()/sort6_addresses(): this translation unit provides every global symbol of
 * ares_gethostbyname.c, so the archive member is not linked a second time */
#include "ares_gethostbyname.c"

/* ---------------------------------------------------------------- ledger */
static long g_live = 0;

static void *l_malloc(size_t n)
{
  void *p = malloc(n ? n : 1);
  if (p) {
    g_live++;
  }
  return p;
}

static void l_free(void *p)
{
  if (p) {
    g_live--;
    free(p);
  }
}

static void *l_realloc(void *p, size_t n)
{
  void *q;
  if (p == NULL) {
    return l_malloc(n);
  }
  if (n == 0) {
    l_free(p);
    return NULL;
  }
  q = realloc(p, n);
  return q;
}

/* ---------------------------------------------------------------- state */
#define MAXMSG 70000
static unsigned char      g_msg[MAXMSG];
static size_t             g_msglen = 0;
static int                g_have   = 0;
static ares_dns_record_t *g_rec    = NULL;
static int                g_recst  = ARES_EFORMERR;
static struct ares_addrinfo *g_ai  = NULL;
static ares_channel_t    *g_chan   = NULL;

static void free_ai(struct ares_addrinfo *ai)
{
  if (ai) {
    ares_freeaddrinfo(ai);
  }
}

static void reset_case(void)
{
  if (g_rec) {
    ares_dns_record_destroy(g_rec);
    g_rec = NULL;
  }
  free_ai(g_ai);
  g_ai     = NULL;
  g_have   = 0;
  g_msglen = 0;
  g_recst  = ARES_EFORMERR;
}

static void hexstr(const char *s)
{
  if (s == NULL) {
    fputc('~', stdout);
  } else {
    h_hex((const unsigned char *)s, strlen(s));
  }
}

/* ---------------------------------------------------------------- dumps */
static void dump_hostent(const struct hostent *h)
{
  size_t i;
  if (h == NULL) {
    fputs("host=~", stdout);
    return;
  }
  fputs("host{name=", stdout);
  hexstr(h->h_name);
  fputs(" aliases=[", stdout);
  for (i = 0; h->h_aliases && h->h_aliases[i]; i++) {
    if (i) {
      fputc(',', stdout);
    }
    hexstr(h->h_aliases[i]);
  }
  printf("] fam=%d len=%d addrs=[", (int)h->h_addrtype, (int)h->h_length);
  for (i = 0; h->h_addr_list && h->h_addr_list[i]; i++) {
    if (i) {
      fputc(',', stdout);
    }
    h_hex((const unsigned char *)h->h_addr_list[i], h->h_length > 0 ? (size_t)h->h_length : 0);
  }
  fputs("]}", stdout);
}

static void dump_ai(const struct ares_addrinfo *ai)
{
  const struct ares_addrinfo_node  *n;
  const struct ares_addrinfo_cname *c;
  int                               first = 1;
  fputs("name=", stdout);
  hexstr(ai->name);
  fputs(" nodes=[", stdout);
  for (n = ai->nodes; n; n = n->ai_next) {
    if (!first) {
      fputc(',', stdout);
    }
    first = 0;
    if (n->ai_family == AF_INET) {
      const struct sockaddr_in *sin = (const struct sockaddr_in *)(const void *)n->ai_addr;
      printf("%d/", n->ai_family);
      h_hex((const unsigned char *)&sin->sin_addr, 4);
      printf("/%u/%d", (unsigned)ntohs(sin->sin_port), n->ai_ttl);
    } else if (n->ai_family == AF_INET6) {
      const struct sockaddr_in6 *sin6 = (const struct sockaddr_in6 *)(const void *)n->ai_addr;
      printf("%d/", n->ai_family);
      h_hex((const unsigned char *)&sin6->sin6_addr, 16);
      printf("/%u/%d", (unsigned)ntohs(sin6->sin6_port), n->ai_ttl);
    } else {
      printf("%d/?/0/%d", n->ai_family, n->ai_ttl);
    }
  }
  fputs("] cnames=[", stdout);
  first = 1;
  for (c = ai->cnames; c; c = c->next) {
    if (!first) {
      fputc(',', stdout);
    }
    first = 0;
    printf("%d/", c->ttl);
    hexstr(c->alias);
    fputc('/', stdout);
    hexstr(c->name);
  }
  fputs("]", stdout);
}

static void ledger_check(const char *what, long before)
{
  if (g_live != before) {
    printf("\n!MON leak %s: %ld allocation(s) made by the call are not released by the matching free function",
           what, g_live - before);
  }
}

/* ---------------------------------------------------------------- legacy calls */
#define PAD 4

static void leg_addr(int v6, int nt, char **t)
{
  int             want_host = (nt > 2) ? atoi(t[2]) : 1;
  int             have_cap  = (nt > 3 && strcmp(t[3], "-") != 0);
  int             cap       = have_cap ? atoi(t[3]) : 0;
  struct hostent *host      = NULL;
  int             n         = cap;
  int             st;
  int             i;
  long            before = g_live;
  size_t          esz    = v6 ? sizeof(struct ares_addr6ttl) : sizeof(struct ares_addrttl);
  unsigned char  *arr    = NULL;

  if (have_cap) {
    arr = malloc(((size_t)cap + PAD) * esz);
    memset(arr, 0xA5, ((size_t)cap + PAD) * esz);
  }
  if (v6) {
    st = ares_parse_aaaa_reply(g_msg, (int)g_msglen, want_host ? &host : NULL,
                               (struct ares_addr6ttl *)(void *)arr, have_cap ? &n : NULL);
  } else {
    st = ares_parse_a_reply(g_msg, (int)g_msglen, want_host ? &host : NULL,
                            (struct ares_addrttl *)(void *)arr, have_cap ? &n : NULL);
  }
  printf("st=%d ", st);
  dump_hostent(host);
  if (!have_cap) {
    fputs(" nttl=- ttls=[]", stdout);
  } else {
    printf(" nttl=%d ttls=[", n);
    for (i = 0; i < n && i < cap + PAD; i++) {
      if (i) {
        fputc(',', stdout);
      }
      if (v6) {
        struct ares_addr6ttl *e = &((struct ares_addr6ttl *)(void *)arr)[i];
        h_hex((const unsigned char *)&e->ip6addr, 16);
        printf("/%d", e->ttl);
      } else {
        struct ares_addrttl *e = &((struct ares_addrttl *)(void *)arr)[i];
        h_hex((const unsigned char *)&e->ipaddr, 4);
        printf("/%d", e->ttl);
      }
    }
    fputs("]", stdout);
  }
  if (have_cap) {
    size_t k;
    int    painted = 1;
    for (k = (size_t)cap * esz; k < ((size_t)cap + PAD) * esz; k++) {
      if (arr[k] != 0xA5) {
        painted = 0;
      }
    }
    if (n > cap || !painted) {
      printf("\n!MON capacity %s: offered %d element(s), *naddrttls=%d, memory beyond the offered elements %s",
             v6 ? "ares_parse_aaaa_reply" : "ares_parse_a_reply", cap, n, painted ? "untouched" : "WRITTEN");
    }
  }
  if (st != ARES_SUCCESS && host != NULL) {
    printf("\n!MON outnotnull %s: status %d but *host set", v6 ? "aaaa" : "a", st);
  }
  if (host) {
    ares_free_hostent(host);
  }
  free(arr);
  ledger_check(v6 ? "ares_parse_aaaa_reply/ares_free_hostent" : "ares_parse_a_reply/ares_free_hostent", before);
  fputc('\n', stdout);
}

static void fail_out(const char *fn, int st, const void *out)
{
  if (st != ARES_SUCCESS && out != NULL) {
    printf("\n!MON outnotnull %s: status %d but output pointer set", fn, st);
  }
}

static void do_leg(int nt, char **t)
{
  const char *fn     = t[1];
  long        before = g_live;
  int         st;
  int         first = 1;
  if (!g_have) {
    puts("no-msg");
    return;
  }
  printf("%s ", fn);
  if (!strcmp(fn, "a")) {
    leg_addr(0, nt, t);
    return;
  }
  if (!strcmp(fn, "aaaa")) {
    leg_addr(1, nt, t);
    return;
  }
  if (!strcmp(fn, "caa")) {
    struct ares_caa_reply *out = NULL, *p;
    st = ares_parse_caa_reply(g_msg, (int)g_msglen, &out);
    printf("st=%d [", st);
    for (p = out; p; p = p->next) {
      printf("%s%d/", first ? "" : ";", p->critical);
      first = 0;
      h_hex(p->property, p->plength);
      printf("/%lu/", (unsigned long)(p->property ? strlen((const char *)p->property) : 0));
      h_hex(p->value, p->length);
      printf("/%lu", (unsigned long)p->length);
    }
    fputs("]", stdout);
    fail_out(fn, st, out);
    ares_free_data(out);
  } else if (!strcmp(fn, "mx")) {
    struct ares_mx_reply *out = NULL, *p;
    st = ares_parse_mx_reply(g_msg, (int)g_msglen, &out);
    printf("st=%d [", st);
    for (p = out; p; p = p->next) {
      fputs(first ? "" : ";", stdout);
      first = 0;
      hexstr(p->host);
      printf("/%u", (unsigned)p->priority);
    }
    fputs("]", stdout);
    fail_out(fn, st, out);
    ares_free_data(out);
  } else if (!strcmp(fn, "naptr")) {
    struct ares_naptr_reply *out = NULL, *p;
    st = ares_parse_naptr_reply(g_msg, (int)g_msglen, &out);
    printf("st=%d [", st);
    for (p = out; p; p = p->next) {
      printf("%s%u/%u/", first ? "" : ";", (unsigned)p->order, (unsigned)p->preference);
      first = 0;
      hexstr((const char *)p->flags);
      fputc('/', stdout);
      hexstr((const char *)p->service);
      fputc('/', stdout);
      hexstr((const char *)p->regexp);
      fputc('/', stdout);
      hexstr(p->replacement);
    }
    fputs("]", stdout);
    fail_out(fn, st, out);
    ares_free_data(out);
  } else if (!strcmp(fn, "srv")) {
    struct ares_srv_reply *out = NULL, *p;
    st = ares_parse_srv_reply(g_msg, (int)g_msglen, &out);
    printf("st=%d [", st);
    for (p = out; p; p = p->next) {
      fputs(first ? "" : ";", stdout);
      first = 0;
      hexstr(p->host);
      printf("/%u/%u/%u", (unsigned)p->priority, (unsigned)p->weight, (unsigned)p->port);
    }
    fputs("]", stdout);
    fail_out(fn, st, out);
    ares_free_data(out);
  } else if (!strcmp(fn, "uri")) {
    struct ares_uri_reply *out = NULL, *p;
    st = ares_parse_uri_reply(g_msg, (int)g_msglen, &out);
    printf("st=%d [", st);
    for (p = out; p; p = p->next) {
      printf("%s%u/%u/", first ? "" : ";", (unsigned)p->priority, (unsigned)p->weight);
      first = 0;
      hexstr(p->uri);
      printf("/%d", p->ttl);
    }
    fputs("]", stdout);
    fail_out(fn, st, out);
    ares_free_data(out);
  } else if (!strcmp(fn, "txt")) {
    struct ares_txt_reply *out = NULL, *p;
    st = ares_parse_txt_reply(g_msg, (int)g_msglen, &out);
    printf("st=%d [", st);
    for (p = out; p; p = p->next) {
      fputs(first ? "" : ";", stdout);
      first = 0;
      h_hex(p->txt, p->length);
      printf("/%lu/0", (unsigned long)p->length);
    }
    fputs("]", stdout);
    fail_out(fn, st, out);
    ares_free_data(out);
  } else if (!strcmp(fn, "txtext")) {
    struct ares_txt_ext *out = NULL, *p;
    st = ares_parse_txt_reply_ext(g_msg, (int)g_msglen, &out);
    printf("st=%d [", st);
    for (p = out; p; p = p->next) {
      fputs(first ? "" : ";", stdout);
      first = 0;
      h_hex(p->txt, p->length);
      printf("/%lu/%u", (unsigned long)p->length, (unsigned)p->record_start);
    }
    fputs("]", stdout);
    fail_out(fn, st, out);
    ares_free_data(out);
  } else if (!strcmp(fn, "soa")) {
    struct ares_soa_reply *out = NULL;
    st = ares_parse_soa_reply(g_msg, (int)g_msglen, &out);
    printf("st=%d soa=", st);
    if (out) {
      hexstr(out->nsname);
      fputc('/', stdout);
      hexstr(out->hostmaster);
      printf("/%u/%u/%u/%u/%u", out->serial, out->refresh, out->retry, out->expire, out->minttl);
    } else {
      fputc('~', stdout);
    }
    fail_out(fn, st, out);
    ares_free_data(out);
  } else if (!strcmp(fn, "ns")) {
    struct hostent *host = NULL;
    st = ares_parse_ns_reply(g_msg, (int)g_msglen, &host);
    printf("st=%d ", st);
    dump_hostent(host);
    fail_out(fn, st, host);
    if (host) {
      ares_free_hostent(host);
    }
  } else if (!strcmp(fn, "ptr") && nt >= 4) {
    struct hostent *host = NULL;
    unsigned char   addr[64];
    int             isnull = !strcmp(t[2], "~");
    size_t          alen   = isnull ? 0 : h_unhex(t[2], addr, sizeof(addr));
    st = ares_parse_ptr_reply(g_msg, (int)g_msglen, isnull ? NULL : addr, (int)alen, atoi(t[3]), &host);
    printf("st=%d ", st);
    dump_hostent(host);
    fail_out(fn, st, host);
    if (host) {
      ares_free_hostent(host);
    }
  } else {
    puts("bad-op");
    return;
  }
  ledger_check(fn, before);
  fputc('\n', stdout);
}

/* ---------------------------------------------------------------- virtual sockets for ares_sortaddrinfo */
#define MAXSRC 512
static char *g_src[MAXSRC];
static int   g_nsrc    = 0;
static int   g_srcidx  = 0; /* index of the node whose source is being probed */
static int   g_sockfd  = 100;
static int   g_lastdomain = 0;

static ares_socket_t v_socket(int domain, int type, int protocol, void *ud)
{
  (void)type;
  (void)protocol;
  (void)ud;
  g_lastdomain = domain;
  if (g_srcidx < g_nsrc && !strcmp(g_src[g_srcidx], "x")) {
    g_srcidx++;
    errno = EAFNOSUPPORT;
    return ARES_SOCKET_BAD;
  }
  return g_sockfd++;
}

static int v_close(ares_socket_t s, void *ud)
{
  (void)s;
  (void)ud;
  return 0;
}

static int v_setsockopt(ares_socket_t s, ares_socket_opt_t o, const void *v, ares_socklen_t l, void *ud)
{
  (void)s;
  (void)o;
  (void)v;
  (void)l;
  (void)ud;
  return 0;
}

static int v_connect(ares_socket_t s, const struct sockaddr *a, ares_socklen_t l, unsigned int flags, void *ud)
{
  (void)s;
  (void)a;
  (void)l;
  (void)flags;
  (void)ud;
  if (g_srcidx < g_nsrc && !strcmp(g_src[g_srcidx], "-")) {
    g_srcidx++;
    errno = ENETUNREACH;
    return -1;
  }
  return 0;
}

static ares_ssize_t v_recvfrom(ares_socket_t s, void *b, size_t n, int f, struct sockaddr *a, ares_socklen_t *l,
                               void *ud)
{
  (void)s;
  (void)b;
  (void)n;
  (void)f;
  (void)a;
  (void)l;
  (void)ud;
  errno = EWOULDBLOCK;
  return -1;
}

static ares_ssize_t v_sendto(ares_socket_t s, const void *b, size_t n, int f, const struct sockaddr *a,
                             ares_socklen_t l, void *ud)
{
  (void)s;
  (void)b;
  (void)f;
  (void)a;
  (void)l;
  (void)ud;
  return (ares_ssize_t)n;
}

static int v_getsockname(ares_socket_t s, struct sockaddr *a, ares_socklen_t *l, void *ud)
{
  unsigned char buf[16];
  size_t        n;
  (void)s;
  (void)ud;
  if (g_srcidx >= g_nsrc) {
    errno = EINVAL;
    return -1;
  }
  {
    /* "<v4hex>/<v6hex>": the source of the family of the socket being probed */
    char *ent   = g_src[g_srcidx];
    char *slash = strchr(ent, '/');
    if (slash != NULL && g_lastdomain == AF_INET6) {
      n = h_unhex(slash + 1, buf, sizeof(buf));
    } else if (slash != NULL) {
      char tmp[64];
      size_t k = (size_t)(slash - ent);
      if (k >= sizeof(tmp)) {
        k = sizeof(tmp) - 1;
      }
      memcpy(tmp, ent, k);
      tmp[k] = 0;
      n = h_unhex(tmp, buf, sizeof(buf));
    } else {
      n = h_unhex(ent, buf, sizeof(buf));
    }
  }
  g_srcidx++;
  if (n == 4) {
    struct sockaddr_in *sin = (struct sockaddr_in *)(void *)a;
    memset(sin, 0, sizeof(*sin));
    sin->sin_family = AF_INET;
    memcpy(&sin->sin_addr, buf, 4);
    *l = sizeof(*sin);
    return 0;
  }
  if (n == 16) {
    struct sockaddr_in6 *sin6 = (struct sockaddr_in6 *)(void *)a;
    memset(sin6, 0, sizeof(*sin6));
    sin6->sin6_family = AF_INET6;
    memcpy(&sin6->sin6_addr, buf, 16);
    *l = sizeof(*sin6);
    return 0;
  }
  errno = EINVAL;
  return -1;
}

static const struct ares_socket_functions_ex v_funcs = {
  1, 0, v_socket, v_close, v_setsockopt, v_connect, v_recvfrom, v_sendto, v_getsockname, NULL, NULL, NULL
};

static ares_channel_t *chan(void)
{
  if (g_chan == NULL) {
    struct ares_options o;
    memset(&o, 0, sizeof(o));
    o.lookups    = (char *)"f";
    o.hosts_path = (char *)"/dev/null";
    if (ares_init_options(&g_chan, &o, ARES_OPT_LOOKUPS | ARES_OPT_HOSTS_FILE) != ARES_SUCCESS) {
      g_chan = NULL;
      return NULL;
    }
    ares_set_socket_functions_ex(g_chan, &v_funcs, NULL);
  }
  return g_chan;
}

/* ---------------------------------------------------------------- addrinfo ops */
static struct ares_addrinfo *g_cb_ai;
static int                   g_cb_st;
static int                   g_cb_cnt;

static void ai_cb(void *arg, int status, int timeouts, struct ares_addrinfo *res)
{
  (void)arg;
  (void)timeouts;
  g_cb_cnt++;
  g_cb_st = status;
  g_cb_ai = res;
}

static void need_ai(void)
{
  if (g_ai == NULL) {
    g_ai = ares_malloc_zero(sizeof(*g_ai));
  }
}

static void do_ai(int nt, char **t)
{
  const char *op = t[0];
  if (!strcmp(op, "ainew")) {
    free_ai(g_ai);
    g_ai = NULL;
    need_ai();
    puts("ok");
  } else if (!strcmp(op, "aiadd") && nt == 3) {
    int st;
    if (g_rec == NULL) {
      puts("no-rec");
      return;
    }
    need_ai();
    st = (int)ares_parse_into_addrinfo(g_rec, atoi(t[2]) ? ARES_TRUE : ARES_FALSE, (unsigned short)atoi(t[1]), g_ai);
    printf("st=%d ", st);
    dump_ai(g_ai);
    fputc('\n', stdout);
  } else if (!strcmp(op, "ailocal") && nt == 4) {
    unsigned char              nm[600];
    size_t                     n = h_unhex(t[1], nm, sizeof(nm) - 1);
    struct ares_addrinfo_hints hints;
    int                        st;
    nm[n] = 0;
    memset(&hints, 0, sizeof(hints));
    hints.ai_family = atoi(t[3]);
    need_ai();
    st = (int)ares_addrinfo_localhost((const char *)nm, (unsigned short)atoi(t[2]), &hints, g_ai);
    printf("st=%d ", st);
    dump_ai(g_ai);
    fputc('\n', stdout);
  } else if (!strcmp(op, "aifake") && nt == 5) {
    unsigned char              nm[600];
    size_t                     n = h_unhex(t[1], nm, sizeof(nm) - 1);
    struct ares_addrinfo_hints hints;
    char                       svc[16];
    unsigned char              a4[4], a6[16];
    int                        r4, r6;
    ares_channel_t            *c = chan();
    nm[n]                        = 0;
    if (c == NULL) {
      puts("no-channel");
      return;
    }
    memset(&hints, 0, sizeof(hints));
    hints.ai_family = atoi(t[3]);
    hints.ai_flags  = atoi(t[4]) | ARES_AI_NUMERICSERV | ARES_AI_NOSORT;
    snprintf(svc, sizeof(svc), "%u", (unsigned)atoi(t[2]));
    r4 = ares_inet_pton(AF_INET, (const char *)nm, a4);
    r6 = ares_inet_pton(AF_INET6, (const char *)nm, a6);
    fputs("p4=", stdout);
    if (r4 >= 1) {
      h_hex(a4, 4);
    } else {
      fputc('~', stdout);
    }
    fputs(" p6=", stdout);
    if (r6 >= 1) {
      h_hex(a6, 16);
    } else {
      fputc('~', stdout);
    }
    g_cb_ai  = NULL;
    g_cb_cnt = 0;
    g_cb_st  = -1;
    ares_getaddrinfo(c, (const char *)nm, svc, &hints, ai_cb, NULL);
    if (g_cb_cnt != 1) {
      printf(" res=pending(%d)\n", g_cb_cnt);
      ares_cancel(c);
      if (g_cb_ai) {
        ares_freeaddrinfo(g_cb_ai);
      }
      return;
    }
    if (g_cb_st == ARES_SUCCESS && g_cb_ai) {
      free_ai(g_ai);
      g_ai = g_cb_ai;
      fputs(" res=lit ", stdout);
      dump_ai(g_ai);
      fputc('\n', stdout);
    } else {
      if (g_cb_ai) {
        ares_freeaddrinfo(g_cb_ai);
      }
      printf(" res=notliteral\n");
    }
  } else if (!strcmp(op, "ai2h") && nt == 2) {
    struct hostent *host = NULL;
    long            before;
    int             st;
    need_ai();
    before = g_live;
    st     = (int)ares_addrinfo2hostent(g_ai, atoi(t[1]), &host);
    printf("st=%d ", st);
    dump_hostent(host);
    if (st != ARES_SUCCESS && host != NULL) {
      printf("\n!MON outnotnull ares_addrinfo2hostent: status %d but *host set", st);
    }
    if (host) {
      ares_free_hostent(host);
    }
    ledger_check("ares_addrinfo2hostent/ares_free_hostent", before);
    fputc('\n', stdout);
  } else if (!strcmp(op, "ai2t") && nt == 3) {
    int            fam = atoi(t[1]);
    int            cap = atoi(t[2]);
    int            v6  = (fam == AF_INET6);
    size_t         esz = v6 ? sizeof(struct ares_addr6ttl) : sizeof(struct ares_addrttl);
    unsigned char *arr = malloc(((size_t)cap + PAD) * esz);
    size_t         n   = 0;
    size_t         i, k;
    int            st;
    int            painted = 1;
    need_ai();
    memset(arr, 0xA5, ((size_t)cap + PAD) * esz);
    st = (int)ares_addrinfo2addrttl(g_ai, fam, (size_t)cap, v6 ? NULL : (struct ares_addrttl *)(void *)arr,
                                    v6 ? (struct ares_addr6ttl *)(void *)arr : NULL, &n);
    printf("st=%d n=%lu ttls=[", st, (unsigned long)n);
    for (i = 0; i < n && i < (size_t)cap + PAD; i++) {
      if (i) {
        fputc(',', stdout);
      }
      if (v6) {
        struct ares_addr6ttl *e = &((struct ares_addr6ttl *)(void *)arr)[i];
        h_hex((const unsigned char *)&e->ip6addr, 16);
        printf("/%d", e->ttl);
      } else {
        struct ares_addrttl *e = &((struct ares_addrttl *)(void *)arr)[i];
        h_hex((const unsigned char *)&e->ipaddr, 4);
        printf("/%d", e->ttl);
      }
    }
    fputs("]", stdout);
    for (k = (size_t)cap * esz; k < ((size_t)cap + PAD) * esz; k++) {
      if (arr[k] != 0xA5) {
        painted = 0;
      }
    }
    if (n > (size_t)cap || !painted) {
      printf("\n!MON capacity ares_addrinfo2addrttl: offered %d element(s), *naddrttls=%lu, memory beyond the offered "
             "elements %s",
             cap, (unsigned long)n, painted ? "untouched" : "WRITTEN");
    }
    free(arr);
    fputc('\n', stdout);
  } else if (!strcmp(op, "aisort") && nt == 2) {
    struct ares_addrinfo_node sentinel;
    ares_channel_t           *c = chan();
    char                     *p;
    int                       st;
    if (c == NULL) {
      puts("no-channel");
      return;
    }
    need_ai();
    g_nsrc   = 0;
    g_srcidx = 0;
    if (strcmp(t[1], "-") != 0) {
      for (p = strtok(t[1], ","); p && g_nsrc < MAXSRC; p = strtok(NULL, ",")) {
        g_src[g_nsrc++] = p;
      }
    }
    memset(&sentinel, 0, sizeof(sentinel));
    sentinel.ai_next = g_ai->nodes;
    st               = (int)ares_sortaddrinfo(c, &sentinel);
    g_ai->nodes      = sentinel.ai_next;
    printf("st=%d ", st);
    dump_ai(g_ai);
    fputc('\n', stdout);
  } else {
    puts("bad-op");
  }
}

static void do_addr2ptr(int nt, char **t)
{
  struct ares_addr a;
  unsigned char    buf[16];
  size_t           n;
  char            *s;
  long             before = g_live;
  if (nt != 3) {
    puts("bad-op");
    return;
  }
  memset(&a, 0, sizeof(a));
  a.family = atoi(t[1]);
  n        = h_unhex(t[2], buf, sizeof(buf));
  if (a.family == AF_INET && n == 4) {
    memcpy(&a.addr.addr4, buf, 4);
  } else if (a.family == AF_INET6 && n == 16) {
    memcpy(&a.addr.addr6, buf, 16);
  } else if (a.family == AF_INET || a.family == AF_INET6) {
    puts("bad-op");
    return;
  }
  s = ares_dns_addr_to_ptr(&a);
  if (s == NULL) {
    puts("none");
  } else {
    hexstr(s);
    ares_free(s);
    ledger_check("ares_dns_addr_to_ptr/ares_free", before);
    fputc('\n', stdout);
  }
}

static void do_sortlist(int nt, char **t)
{
  int              fam;
  struct apattern  pats[64];
  size_t           npat = 0;
  char            *addrs[600];
  unsigned char    store[600][16];
  size_t           naddr = 0;
  size_t           alen;
  struct hostent   h;
  char            *p;
  char            *save = NULL;
  size_t           i;
  if (nt != 4) {
    puts("bad-op");
    return;
  }
  fam  = atoi(t[1]);
  alen = (fam == AF_INET) ? 4 : 16;
  if (fam != AF_INET && fam != AF_INET6) {
    puts("bad-op");
    return;
  }
  memset(pats, 0, sizeof(pats));
  if (strcmp(t[2], "-") != 0) {
    for (p = strtok_r(t[2], ",", &save); p && npat < 64; p = strtok_r(NULL, ",", &save)) {
      /* <fam>:<addrhex>/<mask> */
      char         *colon = strchr(p, ':');
      char         *slash = strchr(p, '/');
      unsigned char buf[16];
      size_t        n;
      if (!colon || !slash) {
        continue;
      }
      *colon = 0;
      *slash = 0;
      n      = h_unhex(colon + 1, buf, sizeof(buf));
      pats[npat].addr.family = atoi(p);
      if (pats[npat].addr.family == AF_INET && n == 4) {
        memcpy(&pats[npat].addr.addr.addr4, buf, 4);
      } else if (pats[npat].addr.family == AF_INET6 && n == 16) {
        memcpy(&pats[npat].addr.addr.addr6, buf, 16);
      } else {
        continue;
      }
      pats[npat].mask = (unsigned char)atoi(slash + 1);
      npat++;
    }
  }
  if (strcmp(t[3], "-") != 0) {
    for (p = strtok_r(t[3], ",", &save); p && naddr < 599; p = strtok_r(NULL, ",", &save)) {
      if (h_unhex(p, store[naddr], 16) != alen) {
        continue;
      }
      addrs[naddr] = (char *)store[naddr];
      naddr++;
    }
  }
  addrs[naddr] = NULL;
  memset(&h, 0, sizeof(h));
  h.h_addrtype  = fam;
  h.h_length    = (int)alen;
  h.h_addr_list = addrs;
  if (fam == AF_INET6) {
    sort6_addresses(&h, pats, npat);
  } else {
    sort_addresses(&h, pats, npat);
  }
  fputc('[', stdout);
  for (i = 0; addrs[i]; i++) {
    if (i) {
      fputc(',', stdout);
    }
    h_hex((const unsigned char *)addrs[i], alen);
  }
  fputs("]\n", stdout);
}

int main(void)
{
  char *t[MAXTOK];
  int   nt;
  ares_library_init_mem(ARES_LIB_INIT_ALL, l_malloc, l_free, l_realloc);
  while ((nt = h_next(t)) >= 0) {
    int i;
    if (nt == 0) {
      puts("");
    } else if (!strcmp(t[0], "case") || t[0][0] == '#') {
      if (t[0][0] != '#') {
        reset_case();
      }
      for (i = 0; i < nt; i++) {
        printf("%s%s", i ? " " : "", t[i]);
      }
      puts("");
    } else if (!strcmp(t[0], "msg") && nt == 2) {
      if (g_rec) {
        ares_dns_record_destroy(g_rec);
        g_rec = NULL;
      }
      g_msglen = h_unhex(t[1], g_msg, sizeof(g_msg));
      g_have   = 1;
      g_recst  = (int)ares_dns_parse(g_msg, g_msglen, 0, &g_rec);
      printf("rec st=%d ", g_recst);
      if (g_recst == ARES_SUCCESS && g_rec) {
        hcodec_dump_record(g_rec);
      } else {
        fputc('-', stdout);
        if (g_rec != NULL) {
          fputs("\n!MON outnotnull ares_dns_parse: failure status but record returned", stdout);
        }
      }
      fputc('\n', stdout);
    } else if (!strcmp(t[0], "leg") && nt >= 2) {
      do_leg(nt, t);
    } else if (!strncmp(t[0], "ai", 2)) {
      do_ai(nt, t);
    } else if (!strcmp(t[0], "addr2ptr")) {
      do_addr2ptr(nt, t);
    } else if (!strcmp(t[0], "sortlist")) {
      do_sortlist(nt, t);
    } else {
      puts("bad-op");
    }
    fflush(stdout);
  }
  reset_case();
  if (g_chan) {
    ares_destroy(g_chan);
  }
  ares_library_cleanup();
  if (g_live != 0) {
    printf("!MON leak end-of-run: %ld allocation(s) outstanding\n", g_live);
  }
  return 0;
}
