/* Correspondence harness for the pure protocol cores (C17 cookies, C08 query cache, C06 timeout arithmetic).
 *
 * A real channel is created (explicit servers, no system configuration, virtual clock and scripted RNG through the
 * CARES_VERIF_HOOKS hooks) and the internal, non-static entry points are called directly with constructed
 * arguments:
 *   ares_cookie_apply / ares_cookie_validate   on a hand-made ares_conn_t that points at a real ares_server_t
 *   ares_qcache_insert / ares_qcache_fetch / ares_qcache_flush
 *   ares_metrics_record / ares_metrics_server_timeout
 * plus one API-level scenario (`tq`): a query against silent virtual servers, the per-attempt value of
 * ares_timeout() being the observable of the static ares_calc_query_timeout().
 * One output line per input line. */
#include "ares_private.h"
#include "hcommon.h"
#include <errno.h>

#ifndef CARES_VERIF_HOOKS
#  error "compile with -DCARES_VERIF_HOOKS"
#endif
extern void (*ares_verif_clock_cb)(ares_timeval_t *now);
extern void (*ares_verif_rand_cb)(unsigned char *buf, size_t len);

/* ---------------------------------------------------------------- virtual clock / rng */
static ares_timeval_t vnow;
static unsigned char  rnd_script[256];
static size_t         rnd_len, rnd_pos;
static unsigned long  rnd_calls;   /* calls of ares_rand_bytes since last reset */
static unsigned char  rnd_fill = 0x5a;
static unsigned int   rnd_last16;  /* last 2-byte draw, little endian as the code reads it */
static int            rnd_saw16;

static void clock_cb(ares_timeval_t *now)
{
  *now = vnow;
}

static void rand_cb(unsigned char *buf, size_t len)
{
  size_t i;
  rnd_calls++;
  for (i = 0; i < len; i++) {
    if (rnd_pos < rnd_len) {
      buf[i] = rnd_script[rnd_pos++];
    } else {
      buf[i] = rnd_fill;
      rnd_fill = (unsigned char)(rnd_fill * 5 + 17);
    }
  }
  if (len == 2) {
    unsigned short r;
    memcpy(&r, buf, 2);
    rnd_last16 = r;
    rnd_saw16  = 1;
  }
}

static void rnd_set(const char *hex)
{
  rnd_len   = h_unhex(hex, rnd_script, sizeof(rnd_script));
  rnd_pos   = 0;
  rnd_calls = 0;
}

static void vadv_usec(unsigned long long us)
{
  unsigned long long u = (unsigned long long)vnow.usec + us;
  vnow.sec += (ares_int64_t)(u / 1000000ULL);
  vnow.usec = (unsigned int)(u % 1000000ULL);
}

/* ---------------------------------------------------------------- virtual sockets (all servers silent) */
static int           vs_nextfd = 100;
static unsigned long vs_sent;          /* datagrams / stream writes accepted */
static int           vs_last_dst = -1; /* last octet of the destination of the last connect() */

static ares_socket_t vs_socket(int domain, int type, int protocol, void *ud)
{
  (void)domain; (void)type; (void)protocol; (void)ud;
  return vs_nextfd++;
}
static int vs_close(ares_socket_t s, void *ud)
{
  (void)s; (void)ud;
  return 0;
}
static int vs_setsockopt(ares_socket_t s, ares_socket_opt_t opt, const void *val, ares_socklen_t len, void *ud)
{
  (void)s; (void)opt; (void)val; (void)len; (void)ud;
  return 0;
}
static int vs_connect(ares_socket_t s, const struct sockaddr *a, ares_socklen_t alen, unsigned int flags, void *ud)
{
  (void)s; (void)alen; (void)flags; (void)ud;
  if (a->sa_family == AF_INET) {
    const struct sockaddr_in *in = (const struct sockaddr_in *)a;
    vs_last_dst = (int)(ntohl(in->sin_addr.s_addr) & 0xff);
  }
  return 0;
}
static ares_ssize_t vs_recvfrom(ares_socket_t s, void *b, size_t l, int f, struct sockaddr *a, ares_socklen_t *al,
                                void *ud)
{
  (void)s; (void)b; (void)l; (void)f; (void)a; (void)al; (void)ud;
  errno = EAGAIN;
  return -1;
}
static ares_ssize_t vs_sendto(ares_socket_t s, const void *b, size_t l, int f, const struct sockaddr *a,
                              ares_socklen_t al, void *ud)
{
  (void)s; (void)b; (void)f; (void)a; (void)al; (void)ud;
  vs_sent++;
  return (ares_ssize_t)l;
}
static int vs_getsockname(ares_socket_t s, struct sockaddr *a, ares_socklen_t *alen, void *ud)
{
  struct sockaddr_in in;
  (void)s; (void)ud;
  memset(&in, 0, sizeof(in));
  in.sin_family      = AF_INET;
  in.sin_addr.s_addr = htonl(0x0a000064);
  in.sin_port        = htons(40000);
  if (*alen < (ares_socklen_t)sizeof(in)) {
    errno = EINVAL;
    return -1;
  }
  memcpy(a, &in, sizeof(in));
  *alen = (ares_socklen_t)sizeof(in);
  return 0;
}
static const struct ares_socket_functions_ex vs_funcs = { 1, ARES_SOCKFUNC_FLAG_NONBLOCKING, vs_socket, vs_close,
                                                          vs_setsockopt, vs_connect, vs_recvfrom, vs_sendto,
                                                          vs_getsockname, NULL, NULL, NULL };

/* ---------------------------------------------------------------- channel */
static ares_channel_t *chan = NULL;

#define MAXQ 64
typedef struct {
  ares_query_t *q; /* hand-made query (never registered with the channel) */
} fq_t;
static fq_t fqs[MAXQ];

static void fq_free(int i)
{
  if (fqs[i].q) {
    ares_dns_record_destroy(fqs[i].q->query);
    free(fqs[i].q);
    fqs[i].q = NULL;
  }
}

static void chan_destroy(void)
{
  int i;
  for (i = 0; i < MAXQ; i++) {
    fq_free(i);
  }
  if (chan) {
    ares_destroy(chan);
    chan = NULL;
  }
}

static int kvnum(int nt, char **t, const char *key, long long dflt, long long *out)
{
  int    i;
  size_t kl = strlen(key);
  *out      = dflt;
  for (i = 1; i < nt; i++) {
    if (!strncmp(t[i], key, kl) && t[i][kl] == '=') {
      *out = strtoll(t[i] + kl + 1, NULL, 10);
      return 1;
    }
  }
  return 0;
}

/* chan nsrv=N tries=T timeout=ms maxtimeout=ms cache=ttl flags=F rotate=0|1 */
static int chan_create(int nt, char **t)
{
  struct ares_options opts;
  int                 optmask;
  long long           nsrv, tries, timeout, maxtimeout, cache, flags, rotate;
  struct in_addr      srv[8];
  int                 i;
  ares_status_t       st;

  chan_destroy();
  kvnum(nt, t, "nsrv", 2, &nsrv);
  kvnum(nt, t, "tries", 3, &tries);
  kvnum(nt, t, "timeout", 2000, &timeout);
  kvnum(nt, t, "maxtimeout", 0, &maxtimeout);
  kvnum(nt, t, "cache", 3600, &cache);
  kvnum(nt, t, "flags", 0, &flags);
  kvnum(nt, t, "rotate", 0, &rotate);
  if (nsrv < 1 || nsrv > 8) {
    return 0;
  }
  memset(&opts, 0, sizeof(opts));
  optmask = ARES_OPT_FLAGS | ARES_OPT_TIMEOUTMS | ARES_OPT_TRIES | ARES_OPT_LOOKUPS | ARES_OPT_RESOLVCONF |
            ARES_OPT_HOSTS_FILE | ARES_OPT_QUERY_CACHE | ARES_OPT_DOMAINS | ARES_OPT_SERVERS |
            (rotate ? ARES_OPT_ROTATE : ARES_OPT_NOROTATE);
  opts.flags           = (int)flags;
  opts.timeout         = (int)timeout;
  opts.tries           = (int)tries;
  opts.lookups         = "b";
  opts.resolvconf_path = "/dev/null";
  opts.hosts_path      = "/dev/null";
  opts.qcache_max_ttl  = (unsigned int)cache;
  opts.ndomains        = 0;
  opts.domains         = NULL;
  for (i = 0; i < nsrv; i++) {
    srv[i].s_addr = htonl(0x0a000001u + (unsigned int)i);
  }
  opts.servers  = srv;
  opts.nservers = (int)nsrv;
  if (maxtimeout > 0) {
    optmask         |= ARES_OPT_MAXTIMEOUTMS;
    opts.maxtimeout  = (int)maxtimeout;
  }
  st = (ares_status_t)ares_init_options(&chan, &opts, optmask);
  if (st != ARES_SUCCESS) {
    chan = NULL;
    return 0;
  }
  if (ares_set_socket_functions_ex(chan, &vs_funcs, NULL) != ARES_SUCCESS) {
    return 0;
  }
  vs_nextfd = 100;
  vs_sent   = 0;
  return 1;
}

static int chan_need(void)
{
  if (chan == NULL) {
    char *t[1] = { "chan" };
    return chan_create(1, t);
  }
  return 1;
}

static ares_server_t *server_by_idx(size_t idx)
{
  ares_slist_node_t *n;
  for (n = ares_slist_node_first(chan->servers); n != NULL; n = ares_slist_node_next(n)) {
    ares_server_t *s = ares_slist_node_val(n);
    if (s->idx == idx) {
      return s;
    }
  }
  return NULL;
}

/* ---------------------------------------------------------------- record construction */
static ares_dns_rr_t *add_opt(ares_dns_record_t *rec)
{
  ares_dns_rr_t *rr = NULL;
  if (ares_dns_record_rr_add(&rr, rec, ARES_SECTION_ADDITIONAL, "", ARES_REC_TYPE_OPT, ARES_CLASS_IN, 0) !=
      ARES_SUCCESS) {
    return NULL;
  }
  ares_dns_rr_set_u16(rr, ARES_RR_OPT_UDP_SIZE, 1232);
  ares_dns_rr_set_u8(rr, ARES_RR_OPT_VERSION, 0);
  ares_dns_rr_set_u16(rr, ARES_RR_OPT_FLAGS, 0);
  return rr;
}

/* cookie spec: "noopt" (no OPT RR), "none" (OPT without cookie), "-" (zero-length value), hex */
static int add_cookie_spec(ares_dns_record_t *rec, const char *spec)
{
  ares_dns_rr_t *rr;
  unsigned char  c[128];
  size_t         n;
  if (!strcmp(spec, "noopt")) {
    return 1;
  }
  rr = add_opt(rec);
  if (rr == NULL) {
    return 0;
  }
  if (!strcmp(spec, "none")) {
    return 1;
  }
  n = h_unhex(spec, c, sizeof(c));
  return ares_dns_rr_set_opt(rr, ARES_RR_OPT_OPTIONS, ARES_OPT_PARAM_COOKIE, c, n) == ARES_SUCCESS;
}

static void print_cookie_of(const ares_dns_record_t *rec)
{
  const ares_dns_rr_t *rr  = ares_dns_get_opt_rr_const(rec);
  const unsigned char *val = NULL;
  size_t               len = 0;
  if (rr == NULL) {
    fputs("noopt", stdout);
    return;
  }
  if (!ares_dns_rr_get_opt_byid(rr, ARES_RR_OPT_OPTIONS, ARES_OPT_PARAM_COOKIE, &val, &len)) {
    fputs("none", stdout);
    return;
  }
  h_hex(val, len);
}

static int parse_addr(const char *hex, struct ares_addr *a)
{
  unsigned char b[16];
  size_t        n = h_unhex(hex, b, sizeof(b));
  memset(a, 0, sizeof(*a));
  if (n == 0 && !strcmp(hex, "-")) {
    /* no known local address: what ares_conn_set_self_ip() leaves when the socket functions have no getsockname */
    a->family = AF_UNSPEC;
    return 1;
  }
  if (n == 4) {
    a->family = AF_INET;
    memcpy(&a->addr.addr4, b, 4);
    return 1;
  }
  if (n == 16) {
    a->family = AF_INET6;
    memcpy(&a->addr.addr6, b, 16);
    return 1;
  }
  return 0;
}

/* ---------------------------------------------------------------- C17: cookies */
/* qnew <q> <cookie-spec> <tcp> <ctc> */
static void do_qnew(int nt, char **t)
{
  int                qi;
  ares_dns_record_t *rec = NULL;
  ares_query_t      *q;
  if (nt != 5 || !chan_need()) {
    puts("bad-op");
    return;
  }
  qi = atoi(t[1]);
  if (qi < 0 || qi >= MAXQ) {
    puts("bad-op");
    return;
  }
  fq_free(qi);
  if (ares_dns_record_create(&rec, (unsigned short)(qi + 1), ARES_FLAG_RD, ARES_OPCODE_QUERY, ARES_RCODE_NOERROR) !=
        ARES_SUCCESS ||
      ares_dns_record_query_add(rec, "example.com", ARES_REC_TYPE_A, ARES_CLASS_IN) != ARES_SUCCESS ||
      !add_cookie_spec(rec, t[2])) {
    ares_dns_record_destroy(rec);
    puts("err");
    return;
  }
  q = calloc(1, sizeof(*q));
  q->channel          = chan;
  q->qid              = (unsigned short)(qi + 1);
  q->query            = rec;
  q->using_tcp        = atoi(t[3]) ? ARES_TRUE : ARES_FALSE;
  q->cookie_try_count = (size_t)strtoul(t[4], NULL, 10);
  fqs[qi].q           = q;
  puts("ok");
}

/* apply <q> <srv> <iphex> <tcp> <rndhex>  ->  cookie=<..> draws=<n> */
static void do_apply(int nt, char **t)
{
  int            qi;
  ares_conn_t    conn;
  ares_server_t *srv;
  ares_status_t  st;
  if (nt != 6 || !chan_need()) {
    puts("bad-op");
    return;
  }
  qi = atoi(t[1]);
  if (qi < 0 || qi >= MAXQ || fqs[qi].q == NULL) {
    puts("bad-handle");
    return;
  }
  srv = server_by_idx((size_t)atoi(t[2]));
  memset(&conn, 0, sizeof(conn));
  if (srv == NULL || !parse_addr(t[3], &conn.self_ip)) {
    puts("bad-op");
    return;
  }
  conn.server = srv;
  conn.fd     = ARES_SOCKET_BAD;
  conn.flags  = atoi(t[4]) ? ARES_CONN_FLAG_TCP : ARES_CONN_FLAG_NONE;
  rnd_set(t[5]);
  st = ares_cookie_apply(fqs[qi].q->query, &conn, &vnow);
  if (st != ARES_SUCCESS) {
    puts("err");
    return;
  }
  fputs("cookie=", stdout);
  print_cookie_of(fqs[qi].q->query);
  printf(" draws=%lu\n", rnd_calls);
}

/* validate <q> <srv> <resp-cookie-spec> <rcode>  ->  accept|drop rq=<0|1> ctc=<n> tcp=<0|1> */
static void do_validate(int nt, char **t)
{
  int                qi;
  ares_conn_t        conn;
  ares_server_t     *srv;
  ares_status_t      st;
  ares_dns_record_t *resp    = NULL;
  ares_array_t      *requeue = NULL;
  ares_query_t      *q;
  if (nt != 5 || !chan_need()) {
    puts("bad-op");
    return;
  }
  qi = atoi(t[1]);
  if (qi < 0 || qi >= MAXQ || fqs[qi].q == NULL) {
    puts("bad-handle");
    return;
  }
  q   = fqs[qi].q;
  srv = server_by_idx((size_t)atoi(t[2]));
  if (srv == NULL) {
    puts("bad-op");
    return;
  }
  if (ares_dns_record_create(&resp, q->qid, ARES_FLAG_QR | ARES_FLAG_RD | ARES_FLAG_RA, ARES_OPCODE_QUERY,
                             (ares_dns_rcode_t)atoi(t[4])) != ARES_SUCCESS ||
      ares_dns_record_query_add(resp, "example.com", ARES_REC_TYPE_A, ARES_CLASS_IN) != ARES_SUCCESS ||
      !add_cookie_spec(resp, t[3])) {
    ares_dns_record_destroy(resp);
    puts("badresp");
    return;
  }
  memset(&conn, 0, sizeof(conn));
  conn.server = srv;
  conn.fd     = ARES_SOCKET_BAD;
  rnd_set("-");
  st = ares_cookie_validate(q, resp, &conn, &vnow, &requeue);
  printf("%s rq=%lu ctc=%lu tcp=%d\n", st == ARES_SUCCESS ? "accept" : "drop",
         (unsigned long)(requeue ? ares_array_len(requeue) : 0), (unsigned long)q->cookie_try_count,
         q->using_tcp ? 1 : 0);
  ares_array_destroy(requeue);
  ares_dns_record_destroy(resp);
}

static const char *ckstate_name(ares_cookie_state_t s)
{
  switch (s) {
    case ARES_COOKIE_INITIAL:
      return "initial";
    case ARES_COOKIE_GENERATED:
      return "generated";
    case ARES_COOKIE_SUPPORTED:
      return "supported";
    case ARES_COOKIE_UNSUPPORTED:
      return "unsupported";
  }
  return "?";
}

/* ckstate <srv>   (debugging aid; not part of the generated streams) */
static void do_ckstate(int nt, char **t)
{
  ares_server_t *srv;
  if (nt != 2 || !chan_need() || (srv = server_by_idx((size_t)atoi(t[1]))) == NULL) {
    puts("bad-op");
    return;
  }
  printf("%s client=", ckstate_name(srv->cookie.state));
  h_hex(srv->cookie.client, sizeof(srv->cookie.client));
  fputs(" server=", stdout);
  h_hex(srv->cookie.server, srv->cookie.server_len);
  printf(" cts=%lld.%06u uts=%lld.%06u\n", (long long)srv->cookie.client_ts.sec, srv->cookie.client_ts.usec,
         (long long)srv->cookie.unsupported_ts.sec, srv->cookie.unsupported_ts.usec);
}

/* ---------------------------------------------------------------- C08: query cache */
/* request tokens: <opcode> <rd> <cd> <qlist>;  qlist = namehex/qtype/qclass[,namehex/qtype/qclass...] */
static int add_questions(ares_dns_record_t *rec, const char *qlist)
{
  char *copy = strdup(qlist);
  char *save = NULL;
  char *q;
  int   ok   = 1;
  for (q = strtok_r(copy, ",", &save); q != NULL && ok; q = strtok_r(NULL, ",", &save)) {
    unsigned char nm[600];
    size_t        n;
    unsigned int  ty, cl;
    char         *s1 = strchr(q, '/');
    if (s1 == NULL || sscanf(s1, "/%u/%u", &ty, &cl) != 2) {
      ok = 0;
      break;
    }
    *s1   = 0;
    n     = h_unhex(q, nm, sizeof(nm) - 1);
    nm[n] = 0;
    if (memchr(nm, 0, n) != NULL ||
        ares_dns_record_query_add(rec, (const char *)nm, (ares_dns_rec_type_t)ty, (ares_dns_class_t)cl) !=
          ARES_SUCCESS) {
      ok = 0;
    }
  }
  free(copy);
  return ok;
}

static ares_dns_record_t *build_req(char **t)
{
  ares_dns_record_t *rec   = NULL;
  unsigned short     flags = 0;
  if (atoi(t[1])) {
    flags |= ARES_FLAG_RD;
  }
  if (atoi(t[2])) {
    flags |= ARES_FLAG_CD;
  }
  if (ares_dns_record_create(&rec, 0, flags, (ares_dns_opcode_t)atoi(t[0]), ARES_RCODE_NOERROR) != ARES_SUCCESS) {
    return NULL;
  }
  if (!add_questions(rec, t[3])) {
    ares_dns_record_destroy(rec);
    return NULL;
  }
  return rec;
}

/* one RR from "sect/type/ttl/min" */
static int add_rr(ares_dns_record_t *rec, const char *spec)
{
  unsigned int   sect, type, ttl, minimum;
  ares_dns_rr_t *rr = NULL;
  ares_status_t  st;
  static const unsigned char raw[] = { 1, 2, 3 };
  if (sscanf(spec, "%u/%u/%u/%u", &sect, &type, &ttl, &minimum) != 4 || sect < 1 || sect > 3) {
    return 0;
  }
  switch (type) {
    case ARES_REC_TYPE_A:
      {
        struct in_addr a;
        a.s_addr = htonl(0x01020304);
        st       = ares_dns_record_rr_add(&rr, rec, (ares_dns_section_t)sect, "example.com", ARES_REC_TYPE_A,
                                          ARES_CLASS_IN, ttl);
        if (st == ARES_SUCCESS) {
          st = ares_dns_rr_set_addr(rr, ARES_RR_A_ADDR, &a);
        }
      }
      break;
    case ARES_REC_TYPE_AAAA:
      {
        struct ares_in6_addr a6;
        memset(&a6, 0x20, sizeof(a6));
        st = ares_dns_record_rr_add(&rr, rec, (ares_dns_section_t)sect, "example.com", ARES_REC_TYPE_AAAA,
                                    ARES_CLASS_IN, ttl);
        if (st == ARES_SUCCESS) {
          st = ares_dns_rr_set_addr6(rr, ARES_RR_AAAA_ADDR, &a6);
        }
      }
      break;
    case ARES_REC_TYPE_NS:
    case ARES_REC_TYPE_CNAME:
    case ARES_REC_TYPE_PTR:
      st = ares_dns_record_rr_add(&rr, rec, (ares_dns_section_t)sect, "example.com", (ares_dns_rec_type_t)type,
                                  ARES_CLASS_IN, ttl);
      if (st == ARES_SUCCESS) {
        st = ares_dns_rr_set_str(rr,
                                 type == ARES_REC_TYPE_NS      ? ARES_RR_NS_NSDNAME
                                 : type == ARES_REC_TYPE_CNAME ? ARES_RR_CNAME_CNAME
                                                               : ARES_RR_PTR_DNAME,
                                 "t.example.com");
      }
      break;
    case ARES_REC_TYPE_SOA:
      st = ares_dns_record_rr_add(&rr, rec, (ares_dns_section_t)sect, "example.com", ARES_REC_TYPE_SOA, ARES_CLASS_IN,
                                  ttl);
      if (st == ARES_SUCCESS) {
        ares_dns_rr_set_str(rr, ARES_RR_SOA_MNAME, "ns.example.com");
        ares_dns_rr_set_str(rr, ARES_RR_SOA_RNAME, "root.example.com");
        ares_dns_rr_set_u32(rr, ARES_RR_SOA_SERIAL, 1);
        ares_dns_rr_set_u32(rr, ARES_RR_SOA_REFRESH, 2);
        ares_dns_rr_set_u32(rr, ARES_RR_SOA_RETRY, 3);
        ares_dns_rr_set_u32(rr, ARES_RR_SOA_EXPIRE, 4);
        st = ares_dns_rr_set_u32(rr, ARES_RR_SOA_MINIMUM, minimum);
      }
      break;
    case ARES_REC_TYPE_TXT:
      st = ares_dns_record_rr_add(&rr, rec, (ares_dns_section_t)sect, "example.com", ARES_REC_TYPE_TXT, ARES_CLASS_IN,
                                  ttl);
      if (st == ARES_SUCCESS) {
        st = ares_dns_rr_add_abin(rr, ARES_RR_TXT_DATA, (const unsigned char *)"txt", 3);
      }
      break;
    case ARES_REC_TYPE_SIG:
      st = ares_dns_record_rr_add(&rr, rec, (ares_dns_section_t)sect, "example.com", ARES_REC_TYPE_SIG, ARES_CLASS_ANY,
                                  ttl);
      if (st == ARES_SUCCESS) {
        ares_dns_rr_set_u16(rr, ARES_RR_SIG_TYPE_COVERED, 1);
        ares_dns_rr_set_u8(rr, ARES_RR_SIG_ALGORITHM, 8);
        ares_dns_rr_set_u8(rr, ARES_RR_SIG_LABELS, 2);
        ares_dns_rr_set_u32(rr, ARES_RR_SIG_ORIGINAL_TTL, 300);
        ares_dns_rr_set_u32(rr, ARES_RR_SIG_EXPIRATION, 10);
        ares_dns_rr_set_u32(rr, ARES_RR_SIG_INCEPTION, 5);
        ares_dns_rr_set_u16(rr, ARES_RR_SIG_KEY_TAG, 7);
        ares_dns_rr_set_str(rr, ARES_RR_SIG_SIGNERS_NAME, "example.com");
        st = ares_dns_rr_set_bin(rr, ARES_RR_SIG_SIGNATURE, raw, sizeof(raw));
      }
      break;
    case ARES_REC_TYPE_OPT:
      st = ares_dns_record_rr_add(&rr, rec, (ares_dns_section_t)sect, "", ARES_REC_TYPE_OPT, ARES_CLASS_IN, ttl);
      if (st == ARES_SUCCESS) {
        ares_dns_rr_set_u16(rr, ARES_RR_OPT_UDP_SIZE, 1232);
        ares_dns_rr_set_u8(rr, ARES_RR_OPT_VERSION, 0);
        st = ares_dns_rr_set_u16(rr, ARES_RR_OPT_FLAGS, 0);
      }
      break;
    default:
      /* a type the library has no codec for: carried as RAW_RR */
      st = ares_dns_record_rr_add(&rr, rec, (ares_dns_section_t)sect, "example.com", ARES_REC_TYPE_RAW_RR,
                                  ARES_CLASS_IN, ttl);
      if (st == ARES_SUCCESS) {
        ares_dns_rr_set_u16(rr, ARES_RR_RAW_RR_TYPE, (unsigned short)type);
        st = ares_dns_rr_set_bin(rr, ARES_RR_RAW_RR_DATA, raw, sizeof(raw));
      }
      break;
  }
  return st == ARES_SUCCESS;
}

/* response tokens: <id> <rcode> <tc> <rr>* ; questions copied from the request tokens */
static ares_dns_record_t *build_resp(char **rq, int n, char **t)
{
  ares_dns_record_t *rec   = NULL;
  unsigned short     flags = ARES_FLAG_QR | ARES_FLAG_RA;
  int                i;
  if (n < 3) {
    return NULL;
  }
  if (atoi(t[2])) {
    flags |= ARES_FLAG_TC;
  }
  if (ares_dns_record_create(&rec, (unsigned short)atoi(t[0]), flags, (ares_dns_opcode_t)atoi(rq[0]),
                             (ares_dns_rcode_t)atoi(t[1])) != ARES_SUCCESS) {
    return NULL;
  }
  if (!add_questions(rec, rq[3])) {
    ares_dns_record_destroy(rec);
    return NULL;
  }
  for (i = 3; i < n; i++) {
    if (!add_rr(rec, t[i])) {
      ares_dns_record_destroy(rec);
      return NULL;
    }
  }
  return rec;
}

/* qins <now_sec> <4 request tokens> <id> <rcode> <tc> <rr>*   ->  ok | no | badreq */
static void do_qins(int nt, char **t)
{
  ares_dns_record_t *req, *resp;
  ares_query_t       q;
  ares_timeval_t     now;
  ares_status_t      st;
  if (nt < 9 || !chan_need()) {
    puts("bad-op");
    return;
  }
  now.sec  = (ares_int64_t)strtoll(t[1], NULL, 10);
  now.usec = 0;
  req      = build_req(t + 2);
  if (req == NULL) {
    puts("badreq");
    return;
  }
  resp = build_resp(t + 2, nt - 6, t + 6);
  if (resp == NULL) {
    ares_dns_record_destroy(req);
    puts("badresp");
    return;
  }
  memset(&q, 0, sizeof(q));
  q.channel = chan;
  q.query   = req;
  st        = ares_qcache_insert(chan, &now, &q, resp);
  if (st != ARES_SUCCESS) {
    ares_dns_record_destroy(resp);
  }
  ares_dns_record_destroy(req);
  puts(st == ARES_SUCCESS ? "ok" : "no");
}

static void print_ttls(const ares_dns_record_t *rec)
{
  int sect;
  int first = 1;
  fputc('[', stdout);
  for (sect = ARES_SECTION_ANSWER; sect <= ARES_SECTION_ADDITIONAL; sect++) {
    size_t i;
    for (i = 0; i < ares_dns_record_rr_cnt(rec, (ares_dns_section_t)sect); i++) {
      const ares_dns_rr_t *rr = ares_dns_record_rr_get_const(rec, (ares_dns_section_t)sect, i);
      if (ares_dns_rr_get_type(rr) == ARES_REC_TYPE_OPT) {
        continue;
      }
      printf("%s%u", first ? "" : " ", ares_dns_rr_get_ttl(rr));
      first = 0;
    }
  }
  fputc(']', stdout);
}

/* qget <now_sec> <4 request tokens>  ->  miss | hit id=<n> api=[ttls] wire=[ttls] | badreq */
static void do_qget(int nt, char **t)
{
  ares_dns_record_t       *req;
  const ares_dns_record_t *resp = NULL;
  ares_timeval_t           now;
  ares_status_t            st;
  if (nt != 6 || !chan_need()) {
    puts("bad-op");
    return;
  }
  now.sec  = (ares_int64_t)strtoll(t[1], NULL, 10);
  now.usec = 0;
  req      = build_req(t + 2);
  if (req == NULL) {
    puts("badreq");
    return;
  }
  st = ares_qcache_fetch(chan, &now, req, &resp);
  ares_dns_record_destroy(req);
  if (st == ARES_ENOTFOUND) {
    puts("miss");
    return;
  }
  if (st != ARES_SUCCESS || resp == NULL) {
    puts("err");
    return;
  }
  printf("hit id=%u rc=%u tc=%d api=", (unsigned int)ares_dns_record_get_id(resp),
         (unsigned int)ares_dns_record_get_rcode(resp), (ares_dns_record_get_flags(resp) & ARES_FLAG_TC) ? 1 : 0);
  print_ttls(resp);
  fputs(" wire=", stdout);
  {
    unsigned char     *buf = NULL;
    size_t             len = 0;
    ares_dns_record_t *re  = NULL;
    if (ares_dns_write(resp, &buf, &len) != ARES_SUCCESS) {
      fputs("err", stdout);
    } else if (ares_dns_parse(buf, len, 0, &re) != ARES_SUCCESS) {
      fputs("reparse-err", stdout);
    } else {
      print_ttls(re);
    }
    ares_free_string(buf);
    ares_dns_record_destroy(re);
  }
  fputc('\n', stdout);
}

/* ---------------------------------------------------------------- C06: metrics and timeouts */
/* mrec <srv> <sent_sec> <sent_usec> <status-ok:0|1> <rcode>   (now = virtual clock) */
static void do_mrec(int nt, char **t)
{
  ares_server_t     *srv;
  ares_query_t       q;
  ares_dns_record_t *resp = NULL;
  if (nt != 6 || !chan_need() || (srv = server_by_idx((size_t)atoi(t[1]))) == NULL) {
    puts("bad-op");
    return;
  }
  memset(&q, 0, sizeof(q));
  q.channel = chan;
  q.ts.sec  = (ares_int64_t)strtoll(t[2], NULL, 10);
  q.ts.usec = (unsigned int)strtoul(t[3], NULL, 10);
  if (ares_dns_record_create(&resp, 1, ARES_FLAG_QR, ARES_OPCODE_QUERY, (ares_dns_rcode_t)atoi(t[5])) !=
      ARES_SUCCESS) {
    puts("badresp");
    return;
  }
  ares_metrics_record(&q, srv, atoi(t[4]) ? ARES_SUCCESS : ARES_ETIMEOUT, resp);
  ares_dns_record_destroy(resp);
  puts("ok");
}

/* mtmo <srv>  ->  <ms>   (now = virtual clock) */
static void do_mtmo(int nt, char **t)
{
  ares_server_t *srv;
  if (nt != 2 || !chan_need() || (srv = server_by_idx((size_t)atoi(t[1]))) == NULL) {
    puts("bad-op");
    return;
  }
  printf("%lu\n", (unsigned long)ares_metrics_server_timeout(srv, &vnow));
}

/* tq <max-attempts>: one query against silent servers; after every transmission print the destination (last
 * octet - 1 = server index), the value of ares_timeout() and the 16-bit jitter draw if one happened; then advance the
 * virtual clock to the deadline and process timeouts.
 *   ->  a=<srv>:<ms>:<r|->:<base> ... end=<status|pending> */
static int           tq_done;
static ares_status_t tq_status;
static void          tq_cb(void *arg, ares_status_t status, size_t timeouts, const ares_dns_record_t *dnsrec)
{
  (void)arg; (void)timeouts; (void)dnsrec;
  tq_done   = 1;
  tq_status = status;
}

static void do_tq(int nt, char **t)
{
  long               maxatt;
  long               k;
  ares_dns_record_t *rec = NULL;
  unsigned long      sent_before;
  if (nt != 2 || !chan_need()) {
    puts("bad-op");
    return;
  }
  maxatt = strtol(t[1], NULL, 10);
  if (ares_dns_record_create(&rec, 0, ARES_FLAG_RD, ARES_OPCODE_QUERY, ARES_RCODE_NOERROR) != ARES_SUCCESS ||
      ares_dns_record_query_add(rec, "example.com", ARES_REC_TYPE_A, ARES_CLASS_IN) != ARES_SUCCESS) {
    ares_dns_record_destroy(rec);
    puts("err");
    return;
  }
  tq_done     = 0;
  rnd_set("-");
  rnd_saw16   = 0;
  sent_before = vs_sent;
  ares_send_dnsrec(chan, rec, tq_cb, NULL, NULL);
  ares_dns_record_destroy(rec);
  for (k = 0; k < maxatt && !tq_done; k++) {
    struct timeval  tv;
    struct timeval *tvp;
    unsigned long   ms;
    unsigned long   base;
    ares_server_t  *srv;
    if (vs_sent == sent_before) {
      fputs("nosend ", stdout);
      break;
    }
    sent_before = vs_sent;
    tvp         = ares_timeout(chan, NULL, &tv);
    srv         = server_by_idx((size_t)(vs_last_dst - 1));
    if (tvp == NULL || srv == NULL) {
      fputs("notimeout ", stdout);
      break;
    }
    /* the base timeout of the server this attempt went to, at the instant it was sent */
    base = (unsigned long)ares_metrics_server_timeout(srv, &vnow);
    ms   = (unsigned long)tvp->tv_sec * 1000UL + (unsigned long)(tvp->tv_usec + 999) / 1000UL;
    printf("a=%d:%lu:", vs_last_dst - 1, ms);
    if (rnd_saw16) {
      printf("%u", rnd_last16);
    } else {
      fputs("-", stdout);
    }
    printf(":%lu ", base);
    rnd_saw16 = 0;
    vnow.sec += (ares_int64_t)tvp->tv_sec;
    vadv_usec((unsigned long long)tvp->tv_usec);
    ares_process_fds(chan, NULL, 0, ARES_PROCESS_FLAG_NONE);
  }
  if (tq_done) {
    printf("end=%d\n", (int)tq_status);
  } else {
    ares_cancel(chan);
    puts("end=pending");
  }
}

/* ---------------------------------------------------------------- main loop */
static void echo(int nt, char **t)
{
  int i;
  for (i = 0; i < nt; i++) {
    printf("%s%s", i ? " " : "", t[i]);
  }
  puts("");
}

int main(void)
{
  char *t[MAXTOK];
  int   nt;
  unsetenv("LOCALDOMAIN");
  unsetenv("RES_OPTIONS");
  unsetenv("HOSTALIASES");
  ares_library_init(ARES_LIB_INIT_ALL);
  ares_verif_clock_cb = clock_cb;
  ares_verif_rand_cb  = rand_cb;
  vnow.sec            = 1000;
  vnow.usec           = 0;
  while ((nt = h_next(t)) >= 0) {
    if (nt == 0) {
      puts("");
    } else if (!strcmp(t[0], "case")) {
      chan_destroy();
      vnow.sec  = 1000;
      vnow.usec = 0;
      rnd_fill  = 0x5a;
      echo(nt, t);
    } else if (t[0][0] == '#') {
      echo(nt, t);
    } else if (!strcmp(t[0], "chan")) {
      puts(chan_create(nt, t) ? "ok" : "err");
    } else if (!strcmp(t[0], "time") && nt == 3) {
      vnow.sec  = (ares_int64_t)strtoll(t[1], NULL, 10);
      vnow.usec = (unsigned int)strtoul(t[2], NULL, 10);
      puts("ok");
    } else if (!strcmp(t[0], "adv") && nt == 2) {
      vadv_usec(strtoull(t[1], NULL, 10));
      puts("ok");
    } else if (!strcmp(t[0], "qnew")) {
      do_qnew(nt, t);
    } else if (!strcmp(t[0], "apply")) {
      do_apply(nt, t);
    } else if (!strcmp(t[0], "validate")) {
      do_validate(nt, t);
    } else if (!strcmp(t[0], "ckstate")) {
      do_ckstate(nt, t);
    } else if (!strcmp(t[0], "qins")) {
      do_qins(nt, t);
    } else if (!strcmp(t[0], "qget")) {
      do_qget(nt, t);
    } else if (!strcmp(t[0], "qflush") && nt == 1) {
      if (chan_need()) {
        ares_qcache_flush(chan->qcache);
      }
      puts("ok");
    } else if (!strcmp(t[0], "qsetservers") && nt == 2) {
      /* public API: a server-list change must empty the cache */
      if (chan_need()) {
        puts(ares_set_servers_csv(chan, t[1]) == ARES_SUCCESS ? "ok" : "err");
      } else {
        puts("err");
      }
    } else if (!strcmp(t[0], "mrec")) {
      do_mrec(nt, t);
    } else if (!strcmp(t[0], "mtmo")) {
      do_mtmo(nt, t);
    } else if (!strcmp(t[0], "tq")) {
      do_tq(nt, t);
    } else {
      puts("bad-op");
    }
    fflush(stdout);
  }
  chan_destroy();
  ares_library_cleanup();
  return 0;
}
