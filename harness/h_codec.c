/* Correspondence harness for the DNS message decoders (C02, C04): drives the real
 * ares_dns_parse / ares_expand_name / ares_expand_string in-process (ASan+UBSan).
 *
 *   parse <flags> <hex>      -> st=<class> [<canonical dump>]
 *   xname <abuf-hex> <off>   -> st=<class> [n=<hex> len=<enclen>]
 *   xstr  <abuf-hex> <off>   -> st=<class> [s=<hex> len=<enclen>]
 *   split <name-hex>         -> st=<class> [w=<wire hex>]   presentation name -> labels, through
 *                               ares_dns_name_write(buf, NULL, ARES_FALSE, name) (ares_split_dns_name)
 *
 * Every input byte string is copied into an exact-size heap block so that a read one byte
 * outside the supplied buffer is an ASan report.  One output line per input line.  Each operation
 * runs under a 3 s watchdog (SIGALRM kills the process, which the runner reports as an abort). */
#include "ares_private.h"
#include "hcommon.h"
#include "hcodec_dump.h"
#include <unistd.h>

static unsigned char *exact_copy(const char *hexstr, size_t *len)
{
  size_t         hl  = strlen(hexstr);
  size_t         cap = hl / 2 + 1;
  unsigned char *tmp = malloc(cap);
  unsigned char *out;
  size_t         n;
  if (hexstr[0] == '-' && hexstr[1] == 0) {
    n = 0;
  } else {
    size_t i;
    n = hl / 2;
    for (i = 0; i < n; i++) {
      unsigned int hi = (unsigned char)hexstr[2 * i];
      unsigned int lo = (unsigned char)hexstr[2 * i + 1];
      hi     = hi <= '9' ? hi - '0' : (hi | 0x20) - 'a' + 10;
      lo     = lo <= '9' ? lo - '0' : (lo | 0x20) - 'a' + 10;
      tmp[i] = (unsigned char)((hi << 4) | (lo & 0xf));
    }
  }
  /* exact size: malloc(0) is legal but make the empty case a 1-byte block we never read */
  out = malloc(n ? n : 1);
  if (n) {
    memcpy(out, tmp, n);
  }
  free(tmp);
  *len = n;
  return out;
}

static void do_parse(int nt, char **t)
{
  unsigned int       flags;
  size_t             len = 0;
  unsigned char     *buf;
  ares_dns_record_t *rec = NULL;
  ares_status_t      st;
  if (nt != 3) {
    puts("bad-op");
    return;
  }
  flags = (unsigned int)strtoul(t[1], NULL, 10);
  buf   = exact_copy(t[2], &len);
  st    = ares_dns_parse(buf, len, flags, &rec);
  printf("st=%s", hcodec_stclass((int)st));
  if (st == ARES_SUCCESS) {
    if (rec == NULL) {
      fputs(" !MON-null-record", stdout);
    } else {
      fputc(' ', stdout);
      hcodec_dump_record(rec);
    }
  } else if (rec != NULL) {
    /* "an error with no result" */
    fputs(" !result-on-error", stdout);
  }
  fputc('\n', stdout);
  ares_dns_record_destroy(rec);
  free(buf);
}

static void do_xname(int nt, char **t, int is_str)
{
  size_t         len = 0;
  unsigned char *buf;
  long           off;
  long           enclen = -1;
  int            st;
  if (nt != 3) {
    puts("bad-op");
    return;
  }
  buf = exact_copy(t[1], &len);
  off = strtol(t[2], NULL, 10);
  if (off < 0 || (size_t)off > len) { /* keep `buf + off` a valid pointer computation */
    puts("bad-op");
    free(buf);
    return;
  }
  if (is_str) {
    unsigned char *s = NULL;
    st = ares_expand_string(buf + off, buf, (int)len, &s, &enclen);
    printf("st=%s", hcodec_stclass(st));
    if (st == ARES_SUCCESS) {
      fputs(" s=", stdout);
      hcodec_hex_or_null(s, s ? strlen((const char *)s) : 0);
      printf(" len=%ld", enclen);
    } else if (s != NULL) {
      fputs(" !result-on-error", stdout);
    }
    ares_free_string(s);
  } else {
    char *s = NULL;
    st = ares_expand_name(buf + off, buf, (int)len, &s, &enclen);
    printf("st=%s", hcodec_stclass(st));
    if (st == ARES_SUCCESS) {
      fputs(" n=", stdout);
      hcodec_hex_or_null((const unsigned char *)s, s ? strlen(s) : 0);
      printf(" len=%ld", enclen);
    } else if (s != NULL) {
      fputs(" !result-on-error", stdout);
    }
    ares_free_string(s);
  }
  fputc('\n', stdout);
  free(buf);
}

static void do_split(int nt, char **t)
{
  size_t         len = 0;
  unsigned char *raw;
  char          *name;
  ares_buf_t    *b;
  ares_status_t  st;
  if (nt != 2) {
    puts("bad-op");
    return;
  }
  raw = exact_copy(t[1], &len);
  if (memchr(raw, 0, len) != NULL) { /* not a C string */
    puts("bad-op");
    free(raw);
    return;
  }
  name = malloc(len + 1);
  memcpy(name, raw, len);
  name[len] = 0;
  b         = ares_buf_create();
  st        = ares_dns_name_write(b, NULL, ARES_FALSE, name);
  printf("st=%s", hcodec_stclass((int)st));
  if (st == ARES_SUCCESS) {
    size_t               wl = 0;
    const unsigned char *w  = ares_buf_peek(b, &wl);
    fputs(" w=", stdout);
    h_hex(w, w ? wl : 0);
  }
  fputc('\n', stdout);
  ares_buf_destroy(b);
  free(name);
  free(raw);
}

int main(void)
{
  char *tok[MAXTOK];
  int   nt;
  /* line-buffered: when a sanitizer or the watchdog kills the process the finished lines are not lost,
   * so the runner attributes the abort to the right case */
  setvbuf(stdout, NULL, _IOLBF, 0);
  ares_library_init(ARES_LIB_INIT_ALL);
  while ((nt = h_next(tok)) >= 0) {
    if (nt == 0) {
      puts("");
      continue;
    }
    if (!strcmp(tok[0], "case")) {
      printf("case %s\n", nt > 1 ? tok[1] : "0");
      continue;
    }
    if (tok[0][0] == '#') {
      int i;
      for (i = 0; i < nt; i++) {
        printf("%s%s", i ? " " : "", tok[i]);
      }
      putchar('\n');
      continue;
    }
    /* watchdog: a decoder that loops (e.g. on a compression-pointer cycle) must not hang the check */
    alarm(3);
    if (!strcmp(tok[0], "parse")) {
      do_parse(nt, tok);
    } else if (!strcmp(tok[0], "xname")) {
      do_xname(nt, tok, 0);
    } else if (!strcmp(tok[0], "xstr")) {
      do_xname(nt, tok, 1);
    } else if (!strcmp(tok[0], "split")) {
      do_split(nt, tok);
    } else {
      puts("bad-op");
    }
  }
  ares_library_cleanup();
  free(h_line);
  return 0;
}
