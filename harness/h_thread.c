/* Threaded harness (C07 event-thread part, C11): a real channel with the built-in event thread on a chosen
 * backend, real UDP sockets on loopback, a scripted UDP server thread inside the harness, client threads.
 *
 * ops (one per line, one output line each):
 *   timing evsys=<epoll|poll|select> mode=<fresh|idle|busy> timeout=<ms> tries=<n> [gap=<ms>]
 *        -> "timing <mode> <evsys> completed=<0|1> status=<..> elapsed=<ms> budget=<ms>"
 *           (a query to a silent server must time out by itself, with no application action)
 *   stress evsys=<..> threads=<n> iters=<n> seed=<n> [reinit=1] [setservers=1]
 *        -> "stress ... accepted=<n> callbacks=<n> twice=<n> missing=<n> lockorder=<n violations> deadlock=<0|1>"
 */
#include "ares_private.h"
#include "event/ares_event.h"
#include "hcommon.h"
#include <arpa/inet.h>
#include <errno.h>
#include <netinet/in.h>
#include <pthread.h>
#include <sys/socket.h>
#include <sys/time.h>
#include <unistd.h>
#include <glob.h>

extern void (*ares_verif_mutex_cb)(const void *mut, int ev);

static long long now_ms(void)
{
  struct timeval tv;
  gettimeofday(&tv, NULL);
  return (long long)tv.tv_sec * 1000 + tv.tv_usec / 1000;
}

/* ------------------------------------------------------------------ scripted UDP server */
static int            srv_fd     = -1;
static unsigned short srv_port   = 0;
static volatile int   srv_run    = 0;
static volatile int   srv_answer = 1;   /* answer queries whose first label does not start with "silent" */
static volatile int   srv_delay_ms = 0;
static pthread_t      srv_thr;
/* arrival log for the staggered scenario: times of datagrams for "silent.*" and count of those for "silent-busy.*" */
#define MAXARR 16
static volatile long long probe_at[MAXARR];
static volatile int       probe_n = 0;
static volatile int       busy_n  = 0;

static void *server_main(void *arg)
{
  unsigned char buf[2048];
  (void)arg;
  while (__atomic_load_n(&srv_run, __ATOMIC_SEQ_CST)) {
    struct sockaddr_in from;
    socklen_t          fl = sizeof(from);
    struct timeval     tv = { 0, 50000 };
    fd_set             r;
    ssize_t            n;
    FD_ZERO(&r);
    FD_SET(srv_fd, &r);
    if (select(srv_fd + 1, &r, NULL, NULL, &tv) <= 0) {
      continue;
    }
    n = recvfrom(srv_fd, buf, sizeof(buf), 0, (struct sockaddr *)&from, &fl);
    if (n < 12) {
      continue;
    }
    if (n > 19 && buf[12] == 6 && memcmp(buf + 13, "silent", 6) == 0) {
      int k = __atomic_load_n(&probe_n, __ATOMIC_SEQ_CST);
      if (k < MAXARR) {
        probe_at[k] = now_ms();
        __atomic_store_n(&probe_n, k + 1, __ATOMIC_SEQ_CST);
      }
    } else if (n > 24 && buf[12] == 11 && memcmp(buf + 13, "silent-busy", 11) == 0) {
      __atomic_fetch_add(&busy_n, 1, __ATOMIC_SEQ_CST);
    }
    /* question name starts at 12: label length then bytes */
    if (!srv_answer || (n > 19 && memcmp(buf + 13, "silent", 6) == 0)) {
      continue;
    }
    if (srv_delay_ms) {
      usleep((useconds_t)srv_delay_ms * 1000);
    }
    /* turn the query into a NOERROR/NODATA response: QR=1, RA=1, counts unchanged (no answers) */
    buf[2] |= 0x80;
    buf[3]  = 0x80;
    buf[6] = buf[7] = buf[8] = buf[9] = buf[10] = buf[11] = 0;
    /* cut off any additional section (OPT) */
    {
      size_t p = 12;
      while (p < (size_t)n && buf[p] != 0) {
        p += (size_t)buf[p] + 1;
      }
      p += 5;
      if (p <= (size_t)n) {
        n = (ssize_t)p;
      }
    }
    sendto(srv_fd, buf, (size_t)n, 0, (struct sockaddr *)&from, fl);
  }
  return NULL;
}

static void server_start(void)
{
  struct sockaddr_in sa;
  socklen_t          sl = sizeof(sa);
  srv_fd = socket(AF_INET, SOCK_DGRAM, 0);
  memset(&sa, 0, sizeof(sa));
  sa.sin_family      = AF_INET;
  sa.sin_addr.s_addr = htonl(INADDR_LOOPBACK);
  bind(srv_fd, (struct sockaddr *)&sa, sizeof(sa));
  getsockname(srv_fd, (struct sockaddr *)&sa, &sl);
  srv_port = ntohs(sa.sin_port);
  __atomic_store_n(&srv_run, 1, __ATOMIC_SEQ_CST);
  pthread_create(&srv_thr, NULL, server_main, NULL);
}
static void server_stop(void)
{
  __atomic_store_n(&srv_run, 0, __ATOMIC_SEQ_CST);
  pthread_join(srv_thr, NULL);
  close(srv_fd);
}

/* ------------------------------------------------------------------ helpers */
static ares_evsys_t evsys_of(const char *s)
{
  if (!strcmp(s, "epoll")) {
    return ARES_EVSYS_EPOLL;
  }
  if (!strcmp(s, "poll")) {
    return ARES_EVSYS_POLL;
  }
  if (!strcmp(s, "select")) {
    return ARES_EVSYS_SELECT;
  }
  return ARES_EVSYS_DEFAULT;
}
static const char *arg(int nt, char **t, const char *key, const char *def)
{
  int    i;
  size_t kl = strlen(key);
  for (i = 1; i < nt; i++) {
    if (!strncmp(t[i], key, kl) && t[i][kl] == '=') {
      return t[i] + kl + 1;
    }
  }
  return def;
}
static long argi(int nt, char **t, const char *key, long def)
{
  const char *v = arg(nt, t, key, NULL);
  return v ? strtol(v, NULL, 0) : def;
}

static char sysconf_path[64] = "";
static ares_channel_t *mkchan(ares_evsys_t ev, int flags, int timeout, int tries)
{
  struct ares_options o;
  int                 mask = 0;
  ares_channel_t     *c    = NULL;
  char                csv[64];
  memset(&o, 0, sizeof(o));
  if (flags >= 0) {
    o.flags  = flags;
    mask    |= ARES_OPT_FLAGS;
  }
  o.timeout = timeout;
  mask     |= ARES_OPT_TIMEOUTMS;
  o.tries   = tries;
  mask     |= ARES_OPT_TRIES;
  o.evsys   = ev;
  mask     |= ARES_OPT_EVENT_THREAD;
  o.lookups = (char *)"b";
  mask     |= ARES_OPT_LOOKUPS;
  o.resolvconf_path = (char *)(flags < 0 && sysconf_path[0] ? sysconf_path : "/dev/null");
  mask             |= ARES_OPT_RESOLVCONF;
  o.hosts_path = (char *)"/dev/null";
  mask        |= ARES_OPT_HOSTS_FILE;
  o.qcache_max_ttl = 0;
  mask            |= ARES_OPT_QUERY_CACHE;
  if (ares_init_options(&c, &o, mask) != ARES_SUCCESS) {
    return NULL;
  }
  snprintf(csv, sizeof(csv), "127.0.0.1:%u", srv_port);
  ares_set_servers_ports_csv(c, csv);
  return c;
}

/* ------------------------------------------------------------------ timing scenarios (C07 event thread) */
typedef struct {
  volatile int       done;
  volatile int       status;
  volatile long long at;
} tcb_t;
static void timing_cb(void *arg, ares_status_t status, size_t timeouts, const ares_dns_record_t *rec)
{
  tcb_t *t = arg;
  (void)timeouts;
  (void)rec;
  t->status = (int)status;
  t->at     = now_ms();
  t->done   = 1;
}
static void slow_cb(void *arg, ares_status_t status, size_t timeouts, const ares_dns_record_t *rec)
{
  /* an application callback that takes a while (runs on the event thread, under the channel lock) */
  usleep(60000);
  timing_cb(arg, status, timeouts, rec);
}
static int wait_done(tcb_t *t, long long max_ms)
{
  long long t0 = now_ms();
  while (!t->done && now_ms() - t0 < max_ms) {
    usleep(2000);
  }
  return t->done;
}

static void do_timing(int nt, char **t)
{
  const char     *evs     = arg(nt, t, "evsys", "epoll");
  const char     *mode    = arg(nt, t, "mode", "idle");
  int             timeout = (int)argi(nt, t, "timeout", 200);
  int             tries   = (int)argi(nt, t, "tries", 2);
  long            gap     = argi(nt, t, "gap", 300);
  int             flags   = strcmp(mode, "fresh") ? ARES_FLAG_STAYOPEN : 0;
  ares_channel_t *c       = mkchan(evsys_of(evs), flags, timeout, tries);
  tcb_t           warm, busy, probe;
  long long       t0, budget;
  if (c == NULL) {
    printf("timing %s %s unsupported\n", mode, evs);
    return;
  }
  memset(&warm, 0, sizeof(warm));
  memset(&busy, 0, sizeof(busy));
  memset(&probe, 0, sizeof(probe));
  if (strcmp(mode, "fresh") != 0) {
    /* open the connection and let it go idle */
    ares_query_dnsrec(c, "warm.example", ARES_CLASS_IN, ARES_REC_TYPE_A, timing_cb, &warm, NULL);
    wait_done(&warm, 3000);
    usleep((useconds_t)gap * 1000);
  }
  if (!strcmp(mode, "staggered")) {
    /* an older query is deep in its retry schedule (long current deadline) when a new one arrives on the same,
       already watched connection: the new query's first retransmission must still happen at its own deadline */
    long long t1, first = -1, second = -1, lim;
    int       k;
    __atomic_store_n(&probe_n, 0, __ATOMIC_SEQ_CST);
    __atomic_store_n(&busy_n, 0, __ATOMIC_SEQ_CST);
    ares_query_dnsrec(c, "silent-busy.example", ARES_CLASS_IN, ARES_REC_TYPE_A, timing_cb, &busy, NULL);
    t1 = now_ms();
    while (__atomic_load_n(&busy_n, __ATOMIC_SEQ_CST) < (tries < 4 ? tries : 4) && now_ms() - t1 < 8000) {
      usleep(1000);
    }
    k  = __atomic_load_n(&busy_n, __ATOMIC_SEQ_CST);
    t0 = now_ms();
    ares_query_dnsrec(c, "silent.example", ARES_CLASS_IN, ARES_REC_TYPE_A, timing_cb, &probe, NULL);
    lim = (timeout < 250 ? 250 : timeout) + 2500;
    while (__atomic_load_n(&probe_n, __ATOMIC_SEQ_CST) < 2 && !probe.done && now_ms() - t0 < lim) {
      usleep(1000);
    }
    if (__atomic_load_n(&probe_n, __ATOMIC_SEQ_CST) >= 1) {
      first = probe_at[0] - t0;
    }
    if (__atomic_load_n(&probe_n, __ATOMIC_SEQ_CST) >= 2) {
      second = probe_at[1] - t0;
    }
    printf("timing staggered %s busy_sends=%d first=%lld retx=%lld due=%d done=%d\n", evs, k, first, second,
           timeout < 250 ? 250 : timeout, probe.done);
    ares_destroy(c);
    return;
  }
  if (!strcmp(mode, "slowcb")) {
    /* two deadlines close together; the callback of the first takes longer than the distance between them, so the
       second has already expired when the event thread computes its next sleep */
    ares_query_dnsrec(c, "silent-a.example", ARES_CLASS_IN, ARES_REC_TYPE_A, slow_cb, &busy, NULL);
    usleep(20000);
  }
  if (!strcmp(mode, "busy")) {
    /* another query is outstanding on the connection, with a long way to its own deadline */
    srv_delay_ms = 0;
    ares_query_dnsrec(c, "silent-busy.example", ARES_CLASS_IN, ARES_REC_TYPE_A, timing_cb, &busy, NULL);
    usleep(20000);
  }
  /* worst case: every attempt waits its (doubling) timeout; add scheduling slack */
  {
    /* the library never waits less than its 250 ms floor nor more than 5000 ms per attempt */
    long long total = 0, cur = timeout < 250 ? 250 : timeout;
    int       i;
    for (i = 0; i < tries; i++) {
      total += cur > 5000 ? 5000 : cur;
      cur *= 2;
    }
    budget = total + 700;
  }
  t0 = now_ms();
  ares_query_dnsrec(c, "silent.example", ARES_CLASS_IN, ARES_REC_TYPE_A, timing_cb, &probe, NULL);
  wait_done(&probe, budget + 2500);
  printf("timing %s %s completed=%d status=%d elapsed=%lld budget=%lld\n", mode, evs, probe.done, probe.status,
         probe.done ? probe.at - t0 : -1, budget);
  ares_destroy(c);
}

/* ------------------------------------------------------------------ wait-empty soundness (C11)
 * A waiter sits in ares_queue_wait_empty(timeout).  A completion callback (running under the channel lock) cancels
 * everything - the queue is empty for a moment and the waiters are notified - and then starts a new request before the
 * lock is released.  The waiter must re-evaluate the queue: it may only report success with nothing outstanding. */
typedef struct {
  ares_channel_t *c;
  int             resend;
  tcb_t          *second;
} we_t;
static void we_cb(void *arg, ares_status_t status, size_t timeouts, const ares_dns_record_t *rec)
{
  we_t *w = arg;
  (void)status;
  (void)timeouts;
  (void)rec;
  if (w->resend) {
    w->resend = 0;
    ares_cancel(w->c);
    ares_query_dnsrec(w->c, "silent-second.example", ARES_CLASS_IN, ARES_REC_TYPE_A, timing_cb, w->second, NULL);
  }
}
typedef struct {
  ares_channel_t    *c;
  int                timeout;
  volatile int       status;
  volatile int       active;
  volatile long long elapsed;
} waiter_t;
static void *we_waiter(void *arg)
{
  waiter_t *w  = arg;
  long long t0 = now_ms();
  w->status    = (int)ares_queue_wait_empty(w->c, w->timeout);
  w->active    = (int)ares_queue_active_queries(w->c);
  w->elapsed   = now_ms() - t0;
  return NULL;
}
static void do_waitempty(int nt, char **t)
{
  const char     *evs  = arg(nt, t, "evsys", "epoll");
  int             wait = (int)argi(nt, t, "wait", 800);
  ares_channel_t *c    = mkchan(evsys_of(evs), ARES_FLAG_STAYOPEN, 3000, 3);
  tcb_t           second;
  we_t            we;
  waiter_t        w;
  pthread_t       th;
  if (c == NULL) {
    printf("waitempty %s unsupported\n", evs);
    return;
  }
  memset(&second, 0, sizeof(second));
  we.c      = c;
  we.resend = 1;
  we.second = &second;
  ares_query_dnsrec(c, "silent-first.example", ARES_CLASS_IN, ARES_REC_TYPE_A, we_cb, &we, NULL);
  w.c       = c;
  w.timeout = wait;
  w.status  = -1;
  w.active  = -1;
  w.elapsed = -1;
  pthread_create(&th, NULL, we_waiter, &w);
  usleep((useconds_t)argi(nt, t, "gap", 150) * 1000);
  ares_cancel(c); /* -> we_cb: cancel (queue momentarily empty, waiters notified), then a new request */
  pthread_join(th, NULL);
  printf("waitempty %s status=%d active=%d elapsed=%lld wait=%d second_done=%d\n", evs, w.status, w.active, w.elapsed, wait,
         second.done);
  ares_cancel(c);
  ares_destroy(c);
}

/* ------------------------------------------------------------------ stress (C11) */
#define MAXREQ 20000
typedef struct {
  volatile int cb;
} sreq_t;
static sreq_t          sreqs[MAXREQ];
static volatile int    nsreq = 0;
static pthread_mutex_t sreq_mu = PTHREAD_MUTEX_INITIALIZER;

static void stress_cb(void *arg, ares_status_t status, size_t timeouts, const ares_dns_record_t *rec)
{
  sreq_t *r = arg;
  (void)status;
  (void)timeouts;
  (void)rec;
  __sync_fetch_and_add(&r->cb, 1);
}

static void stress_cb_legacy(void *arg, int status, int timeouts, unsigned char *abuf, int alen)
{
  sreq_t *r = arg;
  (void)status;
  (void)timeouts;
  (void)abuf;
  (void)alen;
  __sync_fetch_and_add(&r->cb, 1);
}

/* lock-order log: per thread, which library mutexes are held; the channel lock must never be acquired while the
 * event-thread mutex is held */
static const void        *mu_channel = NULL, *mu_event = NULL;
static __thread int       held_channel = 0, held_event = 0;
static volatile int       lockorder_violations = 0;
static volatile long long lock_events          = 0;
static void               mutex_cb(const void *mut, int ev)
{
  __sync_fetch_and_add(&lock_events, 1);
  const void *mc = __atomic_load_n(&mu_channel, __ATOMIC_SEQ_CST);
  const void *me = __atomic_load_n(&mu_event, __ATOMIC_SEQ_CST);
  if (mut == mc) {
    if (ev == 1) {
      if (held_event > 0 && held_channel == 0) {
        __sync_fetch_and_add(&lockorder_violations, 1);
      }
      held_channel++;
    } else {
      held_channel--;
    }
  } else if (mut == me) {
    if (ev == 1) {
      held_event++;
    } else {
      held_event--;
    }
  }
}

typedef struct {
  ares_channel_t *c;
  int             iters;
  unsigned        seed;
  int             reinit, setservers;
} sthr_t;

static void *stress_main(void *arg)
{
  sthr_t  *s = arg;
  unsigned x = s->seed;
  int      i;
  for (i = 0; i < s->iters; i++) {
    int op;
    x  = x * 1103515245u + 12345u;
    op = (int)((x >> 16) % 100);
    if (op < 70) {
      int     idx;
      char    name[64];
      sreq_t *r;
      pthread_mutex_lock(&sreq_mu);
      idx = nsreq < MAXREQ ? nsreq++ : -1;
      pthread_mutex_unlock(&sreq_mu);
      if (idx < 0) {
        continue;
      }
      r = &sreqs[idx];
      snprintf(name, sizeof(name), "%s%d.example", (x >> 8) % 5 == 0 ? "silent" : "n", idx);
      if ((x >> 4) % 6 == 1) {
        /* the legacy entry point builds the request from channel settings before it searches */
        ares_search(s->c, name, ARES_CLASS_IN, ARES_REC_TYPE_A, stress_cb_legacy, r);
      } else if ((x >> 4) % 3 == 0) {
        ares_dns_record_t *rec = NULL;
        ares_dns_record_create_query(&rec, name, ARES_CLASS_IN, ARES_REC_TYPE_A, 0, ARES_FLAG_RD, 0);
        ares_search_dnsrec(s->c, rec, stress_cb, r);
        ares_dns_record_destroy(rec);
      } else {
        ares_query_dnsrec(s->c, name, ARES_CLASS_IN, ARES_REC_TYPE_A, stress_cb, r, NULL);
      }
    } else if (op < 80) {
      ares_cancel(s->c);
    } else if (op < 86 && s->setservers) {
      char csv[64];
      snprintf(csv, sizeof(csv), "127.0.0.1:%u", srv_port);
      ares_set_servers_ports_csv(s->c, csv);
    } else if (op < 89 && s->reinit) {
      ares_reinit(s->c);
    } else if (op < 91 && s->reinit) {
      /* configuration readers racing with the reload thread */
      struct ares_options o;
      int                 m = 0;
      if (ares_save_options(s->c, &o, &m) == ARES_SUCCESS) {
        ares_destroy_options(&o);
      }
      if ((x >> 10) % 4 == 0) {
        ares_channel_t *d = NULL;
        if (ares_dup(&d, s->c) == ARES_SUCCESS) {
          ares_destroy(d);
        }
      }
      {
        char *csv = ares_get_servers_csv(s->c);
        ares_free_string(csv);
      }
    } else if (op < 94) {
      ares_queue_wait_empty(s->c, 20);
    } else {
      usleep(1000);
    }
  }
  return NULL;
}

static void do_stress(int nt, char **t)
{
  const char     *evs     = arg(nt, t, "evsys", "epoll");
  int             threads = (int)argi(nt, t, "threads", 4);
  int             iters   = (int)argi(nt, t, "iters", 300);
  ares_channel_t *c;
  /* sysflags=1: the application passes no flags, so the system configuration may set them (options use-vc) and every
     ares_reinit() re-applies them while other threads start requests */
  int             sysflags = (int)argi(nt, t, "sysflags", 0);
  if (sysflags) {
    int fd;
    {
      /* leftovers of runs that were aborted by a sanitizer */
      glob_t g;
      size_t gi;
      if (glob("/tmp/h_thread_conf_??????", 0, NULL, &g) == 0) {
        for (gi = 0; gi < g.gl_pathc; gi++) {
          unlink(g.gl_pathv[gi]);
        }
        globfree(&g);
      }
    }
    snprintf(sysconf_path, sizeof(sysconf_path), "/tmp/h_thread_conf_XXXXXX");
    fd = mkstemp(sysconf_path);
    if (fd >= 0) {
      const char *txt = "options use-vc ndots:2\n";
      if (write(fd, txt, strlen(txt)) < 0) {
        sysconf_path[0] = 0;
      }
      close(fd);
    } else {
      sysconf_path[0] = 0;
    }
  }
  c = mkchan(evsys_of(evs), sysflags ? -1 : ARES_FLAG_STAYOPEN, 100, 2);
  if (sysflags && sysconf_path[0]) {
    /* removed at the end of the scenario */
  }
  pthread_t       th[16];
  sthr_t          sa[16];
  int             i, twice = 0, missing = 0, cbs = 0, deadlock = 0, wempty_bad = 0;
  long long       t0;
  if (c == NULL) {
    printf("stress %s unsupported\n", evs);
    return;
  }
  if (threads > 16) {
    threads = 16;
  }
  memset((void *)sreqs, 0, sizeof(sreqs));
  nsreq                = 0;
  __atomic_store_n(&lockorder_violations, 0, __ATOMIC_SEQ_CST);
  __atomic_store_n(&lock_events, 0, __ATOMIC_SEQ_CST);
  __atomic_store_n(&mu_channel, (const void *)c->lock, __ATOMIC_SEQ_CST);
  __atomic_store_n(&mu_event, (const void *)((ares_event_thread_t *)c->sock_state_cb_data)->mutex, __ATOMIC_SEQ_CST);
  for (i = 0; i < threads; i++) {
    sa[i].c          = c;
    sa[i].iters      = iters;
    sa[i].seed       = (unsigned)argi(nt, t, "seed", 1) * 7919u + (unsigned)i * 104729u;
    sa[i].reinit     = (int)argi(nt, t, "reinit", 0);
    sa[i].setservers = (int)argi(nt, t, "setservers", 1);
    pthread_create(&th[i], NULL, stress_main, &sa[i]);
  }
  /* watchdog: client threads must finish (no lock-order deadlock) */
  t0 = now_ms();
  {
    struct timespec ts;
    clock_gettime(CLOCK_REALTIME, &ts);
    ts.tv_sec += 60; /* one deadline for all joins */
    for (i = 0; i < threads; i++) {
      if (pthread_timedjoin_np(th[i], NULL, &ts) != 0) {
        deadlock = 1;
      }
    }
  }
  if (!deadlock) {
    /* everything still outstanding completes by itself (silent names time out): wait-empty must agree */
    ares_status_t st = ares_queue_wait_empty(c, 5000);
    if (st == ARES_SUCCESS && ares_queue_active_queries(c) != 0) {
      wempty_bad = 1;
    }
    if (st != ARES_SUCCESS) {
      deadlock = 2; /* queries outwaited their budget */
    }
    __atomic_store_n(&mu_channel, (const void *)NULL, __ATOMIC_SEQ_CST);
    __atomic_store_n(&mu_event, (const void *)NULL, __ATOMIC_SEQ_CST);
    ares_destroy(c);
  }
  for (i = 0; i < nsreq; i++) {
    cbs += sreqs[i].cb;
    if (sreqs[i].cb > 1) {
      twice++;
    }
    if (sreqs[i].cb == 0) {
      missing++;
    }
  }
  printf("stress %s threads=%d accepted=%d callbacks=%d twice=%d missing=%d lockorder=%d lockevents=%lld "
         "waitempty_bad=%d deadlock=%d ms=%lld\n",
         evs, threads, nsreq, cbs, twice, missing, lockorder_violations, lock_events, wempty_bad, deadlock,
         now_ms() - t0);
  if (sysconf_path[0]) {
    unlink(sysconf_path);
    sysconf_path[0] = 0;
  }
}

int main(void)
{
  char *t[MAXTOK];
  int   nt;
  ares_verif_mutex_cb = mutex_cb;
  ares_library_init(ARES_LIB_INIT_ALL);
  server_start();
  while ((nt = h_next(t)) >= 0) {
    if (nt == 0) {
      puts("");
    } else if (!strcmp(t[0], "case")) {
      printf("case %s\n", nt > 1 ? t[1] : "0");
    } else if (!strcmp(t[0], "timing")) {
      do_timing(nt, t);
    } else if (!strcmp(t[0], "stress")) {
      do_stress(nt, t);
    } else if (!strcmp(t[0], "waitempty")) {
      do_waitempty(nt, t);
    } else {
      puts("bad-op");
    }
    fflush(stdout);
  }
  server_stop();
  ares_library_cleanup();
  return 0;
}
