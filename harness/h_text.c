/* Correspondence harness for the configuration-text layer (C15, C12 list part, C16).
 *
 * Real c-ares code in-process (library sources compiled directly, so the internal functions declared
 * in ares_private.h are callable).  One output line per op line (DESIGN.md appendix A.3).
 *
 * System files are virtualised by interposing fopen(): the paths /etc/resolv.conf, /etc/nsswitch.conf,
 * /etc/netsvc.conf, /etc/svc.conf, /etc/hosts and everything below /virt/ are served from an in-memory
 * table set by `file` ops (absent => ENOENT), so the real static line callbacks are reached through
 * ares_init_sysconfig_files() / ares_init_options() exactly as in production.  Interface name<->index
 * resolution is served from a table set by `ifaces` (installed into channel->sock_funcs).
 */
#define _GNU_SOURCE
#include "ares_private.h"
#include "ares_conn.h"
#include "hcommon.h"
#include <dlfcn.h>
#include <errno.h>
#include <unistd.h>
#include <netdb.h>
#include <arpa/inet.h>
#include <sys/stat.h>
#include <sys/syscall.h>
#include <fcntl.h>
#include <time.h>

/* ------------------------------------------------------------------------------------------
 * virtual files
 */
#define MAXVF 16
static struct {
  char           path[128];
  unsigned char *data;
  size_t         len;
  int            present;
  long long      mtime; /* modification time reported by stat() (virtual seconds) */
} vfs[MAXVF];
static int vfs_hide = 0;

static int vfs_is_virtual(const char *path)
{
  return !strcmp(path, "/etc/resolv.conf") || !strcmp(path, "/etc/nsswitch.conf") ||
         !strcmp(path, "/etc/netsvc.conf") || !strcmp(path, "/etc/svc.conf") ||
         !strcmp(path, "/etc/hosts") || !strncmp(path, "/virt/", 6);
}

static int vfs_find(const char *path)
{
  int i;
  for (i = 0; i < MAXVF; i++) {
    if (vfs[i].path[0] && !strcmp(vfs[i].path, path)) {
      return i;
    }
  }
  return -1;
}

/* time(NULL) and stat() as the library sees them: virtual files have a modification time, and the wall clock can be
 * pinned (`now <secs>`), so that "the hosts file was rewritten in the second in which it had been loaded" is scriptable */
static long long vtime_now = 0; /* 0 = real clock */
time_t time(time_t *out)
{
  time_t v;
  if (vtime_now) {
    v = (time_t)vtime_now;
  } else {
    struct timespec ts;
    clock_gettime(CLOCK_REALTIME, &ts);
    v = ts.tv_sec;
  }
  if (out) {
    *out = v;
  }
  return v;
}
static int vfs_find(const char *path);
int stat(const char *path, struct stat *st)
{
  if (path != NULL && vfs_is_virtual(path)) {
    int i = vfs_find(path);
    if (vfs_hide || i < 0 || !vfs[i].present) {
      errno = ENOENT;
      return -1;
    }
    memset(st, 0, sizeof(*st));
    st->st_mode  = S_IFREG | 0644;
    st->st_size  = (off_t)vfs[i].len;
    st->st_mtime = (time_t)vfs[i].mtime;
    return 0;
  }
  return (int)syscall(SYS_newfstatat, AT_FDCWD, path, st, 0);
}

static void vfs_set(const char *path, const unsigned char *data, size_t len, int present)
{
  int i = vfs_find(path);
  if (i < 0) {
    for (i = 0; i < MAXVF && vfs[i].path[0]; i++) {
    }
    if (i == MAXVF) {
      return;
    }
    snprintf(vfs[i].path, sizeof(vfs[i].path), "%s", path);
  }
  free(vfs[i].data);
  vfs[i].data    = NULL;
  vfs[i].len     = 0;
  vfs[i].present = present;
  vfs[i].mtime   = (long long)time(NULL);
  if (present) {
    vfs[i].data = malloc(len + 1);
    memcpy(vfs[i].data, data, len);
    vfs[i].len = len;
  }
}

static void vfs_reset(void)
{
  int i;
  for (i = 0; i < MAXVF; i++) {
    free(vfs[i].data);
    memset(&vfs[i], 0, sizeof(vfs[i]));
  }
}

typedef FILE *(*fopen_fn)(const char *, const char *);
static FILE *vfs_open(const char *path, const char *mode, const char *sym)
{
  if (path != NULL && vfs_is_virtual(path)) {
    int i = vfs_find(path);
    if (vfs_hide || i < 0 || !vfs[i].present) {
      errno = ENOENT;
      return NULL;
    }
    if (vfs[i].len == 0) {
      fopen_fn real = (fopen_fn)dlsym(RTLD_NEXT, sym);
      return real("/dev/null", mode);
    }
    return fmemopen(vfs[i].data, vfs[i].len, "rb");
  }
  {
    fopen_fn real = (fopen_fn)dlsym(RTLD_NEXT, sym);
    return real(path, mode);
  }
}

FILE *fopen(const char *path, const char *mode)
{
  return vfs_open(path, mode, "fopen");
}

FILE *fopen64(const char *path, const char *mode)
{
  return vfs_open(path, mode, "fopen64");
}

/* ------------------------------------------------------------------------------------------
 * virtual interfaces
 */
#define MAXIF 8
static struct {
  char         name[32];
  unsigned int idx;
} ifs[MAXIF];
static int nifs = 0;

static unsigned int h_nametoindex(const char *ifname, void *ud)
{
  int i;
  (void)ud;
  for (i = 0; i < nifs; i++) {
    if (!strcmp(ifs[i].name, ifname)) {
      return ifs[i].idx;
    }
  }
  return 0;
}

static const char *h_indextoname(unsigned int idx, char *buf, size_t buflen, void *ud)
{
  int i;
  (void)ud;
  for (i = 0; i < nifs; i++) {
    if (ifs[i].idx == idx) {
      ares_strcpy(buf, ifs[i].name, buflen);
      return buf;
    }
  }
  return NULL;
}

/* the library's default socket functions call if_nametoindex() / if_indextoname(): serve them from the
 * table (symbol interposition, like fopen above) */
unsigned int if_nametoindex(const char *ifname)
{
  return h_nametoindex(ifname, NULL);
}

char *if_indextoname(unsigned int idx, char *buf)
{
  if (h_indextoname(idx, buf, 16, NULL) == NULL) {
    errno = ENXIO;
    return NULL;
  }
  return buf;
}

/* application socket functions (ares_set_socket_functions_ex) whose interface callbacks know one more interface than the
 * (interposed) libc: op `appif <h> <hex name> <idx>`.  ares_dup() has to carry them over before it re-applies the server
 * list, or a link-local server bound to that interface is lost in the copy. */
typedef struct {
  char         name[32];
  unsigned int idx;
} appif_t;
static appif_t appifs[16];
static unsigned int app_nametoindex(const char *ifname, void *ud)
{
  const appif_t *a = ud;
  unsigned int   r = h_nametoindex(ifname, NULL);
  if (r == 0 && a != NULL && !strcmp(a->name, ifname)) {
    r = a->idx;
  }
  return r;
}
static const char *app_indextoname(unsigned int idx, char *buf, size_t buflen, void *ud)
{
  const appif_t *a = ud;
  if (h_indextoname(idx, buf, buflen, NULL) != NULL) {
    return buf;
  }
  if (a != NULL && a->idx == idx) {
    ares_strcpy(buf, a->name, buflen);
    return buf;
  }
  return NULL;
}
static ares_socket_t app_socket(int domain, int type, int protocol, void *ud)
{
  (void)ud;
  return socket(domain, type, protocol);
}
static int app_close(ares_socket_t fd, void *ud)
{
  (void)ud;
  return close(fd);
}
static int app_setsockopt(ares_socket_t fd, ares_socket_opt_t opt, const void *val, ares_socklen_t len, void *ud)
{
  (void)fd;
  (void)opt;
  (void)val;
  (void)len;
  (void)ud;
  return 0;
}
static int app_connect(ares_socket_t fd, const struct sockaddr *sa, ares_socklen_t len, unsigned int flags, void *ud)
{
  (void)flags;
  (void)ud;
  return connect(fd, sa, len);
}
static ares_ssize_t app_recvfrom(ares_socket_t fd, void *buf, size_t len, int flags, struct sockaddr *sa, ares_socklen_t *salen,
                                 void *ud)
{
  (void)ud;
  return recvfrom(fd, buf, len, flags, sa, salen);
}
static ares_ssize_t app_sendto(ares_socket_t fd, const void *buf, size_t len, int flags, const struct sockaddr *sa,
                               ares_socklen_t salen, void *ud)
{
  (void)ud;
  return sendto(fd, buf, len, flags, sa, salen);
}
static const struct ares_socket_functions_ex appfuncs = { 1,           0,           app_socket,      app_close,      app_setsockopt,
                                                          app_connect, app_recvfrom, app_sendto,     NULL,           NULL,
                                                          app_nametoindex, app_indextoname };

static void install_ifaces(ares_channel_t *ch)
{
  (void)ch; /* nothing to do: the default socket functions reach the table through the interposed libc calls */
}

/* ------------------------------------------------------------------------------------------
 * printing helpers
 */
static const char *stclass(ares_status_t st)
{
  switch (st) {
    case ARES_SUCCESS:
      return "ok";
    case ARES_ENOMEM:
      return "nomem";
    case ARES_ENOTFOUND:
      return "notfound";
    default:
      return "err";
  }
}

static char *unhex_str(const char *tok, size_t *lenp)
{
  size_t         cap = strlen(tok) / 2 + 2;
  unsigned char *b   = malloc(cap);
  size_t         n   = h_unhex(tok, b, cap - 1);
  b[n]               = 0;
  if (lenp) {
    *lenp = n;
  }
  return (char *)b;
}

static void phex_str(const char *s)
{
  if (s == NULL) {
    fputs("none", stdout);
  } else {
    h_hex((const unsigned char *)s, strlen(s));
  }
}

static void paddr(const struct ares_addr *a)
{
  if (a->family == AF_INET) {
    fputs("4:", stdout);
    h_hex((const unsigned char *)&a->addr.addr4, 4);
  } else if (a->family == AF_INET6) {
    fputs("6:", stdout);
    h_hex((const unsigned char *)&a->addr.addr6, 16);
  } else {
    printf("?%d", a->family);
  }
}

static void pservers(const ares_channel_t *ch)
{
  ares_slist_node_t *n;
  int                first = 1;
  fputs("servers=[", stdout);
  for (n = ares_slist_node_first(ch->servers); n != NULL; n = ares_slist_node_next(n)) {
    const ares_server_t *s = ares_slist_node_val(n);
    if (!first) {
      fputc(' ', stdout);
    }
    first = 0;
    paddr(&s->addr);
    printf("/%u/%u/", (unsigned)s->udp_port, (unsigned)s->tcp_port);
    h_hex((const unsigned char *)s->ll_iface, strlen(s->ll_iface));
    if (strlen(s->ll_iface)) {
      printf("/%u", s->ll_scope);
    }
  }
  fputc(']', stdout);
}

static void psort(const struct apattern *sl, size_t n)
{
  size_t i;
  fputs("sort=[", stdout);
  for (i = 0; i < n; i++) {
    if (i) {
      fputc(' ', stdout);
    }
    paddr(&sl[i].addr);
    printf("/%u", (unsigned)sl[i].mask);
  }
  fputc(']', stdout);
}

static void pstrlist(const char *key, char **l, size_t n, int isnull)
{
  size_t i;
  printf("%s=", key);
  if (isnull) {
    fputs("none", stdout);
    return;
  }
  fputc('[', stdout);
  for (i = 0; i < n; i++) {
    if (i) {
      fputc(',', stdout);
    }
    phex_str(l[i]);
  }
  fputc(']', stdout);
}

/* ------------------------------------------------------------------------------------------
 * scratch channel: no servers, virtual interfaces installed
 */
static ares_channel_t *mk_scratch(unsigned int flags)
{
  struct ares_options o;
  ares_channel_t     *ch = NULL;
  int                 hide = vfs_hide;
  memset(&o, 0, sizeof(o));
  o.flags  = (int)flags;
  vfs_hide = 1;
  if (ares_init_options(&ch, &o, ARES_OPT_FLAGS) != ARES_SUCCESS) {
    vfs_hide = hide;
    return NULL;
  }
  vfs_hide = hide;
  ares_set_servers_ports_csv(ch, "");
  install_ifaces(ch);
  return ch;
}

static void sysconfig_free(ares_sysconfig_t *sc)
{
  ares_llist_destroy(sc->sconfig);
  ares_strsplit_free(sc->domains, sc->ndomains);
  ares_free(sc->sortlist);
  ares_free(sc->lookups);
  memset(sc, 0, sizeof(*sc));
}

/* print a sysconfig; the server list is observed by applying it to the (empty) scratch channel */
static void dump_sysconfig(ares_status_t st, ares_channel_t *ch, ares_sysconfig_t *sc)
{
  printf("st=%s", stclass(st));
  printf(" nsconf=%lu ", (unsigned long)ares_llist_len(sc->sconfig));
  if (sc->sconfig) {
    ares_servers_update(ch, sc->sconfig, ARES_FALSE);
  }
  pservers(ch);
  fputc(' ', stdout);
  psort(sc->sortlist, sc->sortlist ? sc->nsortlist : 0);
  fputc(' ', stdout);
  pstrlist("domains", sc->domains, sc->ndomains, sc->domains == NULL);
  fputs(" lookups=", stdout);
  phex_str(sc->lookups);
  printf(" ndots=%lu tries=%lu rotate=%d timeout=%lu usevc=%d\n", (unsigned long)sc->ndots,
         (unsigned long)sc->tries, (int)sc->rotate, (unsigned long)sc->timeout_ms, (int)sc->usevc);
}

/* ------------------------------------------------------------------------------------------
 * C15 ops
 */
static void op_resolv(const char *hex)
{
  size_t           len;
  char            *txt = unhex_str(hex, &len);
  ares_channel_t  *ch  = mk_scratch(0);
  ares_sysconfig_t sc;
  ares_buf_t      *buf = ares_buf_create();
  ares_status_t    st;
  memset(&sc, 0, sizeof(sc));
  sc.ndots = 1;
  if (len) {
    ares_buf_append(buf, (const unsigned char *)txt, len);
  }
  st = ares_sysconfig_process_buf(ch, &sc, buf, ares_sysconfig_parse_resolv_line);
  dump_sysconfig(st, ch, &sc);
  sysconfig_free(&sc);
  ares_buf_destroy(buf);
  ares_destroy(ch);
  free(txt);
}

static void op_sysfiles(int process_resolv)
{
  ares_channel_t  *ch = mk_scratch(0);
  ares_sysconfig_t sc;
  ares_status_t    st;
  memset(&sc, 0, sizeof(sc));
  sc.ndots = 1;
  st       = ares_init_sysconfig_files(ch, &sc, process_resolv ? ARES_TRUE : ARES_FALSE);
  dump_sysconfig(st, ch, &sc);
  sysconfig_free(&sc);
  ares_destroy(ch);
}

static void op_setopts(const char *hex)
{
  char            *txt = unhex_str(hex, NULL);
  ares_channel_t  *ch  = mk_scratch(0);
  ares_sysconfig_t sc;
  ares_status_t    st;
  memset(&sc, 0, sizeof(sc));
  sc.ndots = 1;
  st       = ares_sysconfig_set_options(&sc, txt);
  dump_sysconfig(st, ch, &sc);
  sysconfig_free(&sc);
  ares_destroy(ch);
  free(txt);
}

static void op_envinit(void)
{
  ares_channel_t  *ch = mk_scratch(0);
  ares_sysconfig_t sc;
  ares_status_t    st;
  memset(&sc, 0, sizeof(sc));
  sc.ndots = 1;
  st       = ares_init_by_environment(&sc);
  dump_sysconfig(st, ch, &sc);
  sysconfig_free(&sc);
  ares_destroy(ch);
}

static void op_sortlist(const char *hex)
{
  char            *txt = unhex_str(hex, NULL);
  struct apattern *sl  = NULL;
  size_t           n   = 0;
  ares_status_t    st  = ares_parse_sortlist(&sl, &n, txt);
  printf("st=%s ", stclass(st));
  psort(sl, sl ? n : 0);
  fputc('\n', stdout);
  ares_free(sl);
  free(txt);
}

static void op_servers(const char *hex, int ignore_invalid)
{
  char           *txt = unhex_str(hex, NULL);
  ares_channel_t *ch  = mk_scratch(0);
  ares_llist_t   *sl  = NULL;
  ares_status_t   st  = ares_sconfig_append_fromstr(ch, &sl, txt, ignore_invalid ? ARES_TRUE : ARES_FALSE);
  printf("st=%s nsconf=%lu ", stclass(st), (unsigned long)ares_llist_len(sl));
  if (sl) {
    ares_servers_update(ch, sl, ARES_FALSE);
  }
  pservers(ch);
  fputc('\n', stdout);
  ares_llist_destroy(sl);
  ares_destroy(ch);
  free(txt);
}

/* hosts <path> <q>...   q = n:<namehex> (search by host name) | a:<texthex> (search by address text)
 * per query: ok|<primary>;al=<aliases>;ad=<addresses in file order>   (ares_hosts_entry_to_addrinfo) */
static ares_channel_t *hosts_keep = NULL; /* `hostsk`: one channel for all lookups of the case (its cached copy of the file matters) */
static void            op_hosts(int nt, char **t)
{
  struct ares_options o;
  int                 keep = !strcmp(t[0], "hostsk");
  ares_channel_t     *ch   = keep ? hosts_keep : NULL;
  int                 i;
  int                 hide = vfs_hide;
  memset(&o, 0, sizeof(o));
  o.hosts_path = t[1];
  vfs_hide     = 1;
  if (ch == NULL && ares_init_options(&ch, &o, ARES_OPT_HOSTS_FILE) != ARES_SUCCESS) {
    vfs_hide = hide;
    puts("init-failed");
    return;
  }
  if (keep) {
    hosts_keep = ch;
  }
  vfs_hide = hide;
  for (i = 2; i < nt; i++) {
    const ares_hosts_entry_t *e  = NULL;
    char                     *q  = unhex_str(t[i] + 2, NULL);
    ares_status_t             st = (t[i][0] == 'a') ? ares_hosts_search_ipaddr(ch, ARES_FALSE, q, &e)
                                                     : ares_hosts_search_host(ch, ARES_FALSE, q, &e);
    if (i > 2) {
      fputc(' ', stdout);
    }
    printf("%s", stclass(st));
    if (st == ARES_SUCCESS) {
      struct ares_addrinfo *ai = ares_malloc_zero(sizeof(*ai));
      ares_status_t st2 = ares_hosts_entry_to_addrinfo(e, NULL, AF_UNSPEC, 0, ARES_TRUE, ai);
      if (st2 != ARES_SUCCESS) {
        printf("|%s", stclass(st2));
      } else {
        const struct ares_addrinfo_cname *c;
        const struct ares_addrinfo_node  *n;
        int                               first = 1;
        fputc('|', stdout);
        phex_str(ai->cnames ? ai->cnames->name : NULL);
        fputs(";al=", stdout);
        for (c = ai->cnames; c != NULL; c = c->next) {
          if (c->alias == NULL) {
            continue;
          }
          if (!first) {
            fputc(',', stdout);
          }
          first = 0;
          phex_str(c->alias);
        }
        fputs(";ad=", stdout);
        first = 1;
        for (n = ai->nodes; n != NULL; n = n->ai_next) {
          struct ares_addr a;
          memset(&a, 0, sizeof(a));
          a.family = n->ai_family;
          if (n->ai_family == AF_INET) {
            memcpy(&a.addr.addr4, &((struct sockaddr_in *)n->ai_addr)->sin_addr, 4);
          } else {
            memcpy(&a.addr.addr6, &((struct sockaddr_in6 *)n->ai_addr)->sin6_addr, 16);
          }
          if (!first) {
            fputc(',', stdout);
          }
          first = 0;
          paddr(&a);
        }
      }
      ares_freeaddrinfo(ai);
    }
    free(q);
  }
  if (nt <= 2) {
    fputs("ok", stdout);
  }
  fputc('\n', stdout);
  if (!keep) {
    ares_destroy(ch);
  }
}

static void op_aliases(const char *namehex, unsigned int flags)
{
  char           *name  = unhex_str(namehex, NULL);
  ares_channel_t *ch    = mk_scratch(flags);
  char           *alias = NULL;
  ares_status_t   st    = ares_lookup_hostaliases(ch, name, &alias);
  printf("st=%s alias=", stclass(st));
  phex_str(alias);
  fputc('\n', stdout);
  ares_free(alias);
  ares_destroy(ch);
  free(name);
}

/* namelist <name-hex> <ndots> <flags> <domains: hex,hex|-> */
static void op_namelist(const char *namehex, unsigned long ndots, unsigned int flags, char *domtok)
{
  char           *name  = unhex_str(namehex, NULL);
  ares_channel_t *ch    = mk_scratch(flags);
  char          **names = NULL;
  size_t          n     = 0;
  ares_status_t   st;
  /* install the domain list */
  ares_strsplit_free(ch->domains, ch->ndomains);
  ch->domains  = NULL;
  ch->ndomains = 0;
  if (strcmp(domtok, "-")) {
    size_t cnt = 1;
    char  *p;
    char  *save = NULL;
    for (p = domtok; *p; p++) {
      if (*p == ',') {
        cnt++;
      }
    }
    ch->domains = ares_malloc_zero(cnt * sizeof(char *));
    for (p = strtok_r(domtok, ",", &save); p != NULL; p = strtok_r(NULL, ",", &save)) {
      char *d                     = unhex_str(p, NULL);
      ch->domains[ch->ndomains++] = ares_strdup(d);
      free(d);
    }
  }
  ch->ndots = ndots;
  st        = ares_search_name_list(ch, name, &names, &n);
  printf("st=%s ", stclass(st));
  pstrlist("names", names, n, st != ARES_SUCCESS);
  fputc('\n', stdout);
  if (st == ARES_SUCCESS) {
    ares_strsplit_free(names, n);
  }
  ares_destroy(ch);
  free(name);
}

static void op_pton(int fam, const char *hex)
{
  char            *txt = unhex_str(hex, NULL);
  struct ares_addr a;
  size_t           alen = 0;
  memset(&a, 0, sizeof(a));
  a.family = fam == 4 ? AF_INET : (fam == 6 ? AF_INET6 : AF_UNSPEC);
  if (ares_dns_pton(txt, &a, &alen) == NULL) {
    puts("fail");
  } else {
    paddr(&a);
    fputc('\n', stdout);
  }
  free(txt);
}

static int parse_addr(const char *tok, struct ares_addr *a)
{
  unsigned char b[16];
  memset(a, 0, sizeof(*a));
  if (tok[0] == '4' && tok[1] == ':' && h_unhex(tok + 2, b, 4) == 4) {
    a->family = AF_INET;
    memcpy(&a->addr.addr4, b, 4);
    return 1;
  }
  if (tok[0] == '6' && tok[1] == ':' && h_unhex(tok + 2, b, 16) == 16) {
    a->family = AF_INET6;
    memcpy(&a->addr.addr6, b, 16);
    return 1;
  }
  return 0;
}

/* ntoppton <addr>: text form and what parsing the text form gives back */
static void op_ntoppton(const char *tok)
{
  struct ares_addr a, b;
  char             out[64];
  size_t           blen = 0;
  if (!parse_addr(tok, &a) || ares_inet_ntop(a.family, &a.addr, out, sizeof(out)) == NULL) {
    puts("fail");
    return;
  }
  phex_str(out);
  fputc(' ', stdout);
  memset(&b, 0, sizeof(b));
  b.family = AF_UNSPEC;
  if (ares_dns_pton(out, &b, &blen) == NULL) {
    puts("fail");
    return;
  }
  paddr(&b);
  fputc('\n', stdout);
}

static void op_ntop(const char *tok)
{
  struct ares_addr a;
  char             out[64];
  if (!parse_addr(tok, &a) || ares_inet_ntop(a.family, &a.addr, out, sizeof(out)) == NULL) {
    puts("fail");
    return;
  }
  phex_str(out);
  fputc('\n', stdout);
}

/* ------------------------------------------------------------------------------------------
 * C12 walk: ares_search / ares_getaddrinfo over one virtual UDP server that answers every transmitted
 * question at once with the next scripted outcome.  Observed: question names seen by the server (in
 * order) and the final status handed to the callback.
 */
#define MAXSENT 32
static struct {
  char          *sent[MAXSENT];
  int            nsent;
  const char    *outcomes[MAXSENT];
  int            noutcomes;
  unsigned char *reply;
  size_t         reply_len;
  int            fd;
  int            cb_count;
  int            cb_status;
} vs;

static const char *stname(int st)
{
  switch (st) {
    case ARES_SUCCESS: return "success";
    case ARES_ENODATA: return "enodata";
    case ARES_EFORMERR: return "eformerr";
    case ARES_ESERVFAIL: return "eservfail";
    case ARES_ENOTFOUND: return "enotfound";
    case ARES_ENOTIMP: return "enotimp";
    case ARES_EREFUSED: return "erefused";
    case ARES_EBADQUERY: return "ebadquery";
    case ARES_EBADNAME: return "ebadname";
    case ARES_EBADFAMILY: return "ebadfamily";
    case ARES_EBADRESP: return "ebadresp";
    case ARES_ECONNREFUSED: return "econnrefused";
    case ARES_ETIMEOUT: return "etimeout";
    case ARES_EOF: return "eof";
    case ARES_EFILE: return "efile";
    case ARES_ENOMEM: return "enomem";
    case ARES_EDESTRUCTION: return "edestruction";
    case ARES_EBADSTR: return "ebadstr";
    case ARES_ECANCELLED: return "ecancelled";
    case ARES_ENOSERVER: return "enoserver";
    default: return "other";
  }
}

static ares_socket_t vs_socket(int domain, int type, int protocol, void *ud)
{
  (void)domain; (void)type; (void)protocol; (void)ud;
  return (ares_socket_t)(100 + vs.fd++);
}
static int vs_close(ares_socket_t s, void *ud) { (void)s; (void)ud; return 0; }
static int vs_setsockopt(ares_socket_t s, ares_socket_opt_t o, const void *v, ares_socklen_t l, void *ud)
{
  (void)s; (void)o; (void)v; (void)l; (void)ud;
  return 0;
}
static int vs_connect(ares_socket_t s, const struct sockaddr *a, ares_socklen_t l, unsigned int f, void *ud)
{
  (void)s; (void)a; (void)l; (void)f; (void)ud;
  return 0;
}

static void vs_build_reply(const unsigned char *q, size_t qlen)
{
  ares_dns_record_t  *req = NULL, *resp = NULL;
  const char         *name = NULL;
  ares_dns_rec_type_t qtype;
  ares_dns_class_t    qclass;
  const char         *oc;
  ares_dns_rcode_t    rcode = ARES_RCODE_NOERROR;
  int                 answer = 0;
  ares_free(vs.reply);
  vs.reply     = NULL;
  vs.reply_len = 0;
  if (ares_dns_parse(q, qlen, 0, &req) != ARES_SUCCESS) {
    return;
  }
  if (ares_dns_record_query_get(req, 0, &name, &qtype, &qclass) != ARES_SUCCESS) {
    ares_dns_record_destroy(req);
    return;
  }
  oc = vs.nsent < vs.noutcomes ? vs.outcomes[vs.nsent] : "silent";
  if (vs.nsent < MAXSENT) {
    vs.sent[vs.nsent++] = strdup(name);
  }
  if (!strcmp(oc, "silent")) {
    ares_dns_record_destroy(req);
    return;
  }
  if (!strcmp(oc, "noerror")) {
    answer = 1;
  } else if (!strcmp(oc, "nxdomain")) {
    rcode = ARES_RCODE_NXDOMAIN;
  } else if (!strcmp(oc, "servfail")) {
    rcode = ARES_RCODE_SERVFAIL;
  } else if (!strcmp(oc, "refused")) {
    rcode = ARES_RCODE_REFUSED;
  } else if (!strcmp(oc, "formerr")) {
    rcode = ARES_RCODE_FORMERR;
  } else if (!strcmp(oc, "notimp")) {
    rcode = ARES_RCODE_NOTIMP;
  }
  ares_dns_record_create(&resp, ares_dns_record_get_id(req), ARES_FLAG_QR | ARES_FLAG_RD | ARES_FLAG_RA, ARES_OPCODE_QUERY, rcode);
  ares_dns_record_query_add(resp, name, qtype, qclass);
  if (answer) {
    ares_dns_rr_t *rr = NULL;
    if (qtype == ARES_REC_TYPE_AAAA) {
      struct ares_in6_addr a6;
      memset(&a6, 0, sizeof(a6));
      a6._S6_un._S6_u8[15] = 1;
      ares_dns_record_rr_add(&rr, resp, ARES_SECTION_ANSWER, name, ARES_REC_TYPE_AAAA, qclass, 60);
      ares_dns_rr_set_addr6(rr, ARES_RR_AAAA_ADDR, &a6);
    } else {
      struct in_addr a4;
      a4.s_addr = htonl(0x01020304);
      ares_dns_record_rr_add(&rr, resp, ARES_SECTION_ANSWER, name, ARES_REC_TYPE_A, qclass, 60);
      ares_dns_rr_set_addr(rr, ARES_RR_A_ADDR, &a4);
    }
  }
  ares_dns_write(resp, &vs.reply, &vs.reply_len);
  ares_dns_record_destroy(resp);
  ares_dns_record_destroy(req);
}

static ares_ssize_t vs_sendto(ares_socket_t s, const void *buf, size_t len, int flags, const struct sockaddr *a,
                              ares_socklen_t al, void *ud)
{
  (void)s; (void)flags; (void)a; (void)al; (void)ud;
  vs_build_reply(buf, len);
  return (ares_ssize_t)len;
}

static ares_ssize_t vs_recvfrom(ares_socket_t s, void *buf, size_t len, int flags, struct sockaddr *from,
                                ares_socklen_t *fromlen, void *ud)
{
  size_t n;
  (void)s; (void)flags; (void)ud;
  if (vs.reply == NULL) {
    errno = EWOULDBLOCK;
    return -1;
  }
  n = vs.reply_len < len ? vs.reply_len : len;
  memcpy(buf, vs.reply, n);
  ares_free(vs.reply);
  vs.reply = NULL;
  if (from != NULL && fromlen != NULL && *fromlen >= sizeof(struct sockaddr_in)) {
    struct sockaddr_in *sin = (struct sockaddr_in *)from;
    memset(sin, 0, sizeof(*sin));
    sin->sin_family      = AF_INET;
    sin->sin_port        = htons(53);
    sin->sin_addr.s_addr = htonl(0x0a000001);
    *fromlen             = sizeof(*sin);
  }
  return (ares_ssize_t)n;
}

static void vs_search_cb(void *arg, int status, int timeouts, unsigned char *abuf, int alen)
{
  (void)arg; (void)timeouts; (void)abuf; (void)alen;
  vs.cb_count++;
  vs.cb_status = status;
}

static void vs_gai_cb(void *arg, int status, int timeouts, struct ares_addrinfo *ai)
{
  (void)arg; (void)timeouts;
  vs.cb_count++;
  vs.cb_status = status;
  ares_freeaddrinfo(ai);
}

static void wait_reinit(ares_channel_t *ch);
/* walk <search|gai> <name-hex> <ndots | conf:hex[:hex]> <flags> <domains> <outcome,outcome,...> */
static void op_walk(char **t)
{
  static const struct ares_socket_functions_ex funcs = { 1, 0, vs_socket, vs_close, vs_setsockopt, vs_connect,
                                                         vs_recvfrom, vs_sendto, NULL, NULL, NULL, NULL };
  struct ares_options o;
  ares_channel_t     *ch = NULL;
  struct in_addr      srv;
  char               *name  = unhex_str(t[2], NULL);
  unsigned int        flags = (unsigned int)strtoul(t[4], NULL, 0);
  char               *lk    = strdup("b");
  char               *p, *save = NULL;
  int                 i, hide = vfs_hide, guard = 0;

  memset(&vs, 0, sizeof(vs));
  for (p = strtok_r(t[6], ",", &save); p && vs.noutcomes < MAXSENT; p = strtok_r(NULL, ",", &save)) {
    vs.outcomes[vs.noutcomes++] = p;
  }
  memset(&o, 0, sizeof(o));
  srv.s_addr       = htonl(0x0a000001);
  o.flags          = (int)(flags | ARES_FLAG_NOCHECKRESP);
  o.servers        = &srv;
  o.nservers       = 1;
  o.lookups        = lk;
  o.tries          = 1;
  o.ndots          = atoi(t[3]);
  o.qcache_max_ttl = 0;
  if (!strncmp(t[3], "conf:", 5)) {
    /* ndots comes from the system configuration: conf:<resolv.conf hex>[:<resolv.conf hex after a change + ares_reinit>] */
    char  *c1 = strdup(t[3] + 5), *c2 = strchr(c1, ':');
    char  *d;
    size_t len;
    if (c2) {
      *c2++ = 0;
    }
    d = unhex_str(c1, &len);
    vfs_set("/virt/walk.conf", (unsigned char *)d, len, 1);
    free(d);
    o.resolvconf_path = (char *)"/virt/walk.conf";
    vfs_hide          = 0;
    if (ares_init_options(&ch, &o, ARES_OPT_FLAGS | ARES_OPT_SERVERS | ARES_OPT_LOOKUPS | ARES_OPT_TRIES | ARES_OPT_RESOLVCONF |
                                     ARES_OPT_QUERY_CACHE) != ARES_SUCCESS) {
      vfs_hide = hide;
      puts("init-failed");
      free(name);
      free(lk);
      free(c1);
      return;
    }
    if (c2) {
      d = unhex_str(c2, &len);
      vfs_set("/virt/walk.conf", (unsigned char *)d, len, 1);
      free(d);
      ares_reinit(ch);
      wait_reinit(ch);
    }
    free(c1);
  } else {
  vfs_hide         = 1;
  if (ares_init_options(&ch, &o, ARES_OPT_FLAGS | ARES_OPT_SERVERS | ARES_OPT_LOOKUPS | ARES_OPT_TRIES | ARES_OPT_NDOTS |
                                   ARES_OPT_QUERY_CACHE) != ARES_SUCCESS) {
    vfs_hide = hide;
    puts("init-failed");
    free(name);
    free(lk);
    return;
  }
  }
  vfs_hide = hide;
  ares_set_socket_functions_ex(ch, &funcs, NULL);
  ares_strsplit_free(ch->domains, ch->ndomains);
  ch->domains  = NULL;
  ch->ndomains = 0;
  if (strcmp(t[5], "-")) {
    size_t cnt = 1;
    for (p = t[5]; *p; p++) {
      if (*p == ',') {
        cnt++;
      }
    }
    ch->domains = ares_malloc_zero(cnt * sizeof(char *));
    save        = NULL;
    for (p = strtok_r(t[5], ",", &save); p != NULL; p = strtok_r(NULL, ",", &save)) {
      char *d                     = unhex_str(p, NULL);
      ch->domains[ch->ndomains++] = ares_strdup(d);
      free(d);
    }
  }
  if (!strcmp(t[1], "gai")) {
    struct ares_addrinfo_hints hints;
    memset(&hints, 0, sizeof(hints));
    hints.ai_family = AF_INET;
    hints.ai_flags  = ARES_AI_NOSORT;
    ares_getaddrinfo(ch, name, NULL, &hints, vs_gai_cb, NULL);
  } else {
    ares_search(ch, name, ARES_CLASS_IN, ARES_REC_TYPE_A, vs_search_cb, NULL);
  }
  while (vs.cb_count == 0 && vs.reply != NULL && guard++ < 200) {
    ares_process_fd(ch, (ares_socket_t)(100 + vs.fd - 1), ARES_SOCKET_BAD);
  }
  if (vs.cb_count == 0) {
    /* a silent server: let the request end through cancellation so that nothing is left pending */
    ares_cancel(ch);
  }
  fputs("sent=[", stdout);
  for (i = 0; i < vs.nsent; i++) {
    if (i) {
      fputc(',', stdout);
    }
    phex_str(vs.sent[i]);
    free(vs.sent[i]);
  }
  printf("] st=%s", stname(vs.cb_status));
  if (vs.cb_count != 1) {
    printf(" callbacks=%d", vs.cb_count);
  }
  fputc('\n', stdout);
  ares_destroy(ch);
  ares_free(vs.reply);
  vs.reply = NULL;
  free(name);
  free(lk);
}

/* ------------------------------------------------------------------------------------------
 * C16 ops: whole channels
 */
#define MAXCH 8
static ares_channel_t *chans[MAXCH];

static void wait_reinit(ares_channel_t *ch)
{
  int i;
  for (i = 0; i < 20000; i++) {
    ares_bool_t pending;
    ares_channel_lock(ch);
    pending = ch->reinit_pending;
    ares_channel_unlock(ch);
    if (!pending) {
      break;
    }
    usleep(200);
  }
}

static void chans_reset(void)
{
  int i;
  for (i = 0; i < MAXCH; i++) {
    if (chans[i]) {
      wait_reinit(chans[i]);
      ares_destroy(chans[i]);
      chans[i] = NULL;
    }
  }
}

static void dump_effective(const ares_channel_t *ch)
{
  pservers(ch);
  fputc(' ', stdout);
  pstrlist("domains", ch->domains, ch->ndomains, 0);
  fputs(" lookups=", stdout);
  phex_str(ch->lookups);
  fputc(' ', stdout);
  psort(ch->sortlist, ch->nsort);
  printf(" ndots=%lu tries=%lu timeout=%lu maxtimeout=%lu rotate=%d flags=0x%x udpport=%u tcpport=%u "
         "sndbuf=%d rcvbuf=%d ednspsz=%lu udpmaxq=%lu qcache=%u retry=%u/%lu mask=0x%x resolv=",
         (unsigned long)ch->ndots, (unsigned long)ch->tries, (unsigned long)ch->timeout,
         (unsigned long)ch->maxtimeout, (int)ch->rotate, ch->flags, (unsigned)ch->udp_port, (unsigned)ch->tcp_port,
         ch->socket_send_buffer_size, ch->socket_receive_buffer_size, (unsigned long)ch->ednspsz,
         (unsigned long)ch->udp_max_queries, ch->qcache_max_ttl, (unsigned)ch->server_retry_chance,
         (unsigned long)ch->server_retry_delay, ch->optmask);
  phex_str(ch->resolvconf_path);
  fputs(" hosts=", stdout);
  phex_str(ch->hosts_path);
}

static const char *kv(int nt, char **t, const char *key)
{
  size_t kl = strlen(key);
  int    i;
  for (i = 0; i < nt; i++) {
    if (!strncmp(t[i], key, kl) && t[i][kl] == '=') {
      return t[i] + kl + 1;
    }
  }
  return NULL;
}

static long kvl(int nt, char **t, const char *key, long dflt)
{
  const char *v = kv(nt, t, key);
  return v ? strtol(v, NULL, 0) : dflt;
}

static void free_opts(struct ares_options *o)
{
  int i;
  free(o->servers);
  for (i = 0; o->domains && i < o->ndomains; i++) {
    free(o->domains[i]);
  }
  free(o->domains);
  free(o->sortlist);
  free(o->lookups);
  free(o->resolvconf_path);
  free(o->hosts_path);
}

/* init C mask=0x.. [null=1] field=value ... */
static void op_init(int nt, char **t)
{
  int                 h = atoi(t[1]);
  struct ares_options o;
  int                 mask = (int)kvl(nt, t, "mask", 0);
  const char         *v;
  ares_status_t       st;
  int                 usenull = (int)kvl(nt, t, "null", 0);
  if (h < 0 || h >= MAXCH) {
    puts("bad-handle");
    return;
  }
  if (chans[h]) {
    wait_reinit(chans[h]);
    ares_destroy(chans[h]);
    chans[h] = NULL;
  }
  memset(&o, 0, sizeof(o));
  o.flags                      = (int)kvl(nt, t, "flags", 0);
  o.timeout                    = (int)kvl(nt, t, "timeout", 0);
  o.tries                      = (int)kvl(nt, t, "tries", 0);
  o.ndots                      = (int)kvl(nt, t, "ndots", 0);
  o.maxtimeout                 = (int)kvl(nt, t, "maxtimeout", 0);
  o.udp_port                   = (unsigned short)kvl(nt, t, "udpport", 0);
  o.tcp_port                   = (unsigned short)kvl(nt, t, "tcpport", 0);
  o.socket_send_buffer_size    = (int)kvl(nt, t, "sndbuf", 0);
  o.socket_receive_buffer_size = (int)kvl(nt, t, "rcvbuf", 0);
  o.ednspsz                    = (int)kvl(nt, t, "ednspsz", 0);
  o.udp_max_queries            = (int)kvl(nt, t, "udpmaxq", 0);
  o.qcache_max_ttl             = (unsigned int)kvl(nt, t, "qcache", 0);
  o.server_failover_opts.retry_chance = (unsigned short)kvl(nt, t, "retrychance", 0);
  o.server_failover_opts.retry_delay  = (size_t)kvl(nt, t, "retrydelay", 0);
  o.nservers                   = (int)kvl(nt, t, "nservers", 0);
  o.ndomains                   = (int)kvl(nt, t, "ndomains", 0);
  o.nsort                      = (int)kvl(nt, t, "nsort", 0);
  if ((v = kv(nt, t, "servers")) != NULL && strcmp(v, "-")) {
    char *dup = strdup(v), *p, *save = NULL;
    int   n   = 0;
    o.servers = calloc(64, sizeof(struct in_addr));
    for (p = strtok_r(dup, ",", &save); p && n < 64; p = strtok_r(NULL, ",", &save)) {
      struct ares_addr a;
      if (parse_addr(p, &a) && a.family == AF_INET) {
        memcpy(&o.servers[n++], &a.addr.addr4, 4);
      }
    }
    free(dup);
    if (kv(nt, t, "nservers") == NULL) {
      o.nservers = n;
    }
  }
  if ((v = kv(nt, t, "domains")) != NULL && strcmp(v, "-")) {
    char *dup = strdup(v), *p, *save = NULL;
    int   n   = 0;
    o.domains = calloc(64, sizeof(char *));
    for (p = strtok_r(dup, ",", &save); p && n < 64; p = strtok_r(NULL, ",", &save)) {
      o.domains[n++] = unhex_str(p, NULL);
    }
    free(dup);
    o.ndomains = n;
  }
  if ((v = kv(nt, t, "lookups")) != NULL && strcmp(v, "null")) {
    o.lookups = unhex_str(v, NULL);
  }
  if ((v = kv(nt, t, "sort")) != NULL && strcmp(v, "-")) {
    char *dup  = strdup(v), *p, *save = NULL;
    int   n    = 0;
    o.sortlist = calloc(64, sizeof(struct apattern));
    for (p = strtok_r(dup, ",", &save); p && n < 64; p = strtok_r(NULL, ",", &save)) {
      char *slash = strchr(p, '/');
      if (slash) {
        *slash = 0;
        if (parse_addr(p, &o.sortlist[n].addr)) {
          o.sortlist[n].mask = (unsigned char)atoi(slash + 1);
          n++;
        }
      }
    }
    free(dup);
    if (kv(nt, t, "nsort") == NULL) {
      o.nsort = n;
    }
  }
  if ((v = kv(nt, t, "resolvpath")) != NULL && strcmp(v, "null")) {
    o.resolvconf_path = strdup(v);
  }
  if ((v = kv(nt, t, "hostspath")) != NULL && strcmp(v, "null")) {
    o.hosts_path = strdup(v);
  }
  st = (ares_status_t)ares_init_options(&chans[h], usenull ? NULL : &o, usenull ? 0 : mask);
  printf("st=%s", stclass(st));
  if (st == ARES_SUCCESS) {
    install_ifaces(chans[h]);
    fputc(' ', stdout);
    dump_effective(chans[h]);
  } else {
    chans[h] = NULL;
  }
  fputc('\n', stdout);
  free_opts(&o);
}

static void dump_saved(const struct ares_options *o, int mask)
{
  int i;
  printf("mask=0x%x", (unsigned)mask);
  if (mask & ARES_OPT_FLAGS) {
    printf(" flags=0x%x", (unsigned)o->flags);
  }
  if (mask & ARES_OPT_TIMEOUTMS) {
    printf(" timeout=%d", o->timeout);
  }
  if (mask & ARES_OPT_TRIES) {
    printf(" tries=%d", o->tries);
  }
  if (mask & ARES_OPT_NDOTS) {
    printf(" ndots=%d", o->ndots);
  }
  if (mask & ARES_OPT_MAXTIMEOUTMS) {
    printf(" maxtimeout=%d", o->maxtimeout);
  }
  if (mask & ARES_OPT_UDP_PORT) {
    printf(" udpport=%u", (unsigned)o->udp_port);
  }
  if (mask & ARES_OPT_TCP_PORT) {
    printf(" tcpport=%u", (unsigned)o->tcp_port);
  }
  if (mask & ARES_OPT_SERVERS) {
    fputs(" servers=[", stdout);
    for (i = 0; i < o->nservers; i++) {
      if (i) {
        fputc(' ', stdout);
      }
      fputs("4:", stdout);
      h_hex((const unsigned char *)&o->servers[i], 4);
    }
    fputc(']', stdout);
  }
  if (mask & ARES_OPT_DOMAINS) {
    fputc(' ', stdout);
    pstrlist("domains", o->domains, (size_t)o->ndomains, 0);
  }
  if (mask & ARES_OPT_LOOKUPS) {
    fputs(" lookups=", stdout);
    phex_str(o->lookups);
  }
  if (mask & ARES_OPT_SORTLIST) {
    fputc(' ', stdout);
    psort(o->sortlist, (size_t)o->nsort);
  }
  if (mask & ARES_OPT_RESOLVCONF) {
    fputs(" resolv=", stdout);
    phex_str(o->resolvconf_path);
  }
  if (mask & ARES_OPT_HOSTS_FILE) {
    fputs(" hosts=", stdout);
    phex_str(o->hosts_path);
  }
  if (mask & ARES_OPT_SOCK_SNDBUF) {
    printf(" sndbuf=%d", o->socket_send_buffer_size);
  }
  if (mask & ARES_OPT_SOCK_RCVBUF) {
    printf(" rcvbuf=%d", o->socket_receive_buffer_size);
  }
  if (mask & ARES_OPT_EDNSPSZ) {
    printf(" ednspsz=%d", o->ednspsz);
  }
  if (mask & ARES_OPT_UDP_MAX_QUERIES) {
    printf(" udpmaxq=%d", o->udp_max_queries);
  }
  if (mask & ARES_OPT_QUERY_CACHE) {
    printf(" qcache=%u", o->qcache_max_ttl);
  }
  if (mask & ARES_OPT_SERVER_FAILOVER) {
    printf(" retry=%u/%lu", (unsigned)o->server_failover_opts.retry_chance,
           (unsigned long)o->server_failover_opts.retry_delay);
  }
}

static ares_channel_t *geth(const char *tok)
{
  int h = atoi(tok);
  if (h < 0 || h >= MAXCH) {
    return NULL;
  }
  return chans[h];
}

static void op_chan(int nt, char **t)
{
  const char     *cmd = t[0];
  ares_channel_t *ch  = nt > 1 ? geth(t[1]) : NULL;
  if (ch == NULL) {
    puts("bad-handle");
    return;
  }
  if (!strcmp(cmd, "eff")) {
    dump_effective(ch);
    fputc('\n', stdout);
  } else if (!strcmp(cmd, "save")) {
    struct ares_options o;
    int                 mask = 0;
    ares_status_t       st;
    memset(&o, 0, sizeof(o));
    st = (ares_status_t)ares_save_options(ch, &o, &mask);
    printf("st=%s ", stclass(st));
    if (st == ARES_SUCCESS) {
      dump_saved(&o, mask);
    }
    fputc('\n', stdout);
    ares_destroy_options(&o);
  } else if (!strcmp(cmd, "saveinit") && nt == 3) {
    /* save C -> init D from the saved options (the save->init leg of the property) */
    struct ares_options o;
    int                 mask = 0;
    int                 d    = atoi(t[2]);
    ares_status_t       st;
    memset(&o, 0, sizeof(o));
    if (d < 0 || d >= MAXCH || chans[d] == ch) {
      puts("bad-handle");
      return;
    }
    if (chans[d]) {
      wait_reinit(chans[d]);
      ares_destroy(chans[d]);
      chans[d] = NULL;
    }
    st = (ares_status_t)ares_save_options(ch, &o, &mask);
    if (st == ARES_SUCCESS) {
      st = (ares_status_t)ares_init_options(&chans[d], &o, mask);
    }
    printf("st=%s", stclass(st));
    if (st == ARES_SUCCESS) {
      install_ifaces(chans[d]);
      fputc(' ', stdout);
      dump_effective(chans[d]);
    } else {
      chans[d] = NULL;
    }
    fputc('\n', stdout);
    ares_destroy_options(&o);
  } else if (!strcmp(cmd, "dup") && nt == 3) {
    int           d = atoi(t[2]);
    ares_status_t st;
    if (d < 0 || d >= MAXCH || chans[d] == ch) {
      puts("bad-handle");
      return;
    }
    if (chans[d]) {
      wait_reinit(chans[d]);
      ares_destroy(chans[d]);
      chans[d] = NULL;
    }
    st = (ares_status_t)ares_dup(&chans[d], ch);
    printf("st=%s", stclass(st));
    if (st == ARES_SUCCESS) {
      fputc(' ', stdout);
      dump_effective(chans[d]);
    } else {
      chans[d] = NULL;
    }
    fputc('\n', stdout);
  } else if (!strcmp(cmd, "csv")) {
    char *csv = ares_get_servers_csv(ch);
    phex_str(csv);
    fputc('\n', stdout);
    ares_free_string(csv);
  } else if (!strcmp(cmd, "csvfix")) {
    /* the CSV fixpoint leg: render, feed back to the setter, render again */
    char         *csv1 = ares_get_servers_csv(ch);
    ares_status_t st   = csv1 ? (ares_status_t)ares_set_servers_ports_csv(ch, csv1) : ARES_ENOMEM;
    char         *csv2 = ares_get_servers_csv(ch);
    printf("st=%s csv1=", stclass(st));
    phex_str(csv1);
    fputs(" csv2=", stdout);
    phex_str(csv2);
    fputc(' ', stdout);
    pservers(ch);
    fputc('\n', stdout);
    ares_free_string(csv1);
    ares_free_string(csv2);
  } else if (!strcmp(cmd, "setcsv") && nt == 3) {
    char         *txt = unhex_str(t[2], NULL);
    ares_status_t st  = (ares_status_t)ares_set_servers_ports_csv(ch, txt);
    printf("st=%s ", stclass(st));
    pservers(ch);
    printf(" mask=0x%x\n", ch->optmask);
    free(txt);
  } else if (!strcmp(cmd, "appif") && nt == 4) {
    int           h   = atoi(t[1]);
    char         *nm  = unhex_str(t[2], NULL);
    ares_status_t st;
    snprintf(appifs[h].name, sizeof(appifs[h].name), "%s", nm ? nm : "");
    appifs[h].idx = (unsigned int)strtoul(t[3], NULL, 10);
    free(nm);
    st = ares_set_socket_functions_ex(ch, &appfuncs, &appifs[h]);
    printf("st=%s\n", stclass(st));
  } else if (!strcmp(cmd, "setsortlist") && nt == 3) {
    char         *txt = unhex_str(t[2], NULL);
    ares_status_t st  = (ares_status_t)ares_set_sortlist(ch, txt);
    printf("st=%s ", stclass(st));
    psort(ch->sortlist, ch->nsort);
    printf(" mask=0x%x\n", ch->optmask);
    free(txt);
  } else if (!strcmp(cmd, "setports") && nt == 3) {
    /* ares_set_servers_ports: addr/udp/tcp,... */
    struct ares_addr_port_node nodes[32];
    int                        n = 0;
    ares_status_t              st;
    if (strcmp(t[2], "-")) {
      char *dup = strdup(t[2]), *p, *save = NULL;
      for (p = strtok_r(dup, ",", &save); p && n < 32; p = strtok_r(NULL, ",", &save)) {
        struct ares_addr a;
        char            *s1 = strchr(p, '/');
        char            *s2 = s1 ? strchr(s1 + 1, '/') : NULL;
        if (!s1 || !s2) {
          continue;
        }
        *s1 = 0;
        *s2 = 0;
        if (!parse_addr(p, &a)) {
          continue;
        }
        memset(&nodes[n], 0, sizeof(nodes[n]));
        nodes[n].family = a.family;
        if (a.family == AF_INET) {
          memcpy(&nodes[n].addr.addr4, &a.addr.addr4, 4);
        } else {
          memcpy(&nodes[n].addr.addr6, &a.addr.addr6, 16);
        }
        nodes[n].udp_port = atoi(s1 + 1);
        nodes[n].tcp_port = atoi(s2 + 1);
        if (n > 0) {
          nodes[n - 1].next = &nodes[n];
        }
        n++;
      }
      free(dup);
    }
    st = (ares_status_t)ares_set_servers_ports(ch, n ? nodes : NULL);
    printf("st=%s ", stclass(st));
    pservers(ch);
    printf(" mask=0x%x\n", ch->optmask);
  } else if (!strcmp(cmd, "reinit")) {
    ares_status_t st = ares_reinit(ch);
    wait_reinit(ch);
    printf("st=%s ", stclass(st));
    dump_effective(ch);
    fputc('\n', stdout);
  } else if (!strcmp(cmd, "destroy")) {
    wait_reinit(ch);
    ares_destroy(ch);
    chans[atoi(t[1])] = NULL;
    puts("ok");
  } else {
    puts("bad-op");
  }
}

/* ------------------------------------------------------------------------------------------ */
static void reset_all(void)
{
  if (hosts_keep) {
    ares_destroy(hosts_keep);
    hosts_keep = NULL;
  }
  vtime_now = 0;
  chans_reset();
  vfs_reset();
  nifs = 0;
  unsetenv("LOCALDOMAIN");
  unsetenv("RES_OPTIONS");
  unsetenv("HOSTALIASES");
}

int main(void)
{
  char *t[MAXTOK];
  int   nt;
  ares_library_init(ARES_LIB_INIT_ALL);
  reset_all();
  while ((nt = h_next(t)) >= 0) {
    if (nt == 0) {
      puts("");
    } else if (!strcmp(t[0], "case") || t[0][0] == '#') {
      int i;
      if (t[0][0] != '#') {
        reset_all();
      }
      for (i = 0; i < nt; i++) {
        printf("%s%s", i ? " " : "", t[i]);
      }
      puts("");
    } else if (!strcmp(t[0], "ifaces") && nt == 2) {
      nifs = 0;
      if (strcmp(t[1], "-")) {
        char *p, *save = NULL;
        for (p = strtok_r(t[1], ",", &save); p && nifs < MAXIF; p = strtok_r(NULL, ",", &save)) {
          char *c = strchr(p, ':');
          if (c) {
            *c = 0;
            snprintf(ifs[nifs].name, sizeof(ifs[nifs].name), "%s", p);
            ifs[nifs].idx = (unsigned int)atoi(c + 1);
            nifs++;
          }
        }
      }
      puts("ok");
    } else if (!strcmp(t[0], "hostdomain") && nt == 2) {
      /* tells the model which default search domain gethostname() yields on this machine */
      puts("ok");
    } else if (!strcmp(t[0], "file") && nt == 3) {
      if (!vfs_is_virtual(t[1])) {
        puts("bad-op");
      } else if (!strcmp(t[2], "none")) {
        vfs_set(t[1], NULL, 0, 0);
        puts("ok");
      } else {
        size_t len;
        char  *d = unhex_str(t[2], &len);
        vfs_set(t[1], (unsigned char *)d, len, 1);
        free(d);
        puts("ok");
      }
    } else if (!strcmp(t[0], "env") && nt == 3) {
      if (strcmp(t[1], "LOCALDOMAIN") && strcmp(t[1], "RES_OPTIONS") && strcmp(t[1], "HOSTALIASES")) {
        puts("bad-op");
      } else if (!strcmp(t[2], "none")) {
        unsetenv(t[1]);
        puts("ok");
      } else {
        char *d = unhex_str(t[2], NULL);
        setenv(t[1], d, 1);
        free(d);
        puts("ok");
      }
    } else if (!strcmp(t[0], "resolv") && nt == 2) {
      op_resolv(t[1]);
    } else if (!strcmp(t[0], "sysfiles") && nt == 2) {
      op_sysfiles(atoi(t[1]));
    } else if (!strcmp(t[0], "setopts") && nt == 2) {
      op_setopts(t[1]);
    } else if (!strcmp(t[0], "envinit") && nt == 1) {
      op_envinit();
    } else if (!strcmp(t[0], "sortlist") && nt == 2) {
      op_sortlist(t[1]);
    } else if (!strcmp(t[0], "servers") && nt == 3) {
      op_servers(t[1], atoi(t[2]));
    } else if (!strcmp(t[0], "now") && nt == 2) {
      vtime_now = strtoll(t[1], NULL, 10);
      puts("ok");
    } else if (!strcmp(t[0], "mtime") && nt == 3 && vfs_is_virtual(t[1]) && vfs_find(t[1]) >= 0) {
      vfs[vfs_find(t[1])].mtime = strtoll(t[2], NULL, 10);
      puts("ok");
    } else if ((!strcmp(t[0], "hosts") || !strcmp(t[0], "hostsk")) && nt >= 2) {
      op_hosts(nt, t);
    } else if (!strcmp(t[0], "aliases") && nt == 3) {
      op_aliases(t[1], (unsigned int)strtoul(t[2], NULL, 0));
    } else if (!strcmp(t[0], "namelist") && nt == 5) {
      op_namelist(t[1], strtoul(t[2], NULL, 10), (unsigned int)strtoul(t[3], NULL, 0), t[4]);
    } else if (!strcmp(t[0], "walk") && nt == 7) {
      op_walk(t);
    } else if (!strcmp(t[0], "pton") && nt == 3) {
      op_pton(atoi(t[1]), t[2]);
    } else if (!strcmp(t[0], "ntoppton") && nt == 2) {
      op_ntoppton(t[1]);
    } else if (!strcmp(t[0], "ntop") && nt == 2) {
      op_ntop(t[1]);
    } else if (!strcmp(t[0], "init") && nt >= 2) {
      op_init(nt, t);
    } else if (!strcmp(t[0], "eff") || !strcmp(t[0], "save") || !strcmp(t[0], "saveinit") || !strcmp(t[0], "dup") ||
               !strcmp(t[0], "csv") || !strcmp(t[0], "csvfix") || !strcmp(t[0], "setcsv") || !strcmp(t[0], "setsortlist") ||
               !strcmp(t[0], "setports") || !strcmp(t[0], "reinit") || !strcmp(t[0], "destroy") || !strcmp(t[0], "appif")) {
      op_chan(nt, t);
    } else {
      puts("bad-op");
    }
    fflush(stdout);
  }
  reset_all();
  ares_library_cleanup();
  return 0;
}
