"""Check runner: implements DESIGN.md section 2 for one property.

A property module (tools/props/<ID>.py) provides:
  ID, THEOREMS (fully qualified property theorems), IMPORTS (Lean modules for the audit),
  LEAN_TARGETS (lake targets), STREAMS (list of Stream), TRUSTED (list of str), ASSUMPTIONS,
  optional GENERATORS (list of callables rewriting Generated/*.lean; return provenance dict),
  optional extra_obligations(ctx) -> list of (name, ok, detail).
"""
import hashlib
import importlib
import json
import os
import random
import sys
import time
import traceback

import vlib
from vlib import VERIF, BUILD, LEAN, log


class Stream:
    """One correspondence stream: cases (lists of op lines) run on harness and on the Lean driver."""

    def __init__(self, name, harness, driver, gen, monitor=None, nontrivial=None,
                 counts=None, flavour="asan", driver_input=None, compare=None, env=None,
                 classify=None, timeout=900, opkind=None):
        self.name = name
        self.harness = harness
        self.driver = driver          # None => implementation-only stream (monitors only)
        self.gen = gen                # gen(rng, tier) -> list of cases
        self.monitor = monitor        # monitor(case_lines, impl_out_lines) -> list of (signature, message)
        self.nontrivial = nontrivial  # nontrivial(case_lines, impl_out_lines) -> bool
        self.flavour = flavour
        self.driver_input = driver_input  # (case_lines, impl_out_lines) -> driver input lines
        self.compare = compare        # (impl_out_lines, model_out_lines) -> first differing index or None
        self.env = env
        self.timeout = timeout
        self.opkind = opkind or (lambda line: " ".join(line.split()[:2]))


def canon_hash(lines):
    return hashlib.sha256("\n".join(lines).encode()).hexdigest()[:16]


def write_cases(path, cases, start=0):
    with open(path, "w") as f:
        for i, c in enumerate(cases):
            f.write("case %d\n" % (start + i))
            for l in c:
                f.write(l + "\n")


def split_cases(out):
    """Split program output into per-case line lists (by echoed `case N` lines)."""
    res = []
    cur = None
    for l in out.split("\n"):
        if l.startswith("case "):
            cur = []
            res.append(cur)
        elif cur is not None:
            cur.append(l)
    for c in res:
        while c and c[-1] == "":
            c.pop()
    return res


def run_impl(stream, hbin, cases, workdir, tag, base=0):
    """Run the harness over all cases, surviving sanitizer aborts. Returns (outs, crashes)
    outs[i] = list of output lines or None when case i crashed; crashes = list of (i, rc, stderr)."""
    outs = [None] * len(cases)
    crashes = []
    start = 0
    rounds = 0
    while start < len(cases) and rounds < 25:
        rounds += 1
        p = os.path.join(workdir, "%s.%s.in" % (tag, stream.name))
        # the case number is part of the input: harnesses seed their scripted RNG from it
        write_cases(p, cases[start:], start + base)
        rc, out, err, _ = vlib.run_prog([hbin], p, timeout=stream.timeout, env=stream.env)
        per = split_cases(out)
        if rc == 0 or (len(per) == len(cases) - start and "LeakSanitizer" in err and "ERROR: AddressSanitizer" not in err):
            for i, o in enumerate(per):
                outs[start + i] = o
            if rc != 0:
                # leak reported at exit: bisect for one leaking case
                lo, hi = start, len(cases)
                runs = 0
                while hi - lo > 1 and runs < 14:
                    mid = (lo + hi) // 2
                    write_cases(p, cases[lo:mid], lo + base)
                    rc2, _, err2, _ = vlib.run_prog([hbin], p, timeout=stream.timeout, env=stream.env)
                    runs += 1
                    if rc2 != 0:
                        hi, err = mid, err2
                    else:
                        lo = mid
                crashes.append((lo, rc, err[-4000:], outs[lo] or []))
            break
        # crashed: the last case started is the culprit
        k = len(per) - 1 if per else 0
        for i in range(k):
            outs[start + i] = per[i]
        crashes.append((start + k, rc, err[-4000:], per[k] if per else []))
        start = start + k + 1
    return outs, crashes


def run_model(stream, cases, impl_outs, workdir, tag):
    dbin = os.path.join(LEAN, ".lake", "build", "bin", stream.driver)
    p = os.path.join(workdir, "%s.%s.min" % (tag, stream.name))
    if stream.driver_input:
        dcases = [stream.driver_input(c, o) if o is not None else [] for c, o in zip(cases, impl_outs)]
    else:
        dcases = cases
    write_cases(p, dcases)
    rc, out, err, _ = vlib.run_prog([dbin], p, timeout=stream.timeout)
    if rc != 0:
        raise RuntimeError("Lean driver %s failed rc=%s: %s" % (stream.driver, rc, err[-2000:]))
    return split_cases(out)


def first_diff(stream, a, b):
    if stream.compare:
        return stream.compare(a, b)
    n = max(len(a), len(b))
    for i in range(n):
        x = a[i] if i < len(a) else "<missing>"
        y = b[i] if i < len(b) else "<missing>"
        if x != y:
            return i
    return None


class Ctx:
    pass


def shrink(stream, hbin, case, pred, workdir, budget=120):
    """ddmin over op lines; pred(case) -> True when the case still fails the same way."""
    cur = list(case)
    n = 2
    runs = 0
    while len(cur) >= 2 and runs < budget:
        chunk = max(1, len(cur) // n)
        reduced = False
        for i in range(0, len(cur), chunk):
            cand = cur[:i] + cur[i + chunk:]
            if cur and cur[0].startswith("chan ") and not (cand and cand[0].startswith("chan ")):
                continue      # a simulator case without its channel line is a different (meaningless) case
            runs += 1
            if cand and pred(cand):
                cur = cand
                n = max(n - 1, 2)
                reduced = True
                break
            if runs >= budget:
                break
        if not reduced:
            if chunk == 1:
                break
            n = min(n * 2, len(cur))
    return cur


def load_known():
    """findings/*.json, one file per finding (never written at run time)."""
    d = os.path.join(VERIF, "findings")
    res = []
    if os.path.isdir(d):
        for f in sorted(os.listdir(d)):
            if f.endswith(".json"):
                res.append(json.load(open(os.path.join(d, f))))
    return res


def match_known(known, prop, signature):
    for k in known:
        if k.get("status") == "open" and prop in k.get("properties", [k.get("property")]) \
                and k.get("signature") and k["signature"] in signature:
            return k
    return None


def run_check(prop, tier, seed, replay=None):
    t0 = time.time()
    sys.path.insert(0, os.path.join(VERIF, "tools"))
    mod = importlib.import_module("props." + prop)
    outdir = os.path.join(VERIF, "out", prop)
    os.makedirs(outdir, exist_ok=True)
    workdir = os.path.join(BUILD, "work", prop)
    os.makedirs(workdir, exist_ok=True)
    known = load_known()
    violations = []      # (signature, message, replay_path, found_input)
    known_hit = {}
    ev = {"property_id": prop, "tier": tier, "seed": seed, "level": "proof"}
    cov = {}

    def violation(sig, msg, replay_lines, found=True, stream=None):
        k = match_known(known, prop, sig)
        if k is not None:
            known_hit.setdefault(k["id"], (k, msg))
            return
        rp = os.path.join(outdir, "replay_%s_%d.txt" % (tier, len(violations)))
        with open(rp, "w") as f:
            f.write("# property=%s tier=%s seed=%d stream=%s\n" % (prop, tier, seed, stream or "-"))
            f.write("# signature: %s\n" % sig)
            for l in msg.split("\n"):
                f.write("# %s\n" % l)
            for l in replay_lines:
                f.write(l + "\n")
        violations.append((sig, msg, rp, found))

    # 1. rebuild implementation from the current tree -------------------------------------------
    try:
        lib, binfo = vlib.build_lib("asan")
    except vlib.BuildError as e:
        print("ERROR: /repo does not build with hooks on: %s" % e)
        return 2
    cov["impl_build"] = binfo

    # 2. regenerate + lake build + audit --------------------------------------------------------
    prov = {}
    for g in getattr(mod, "GENERATORS", []):
        try:
            prov.update(g())
        except Exception as e:  # extraction failure alone is not a violation (DESIGN 3.2)
            prov[getattr(g, "__name__", "gen")] = "EXTRACTION FAILED (%s); committed copy used" % e
    ok, lakelog, lake_s = vlib.build_lean(mod.LEAN_TARGETS)
    forb = vlib.grep_forbidden(list(mod.IMPORTS) + list(getattr(mod, 'DRIVER_MODULES', [])))
    thms = list(mod.THEOREMS)
    axioms, auditlog = vlib.audit(prop, thms, mod.IMPORTS) if thms else ({}, "")
    obligations = []
    for t in thms:
        ax = axioms.get(t)
        good = ax is not None and set(ax) <= vlib.ALLOWED_AXIOMS
        obligations.append({"theorem": t, "discharged": bool(good), "axioms": ax})
    for name, good, detail in (mod.extra_obligations() if hasattr(mod, "extra_obligations") else []):
        obligations.append({"theorem": name, "discharged": bool(good), "detail": detail})
    undischarged = [o for o in obligations if not o["discharged"]]
    proof_broken = (not ok) or bool(undischarged) or bool(forb)
    cov["obligations"] = len(obligations)
    cov["discharged"] = len(obligations) - len(undischarged)
    cov["checker_cmd"] = "cd /verif/lean && lake build %s && lake env lean <audit: #print axioms>" % " ".join(mod.LEAN_TARGETS)
    cov["axioms"] = {o["theorem"]: o.get("axioms") for o in obligations if "axioms" in o}
    cov["forbidden_constructs"] = forb
    cov["generated_provenance"] = prov
    cov["lake_build_s"] = lake_s
    cov["trusted_base"] = list(mod.TRUSTED)
    if tier == "thorough" and ok:
        lc = []
        for m in mod.IMPORTS:
            r = vlib.sh(["lake", "env", "leanchecker", m], cwd=LEAN)
            lc.append({"module": m, "ok": r.returncode == 0})
            if r.returncode != 0:
                proof_broken = True
        cov["leanchecker"] = lc

    # 3/4. correspondence + monitors ------------------------------------------------------------
    rng_master = random.Random(seed)
    total_cases = 0
    distinct = set()
    dist = {}
    outkinds = {}
    samples = []
    disagreements = 0
    stream_info = {}
    driver_ok = ok
    replay_base = 0
    for st in mod.STREAMS:
        rng = random.Random(rng_master.getrandbits(64))
        sinfo = {}
        try:
            hbin, _ = vlib.build_harness(st.harness, st.flavour)
        except vlib.BuildError as e:
            violation("harness-build:" + st.harness, str(e), [], found=False, stream=st.name)
            continue
        if replay:
            lines = [l.rstrip("\n") for l in open(replay) if not l.startswith("#")]
            cases, cur = [], None
            for l in lines:
                if l.startswith("case "):
                    if not cases:
                        try:
                            replay_base = int(l.split()[1])
                        except (IndexError, ValueError):
                            replay_base = 0
                    cur = []
                    cases.append(cur)
                elif cur is None:
                    cur = [l]
                    cases.append(cur)
                else:
                    cur.append(l)
        else:
            cases = []
            cdir = os.path.join(VERIF, "corpus", prop)
            if os.path.isdir(cdir):
                for f in sorted(os.listdir(cdir)):
                    if f.startswith(st.name + "."):
                        cases.append([l.rstrip("\n") for l in open(os.path.join(cdir, f))
                                      if l.strip() and not l.startswith("#") and not l.startswith("case ")])
            sinfo["corpus_cases"] = len(cases)
            cases += st.gen(rng, tier)
        t1 = time.time()
        impl_outs, crashes = run_impl(st, hbin, cases, workdir, tier, base=replay_base)
        sinfo["impl_s"] = round(time.time() - t1, 2)
        for (ci, rc, err, partial) in crashes:
            sig = "sanitizer-abort:" + st.name + ":" + sanitizer_sig(err)
            violation(sig, "implementation aborted (rc=%s) on case %d\n%s" % (rc, ci, sanitizer_excerpt(err)),
                      ["case %d" % (ci + replay_base)] + cases[ci], stream=st.name)
        model_outs = None
        if st.driver and driver_ok:
            try:
                t1 = time.time()
                model_outs = run_model(st, cases, impl_outs, workdir, tier)
                sinfo["model_s"] = round(time.time() - t1, 2)
            except RuntimeError as e:
                violation("driver-failure:" + st.name, str(e), [], found=False, stream=st.name)
        for i, c in enumerate(cases):
            io = impl_outs[i]
            total_cases += 1
            for l in c:
                k = st.opkind(l)
                dist[k] = dist.get(k, 0) + 1
            if io is None:
                continue
            for l in io:
                k = l.split(" ")[0][:12] if l else ""
                if k[:1].isdigit() or k[:1] == "[":
                    k = "<value>"
                outkinds[k] = outkinds.get(k, 0) + 1
            nt = st.nontrivial(c, io) if st.nontrivial else any(l not in ("err", "bad-op", "none") for l in io)
            if nt:
                distinct.add(canon_hash(c))
            if len(samples) < 3 and nt and i >= sinfo.get("corpus_cases", 0):
                samples.append({"stream": st.name, "ops": c[:40], "impl_out": io[:40]})
            mon = st.monitor(c, io) if st.monitor else []
            mon += [("harness-monitor:" + l.split(" ")[1], l) for l in io if l.startswith("!MON ")]
            disagree = None
            if model_outs is not None and i < len(model_outs):
                d = first_diff(st, io, model_outs[i])
                if d is not None:
                    disagree = d
            for (sig, msg) in mon:
                def pred(cand, sig=sig, i=i):
                    o, cr = run_impl(st, hbin, [cand], workdir, "shrink", base=i + replay_base)
                    if cr:
                        return False
                    m2 = (st.monitor(cand, o[0]) if st.monitor else []) + \
                         [("harness-monitor:" + l.split(" ")[1], l) for l in o[0] if l.startswith("!MON ")]
                    return any(s == sig for s, _ in m2)
                small = shrink(st, hbin, c, pred, workdir) if len(violations) < 5 and not match_known(known, prop, sig) else c
                violation("monitor:" + st.name + ":" + sig, "property fails on the implementation: " + msg,
                          ["case %d" % (i + replay_base)] + small, stream=st.name)
            if disagree is not None:
                disagreements += 1
                if not mon:
                    mo = model_outs[i]
                    a = io[disagree] if disagree < len(io) else "<missing>"
                    b = mo[disagree] if disagree < len(mo) else "<missing>"

                    def pred2(cand, i=i):
                        o, cr = run_impl(st, hbin, [cand], workdir, "shrink", base=i + replay_base)
                        if cr:
                            return False
                        try:
                            m = run_model(st, [cand], o, workdir, "shrink")
                        except RuntimeError:
                            return False
                        return bool(m) and first_diff(st, o[0], m[0]) is not None
                    small = shrink(st, hbin, c, pred2, workdir) if len(violations) < 5 else c
                    violation("disagree:" + st.name,
                              "implementation and Lean model disagree (stream %s, op #%d: impl=%r model=%r); "
                              "no monitor flagged the property itself on this input" % (st.name, disagree, a, b),
                              ["case %d" % (i + replay_base)] + small, found=False, stream=st.name)
        sinfo["cases"] = len(cases)
        stream_info[st.name] = sinfo

    if proof_broken:
        what = []
        if not ok:
            what.append("lake build failed:\n" + "\n".join(
                l for l in lakelog.split("\n") if "error" in l.lower())[:3000])
        what += ["obligation not discharged: %s (axioms=%s)" % (o["theorem"], o.get("axioms")) for o in undischarged]
        what += ["forbidden construct: " + h for h in forb]
        found_any = any(v[3] for v in violations)
        if not found_any:
            violation("proof-broken", "\n".join(what), [], found=False)

    cov["evaluations"] = total_cases
    cov["distinct_nontrivial"] = len(distinct)
    cov["rule"] = getattr(mod, "RULE", "cases are generated from VERIF_SEED by the stream generators; a case is "
                          "non-trivial when at least one operation produced a non-error result; distinct by "
                          "hash of its op lines")
    cov["samples"] = samples or [{"note": "no generated sample (replay run)"}]
    cov["disagreements_checked"] = disagreements
    cov["input_distribution"] = dict(sorted(dist.items(), key=lambda kv: -kv[1])[:60])
    cov["impl_output_kinds"] = dict(sorted(outkinds.items(), key=lambda kv: -kv[1])[:30])
    cov["streams"] = stream_info
    cov["known_findings_reproduced"] = sorted(known_hit)
    cov["explanation"] = getattr(mod, "EXPLANATION", "")
    ev["coverage"] = cov
    ev["assumptions"] = list(getattr(mod, "ASSUMPTIONS", []))
    ev["wall_s"] = round(time.time() - t0, 2)
    ev["violations"] = len(violations)
    if not replay:
        os.makedirs(os.path.join(VERIF, "evidence"), exist_ok=True)
        with open(os.path.join(VERIF, "evidence", prop + ".json"), "w") as f:
            json.dump(ev, f, indent=1, sort_keys=True)
            f.write("\n")

    for kid, (k, msg) in sorted(known_hit.items()):
        print("KNOWN-FINDING: property=%s %s [%s]" % (prop, k["what"], kid))
    seen = set()
    for sig, msg, rp, found in violations:
        if sig in seen:
            continue
        seen.add(sig)
        print("VIOLATION property=%s replay=%s%s" % (prop, rp, "" if found else " no-failing-input-found"))
        log("  " + sig + ": " + msg.split("\n")[0][:300])
    print("%s %s: obligations %d/%d, cases %d (distinct non-trivial %d), disagreements %d, violations %d, %.1fs"
          % (prop, tier, cov["discharged"], cov["obligations"], total_cases, len(distinct), disagreements,
             len(seen), time.time() - t0))
    # scratch inputs of this run (the replays that matter were written to out/<prop>/): keep the disk small
    for f in os.listdir(workdir):
        try:
            os.remove(os.path.join(workdir, f))
        except OSError:
            pass
    return 1 if violations else 0


def sanitizer_sig(err):
    """kind + innermost c-ares function, e.g. `heap-use-after-free:read_answers`"""
    import re
    m = re.search(r"SUMMARY: \w+Sanitizer: ([\w-]+(?: [\w-]+)*?) (/\S+) in (\w+)", err)
    if m:
        return "%s:%s" % (m.group(1).replace(" ", "-"), m.group(3))
    m = re.search(r"SUMMARY: \w+Sanitizer: (\d+ byte\(s\) leaked)", err)
    if m:
        f = re.search(r"#\d+ \S+ in (\w+) /repo/src/lib/(?!ares_library_init)", err)
        return "leak:%s" % (f.group(1) if f else "unknown")
    m = re.search(r"([\w/.]+):(\d+):\d+: runtime error: ([^\n]*)", err)
    if m:
        msg = re.sub(r"\d+", "N", m.group(3))[:60]
        return "ubsan:%s:%s" % (os.path.basename(m.group(1)), msg)
    m = re.search(r"Assertion `([^']*)' failed", err)
    if m:
        return "assert:" + m.group(1)[:60]
    if "TIMEOUT" in err:
        return "hang"
    return "abort"


def sanitizer_excerpt(err):
    keep = [l for l in err.split("\n") if ("ERROR:" in l or "SUMMARY:" in l or "runtime error" in l or
            "/repo/src/lib" in l or "Assertion" in l or "freed by" in l or "allocated by" in l)]
    return "\n".join(keep[:40])
