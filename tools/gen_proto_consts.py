"""Constants and small finite tables for the protocol cores (C17 cookies, C08 query cache, C06 timeouts).

gen_proto_consts(): a probe translation unit `#include`s ares_cookie.c, ares_metrics.c and ares_qcache.c of the
tree under check (found through the include path, so it follows VERIF_REPO), prints file-local macros, enum
values and a few *observed* finite functions, and the result is written to
lean/CaresModel/Generated/ProtoConsts.lean (namespace Cares.Generated.Proto) iff the content changed.

Observed (evaluated in the compiled code, whole domain):
  * `timeval_is_set` (static in ares_cookie.c) on the four zero/non-zero combinations of (sec, usec) -- the model's
    `timevalIsSet` is defined from this table, so the F18 `&&`/`||` question is decided by the source;
  * `ares_dns_opcode_tostr` for opcodes 0..15, `ares_dns_rec_type_tostr` for 0..65536, `ares_dns_class_tostr`
    for 0..65535 (association list of the named codes + the default string);
  * `ares_tolower` and libc `tolower` (C locale; what `strcasecmp` of the string hash table folds with), 0..255;
  * the bucket divisors of `ares_metric_timestamp` (static in ares_metrics.c).
Raises on extraction failure; the runner then keeps the committed copy and says so in the evidence.
"""
import hashlib
import os

import vlib
from gen_consts import _probe, _write_if_changed, GEN_DIR

PROTO_SOURCES = ["src/lib/ares_cookie.c", "src/lib/ares_metrics.c", "src/lib/ares_qcache.c",
                 "src/lib/ares_conn.h", "src/lib/record/ares_dns_mapping.c", "src/lib/str/ares_str.c",
                 "include/ares_dns_record.h"]

PROTO_PROBE = r"""
#include "ares_cookie.c"
#include "ares_metrics.c"
#include "ares_qcache.c"
#include <stdio.h>
#include <limits.h>
#include <ctype.h>
#include <locale.h>

static void pstr(const char *s)
{
  /* hex so that nothing needs quoting */
  if (*s == 0) {
    printf(" -");
    return;
  }
  printf(" ");
  while (*s) {
    printf("%02x", (unsigned char)*s++);
  }
}

int main(void)
{
  ares_cookie_t  ck;
  ares_timeval_t tv;
  unsigned long  i;
  const char    *dflt;

  setlocale(LC_ALL, "C");
  printf("COOKIE_CLIENT_TIMEOUT_MS %lu\n", (unsigned long)(COOKIE_CLIENT_TIMEOUT_MS));
  printf("COOKIE_UNSUPPORTED_TIMEOUT_MS %lu\n", (unsigned long)(COOKIE_UNSUPPORTED_TIMEOUT_MS));
  printf("COOKIE_REGRESSION_TIMEOUT_MS %lu\n", (unsigned long)(COOKIE_REGRESSION_TIMEOUT_MS));
  printf("COOKIE_RESEND_MAX %lu\n", (unsigned long)(COOKIE_RESEND_MAX));
  printf("COOKIE_CLIENT_LEN %lu\n", (unsigned long)sizeof(ck.client));
  printf("COOKIE_SERVER_MAX %lu\n", (unsigned long)sizeof(ck.server));
  printf("COOKIE_STATE_INITIAL %lu\n", (unsigned long)ARES_COOKIE_INITIAL);
  printf("COOKIE_STATE_GENERATED %lu\n", (unsigned long)ARES_COOKIE_GENERATED);
  printf("COOKIE_STATE_SUPPORTED %lu\n", (unsigned long)ARES_COOKIE_SUPPORTED);
  printf("COOKIE_STATE_UNSUPPORTED %lu\n", (unsigned long)ARES_COOKIE_UNSUPPORTED);
  printf("RCODE_NOERROR %lu\n", (unsigned long)ARES_RCODE_NOERROR);
  printf("RCODE_NXDOMAIN %lu\n", (unsigned long)ARES_RCODE_NXDOMAIN);
  printf("RCODE_BADCOOKIE %lu\n", (unsigned long)ARES_RCODE_BADCOOKIE);
  printf("OPT_PARAM_COOKIE %lu\n", (unsigned long)ARES_OPT_PARAM_COOKIE);
  printf("AF_INET_ %lu\n", (unsigned long)AF_INET);
  printf("AF_INET6_ %lu\n", (unsigned long)AF_INET6);
  printf("AF_UNSPEC_ %lu\n", (unsigned long)AF_UNSPEC);
  {
    /* are two unknown (zeroed, AF_UNSPEC) addresses equal for ares_addr_equal()? */
    struct ares_addr a1, a2;
    memset(&a1, 0, sizeof(a1));
    memset(&a2, 0, sizeof(a2));
    a1.family = AF_UNSPEC;
    a2.family = AF_UNSPEC;
    printf("ADDR_EQUAL_UNSPEC %d\n", ares_addr_equal(&a1, &a2) ? 1 : 0);
  }
  {
    /* does a reply with a valid server cookie move a *cleared* state (no client cookie in use) to SUPPORTED? */
    static ares_server_t     srv;
    ares_conn_t              conn;
    ares_query_t             q;
    ares_dns_record_t       *rq = NULL, *rp = NULL;
    ares_dns_rr_t           *rr = NULL;
    ares_array_t            *requeue = NULL;
    ares_timeval_t           now;
    static const unsigned char ck[16] = { 1, 2, 3, 4, 5, 6, 7, 8, 9, 10, 11, 12, 13, 14, 15, 16 };
    memset(&srv, 0, sizeof(srv));
    memset(&conn, 0, sizeof(conn));
    memset(&q, 0, sizeof(q));
    conn.server = &srv;
    now.sec  = 1000;
    now.usec = 1;
    if (ares_dns_record_create(&rq, 1, ARES_FLAG_RD, ARES_OPCODE_QUERY, ARES_RCODE_NOERROR) != ARES_SUCCESS ||
        ares_dns_record_rr_add(&rr, rq, ARES_SECTION_ADDITIONAL, "", ARES_REC_TYPE_OPT, ARES_CLASS_IN, 0) !=
          ARES_SUCCESS ||
        ares_dns_rr_set_opt(rr, ARES_RR_OPT_OPTIONS, ARES_OPT_PARAM_COOKIE, ck, 8) != ARES_SUCCESS ||
        ares_dns_record_create(&rp, 1, ARES_FLAG_QR, ARES_OPCODE_QUERY, ARES_RCODE_NOERROR) != ARES_SUCCESS ||
        ares_dns_record_rr_add(&rr, rp, ARES_SECTION_ADDITIONAL, "", ARES_REC_TYPE_OPT, ARES_CLASS_IN, 0) !=
          ARES_SUCCESS ||
        ares_dns_rr_set_opt(rr, ARES_RR_OPT_OPTIONS, ARES_OPT_PARAM_COOKIE, ck, 16) != ARES_SUCCESS) {
      return 8;
    }
    q.query = rq;
    srv.cookie.state = ARES_COOKIE_INITIAL;
    if (ares_cookie_validate(&q, rp, &conn, &now, &requeue) != ARES_SUCCESS) {
      return 8;
    }
    if (srv.cookie.state == ARES_COOKIE_SUPPORTED) {
      printf("VALIDATE_LEARNS_WHEN_CLEARED 1\n");
    } else if (srv.cookie.state == ARES_COOKIE_INITIAL) {
      printf("VALIDATE_LEARNS_WHEN_CLEARED 0\n");
    } else {
      return 8;
    }
    ares_dns_record_destroy(rq);
    ares_dns_record_destroy(rp);
  }
  printf("REC_TYPE_OPT %lu\n", (unsigned long)ARES_REC_TYPE_OPT);
  printf("REC_TYPE_SOA %lu\n", (unsigned long)ARES_REC_TYPE_SOA);
  printf("REC_TYPE_SIG %lu\n", (unsigned long)ARES_REC_TYPE_SIG);
  printf("REC_TYPE_RAW_RR %lu\n", (unsigned long)ARES_REC_TYPE_RAW_RR);
  printf("SECTION_ANSWER %lu\n", (unsigned long)ARES_SECTION_ANSWER);
  printf("SECTION_AUTHORITY %lu\n", (unsigned long)ARES_SECTION_AUTHORITY);
  printf("SECTION_ADDITIONAL %lu\n", (unsigned long)ARES_SECTION_ADDITIONAL);
  printf("MIN_TIMEOUT_MS %lu\n", (unsigned long)(MIN_TIMEOUT_MS));
  printf("MAX_TIMEOUT_MS %lu\n", (unsigned long)(MAX_TIMEOUT_MS));
  printf("AVG_TIMEOUT_MULTIPLIER %lu\n", (unsigned long)(AVG_TIMEOUT_MULTIPLIER));
  printf("MIN_COUNT_FOR_AVERAGE %lu\n", (unsigned long)(MIN_COUNT_FOR_AVERAGE));
  printf("METRIC_COUNT %lu\n", (unsigned long)ARES_METRIC_COUNT);
  printf("METRIC_INCEPTION %lu\n", (unsigned long)ARES_METRIC_INCEPTION);
  printf("SIZE_T_BITS %lu\n", (unsigned long)(sizeof(size_t) * CHAR_BIT));
  printf("UINT_BITS %lu\n", (unsigned long)(sizeof(unsigned int) * CHAR_BIT));
  printf("USHRT_MAX_ %lu\n", (unsigned long)USHRT_MAX);

  /* timeval_is_set on zero / non-zero fields: order 00 01 10 11 (sec, usec) */
  printf("TIMEVAL_IS_SET");
  for (i = 0; i < 4; i++) {
    tv.sec  = (i & 2) ? 7 : 0;
    tv.usec = (i & 1) ? 7 : 0;
    printf(" %d", timeval_is_set(&tv) ? 1 : 0);
  }
  printf("\n");
  /* ... and check that it only depends on zero / non-zero */
  {
    static const ares_int64_t secs[]  = { 1, 2, 1000, 86400, 4000000000LL, -1 };
    static const unsigned int usecs[] = { 1, 2, 999999, 1000000, 4000000000U };
    size_t a, b;
    for (a = 0; a < sizeof(secs) / sizeof(*secs); a++) {
      for (b = 0; b < sizeof(usecs) / sizeof(*usecs); b++) {
        ares_timeval_t x, y;
        int            k;
        for (k = 0; k < 4; k++) {
          x.sec  = (k & 2) ? secs[a] : 0;
          x.usec = (k & 1) ? usecs[b] : 0;
          y.sec  = (k & 2) ? 7 : 0;
          y.usec = (k & 1) ? 7 : 0;
          if (timeval_is_set(&x) != timeval_is_set(&y)) {
            fprintf(stderr, "timeval_is_set is not a function of zero/non-zero\n");
            return 4;
          }
        }
      }
    }
  }

  /* bucket divisors: ts(now = D*1000003) == 1000003 and ts(D-1) == 0, ts(D) == 1 */
  printf("METRIC_DIVISORS");
  for (i = 0; i < ARES_METRIC_COUNT; i++) {
    ares_timeval_t big;
    time_t         t;
    unsigned long  d;
    if (i == ARES_METRIC_INCEPTION) {
      continue;
    }
    big.sec  = 86400L * 900L * 1000L;
    big.usec = 0;
    t        = ares_metric_timestamp((ares_server_bucket_t)i, &big, ARES_FALSE);
    if (t <= 0) {
      return 5;
    }
    d = (unsigned long)(big.sec / t);
    big.sec = (ares_int64_t)d;
    if (ares_metric_timestamp((ares_server_bucket_t)i, &big, ARES_FALSE) != 1) {
      return 5;
    }
    big.sec = (ares_int64_t)d - 1;
    if (ares_metric_timestamp((ares_server_bucket_t)i, &big, ARES_FALSE) != 0) {
      return 5;
    }
    printf(" %lu", d);
  }
  printf("\n");
  {
    ares_timeval_t z;
    z.sec  = 12345;
    z.usec = 0;
    printf("METRIC_INCEPTION_TS %ld %ld\n", (long)ares_metric_timestamp(ARES_METRIC_INCEPTION, &z, ARES_FALSE),
           (long)ares_metric_timestamp(ARES_METRIC_INCEPTION, &z, ARES_TRUE));
  }

  /* tostr tables: named codes only, default string printed once */
  dflt = ares_dns_opcode_tostr((ares_dns_opcode_t)15);
  printf("OPCODE_STR_DEFAULT");
  pstr(dflt);
  printf("\n");
  for (i = 0; i < 16; i++) {
    const char *s = ares_dns_opcode_tostr((ares_dns_opcode_t)i);
    if (strcmp(s, dflt) != 0) {
      printf("OPCODE_STR %lu", i);
      pstr(s);
      printf("\n");
    }
  }
  dflt = ares_dns_rec_type_tostr((ares_dns_rec_type_t)65000);
  printf("RECTYPE_STR_DEFAULT");
  pstr(dflt);
  printf("\n");
  for (i = 0; i <= 65536; i++) {
    const char *s = ares_dns_rec_type_tostr((ares_dns_rec_type_t)i);
    if (strcmp(s, dflt) != 0) {
      printf("RECTYPE_STR %lu", i);
      pstr(s);
      printf("\n");
    }
  }
  dflt = ares_dns_class_tostr((ares_dns_class_t)65000);
  printf("CLASS_STR_DEFAULT");
  pstr(dflt);
  printf("\n");
  for (i = 0; i < 65536; i++) {
    const char *s = ares_dns_class_tostr((ares_dns_class_t)i);
    if (strcmp(s, dflt) != 0) {
      printf("CLASS_STR %lu", i);
      pstr(s);
      printf("\n");
    }
  }
  printf("OPCODE_VALID");
  for (i = 0; i < 16; i++) {
    if (ares_dns_opcode_isvalid((ares_dns_opcode_t)i)) {
      printf(" %lu", i);
    }
  }
  printf("\n");
  printf("RCODE_VALID");
  for (i = 0; i < 65536; i++) {
    if (ares_dns_rcode_isvalid((ares_dns_rcode_t)i)) {
      printf(" %lu", i);
    }
  }
  printf("\n");
  printf("QCLASS_VALID"); /* ares_dns_class_isvalid(c, A, is_query = true) */
  for (i = 0; i < 65536; i++) {
    if (ares_dns_class_isvalid((ares_dns_class_t)i, ARES_REC_TYPE_A, ARES_TRUE)) {
      printf(" %lu", i);
    }
  }
  printf("\n");

  /* format of the cache key: 0 = mnemonics from the tostr tables (pinned tree), 1 = numeric type and class */
  {
    ares_dns_record_t *rq = NULL;
    char              *k1;
    char              *k2;
    int                fmt = -1;
    if (ares_dns_record_create(&rq, 0, ARES_FLAG_RD, ARES_OPCODE_QUERY, ARES_RCODE_NOERROR) != ARES_SUCCESS ||
        ares_dns_record_query_add(rq, "Ab.", ARES_REC_TYPE_MX, ARES_CLASS_CHAOS) != ARES_SUCCESS) {
      return 6;
    }
    k1 = ares_qcache_calc_key(rq);
    if (k1 == NULL) {
      return 6;
    }
    if (strcmp(k1, "QUERY|rd|MX|CH|Ab") == 0) {
      fmt = 0;
    } else if (strcmp(k1, "QUERY|rd|15|3|Ab") == 0) {
      fmt = 1;
    }
    ares_free(k1);
    ares_dns_record_destroy(rq);
    rq = NULL;
    /* second sample: unnamed type, no flags, no trailing dot */
    if (ares_dns_record_create(&rq, 0, ARES_FLAG_CD, ARES_OPCODE_QUERY, ARES_RCODE_NOERROR) != ARES_SUCCESS ||
        ares_dns_record_query_add(rq, "x", (ares_dns_rec_type_t)43, ARES_CLASS_IN) != ARES_SUCCESS) {
      return 6;
    }
    k2 = ares_qcache_calc_key(rq);
    if (k2 == NULL) {
      return 6;
    }
    if (fmt == 0 && strcmp(k2, "QUERY|cd|UNKNOWN|IN|x") != 0) {
      fmt = -1;
    }
    if (fmt == 1 && strcmp(k2, "QUERY|cd|43|1|x") != 0) {
      fmt = -1;
    }
    ares_free(k2);
    ares_dns_record_destroy(rq);
    if (fmt < 0) {
      fprintf(stderr, "unrecognised cache key format\n");
      return 6;
    }
    printf("QCACHE_KEY_FORMAT %d\n", fmt);
  }
  /* does ares_dns_rr_get_ttl() apply the record's ttl_decrement (F12)? */
  {
    ares_dns_record_t *rp = NULL;
    ares_dns_rr_t     *rr = NULL;
    unsigned int       a, b;
    if (ares_dns_record_create(&rp, 0, ARES_FLAG_QR, ARES_OPCODE_QUERY, ARES_RCODE_NOERROR) != ARES_SUCCESS ||
        ares_dns_record_rr_add(&rr, rp, ARES_SECTION_ANSWER, "a", ARES_REC_TYPE_A, ARES_CLASS_IN, 100) !=
          ARES_SUCCESS) {
      return 7;
    }
    ares_dns_record_ttl_decrement(rp, 30);
    a = ares_dns_rr_get_ttl(rr);
    ares_dns_record_ttl_decrement(rp, 130);
    b = ares_dns_rr_get_ttl(rr);
    ares_dns_record_destroy(rp);
    if (a == 100 && b == 100) {
      printf("RR_GET_TTL_DECREMENTS 0\n");
    } else if (a == 70 && b == 0) {
      printf("RR_GET_TTL_DECREMENTS 1\n");
    } else {
      fprintf(stderr, "unrecognised ares_dns_rr_get_ttl behaviour %u %u\n", a, b);
      return 7;
    }
  }

  printf("ARES_TOLOWER");
  for (i = 0; i < 256; i++) {
    printf(" %u", (unsigned int)ares_tolower((unsigned char)i));
  }
  printf("\n");
  printf("LIBC_TOLOWER");
  for (i = 0; i < 256; i++) {
    printf(" %u", (unsigned int)(unsigned char)tolower((int)i));
  }
  printf("\n");
  return 0;
}
"""

SCALARS = ["COOKIE_CLIENT_TIMEOUT_MS", "COOKIE_UNSUPPORTED_TIMEOUT_MS", "COOKIE_REGRESSION_TIMEOUT_MS",
           "COOKIE_RESEND_MAX", "COOKIE_CLIENT_LEN", "COOKIE_SERVER_MAX",
           "COOKIE_STATE_INITIAL", "COOKIE_STATE_GENERATED", "COOKIE_STATE_SUPPORTED", "COOKIE_STATE_UNSUPPORTED",
           "RCODE_NOERROR", "RCODE_NXDOMAIN", "RCODE_BADCOOKIE", "OPT_PARAM_COOKIE", "AF_INET_", "AF_INET6_",
           "AF_UNSPEC_", "ADDR_EQUAL_UNSPEC", "VALIDATE_LEARNS_WHEN_CLEARED",
           "REC_TYPE_OPT", "REC_TYPE_SOA", "REC_TYPE_SIG", "REC_TYPE_RAW_RR",
           "SECTION_ANSWER", "SECTION_AUTHORITY", "SECTION_ADDITIONAL",
           "MIN_TIMEOUT_MS", "MAX_TIMEOUT_MS", "AVG_TIMEOUT_MULTIPLIER", "MIN_COUNT_FOR_AVERAGE",
           "METRIC_COUNT", "METRIC_INCEPTION", "SIZE_T_BITS", "UINT_BITS", "USHRT_MAX_",
           "QCACHE_KEY_FORMAT", "RR_GET_TTL_DECREMENTS"]


def _unhex(s):
    return "" if s == "-" else bytes.fromhex(s).decode("latin-1")


def _lean_str(s):
    out = []
    for ch in s:
        o = ord(ch)
        if ch in ('"', "\\"):
            out.append("\\" + ch)
        elif 32 <= o < 127:
            out.append(ch)
        else:
            out.append("\\x%02x" % o)
    return '"' + "".join(out) + '"'


def _rows(vals, per=16):
    rows = [", ".join(str(x) for x in vals[i:i + per]) for i in range(0, len(vals), per)]
    return "  [" + ",\n   ".join(rows) + "]"


def gen_proto_consts():
    out = _probe("proto_consts", PROTO_PROBE)
    scal, multi, strs, dflt = {}, {}, {}, {}
    for line in out.split("\n"):
        t = line.split()
        if not t:
            continue
        k = t[0]
        if k in ("OPCODE_STR", "RECTYPE_STR", "CLASS_STR"):
            strs.setdefault(k, []).append((int(t[1]), _unhex(t[2])))
        elif k.endswith("_STR_DEFAULT"):
            dflt[k] = _unhex(t[1])
        elif len(t) == 2 and k in SCALARS:
            scal[k] = int(t[1])
        else:
            multi[k] = [int(x) for x in t[1:]]
    for k in SCALARS:
        if k not in scal:
            raise RuntimeError("probe did not print " + k)
    for k, n in (("TIMEVAL_IS_SET", 4), ("ARES_TOLOWER", 256), ("LIBC_TOLOWER", 256), ("METRIC_INCEPTION_TS", 2)):
        if len(multi.get(k, [])) != n:
            raise RuntimeError("probe did not print %s (%d values)" % (k, n))
    if len(multi.get("METRIC_DIVISORS", [])) != scal["METRIC_COUNT"] - 1:
        raise RuntimeError("probe did not print the bucket divisors")
    for k in ("OPCODE_STR_DEFAULT", "RECTYPE_STR_DEFAULT", "CLASS_STR_DEFAULT"):
        if k not in dflt:
            raise RuntimeError("probe did not print " + k)
    hashes = vlib.source_hashes(PROTO_SOURCES)
    src_hash = hashlib.sha256(repr(sorted(hashes.items())).encode()).hexdigest()[:16]
    L = ["/-",
         "GENERATED by tools/gen_proto_consts.py (gen_proto_consts) from the tree under check; rewritten on every run,",
         "do not edit.  File-local macros are printed by a probe translation unit that #includes ares_cookie.c,",
         "ares_metrics.c and ares_qcache.c; the small tables are the compiled functions evaluated on their whole domain.",
         "Sources: " + ", ".join(PROTO_SOURCES),
         "-/",
         "namespace Cares.Generated.Proto",
         ""]
    for k in SCALARS:
        if k == "QCACHE_KEY_FORMAT":
            L.append("/-- observed format of `ares_qcache_calc_key`: 0 = type/class mnemonics (`*_tostr`), 1 = numeric -/")
        if k == "ADDR_EQUAL_UNSPEC":
            L.append("/-- observed: `ares_addr_equal` (static, ares_cookie.c) on two AF_UNSPEC addresses -/")
        if k == "VALIDATE_LEARNS_WHEN_CLEARED":
            L.append("/-- observed: does `ares_cookie_validate` move a cleared state (INITIAL/UNSUPPORTED: no client cookie in use)")
            L.append("    to SUPPORTED when a reply carries a server cookie (1, pinned tree) or leave it alone (0) -/")
        if k == "RR_GET_TTL_DECREMENTS":
            L.append("/-- observed: does `ares_dns_rr_get_ttl` subtract the record's `ttl_decrement` (1) or not (0) -/")
        L.append("def %s : Nat := %d" % (k.rstrip("_"), scal[k]))
    L.append("")
    isset = multi["TIMEVAL_IS_SET"]
    L.append("/-- `timeval_is_set` (static, ares_cookie.c) observed on (sec = 0?, usec = 0?): the function only depends on")
    L.append("    which fields are non-zero (checked by the probe); `TIMEVAL_IS_SET_su` = value for sec≠0 = s, usec≠0 = u -/")
    for i, nm in enumerate(["00", "01", "10", "11"]):
        L.append("def TIMEVAL_IS_SET_%s : Bool := %s" % (nm, "true" if isset[i] else "false"))
    L.append("")
    L.append("/-- divisors (seconds) of the time buckets of `ares_metric_timestamp`, buckets 0 .. METRIC_INCEPTION-1 -/")
    L.append("def METRIC_DIVISORS : List Nat := [%s]" % ", ".join(str(x) for x in multi["METRIC_DIVISORS"]))
    L.append("/-- the inception bucket's constant timestamps (current, previous) -/")
    L.append("def METRIC_INCEPTION_TS_CUR : Nat := %d" % multi["METRIC_INCEPTION_TS"][0])
    L.append("def METRIC_INCEPTION_TS_PREV : Nat := %d" % multi["METRIC_INCEPTION_TS"][1])
    L.append("")
    for key, name, dom in (("OPCODE_STR", "opcodeStr", "0..15"), ("RECTYPE_STR", "recTypeStr", "0..65536"),
                           ("CLASS_STR", "classStr", "0..65535")):
        L.append("/-- `ares_dns_%s` on %s: the named codes; every other code yields the default -/" %
                 ({"opcodeStr": "opcode_tostr", "recTypeStr": "rec_type_tostr", "classStr": "class_tostr"}[name], dom))
        L.append("def %sTbl : List (Nat × String) := [%s]" % (
            name, ", ".join("(%d, %s)" % (c, _lean_str(s)) for c, s in strs.get(key, []))))
        L.append("def %sDefault : String := %s" % (name, _lean_str(dflt[key + "_DEFAULT"])))
        L.append("def %s (c : Nat) : String :=" % name)
        L.append("  match %sTbl.find? (·.1 == c) with" % name)
        L.append("  | some e => e.2")
        L.append("  | none => %sDefault" % name)
        L.append("")
    L.append("/-- opcodes 0..15 accepted by `ares_dns_opcode_isvalid` (a record can only hold these) -/")
    L.append("def OPCODE_VALID : List Nat := [%s]" % ", ".join(str(x) for x in multi.get("OPCODE_VALID", [])))
    L.append("/-- rcodes accepted by `ares_dns_rcode_isvalid` (0..65535) -/")
    L.append("def RCODE_VALID : List Nat := [%s]" % ", ".join(str(x) for x in multi.get("RCODE_VALID", [])))
    L.append("/-- question classes accepted by `ares_dns_class_isvalid(c, A, is_query)` (0..65535) -/")
    L.append("def QCLASS_VALID : List Nat := [%s]" % ", ".join(str(x) for x in multi.get("QCLASS_VALID", [])))
    L.append("")
    L.append("/-- `ares_tolower(c)`, c = 0..255 (used by the string hash table's hash function) -/")
    L.append("def ARES_TOLOWER : List Nat :=")
    L.append(_rows(multi["ARES_TOLOWER"]))
    L.append("/-- libc `tolower(c)` in the C locale, c = 0..255 (what `strcasecmp`, the table's key equality, folds with) -/")
    L.append("def LIBC_TOLOWER : List Nat :=")
    L.append(_rows(multi["LIBC_TOLOWER"]))
    L.append("")
    L.append("end Cares.Generated.Proto")
    text = "\n".join(L) + "\n"
    path = os.path.join(GEN_DIR, "ProtoConsts.lean")
    changed = _write_if_changed(path, text)
    return {"CaresModel/Generated/ProtoConsts.lean": "sources=%s content=%s%s" % (
        src_hash, hashlib.sha256(text.encode()).hexdigest()[:16], " (rewritten)" if changed else "")}


# ----------------------------------------------------------------------------------------------------------------
# ares_calc_query_timeout (static in ares_process.c): is the shift guarded, and a grid of evaluated samples

CALC_SOURCES = ["src/lib/ares_process.c", "src/lib/ares_metrics.c"]

CALC_PROBE = r"""
#include "ares_process.c"
#include <stdio.h>
#include <unistd.h>
#include <sys/wait.h>

extern void (*ares_verif_rand_cb)(unsigned char *buf, size_t len);
static unsigned short next_r;
static void           rcb(unsigned char *buf, size_t len)
{
  if (len == 2) {
    memcpy(buf, &next_r, 2);
  } else {
    memset(buf, 0x11, len);
  }
}

static ares_channel_t *mkchan(int nsrv)
{
  struct ares_options opts;
  struct in_addr      srv[8];
  ares_channel_t     *c = NULL;
  int                 i;
  memset(&opts, 0, sizeof(opts));
  for (i = 0; i < nsrv; i++) {
    srv[i].s_addr = htonl(0x0a000001u + (unsigned int)i);
  }
  opts.servers         = srv;
  opts.nservers        = nsrv;
  opts.lookups         = "b";
  opts.resolvconf_path = "/dev/null";
  opts.hosts_path      = "/dev/null";
  if (ares_init_options(&c, &opts,
                        ARES_OPT_SERVERS | ARES_OPT_LOOKUPS | ARES_OPT_RESOLVCONF | ARES_OPT_HOSTS_FILE) !=
      ARES_SUCCESS) {
    return NULL;
  }
  return c;
}

static size_t eval(ares_channel_t *c, size_t timeout, size_t maxtimeout, size_t try_count, unsigned short r)
{
  ares_query_t   q;
  ares_timeval_t now;
  memset(&q, 0, sizeof(q));
  q.channel     = c;
  q.try_count   = try_count;
  c->timeout    = timeout;
  c->maxtimeout = maxtimeout;
  now.sec       = 1000;
  now.usec      = 0;
  next_r        = r;
  return ares_calc_query_timeout(&q, ares_slist_first_val(c->servers), &now);
}

int main(void)
{
  static const size_t         touts[] = { 1, 249, 250, 251, 300, 1000, 2000, 4999, 5000, 5001, 70000, 2147483647UL };
  static const size_t         maxts[] = { 0, 0, 1, 250, 400, 3000, 5000, 60000, 2147483647UL };
  static const unsigned short rs[]    = { 0, 1, 2, 3, 255, 256, 1000, 21845, 32767, 32768, 43690, 50000, 65534, 65535 };
  ares_channel_t             *ch[4]   = { NULL, NULL, NULL, NULL };
  int                         n;
  int                         guarded = 0;
  pid_t                       pid;
  int                         wst = 0;
  unsigned long               seed = 12345;
  size_t                      cnt  = 0;

  ares_library_init(ARES_LIB_INIT_ALL);
  ares_verif_rand_cb = rcb;
  for (n = 1; n <= 3; n++) {
    ch[n] = mkchan(n);
    if (ch[n] == NULL) {
      return 3;
    }
  }
  fflush(stdout);
  pid = fork();
  if (pid == 0) {
    /* child: 64 rounds; under UBSan the pinned tree aborts here */
    size_t v = eval(ch[1], 5000, 0, 64, 0);
    size_t w = eval(ch[1], 5000, 0, 60, 0);
    _exit((v == ((size_t)-1 >> 1) && w == ((size_t)-1 >> 1)) ? 0 : 7);
  }
  if (pid < 0 || waitpid(pid, &wst, 0) != pid) {
    return 4;
  }
  if (WIFEXITED(wst) && WEXITSTATUS(wst) == 0) {
    guarded = 1;
  } else if (WIFEXITED(wst) && WEXITSTATUS(wst) == 7) {
    /* survived 64 rounds with another result: neither the pinned nor the saturating code */
    fprintf(stderr, "unrecognised shift behaviour\n");
    return 5;
  }
  printf("CALC_SHIFT_GUARDED %d\n", guarded);
  /* samples: (cfg timeout, maxtimeout, try_count, nservers, r, result); rounds < 64 unless guarded */
  for (cnt = 0; cnt < 400; cnt++) {
    size_t t, m, k, res;
    unsigned short r;
    seed = seed * 6364136223846793005UL + 1442695040888963407UL;
    t    = touts[(seed >> 33) % (sizeof(touts) / sizeof(*touts))];
    seed = seed * 6364136223846793005UL + 1442695040888963407UL;
    m    = maxts[(seed >> 33) % (sizeof(maxts) / sizeof(*maxts))];
    seed = seed * 6364136223846793005UL + 1442695040888963407UL;
    n    = 1 + (int)((seed >> 33) % 3);
    seed = seed * 6364136223846793005UL + 1442695040888963407UL;
    k    = (size_t)((seed >> 33) % (guarded ? 230 : (size_t)(64 * n)));
    seed = seed * 6364136223846793005UL + 1442695040888963407UL;
    r    = ((seed >> 40) & 1) ? rs[(seed >> 33) % (sizeof(rs) / sizeof(*rs))] : (unsigned short)(seed >> 45);
    res  = eval(ch[n], t, m, k, r);
    printf("S %lu %lu %lu %d %u %lu\n", (unsigned long)t, (unsigned long)m, (unsigned long)k, n, (unsigned int)r,
           (unsigned long)res);
  }
  return 0;
}
"""


def gen_proto_calc():
    out = _probe("proto_calc", CALC_PROBE)
    guarded = None
    samples = []
    for line in out.split("\n"):
        t = line.split()
        if not t:
            continue
        if t[0] == "CALC_SHIFT_GUARDED":
            guarded = int(t[1])
        elif t[0] == "S" and len(t) == 7:
            samples.append(tuple(int(x) for x in t[1:]))
    if guarded is None or len(samples) < 100:
        raise RuntimeError("calc probe output incomplete")
    hashes = vlib.source_hashes(CALC_SOURCES)
    src_hash = hashlib.sha256(repr(sorted(hashes.items())).encode()).hexdigest()[:16]
    L = ["/-",
         "GENERATED by tools/gen_proto_consts.py (gen_proto_calc) from the tree under check; rewritten on every run, do not",
         "edit.  A probe translation unit #includes ares_process.c (found through the include path of the tree under",
         "check) and evaluates the static ares_calc_query_timeout() on a real channel with 1..3 servers, the virtual RNG",
         "supplying the 16-bit jitter draw.  CALC_SHIFT_GUARDED: 1 if 64 doubling rounds are survived under UBSan and",
         "saturate at SIZE_MAX/2, 0 if the shift by 64 aborts (pinned tree, F10).",
         "Sources: " + ", ".join(CALC_SOURCES),
         "-/",
         "namespace Cares.Generated.Proto",
         "",
         "def CALC_SHIFT_GUARDED : Nat := %d" % guarded,
         "",
         "/-- (channel timeout, channel maxtimeout, try_count, number of servers, 16-bit draw, returned timeout);",
         "    no latency metrics recorded, now = 1000 s -/",
         "def CALC_SAMPLES : List (Nat × Nat × Nat × Nat × Nat × Nat) := ["]
    L.append(",\n".join("  (%d, %d, %d, %d, %d, %d)" % s for s in samples) + "]")
    L.append("")
    L.append("end Cares.Generated.Proto")
    text = "\n".join(L) + "\n"
    path = os.path.join(GEN_DIR, "ProtoCalc.lean")
    changed = _write_if_changed(path, text)
    return {"CaresModel/Generated/ProtoCalc.lean": "sources=%s content=%s%s" % (
        src_hash, hashlib.sha256(text.encode()).hexdigest()[:16], " (rewritten)" if changed else "")}


if __name__ == "__main__":
    print(gen_proto_consts())
    print(gen_proto_calc())
