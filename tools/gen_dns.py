"""Structure-aware DNS message generator shared by the codec properties (C02, C04; C03/C18 may reuse it).

It is a plain RFC *encoder*: intended field values -> wire bytes (RFC 1035 section 4, 2782, 3403,
6891, 6698, 7553, 8659, 9460), written independently of c-ares and of the Lean models.  For a
clean message it also renders the canonical record dump (DESIGN.md A.2) straight from the
intended values, so a harness/monitor can check `getters(ares_dns_parse(bytes)) == intended`.

Everything is seeded from the `rng` handed in.  Main entry points:

  gen_message(rng, big=False) -> Built        a well-formed message with layout information
  expected_line(built, flags) -> str          "st=ok <dump>" the parser should print for it
  anomalies(rng, built) -> (bytes, tag)       structure-aware damage (lengths, counts, pointers, ...)
  mutate(rng, data) -> bytes                  byte-level mutation
  pointer_games(rng) -> list[(bytes, tag)]    hand-shaped compression-pointer messages
  load_seeds() -> list[bytes]                 /repo/test/fuzzinput/*
"""
import os
import struct

REPO = os.environ.get("VERIF_REPO", "/repo")

T_A, T_NS, T_CNAME, T_SOA, T_PTR, T_HINFO, T_MX, T_TXT = 1, 2, 5, 6, 12, 13, 15, 16
T_SIG, T_AAAA, T_SRV, T_NAPTR, T_OPT, T_TLSA, T_SVCB, T_HTTPS = 24, 28, 33, 35, 41, 52, 64, 65
T_ANY, T_URI, T_CAA, T_RAW = 255, 256, 257, 65536
KNOWN = [T_A, T_NS, T_CNAME, T_SOA, T_PTR, T_HINFO, T_MX, T_TXT, T_SIG, T_AAAA, T_SRV, T_NAPTR, T_OPT,
         T_TLSA, T_SVCB, T_HTTPS, T_URI, T_CAA]
BASE_TYPES = {T_A, T_NS, T_CNAME, T_SOA, T_PTR, T_HINFO, T_MX, T_TXT}   # RFC 1035 types
VALID_RCODES = set(range(0, 12)) | set(range(16, 24))
VALID_OPCODES = {0, 1, 2, 4, 5}
RR_CLASSES = [1, 3, 4, 254]
RESERVED = b'".;\\()@$'


def hexs(b):
    return b.hex() if b else "-"


def escape_label(lb):
    out = bytearray()
    for c in lb:
        if c < 0x20 or c > 0x7e:
            out += b"\\%03d" % c
        elif c in RESERVED:
            out += bytes([0x5c, c])
        else:
            out.append(c)
    return bytes(out)


def pres_name(labels):
    """presentation text of a list of raw labels (RFC 1035 5.1 / what c-ares documents)"""
    return b".".join(escape_label(l) for l in labels)


class Enc:
    """wire encoder with compression bookkeeping and a layout log"""

    def __init__(self):
        self.buf = bytearray()
        self.known = {}      # tuple(labels) -> offset of an earlier occurrence
        self.layout = []     # (kind, offset, ...) of interesting fields

    def u8(self, v):
        self.buf.append(v & 0xff)

    def u16(self, v):
        self.buf += struct.pack(">H", v & 0xffff)

    def u32(self, v):
        self.buf += struct.pack(">I", v & 0xffffffff)

    def raw(self, b):
        self.buf += b

    def name(self, labels, rng, compress=True):
        """emit a name; with `compress`, a known suffix may be replaced by a pointer"""
        start = len(self.buf)
        labels = list(labels)
        i = 0
        while i < len(labels):
            suffix = tuple(labels[i:])
            tgt = self.known.get(suffix)
            if compress and tgt is not None and tgt < 0x4000 and rng.random() < 0.8:
                self.layout.append(("ptr", len(self.buf), tgt))
                self.u16(0xC000 | tgt)
                self.layout.append(("name", start, len(self.buf)))
                return
            if len(self.buf) < 0x4000 and suffix not in self.known:
                self.known[suffix] = len(self.buf)
            self.layout.append(("lablen", len(self.buf), len(labels[i])))
            self.u8(len(labels[i]))
            self.raw(labels[i])
            i += 1
        self.u8(0)
        self.layout.append(("name", start, len(self.buf)))

    def cstr(self, s):
        self.layout.append(("strlen", len(self.buf), len(s)))
        self.u8(len(s))
        self.raw(s)


# ----------------------------------------------------------------------------------------------
# intended values

def rand_label(rng, maxlen=12):
    style = rng.random()
    n = rng.randint(1, maxlen)
    if style < 0.70:
        return bytes(rng.choice(b"abcdefghijklmnopqrstuvwxyzABCXYZ0123456789-_") for _ in range(n))
    if style < 0.85:
        return bytes(rng.choice(b'ab.\\"();@$ \t*/') for _ in range(n))
    return bytes(rng.randrange(256) for _ in range(n))


def rand_name(rng, pool):
    r = rng.random()
    if r < 0.08:
        return []
    if pool and r < 0.55:
        base = rng.choice(pool)
        k = rng.randint(0, 2)
        return [rand_label(rng) for _ in range(k)] + list(base[rng.randint(0, max(len(base) - 1, 0)):])
    if r < 0.60:
        # long name near the 255-octet limit
        labels = []
        total = 1
        while True:
            l = rand_label(rng, 63)
            if total + 1 + len(l) > rng.choice([255, 255, 240]):
                break
            labels.append(l)
            total += 1 + len(l)
        return labels
    if r < 0.63:
        return [bytes(rng.randrange(256) for _ in range(63))]
    return [rand_label(rng) for _ in range(rng.randint(1, 4))]


def rand_bytes(rng, lo, hi):
    n = rng.randint(lo, hi)
    if rng.random() < 0.15:
        n = rng.choice([lo, hi, min(hi, 255), min(hi, 256)])
    return bytes(rng.randrange(256) for _ in range(n))


def rand_print(rng, lo, hi):
    n = rng.randint(lo, hi)
    return bytes(rng.randint(0x20, 0x7e) for _ in range(n))


def b16(rng):
    return rng.choice([0, 1, 255, 256, 0x7fff, 0x8000, 0xffff, rng.randrange(65536), rng.randrange(65536)])


def b32(rng):
    return rng.choice([0, 1, 0x7fffffff, 0x80000000, 0xffffffff, rng.randrange(1 << 32), rng.randrange(1 << 32)])


def rand_opts(rng, unique=True):
    n = rng.choice([0, 0, 1, 1, 2, 3, 6])
    opts = []
    seen = set()
    for _ in range(n):
        oid = rng.choice([0, 1, 2, 3, 4, 5, 6, 10, 12, 15, 65001, 65535, rng.randrange(65536)])
        if unique and oid in seen:
            continue
        seen.add(oid)
        opts.append((oid, rand_bytes(rng, 0, rng.choice([0, 4, 16, 40]))))
    return opts


class RR:
    def __init__(self, sect, owner, rtype, rclass, ttl):
        self.sect, self.owner, self.rtype, self.rclass, self.ttl = sect, owner, rtype, rclass, ttl
        self.fields = []       # [(key, dumptext)] for the decoded view
        self.rdata = b""       # filled by the encoder (raw view)
        self.ext_hi = 0        # bits an OPT contributes to the rcode


UNKNOWN_TYPES = [0, 3, 4, 7, 10, 11, 17, 25, 29, 39, 43, 46, 47, 48, 99, 250, 251, 252, 254, 258, 1000, 32768, 65280,
                 65535]


def pick_type(rng):
    return rng.choice(KNOWN + [T_A, T_AAAA, T_CNAME, T_TXT] + [rng.choice(UNKNOWN_TYPES)])


def gen_rr(rng, enc, sect, pool, force_type=None):
    """append one RR to enc; returns the RR with its intended decoded view"""
    rtype = force_type if force_type is not None else pick_type(rng)
    owner = rand_name(rng, pool)
    if owner:
        pool.append(owner)
    rclass = rng.choice([1, 1, 1, 1, 3, 4, 254])
    if rtype == T_SIG and rng.random() < 0.3:
        rclass = 255
    if rtype not in KNOWN and rng.random() < 0.4:
        rclass = rng.choice([0, 2, 255, 65535, rng.randrange(65536)])
    ttl = b32(rng)
    if rtype == T_OPT:
        owner = [] if rng.random() < 0.9 else owner
    rr = RR(sect, owner, rtype, rclass, ttl)
    enc.layout.append(("rr", len(enc.buf)))
    enc.name(owner, rng)
    enc.layout.append(("type", len(enc.buf)))
    enc.u16(rtype)
    enc.layout.append(("class", len(enc.buf)))
    enc.u16(rclass)
    enc.layout.append(("ttl", len(enc.buf)))
    enc.u32(ttl)
    rdlen_at = len(enc.buf)
    enc.u16(0)
    rd_start = len(enc.buf)
    f = rr.fields
    comp = rtype in BASE_TYPES or rng.random() < 0.3   # c-ares accepts pointers in any RDATA name

    def nm(key):
        n = rand_name(rng, pool)
        enc.name(n, rng, compress=comp)
        f.append((key, hexs(pres_name(n))))

    def u16(key):
        v = b16(rng)
        enc.u16(v)
        f.append((key, str(v)))

    def u32(key):
        v = b32(rng)
        enc.u32(v)
        f.append((key, str(v)))

    def u8(key):
        v = rng.choice([0, 1, 127, 128, 255, rng.randrange(256)])
        enc.u8(v)
        f.append((key, str(v)))

    def cstr(key, lo=0):
        s = rand_print(rng, lo, rng.choice([3, 10, 40, 255]))
        enc.cstr(s)
        f.append((key, hexs(s)))

    def rest(key, lo=1):
        b = rand_bytes(rng, lo, rng.choice([1, 8, 64, 300]))
        enc.raw(b)
        f.append((key, hexs(b)))

    def opts(key):
        o = rand_opts(rng)
        for oid, val in o:
            enc.u16(oid)
            enc.layout.append(("optlen", len(enc.buf), len(val)))
            enc.u16(len(val))
            enc.raw(val)
        f.append((key, "{" + ",".join("%d:%s" % (i, hexs(v)) for i, v in o) + "}"))

    if rtype == T_A:
        b = bytes(rng.randrange(256) for _ in range(4)); enc.raw(b); f.append((101, b.hex()))
    elif rtype == T_AAAA:
        b = bytes(rng.randrange(256) for _ in range(16)); enc.raw(b); f.append((2801, b.hex()))
    elif rtype == T_NS:
        nm(201)
    elif rtype == T_CNAME:
        nm(501)
    elif rtype == T_PTR:
        nm(1201)
    elif rtype == T_SOA:
        nm(601); nm(602); u32(603); u32(604); u32(605); u32(606); u32(607)
    elif rtype == T_HINFO:
        cstr(1301); cstr(1302)
    elif rtype == T_MX:
        u16(1501); nm(1502)
    elif rtype == T_TXT:
        strs = [rand_bytes(rng, 0, rng.choice([0, 5, 30, 255])) for _ in range(rng.choice([1, 1, 2, 3, 8]))]
        for s in strs:
            enc.cstr(s)
        f.append((1601, "[" + ",".join(hexs(s) for s in strs) + "]"))
    elif rtype == T_SIG:
        u16(2401); u8(2402); u8(2403); u32(2404); u32(2405); u32(2406); u16(2407); nm(2408); rest(2409)
    elif rtype == T_SRV:
        u16(3302); u16(3303); u16(3304); nm(3305)
    elif rtype == T_NAPTR:
        u16(3501); u16(3502); cstr(3503); cstr(3504); cstr(3505); nm(3506)
    elif rtype == T_OPT:
        # RFC 6891: CLASS = requestor's UDP payload size, TTL = ext-rcode(8) version(8) flags(16)
        f.append((4101, str(rclass)))
        f.append((4103, str((ttl >> 16) & 0xff)))
        f.append((4104, str(ttl & 0xffff)))
        opts(4105)
        rr.ext_hi = (ttl >> 24) << 4
    elif rtype == T_TLSA:
        u8(5201); u8(5202); u8(5203); rest(5204)
    elif rtype == T_SVCB:
        u16(6401); nm(6402); opts(6403)
    elif rtype == T_HTTPS:
        u16(6501); nm(6502); opts(6503)
    elif rtype == T_URI:
        u16(25601); u16(25602)
        t = rand_print(rng, 1, rng.choice([1, 20, 200]))
        enc.raw(t); f.append((25603, hexs(t)))
    elif rtype == T_CAA:
        u8(25701); cstr(25702, lo=1); rest(25703)
    else:
        b = rand_bytes(rng, 0, rng.choice([0, 1, 8, 64, 600]))
        enc.raw(b)
    rdlen = len(enc.buf) - rd_start
    enc.buf[rdlen_at:rdlen_at + 2] = struct.pack(">H", rdlen & 0xffff)
    enc.layout.append(("rdlen", rdlen_at, rd_start, rdlen))
    rr.rdata = bytes(enc.buf[rd_start:])
    return rr


class Built:
    pass


def gen_message(rng, big=False, types=None):
    """a well-formed message in the subset c-ares supports; returns Built(data, layout, header, q, rrs)"""
    enc = Enc()
    pool = []
    b = Built()
    b.id = b16(rng)
    b.qr, b.aa, b.tc, b.rd, b.ra, b.ad, b.cd = [rng.randrange(2) for _ in range(7)]
    b.z = 1 if rng.random() < 0.1 else 0
    b.opcode = rng.choice([0, 0, 0, 1, 2, 4, 5])
    b.rcode4 = rng.choice([0, 0, 0, 1, 2, 3, 4, 5, 9, 11, 12, 15, rng.randrange(16)])
    nrr = [rng.choice([0, 1, 1, 2, 3, 5]), rng.choice([0, 0, 1, 2]), rng.choice([0, 1, 1, 2])]
    if big:
        nrr = [rng.randint(20, 200), rng.randint(0, 20), rng.randint(0, 20)]
    enc.u16(b.id)
    enc.u16(b.qr << 15 | b.opcode << 11 | b.aa << 10 | b.tc << 9 | b.rd << 8 | b.ra << 7 | b.z << 6 | b.ad << 5 |
            b.cd << 4 | b.rcode4)
    for i, n in enumerate([1] + nrr):
        enc.layout.append(("count", len(enc.buf), i))
        enc.u16(n)
    qname = rand_name(rng, pool)
    pool.append(qname)
    b.qname = qname
    b.qtype = rng.choice(KNOWN + [T_ANY, 0, 99, 65535, rng.randrange(65536)])
    b.qclass = rng.choice([1, 1, 1, 3, 4, 254, 255])
    enc.name(qname, rng)
    enc.layout.append(("qtype", len(enc.buf)))
    enc.u16(b.qtype)
    enc.layout.append(("qclass", len(enc.buf)))
    enc.u16(b.qclass)
    b.rrs = []
    have_opt = False
    for si, sect in enumerate(("an", "ns", "ar")):
        for _ in range(nrr[si]):
            ft = rng.choice(types) if types else pick_type(rng)
            if sect == "ar" and not have_opt and rng.random() < 0.5:
                ft = T_OPT
            if ft == T_OPT and (sect != "ar" or have_opt):
                ft = T_A      # RFC 6891: at most one OPT, in the additional section
            if ft == T_OPT:
                have_opt = True
            b.rrs.append(gen_rr(rng, enc, sect, pool, ft))
    b.data = bytes(enc.buf)
    b.layout = enc.layout
    return b


def flag_for(sect, base):
    return {"an": (1, 8), "ns": (2, 16), "ar": (4, 32)}[sect][0 if base else 1]


def expected_line(b, flags):
    """what `parse <flags> <hex>` must print for the clean message b (None if the intended values
    say nothing, e.g. message too long)"""
    if len(b.data) > 65535:
        return "st=badresp"
    items = []
    hi = 0
    for rr in b.rrs:
        t = rr.rtype if rr.rtype in KNOWN else T_RAW
        if flags & flag_for(rr.sect, t in BASE_TYPES):
            t = T_RAW
        if t == T_RAW:
            # pinned-tree defect F8 is visible here: intended type is rr.rtype even when RDATA is empty
            items.append("RR s=%s n=%s t=65536 c=%d ttl=%d 6553601=%d 6553602=%s"
                         % (rr.sect, hexs(pres_name(rr.owner)), rr.rclass, rr.ttl, rr.rtype, hexs(rr.rdata)))
        else:
            c, ttl = (1, 0) if t == T_OPT else (rr.rclass, rr.ttl)
            if t == T_OPT:
                hi |= rr.ext_hi
            items.append("RR s=%s n=%s t=%d c=%d ttl=%d" % (rr.sect, hexs(pres_name(rr.owner)), t, c, ttl) +
                         "".join(" %d=%s" % kv for kv in rr.fields))
    rc = (b.rcode4 | hi) & 0xfff
    if rc not in VALID_RCODES:
        rc = 2
    head = "H id=%d qr=%d op=%d aa=%d tc=%d rd=%d ra=%d ad=%d cd=%d rc=%d" % (
        b.id, b.qr, b.opcode, b.aa, b.tc, b.rd, b.ra, b.ad, b.cd, rc)
    q = "Q n=%s t=%d c=%d" % (hexs(pres_name(b.qname)), b.qtype, b.qclass)
    return "st=ok " + " ; ".join([head, q] + items)


def normalise(line):
    """the C getter reports an empty raw RDATA as NULL (`~`); intended values say empty (`-`)"""
    return line.replace("6553602=~", "6553602=-")


# ----------------------------------------------------------------------------------------------
# structure-aware damage

def anomalies(rng, b):
    """returns (bytes, tag): one field of the layout pushed to a boundary / inconsistent value"""
    data = bytearray(b.data)
    lay = b.layout
    kinds = sorted({e[0] for e in lay})
    kind = rng.choice(kinds + ["truncate", "trailing", "opcode", "pad65535"])
    ents = [e for e in lay if e[0] == kind]

    def put16(off, v):
        data[off:off + 2] = struct.pack(">H", v & 0xffff)

    if kind == "count":
        e = rng.choice(ents)
        cur = struct.unpack(">H", data[e[1]:e[1] + 2])[0]
        put16(e[1], rng.choice([0, 1, 2, cur + 1, cur + 2, max(cur - 1, 0), 255, 0xffff]))
    elif kind == "rdlen":
        e = rng.choice(ents)
        _, at, start, ln = e
        choice = rng.random()
        if choice < 0.35:
            # junk inside RDATA: grow rdlength and insert that many bytes
            k = rng.choice([1, 2, 3, 10])
            put16(at, ln + k)
            data[start + ln:start + ln] = bytes(rng.randrange(256) for _ in range(k))
        elif choice < 0.6:
            put16(at, max(ln - rng.choice([1, 2, 3, ln]), 0))
        elif choice < 0.8:
            put16(at, ln + rng.choice([1, 2, 4, 100]))           # runs into the next RR / the end
        else:
            put16(at, rng.choice([0, 1, 0xffff, len(data) - start, len(data) - start + 1]))
    elif kind == "lablen":
        e = rng.choice(ents)
        data[e[1]] = rng.choice([0, 63, 64, 65, 0x80, 0xbf, 0xc0, 0xff, e[2] + 1, max(e[2] - 1, 0)]) & 0xff
    elif kind == "ptr":
        e = rng.choice(ents)
        put16(e[1], 0xC000 | rng.choice([e[1], e[1] + 1, e[1] - 1, e[1] + 2, 0, 11, 12, len(data) - 1, len(data),
                                          0x3fff, e[2] + 1, max(e[2] - 1, 0)]) & 0xffff | 0xC000)
    elif kind == "name":
        e = rng.choice(ents)
        # replace the whole name by a pointer somewhere
        tgt = rng.choice([e[1], 0, 12, e[2], len(data) - 1, rng.randrange(max(len(data), 1))])
        data[e[1]:e[2]] = struct.pack(">H", 0xC000 | (tgt & 0x3fff))
    elif kind in ("type", "qtype"):
        e = rng.choice(ents)
        put16(e[1], rng.choice(KNOWN + [0, 255, 65535, rng.randrange(65536)]))
    elif kind in ("class", "qclass"):
        e = rng.choice(ents)
        put16(e[1], rng.choice([0, 1, 2, 3, 4, 5, 253, 254, 255, 256, 65535]))
    elif kind == "ttl":
        e = rng.choice(ents)
        data[e[1]:e[1] + 4] = struct.pack(">I", rng.choice([0, 0x80000000, 0xffffffff, 0x01000000, 0xff000000,
                                                            0x00010000, 0x00008000, rng.randrange(1 << 32)]))
    elif kind == "strlen":
        e = rng.choice(ents)
        data[e[1]] = rng.choice([0, 1, 255, e[2] + 1, max(e[2] - 1, 0), rng.randrange(256)]) & 0xff
        if rng.random() < 0.3 and e[2] > 0:
            data[e[1] + 1] = rng.choice([0, 7, 0x1f, 0x7f, 0x80, 0xff])      # non-printable content
    elif kind == "optlen":
        e = rng.choice(ents)
        put16(e[1], rng.choice([0, 1, e[2] + 1, max(e[2] - 1, 0), 0xffff, len(data) - e[1] - 2, len(data) - e[1] - 1]))
    elif kind == "rr":
        # drop or duplicate the tail starting at an RR boundary
        e = rng.choice(ents)
        if rng.random() < 0.5:
            del data[e[1]:]
        else:
            data += data[e[1]:]
    elif kind == "truncate":
        del data[rng.randrange(len(data) + 1):]
    elif kind == "trailing":
        data += bytes(rng.randrange(256) for _ in range(rng.choice([1, 2, 11, 100])))
    elif kind == "opcode":
        data[2] = (data[2] & 0x87) | (rng.choice([3, 6, 7, 8, 15]) << 3)
    elif kind == "pad65535":
        want = rng.choice([65534, 65535, 65536, 65537, 70000])
        if len(data) < want:
            data += bytes(want - len(data))
    return bytes(data), kind


def mutate(rng, data):
    """byte-level mutation (1..4 edits)"""
    d = bytearray(data)
    for _ in range(rng.choice([1, 1, 2, 3, 4])):
        op = rng.randrange(7)
        if not d:
            d += bytes([rng.randrange(256)])
            continue
        i = rng.randrange(len(d))
        if op == 0:
            d[i] = rng.randrange(256)
        elif op == 1:
            d[i] ^= 1 << rng.randrange(8)
        elif op == 2:
            d[i] = rng.choice([0, 1, 0x3f, 0x40, 0x7f, 0x80, 0xc0, 0xff])
        elif op == 3:
            del d[i:i + rng.choice([1, 2, 4, 16])]
        elif op == 4:
            d[i:i] = bytes(rng.randrange(256) for _ in range(rng.choice([1, 2, 4])))
        elif op == 5:
            del d[i:]
        else:
            j = rng.randrange(len(d))
            d[i:i + 2] = struct.pack(">H", 0xC000 | (j & 0x3fff))
    return bytes(d)


def header(qd=1, an=0, ns=0, ar=0, flags=0x8180, ident=0x1234):
    return struct.pack(">HHHHHH", ident, flags, qd, an, ns, ar)


def pointer_games(rng):
    """hand-shaped compression layouts: nested, looping, forward, self, into-header, mid-label"""
    out = []
    q = b"\x03www\x07example\x03com\x00"           # at offset 12; "example" at 16, "com" at 24
    qd = q + b"\x00\x01\x00\x01"
    base = header(an=1) + qd
    fixed = b"\x00\x01\x00\x01\x00\x00\x01\x2c\x00\x04\x01\x02\x03\x04"

    def msg(owner, tag):
        out.append((base + owner + fixed, tag))

    msg(b"\xc0\x0c", "ptr-plain")
    msg(b"\x01a\xc0\x10", "ptr-suffix")
    o = len(base)
    msg(struct.pack(">H", 0xC000 | o), "ptr-self")
    msg(struct.pack(">H", 0xC000 | (o + 2)), "ptr-forward")
    msg(struct.pack(">H", 0xC000 | (o + 1)), "ptr-into-itself")
    msg(b"\x01a" + struct.pack(">H", 0xC000 | o), "ptr-to-own-start")
    msg(b"\x01a" + struct.pack(">H", 0xC000 | (o + 2)), "ptr-to-itself-after-label")
    msg(struct.pack(">H", 0xC000 | 0), "ptr-into-header")
    msg(struct.pack(">H", 0xC000 | 13), "ptr-mid-label")
    msg(struct.pack(">H", 0xC000 | 0x3fff), "ptr-beyond")
    msg(struct.pack(">H", 0xC000 | (len(base) + 2 + len(fixed))), "ptr-to-end")
    # nested chains: RR1 owner -> q ; RR2 owner -> RR1 owner ; ...
    depth = rng.randint(2, 40)
    body = bytearray(header(an=depth) + qd)
    prev = 12
    for _ in range(depth):
        here = len(body)
        body += struct.pack(">H", 0xC000 | prev) + fixed
        prev = here
    out.append((bytes(body), "ptr-chain-%d" % depth))
    # chain with labels in between
    body = bytearray(header(an=depth) + qd)
    prev = 12
    for i in range(depth):
        here = len(body)
        body += bytes([1, 97 + i % 26]) + struct.pack(">H", 0xC000 | prev) + fixed
        prev = here
    out.append((bytes(body), "ptr-chain-labels-%d" % depth))
    # two names pointing at each other (second RR points forward ... first back)
    body = bytearray(header(an=2) + qd)
    a = len(body)
    bpos = a + 2 + len(fixed)
    body += struct.pack(">H", 0xC000 | bpos) + fixed + struct.pack(">H", 0xC000 | a) + fixed
    out.append((bytes(body), "ptr-mutual"))
    # the question name itself a pointer to later data
    body = header(an=0) + struct.pack(">H", 0xC000 | 18) + b"\x00\x01\x00\x01" + b"\x01x\x00"
    out.append((body, "ptr-question-forward"))
    # long run of 1-byte labels then pointer back to the start of the run (quadratic-walk attempt)
    n = rng.randint(50, 400)
    run = b"\x01a" * n
    body = header(an=1) + qd
    s = len(body)
    body += run + struct.pack(">H", 0xC000 | 12) + fixed
    out.append((body, "long-run-then-ptr"))
    body = header(an=1) + b"\x01a" * n + b"\x00" + b"\x00\x01\x00\x01" + struct.pack(">H", 0xC000 | 14) + fixed
    out.append((body, "ptr-into-long-run"))
    # name longer than 255 octets via pointers
    body = header(an=1) + bytes([63]) + b"a" * 63 + bytes([63]) + b"b" * 63 + bytes([63]) + b"c" * 63 + b"\x00" + \
        b"\x00\x01\x00\x01"
    body += bytes([63]) + b"d" * 63 + bytes([63]) + b"e" * 63 + struct.pack(">H", 0xC000 | 12) + fixed
    out.append((body, "name-over-255"))
    # reserved label types
    msg(b"\x40", "label-type-01")
    msg(b"\x80\x01", "label-type-10")
    msg(b"\x41a\x00", "label-type-01-len1")
    return out


def edge_messages(rng):
    """hand-shaped non-pointer edge cases with the line the RFC reading expects (or None)"""
    out = []
    q = b"\x01q\x00\x00\x01\x00\x01"

    def rr(rtype, rdata, owner=b"\x00", rclass=1, ttl=0, rdlen=None):
        return owner + struct.pack(">HHIH", rtype, rclass, ttl, len(rdata) if rdlen is None else rdlen) + rdata

    def add(m, tag):
        out.append((m, tag))

    # OPT: TLV ending exactly at buffer end; one byte short; ext rcode; version; flags
    for opt in (b"\x00\x0a\x00\x08" + b"c" * 8, b"\x00\x0a\x00\x00", b"", b"\x00\x03\x00\x01z\x00\x03\x00\x02zz"):
        add(header(ar=1) + q + rr(T_OPT, opt, rclass=1232, ttl=0x01008000), "opt-exact-end")
        add((header(ar=1) + q + rr(T_OPT, opt, rclass=1232))[:-1], "opt-one-short")
    add(header(ar=1) + q + rr(T_OPT, b"\x00\x0a\x00\x09" + b"c" * 8, rclass=4096), "opt-len-over-end")
    add(header(ar=1) + q + rr(T_OPT, b"\x00\x0a\x00\x04" + b"c" * 8, rclass=4096, rdlen=6), "opt-value-over-rdlen")
    add(header(ar=2) + q + rr(T_OPT, b"", ttl=0x01000000) + rr(T_OPT, b"", ttl=0x02000000), "opt-twice")
    add(header(an=1) + q + rr(T_OPT, b"", ttl=0x01000000), "opt-in-answer")
    for ttl in (0x00000000, 0x01000000, 0x10000000, 0xff000000, 0x00010000, 0x00ff8000, 0x00008000, 0xffffffff):
        for rc in (0, 1, 7, 15):
            add(header(ar=1, flags=0x8180 | rc) + q + rr(T_OPT, b"", rclass=512, ttl=ttl), "opt-ttl-%08x-rc%d" % (ttl, rc))
    # CAA / TLSA / SIG / URI emptiness
    add(header(an=1) + q + rr(T_CAA, b"\x00\x00v"), "caa-blank-tag")
    add(header(an=1) + q + rr(T_CAA, b"\x00\x05issue"), "caa-no-value")
    add(header(an=1) + q + rr(T_CAA, b"\x80\x05issue" + b"ca.example"), "caa-ok")
    add(header(an=1) + q + rr(T_CAA, b"\x00\x05is\x01ue" + b"x"), "caa-nonprint-tag")
    add(header(an=1) + q + rr(T_TLSA, b"\x01\x02\x03"), "tlsa-no-data")
    add(header(an=1) + q + rr(T_TLSA, b"\x01\x02\x03\x04"), "tlsa-ok")
    add(header(an=1) + q + rr(T_URI, b"\x00\x01\x00\x02"), "uri-empty")
    add(header(an=1) + q + rr(T_URI, b"\x00\x01\x00\x02" + b"http://\x7f"), "uri-nonprint")
    add(header(an=1) + q + rr(T_SIG, b"\x00\x01\x05\x02" + b"\x00" * 12 + b"\x00\x07" + b"\x00"), "sig-no-signature")
    add(header(an=1) + q + rr(T_SIG, b"\x00\x01\x05\x02" + b"\x00" * 12 + b"\x00\x07" + b"\x00" + b"s", rclass=255), "sig-class-any")
    add(header(an=1) + q + rr(T_A, b"\x01\x02\x03\x04", rclass=255), "a-class-any")
    add(header(an=1) + q + rr(T_TXT, b""), "txt-empty-rdata")
    add(header(an=1) + q + rr(T_TXT, b"\x00"), "txt-one-empty-string")
    add(header(an=1) + q + rr(T_TXT, b"\x05abc", rdlen=4) + b"de", "txt-string-over-rdlen")
    add(header(an=1) + q + rr(T_TXT, b"\xff" + b"t" * 255 + b"\x00"), "txt-255")
    add(header(an=1) + q + rr(T_HINFO, b"\x03cpu"), "hinfo-one-string")
    add(header(an=1) + q + rr(T_HINFO, b"\x03cpu\x02os" + b"junk"), "hinfo-trailing-junk")
    add(header(an=1) + q + rr(T_HINFO, b"\x03c\x00u\x02os"), "hinfo-nonprint")
    add(header(an=1) + q + rr(T_HINFO, b"\x00\x00"), "hinfo-blank")
    add(header(an=1) + q + rr(T_A, b"\x01\x02\x03"), "a-short")
    add(header(an=1) + q + rr(T_A, b"\x01\x02\x03\x04\x05"), "a-long")
    add(header(an=1) + q + rr(T_AAAA, b"\x01" * 15), "aaaa-short")
    add(header(an=1) + q + rr(T_ANY, b""), "rr-type-any")
    for t in (0, 3, 99, 65535):
        add(header(an=1) + q + rr(t, b""), "unknown-type-%d-empty" % t)
        add(header(an=1) + q + rr(t, b"\x01"), "unknown-type-%d-1byte" % t)
    add(header(an=1) + q + rr(T_SVCB, b"\x00\x01\x00" + b"\x00\x01\x00\x02h2" + b"\x00\x01\x00\x02h3"), "svcb-dup-key")
    add(header(an=1) + q + rr(T_HTTPS, b"\x00\x00\x00"), "https-alias-root")
    add(header(an=1) + q + rr(T_SVCB, b"\x00\x01\x00" + b"\x00\x01\x00"), "svcb-param-cut")
    add(header(qd=0) + q, "qdcount-0")
    add(header(qd=2) + q + q, "qdcount-2")
    add(header(flags=0x9980) + q, "opcode-3")
    add(header(an=0xffff) + q, "ancount-65535-empty")
    add(header() + b"\x01q\x00\x00\x01\x00\x02", "qclass-2")
    add(header() + b"\x01q\x00\xff\xff\x00\xff", "qtype-65535-class-any")
    add(header()[:11], "header-short")
    add(header(), "header-only")
    # sizes around 64 KiB
    big = rr(65280, bytes(65000))
    m = header(an=1) + q + big
    for want in (65534, 65535, 65536, 66000):
        if want >= len(m):
            add(m + bytes(want - len(m)), "size-%d" % want)
    add(header(an=1) + q + rr(65280, bytes(65535 - 12 - len(q) - 11)), "rdata-fills-65535")
    return out


def load_seeds():
    seeds = []
    d = os.path.join(REPO, "test", "fuzzinput")
    if os.path.isdir(d):
        for f in sorted(os.listdir(d)):
            p = os.path.join(d, f)
            if os.path.isfile(p):
                seeds.append(open(p, "rb").read())
    return seeds


def load_name_seeds():
    seeds = []
    d = os.path.join(REPO, "test", "fuzznames")
    if os.path.isdir(d):
        for f in sorted(os.listdir(d)):
            p = os.path.join(d, f)
            if os.path.isfile(p):
                seeds.append(open(p, "rb").read())
    return seeds
