#!/usr/bin/env python3
"""Confirm a seeded change independently and file it under /verif/seeded/<PID>-<k>/.
usage: tools/seedverify.py C01 1   (reads /tmp/seed-c01/seed_out/{patch1.diff,demo1.c*,meta1.json})
Steps (all in a scratch worktree /tmp/sv-<pid>-<k> of /repo HEAD, removed afterwards):
  build unchanged tree, build+run demo -> must pass; apply patch, rebuild, run the repo's suite (non-Live gtests + fuzz
  corpus tests) -> must pass; run demo -> must fail."""
import glob
import json
import os
import re
import shutil
import subprocess
import sys
import time

VERIF = os.path.dirname(os.path.dirname(os.path.abspath(__file__)))


def sh(cmd, **kw):
    return subprocess.run(cmd, shell=isinstance(cmd, str), stdout=subprocess.PIPE, stderr=subprocess.STDOUT, text=True, **kw)


def main():
    pid, k = sys.argv[1], sys.argv[2]
    # optional: source worktree of the seeding agent and the name to file the change under (second wave)
    orig_wt = sys.argv[3] if len(sys.argv) > 3 else "/tmp/seed-%s" % pid.lower()
    outname = sys.argv[4] if len(sys.argv) > 4 else "%s-%s" % (pid, k)
    src = orig_wt + "/seed_out"
    wt = "/tmp/sv-%s" % outname.lower()
    out = os.path.join(VERIF, "seeded", outname)
    os.makedirs(out, exist_ok=True)
    log = []

    def note(s):
        log.append(s)
        print(s, flush=True)

    demos = glob.glob(os.path.join(src, "demo%s.c*" % k))
    demo = [d for d in demos if d.endswith((".c", ".cc", ".cpp"))][0]
    meta = json.load(open(os.path.join(src, "meta%s.json" % k)))
    patch = os.path.join(src, "patch%s.diff" % k)
    sh(["git", "-C", "/repo", "worktree", "remove", "--force", wt])
    shutil.rmtree(wt, ignore_errors=True)
    r = sh(["git", "-C", "/repo", "worktree", "add", "--detach", wt, "HEAD"])
    if r.returncode != 0:
        note("worktree failed: " + r.stdout)
        return 1
    result = {"applies": None, "suite_passes_with_change": None, "demo_passes_unchanged": None, "demo_fails_with_change": None}
    try:
        cfg = "cmake -G Ninja -B %s/_build -S %s -DCARES_BUILD_TESTS=ON -DCMAKE_BUILD_TYPE=RelWithDebInfo -DGTest_DIR=/root/miniconda/lib/cmake/GTest" % (wt, wt)
        r = sh(cfg)
        r = sh("cmake --build %s/_build -j6" % wt)
        if r.returncode != 0:
            note("unchanged build failed: " + r.stdout[-800:])
            return 1
        # demo compile commands from its header comment
        text = open(demo).read()
        head = text[:8000]
        # unfold the comment: strip leading ' * ', join backslash continuations
        lines = [re.sub(r"^\s*(/\*+|\*+/?|//)\s?", "", l).rstrip() for l in head.split("\n")]
        joined, cur = [], ""
        for l in lines:
            if cur:
                cur += " " + l.strip()
            else:
                cur = l.strip()
            if cur.endswith("\\"):
                cur = cur[:-1].rstrip()
                continue
            joined.append(cur)
            cur = ""
        # shell variable assignments the compile line relies on (e.g. `S=/tmp/...; B=$S/_build`)
        assigns = [c for c in joined if re.match(r"^(\$ )?([A-Za-z_]\w*=\S+\s*;?\s*)+$", c)]
        pre = "; ".join(re.sub(r"^\$ ", "", a).rstrip("; ") for a in assigns)
        cmds = [c for c in joined if re.match(r"^(\$ )?(gcc|cc|g\+\+|clang)\b", c)]
        cmds = [((pre + "; ") if pre else "") + re.sub(r"^\$ ", "", c) for c in cmds]
        cmds = [c.replace(orig_wt, wt) for c in cmds]
        os.makedirs(os.path.join(wt, "seed_out"), exist_ok=True)
        shutil.copy(demo, os.path.join(wt, "seed_out", os.path.basename(demo)))

        def build_and_run(tag):
            for f in glob.glob(os.path.join(wt, "**", "demo%s" % k), recursive=True):
                if os.path.isfile(f):
                    os.unlink(f)
            okc = False
            for c in cmds[:1]:
                for cwd in (wt, os.path.join(wt, "seed_out")):
                    r = sh(c, cwd=cwd)
                    if r.returncode == 0:
                        okc = True
                        break
                if not okc:
                    note("%s: demo compile failed (%s): %s" % (tag, c[:160], r.stdout[-400:]))
                    return None
            exes = [f for f in glob.glob(os.path.join(wt, "**", "demo%s*" % k), recursive=True)
                    if os.path.isfile(f) and os.access(f, os.X_OK) and not f.endswith((".c", ".cc", ".cpp", ".json", ".diff"))]
            if not exes:
                note("%s: demo binary not found (commands: %s)" % (tag, cmds[:1]))
                return None
            env = dict(os.environ)
            env["LD_LIBRARY_PATH"] = os.path.join(wt, "_build", "lib")
            r = subprocess.run([exes[0]], cwd=wt, stdout=subprocess.PIPE, stderr=subprocess.STDOUT, text=True, env=env, timeout=300)
            note("%s: demo exit %d: %s" % (tag, r.returncode, r.stdout.strip().split("\n")[-1][:200]))
            return r.returncode
        rc0 = build_and_run("unchanged")
        result["demo_passes_unchanged"] = (rc0 == 0)
        r = sh(["git", "-C", wt, "apply", patch])
        result["applies"] = (r.returncode == 0)
        if r.returncode != 0:
            note("patch does not apply to current /repo HEAD: " + r.stdout[-300:])
            return 1
        r = sh("cmake --build %s/_build -j6" % wt)
        if r.returncode != 0:
            note("build with change failed: " + r.stdout[-800:])
            return 1
        r = sh("../bin/arestest --gtest_filter=-*Live* 2>&1 | tail -3", cwd=os.path.join(wt, "_build", "test"))
        ok_g = "PASSED" in r.stdout and "FAILED" not in r.stdout
        r2 = sh("ctest --test-dir %s/_build -R aresfuzz 2>&1 | tail -3" % wt)
        ok_f = "100% tests passed" in r2.stdout
        result["suite_passes_with_change"] = bool(ok_g and ok_f)
        note("suite with change: gtest %s | fuzz %s" % (r.stdout.strip().split("\n")[-1][:80], r2.stdout.strip().split("\n")[0][:80]))
        rc1 = build_and_run("changed")
        result["demo_fails_with_change"] = (rc1 is not None and rc1 != 0)
    finally:
        sh(["git", "-C", "/repo", "worktree", "remove", "--force", wt])
        shutil.rmtree(wt, ignore_errors=True)
    shutil.copy(patch, os.path.join(out, "patch.diff"))
    shutil.copy(demo, os.path.join(out, os.path.basename(demo).replace("demo%s" % k, "demo")))
    meta["coordinator_verification"] = {"result": result, "log": log, "repo_head": sh(["git", "-C", "/repo", "log", "--format=%h", "-1"]).stdout.strip(),
                                        "when": time.strftime("%Y-%m-%d %H:%M:%S")}
    json.dump(meta, open(os.path.join(out, "meta.json"), "w"), indent=1)
    print("RESULT", pid, k, result)
    return 0 if all(result.values()) else 1


if __name__ == "__main__":
    sys.exit(main())
