"""Translator for the reload-thread protocol of ares_reinit() (C11, deadlock-freedom of ares_reinit/ares_destroy).

From the CURRENT source it extracts, on every run,

  threadProg            the body of ares_reinit_thread() (src/lib/ares_init.c) as a straight-line sequence of abstract
                        operations in program order:
                            ares_init_by_sysconfig(channel)              -> readConfig
                            ares_channel_lock(channel)                   -> lock
                            ares_channel_unlock(channel)                 -> unlock
                            channel->reinit_pending = ARES_FALSE         -> clearPending
                            [if (...)] ares_qcache_flush(...)            -> flush
                        declarations, `(void)x;`, DEBUGF(...) and `return NULL;` (last statement only) carry no operation;
                        `if (status != ARES_SUCCESS) { DEBUGF(...) }` is ignored.  Any other statement, and any of the
                        lock/unlock/clearPending/readConfig operations under a condition or in a loop, is an extraction
                        failure (the model is straight-line).
  joinHoldsLock         ares_reinit(): is ares_thread_join() reached with the channel lock held (lock depth on the
                        fall-through path; a block ending in `return` does not fall through)?  The thread must be
                        created in the same lock state as the join, `channel->reinit_pending = ARES_TRUE` must be set
                        with the lock held after a locked test of reinit_pending, otherwise extraction failure.
  destroyJoinHoldsLock  ares_destroy() (src/lib/ares_destroy.c): the same question for its ares_thread_join().
  sysconfigLocks        the lock/unlock calls of ares_init_by_sysconfig() (src/lib/ares_sysconfig.c) in program order;
                        a `goto`/`return` between a lock and its unlock is an extraction failure.  C11b's obligation
                        `sysconfig_locks_balanced` justifies modelling readConfig as "needs L momentarily".

and writes lean/CaresModel/Generated/ReinitProg.lean.  CaresProps/C11b.lean proves deadlock-freedom for every
program that satisfies the decidable condition `NoLockAfterClear`, and `generated_prog_ok` (by decide) is the obligation
that the program extracted here satisfies it.

Inside /verif/tools: `import gen_reinit; gen_reinit.gen_reinit()` (paths from vlib.REPO / vlib.LEAN).
Standalone: python3 gen_reinit.py --repo <path> --out <file> [--init-c <file>] (the last one substitutes ares_init.c).
"""
import hashlib
import os
import re
import sys

try:
    import vlib
except ImportError:  # standalone use outside /verif/tools
    vlib = None

try:
    from gen_locktable import find_body
except ImportError:
    def find_body(name, sources):
        pat = re.compile(r"^[A-Za-z_][\w \t\*]*\b" + re.escape(name) + r"\s*\(", re.M)
        for path, txt in sources:
            for m in pat.finditer(txt):
                depth, j = 1, m.end()
                while j < len(txt) and depth:
                    depth += txt[j] == "("
                    depth -= txt[j] == ")"
                    j += 1
                k = j
                while k < len(txt) and txt[k] in " \t\r\n":
                    k += 1
                if k < len(txt) and txt[k] == "{":
                    d, e = 1, k + 1
                    while e < len(txt) and d:
                        d += txt[e] == "{"
                        d -= txt[e] == "}"
                        e += 1
                    return path, txt[k:e]
        return None, None

REPO = vlib.REPO if vlib else "/repo"
OUT = os.path.join(vlib.LEAN, "CaresModel", "Generated", "ReinitProg.lean") if vlib else None


class ParseError(Exception):
    pass


# ---------------------------------------------------------------------------------------------- statement parser

def strip_comments(txt):
    txt = re.sub(r"/\*.*?\*/", " ", txt, flags=re.S)
    txt = re.sub(r"//[^\n]*", " ", txt)
    # preprocessor lines carry no statements of the functions we read (a conditional section around one of the
    # recognised operations would be an unknown construct: reject it)
    return txt


def _match(txt, i, op, cl):
    """index just after the bracket closing the one at txt[i]"""
    assert txt[i] == op
    depth, j = 1, i + 1
    while j < len(txt) and depth:
        depth += txt[j] == op
        depth -= txt[j] == cl
        j += 1
    if depth:
        raise ParseError("unbalanced %s" % op)
    return j


def parse_block(txt):
    """txt = '{ ... }' -> list of statements:
       ('simple', text) | ('if', cond, then_stmts, else_stmts|None) | ('loop', head, stmts) | ('block', stmts)"""
    txt = txt.strip()
    if not (txt.startswith("{") and txt.endswith("}")):
        raise ParseError("not a block")
    return parse_stmts(txt[1:-1])


def parse_stmts(txt):
    out, i = [], 0
    while True:
        st, i = parse_stmt(txt, i)
        if st is None:
            return out
        out.append(st)


def _skip_ws(txt, i):
    while i < len(txt) and txt[i] in " \t\r\n":
        i += 1
    return i


def parse_stmt(txt, i):
    i = _skip_ws(txt, i)
    if i >= len(txt):
        return None, i
    if txt[i] == "#":
        raise ParseError("preprocessor directive inside the function body: %s" % txt[i:i + 40].split("\n")[0])
    if txt[i] == "{":
        e = _match(txt, i, "{", "}")
        return ("block", parse_stmts(txt[i + 1:e - 1])), e
    m = re.match(r"(if|while|for|switch)\b\s*\(", txt[i:])
    if m:
        kw = m.group(1)
        p = i + m.end() - 1
        e = _match(txt, p, "(", ")")
        cond = re.sub(r"\s+", " ", txt[p + 1:e - 1]).strip()
        body, j = parse_stmt(txt, e)
        if body is None:
            raise ParseError("missing body after %s (%s)" % (kw, cond))
        body = body[1] if body[0] == "block" else [body]
        if kw != "if":
            return ("loop", kw + " (" + cond + ")", body), j
        k = _skip_ws(txt, j)
        if re.match(r"else\b", txt[k:]):
            els, j = parse_stmt(txt, k + 4)
            if els is None:
                raise ParseError("missing body after else")
            els = els[1] if els[0] == "block" else [els]
            return ("if", cond, body, els), j
        return ("if", cond, body, None), j
    m = re.match(r"do\b", txt[i:])
    if m:
        body, j = parse_stmt(txt, i + 2)
        k = txt.index(";", j)
        return ("loop", "do-while", body[1] if body[0] == "block" else [body]), k + 1
    # simple statement up to the next ';' outside parentheses (labels `name:` stay glued to it)
    depth, j = 0, i
    while j < len(txt):
        ch = txt[j]
        if ch in "([":
            depth += 1
        elif ch in ")]":
            depth -= 1
        elif ch in "{}" and depth == 0:
            raise ParseError("unexpected %s in statement: %s" % (ch, txt[i:j + 1].strip()[:60]))
        elif ch == ";" and depth == 0:
            break
        j += 1
    if j >= len(txt):
        raise ParseError("statement without ';': %s" % txt[i:].strip()[:60])
    s = re.sub(r"\s+", " ", txt[i:j]).strip()
    # a leading label
    while True:
        m = re.match(r"([A-Za-z_]\w*)\s*:\s*(?!:)", s)
        if m and m.group(1) not in ("default",):
            s = s[m.end():]
        else:
            break
    return ("simple", s), j + 1


# ---------------------------------------------------------------------------------------------- recognisers

CH = r"(?:channel|c|chan)"
RE_LOCK = re.compile(r"ares_channel_lock\s*\(\s*" + CH + r"\s*\)$")
RE_UNLOCK = re.compile(r"ares_channel_unlock\s*\(\s*" + CH + r"\s*\)$")
RE_CLEAR = re.compile(CH + r"\s*->\s*reinit_pending\s*=\s*ARES_FALSE$")
RE_SETP = re.compile(CH + r"\s*->\s*reinit_pending\s*=\s*ARES_TRUE$")
RE_READ = re.compile(r"(?:\(void\)\s*|[A-Za-z_]\w*\s*=\s*)?ares_init_by_sysconfig\s*\(\s*" + CH + r"\s*\)$")
RE_FLUSH = re.compile(r"(?:\(void\)\s*)?ares_qcache_flush\s*\(\s*" + CH + r"\s*->\s*qcache\s*\)$")
RE_DECL = re.compile(r"(?:const\s+)?(?:struct\s+)?[A-Za-z_]\w*\s*\*?\s*[A-Za-z_]\w*(?:\s*=\s*[A-Za-z_]\w*)?$")
RE_VOID = re.compile(r"\(void\)\s*[A-Za-z_]\w*$")
RE_DEBUGF = re.compile(r"DEBUGF\s*\(.*\)$", re.S)
RE_RETURN = re.compile(r"return\b.*$")
KEYWORDS = ("ares_channel_lock", "ares_channel_unlock", "reinit_pending", "ares_init_by_sysconfig",
            "ares_thread_mutex_lock", "ares_thread_mutex_unlock", "ares_thread_join", "ares_thread_create",
            "ares_reinit", "goto")


def flat_text(stmts):
    out = []
    for st in stmts:
        if st[0] == "simple":
            out.append(st[1])
        elif st[0] == "if":
            out.append(st[1])
            out.append(flat_text(st[2]))
            if st[3] is not None:
                out.append(flat_text(st[3]))
        elif st[0] == "loop":
            out.append(st[1])
            out.append(flat_text(st[2]))
        else:
            out.append(flat_text(st[1]))
    return " ; ".join(out)


def only(stmts, rx):
    return bool(stmts) and all(st[0] == "simple" and rx.match(st[1]) for st in stmts)


def thread_ops(stmts):
    """ares_reinit_thread(): straight-line operations"""
    ops = []
    for n, st in enumerate(stmts):
        if st[0] == "simple":
            s = st[1]
            if RE_LOCK.match(s):
                ops.append("lock")
            elif RE_UNLOCK.match(s):
                ops.append("unlock")
            elif RE_CLEAR.match(s):
                ops.append("clearPending")
            elif RE_READ.match(s):
                ops.append("readConfig")
            elif RE_FLUSH.match(s):
                ops.append("flush")
            elif RE_RETURN.match(s):
                if n != len(stmts) - 1:
                    raise ParseError("ares_reinit_thread: return before the end of the body")
            elif RE_DEBUGF.match(s) or RE_VOID.match(s) or (RE_DECL.match(s) and not any(k in s for k in KEYWORDS)):
                pass
            else:
                raise ParseError("ares_reinit_thread: unknown statement: %s" % s)
        elif st[0] == "if":
            cond, then, els = st[1], st[2], st[3]
            if els is None and re.fullmatch(r"status\s*!=\s*ARES_SUCCESS", cond) and only(then, RE_DEBUGF):
                continue  # error report only
            if els is None and only(then, RE_FLUSH) and not any(k in cond for k in KEYWORDS):
                ops.append("flush")  # conditional cache flush: no lock operation either way
                continue
            raise ParseError("ares_reinit_thread: conditional statement the model does not cover: if (%s) { %s }"
                             % (cond, flat_text(then)[:80]))
        else:
            raise ParseError("ares_reinit_thread: %s the model does not cover" % st[0])
    return ops


def walk_depth(stmts, depth, rec, fname):
    """lock depth along every fall-through path; rec: event -> set of depths.  Returns the set of depths with which
    control falls out of `stmts` (empty: every path returns)."""
    depths = {depth}
    for st in stmts:
        if not depths:
            break
        nxt = set()
        for d in depths:
            if st[0] == "simple":
                s = st[1]
                if RE_LOCK.search(s):
                    nxt.add(d + 1)
                elif RE_UNLOCK.search(s):
                    if d == 0:
                        raise ParseError("%s: unlock without the lock held" % fname)
                    nxt.add(d - 1)
                elif RE_RETURN.match(s):
                    rec.setdefault("return", set()).add(d)
                elif s.startswith("goto"):
                    raise ParseError("%s: goto" % fname)
                else:
                    if "ares_thread_join" in s:
                        rec.setdefault("join", set()).add(d)
                    if "ares_thread_create" in s:
                        rec.setdefault("create", set()).add(d)
                    if RE_SETP.match(s):
                        rec.setdefault("setpending", set()).add(d)
                    if re.search(r"\bares_reinit_thread\s*\(", s) and "ares_thread_create" not in s:
                        rec.setdefault("direct", set()).add(d)
                    nxt.add(d)
            elif st[0] == "if":
                if "reinit_pending" in st[1]:
                    rec.setdefault("testpending", set()).add(d)
                a = walk_depth(st[2], d, rec, fname)
                b = walk_depth(st[3], d, rec, fname) if st[3] is not None else {d}
                nxt |= a | b
            elif st[0] == "loop":
                a = walk_depth(st[2], d, rec, fname)
                if a - {d}:
                    raise ParseError("%s: loop body changes the lock depth" % fname)
                nxt.add(d)
            else:
                nxt |= walk_depth(st[1], d, rec, fname)
        depths = nxt
    return depths


def single(rec, key, fname):
    v = rec.get(key)
    if not v:
        raise ParseError("%s: no %s found" % (fname, key))
    if len(v) != 1:
        raise ParseError("%s: %s reached with different lock depths %s" % (fname, key, sorted(v)))
    return next(iter(v))


def load(path):
    return strip_comments(open(path, errors="replace").read())


def body_of(fname, path, txt):
    _, body = find_body(fname, [(path, txt)])
    if body is None:
        raise ParseError("%s() not found in %s" % (fname, path))
    return body


def extract(repo, init_c=None):
    init_path = init_c or os.path.join(repo, "src", "lib", "ares_init.c")
    destroy_path = os.path.join(repo, "src", "lib", "ares_destroy.c")
    sysconfig_path = os.path.join(repo, "src", "lib", "ares_sysconfig.c")
    init_txt, destroy_txt, sys_txt = load(init_path), load(destroy_path), load(sysconfig_path)

    # --- the reload thread
    tbody = body_of("ares_reinit_thread", init_path, init_txt)
    prog = thread_ops(parse_block(tbody))
    if "clearPending" not in prog and "readConfig" not in prog:
        raise ParseError("ares_reinit_thread: neither the configuration read nor the reset of reinit_pending found")

    # --- ares_reinit
    rbody = body_of("ares_reinit", init_path, init_txt)
    rec = {}
    out = walk_depth(parse_block(rbody), 0, rec, "ares_reinit")
    if (out | rec.get("return", set())) - {0}:
        raise ParseError("ares_reinit: a path returns with the channel lock held")
    jd = single(rec, "join", "ares_reinit")
    cd = single(rec, "create", "ares_reinit")
    if (jd > 0) != (cd > 0):
        raise ParseError("ares_reinit: thread joined with lock depth %d but created with lock depth %d "
                         "(the model joins and spawns in the same lock state)" % (jd, cd))
    if single(rec, "setpending", "ares_reinit") < 1 or single(rec, "testpending", "ares_reinit") < 1:
        raise ParseError("ares_reinit: reinit_pending tested or set without the channel lock")
    # order: test, set, join, create
    flat = flat_text(parse_block(rbody))
    pos = [flat.find("reinit_pending"), flat.find("reinit_pending = ARES_TRUE"), flat.find("ares_thread_join"),
           flat.find("ares_thread_create")]
    if -1 in pos or pos != sorted(pos) or pos[0] == pos[1]:
        raise ParseError("ares_reinit: expected order test reinit_pending; set it; join; create not found")

    # --- ares_destroy
    dbody = body_of("ares_destroy", destroy_path, destroy_txt)
    # assert(...) under #ifndef NDEBUG carries no lock operation: drop preprocessor lines there
    dbody = re.sub(r"^[ \t]*#[^\n]*$", " ", dbody, flags=re.M)
    drec = {}
    dout = walk_depth(parse_block(dbody), 0, drec, "ares_destroy")
    if (dout | drec.get("return", set())) - {0}:
        raise ParseError("ares_destroy: a path returns with the channel lock held")
    dj = single(drec, "join", "ares_destroy")

    # --- ares_init_by_sysconfig: lock/unlock in program order
    sbody = body_of("ares_init_by_sysconfig", sysconfig_path, sys_txt)
    sysops, last = [], 0
    for m in re.finditer(r"ares_channel_(lock|unlock)\s*\(", sbody):
        if m.group(1) == "unlock" and sysops and sysops[-1] == "lock":
            between = sbody[last:m.start()]
            if re.search(r"\b(goto|return)\b", between):
                raise ParseError("ares_init_by_sysconfig: goto/return between lock and unlock")
        sysops.append(m.group(1))
        last = m.end()
    return {"prog": prog, "joinHoldsLock": jd > 0, "destroyJoinHoldsLock": dj > 0, "sysconfigLocks": sysops,
            "hash": hashlib.sha256((tbody + rbody + dbody + sbody).encode()).hexdigest()[:12],
            "init_path": init_path}


def render(x):
    def lst(ops):
        return "[" + ", ".join("." + o for o in ops) + "]"

    def b(v):
        return "true" if v else "false"
    return "\n".join([
        "import CaresModel.Reinit",
        "/- GENERATED by tools/gen_reinit.py from /repo/src/lib/ares_init.c (ares_reinit_thread, ares_reinit),",
        "   /repo/src/lib/ares_destroy.c (ares_destroy), /repo/src/lib/ares_sysconfig.c (ares_init_by_sysconfig) — do not edit. -/",
        "namespace Cares.Generated.Reinit",
        "open Cares.Reinit", "",
        "/-- ares_reinit_thread(): its operations in program order -/",
        "def threadProg : List ROp := %s" % lst(x["prog"]), "",
        "/-- ares_reinit(): ares_thread_join()/ares_thread_create() are reached with the channel lock held -/",
        "def joinHoldsLock : Bool := %s" % b(x["joinHoldsLock"]), "",
        "/-- ares_destroy(): ares_thread_join() is reached with the channel lock held -/",
        "def destroyJoinHoldsLock : Bool := %s" % b(x["destroyJoinHoldsLock"]), "",
        "/-- ares_init_by_sysconfig(): its channel lock operations in program order -/",
        "def sysconfigLocks : List ROp := %s" % lst(x["sysconfigLocks"]), "",
        "def cfg : Cfg := { prog := threadProg, joinHoldsLock := joinHoldsLock, destroyJoinHoldsLock := destroyJoinHoldsLock }", "",
        "end Cares.Generated.Reinit", ""])


def gen_reinit(repo=None, out=None, init_c=None):
    repo = repo or (vlib.REPO if vlib else REPO)
    out = out or OUT
    if out is None:
        raise ParseError("no output file given")
    x = extract(repo, init_c)
    new = render(x)
    if not os.path.exists(out) or open(out).read() != new:
        os.makedirs(os.path.dirname(out), exist_ok=True)
        open(out, "w").write(new)
    return {"ReinitProg.lean": "reload thread: [%s]; reinit joins %s the lock; destroy joins %s the lock; sysconfig locks [%s] "
                               "(sha256 of the four bodies %s)"
                               % (", ".join(x["prog"]), "holding" if x["joinHoldsLock"] else "without",
                                  "holding" if x["destroyJoinHoldsLock"] else "without", ", ".join(x["sysconfigLocks"]), x["hash"])}


if __name__ == "__main__":
    import argparse
    ap = argparse.ArgumentParser()
    ap.add_argument("--repo", default=None)
    ap.add_argument("--out", default=None)
    ap.add_argument("--init-c", default=None, help="read ares_reinit_thread()/ares_reinit() from this file instead")
    ap.add_argument("--dry", action="store_true", help="write to /tmp/ReinitProg.lean")
    a = ap.parse_args()
    o = "/tmp/ReinitProg.lean" if a.dry else a.out
    print(gen_reinit(a.repo, o, a.init_c))
    print(open(o or OUT).read())
