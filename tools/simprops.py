"""Direct property monitors over the implementation's event lines (h_sim), shared by the simulator properties.
Each monitor takes (case_ops, impl_out_lines) and returns [(signature, message)]; they evaluate the property
itself on the implementation, independent of the Lean model."""
import re

from simlib import events, parse_ev


def _iter(case, out):
    for op, line in zip(case, out):
        yield op, [parse_ev(e) for e in events(line)], line


def _kv(tok):
    return dict(x.split("=", 1) for x in tok if "=" in x)


def mon_c01(case, out):
    """exactly one callback per accepted request; all completed after cancel / destroy"""
    bad = []
    accepted, done = [], {}
    for op, evs, line in _iter(case, out):
        t = op.split()
        if t[0] == "chan":
            accepted, done = [], {}
        for name, args in evs:
            if name == "ret":          # request accepted by an entry point (ret(tok,status))
                if len(args) == 2:
                    accepted.append(int(args[0]))
            elif name == "cb":
                tok = int(args[0])
                done[tok] = done.get(tok, 0) + 1
                if done[tok] > 1:
                    bad.append(("cb-twice", "token %d called back %d times: %s" % (tok, done[tok], line[:200])))
        if t[0] in ("cancel", "destroy"):
            # every request accepted before this op must have completed by now, with any status
            pending = [a for a in accepted if done.get(a, 0) == 0]
            # requests accepted during this very op (by reactions) may legitimately still be pending after cancel
            started_now = [int(a[0]) for n, a in evs if n == "ret" and len(a) == 2]
            pending = [p for p in pending if p not in started_now or t[0] == "destroy"]
            if pending:
                bad.append(("cb-missing-after-" + t[0], "tokens %s have no callback after %s" % (pending[:5], t[0])))
    return bad


def mon_c10(case, out):
    """socket protocol on the call log: open .. close exactly once, nothing after close, notifications"""
    bad = []
    opened, closed = set(), set()
    interest = {}
    told_nonzero = set()
    udp_count = {}
    udpmax = 0
    for op, evs, line in _iter(case, out):
        t = op.split()
        if t[0] == "chan":
            opened, closed, interest, told_nonzero, udp_count = set(), set(), {}, set(), {}
            m = re.search(r"udpmax=(\d+)", op)
            udpmax = int(m.group(1)) if m else 0
        for name, args in evs:
            if name == "sock":
                opened.add(int(args[0]))
            elif name == "close":
                fd = int(args[0])
                if fd in closed:
                    bad.append(("double-close", "fd %d closed twice" % fd))
                if fd not in opened:
                    bad.append(("close-unopened", "fd %d" % fd))
                if interest.get(fd, (0, 0)) != (0, 0):
                    bad.append(("close-while-watched", "fd %d closed while the application was told to watch it" % fd))
                closed.add(fd)
            elif name in ("conn", "conn!", "send", "send!", "recv!", "opt", "bind", "tx"):
                fd = None
                if name == "tx":
                    m = re.search(r"fd=(\d+)", ",".join(args))
                    fd = int(m.group(1)) if m else None
                    if fd is not None and ",udp," in "," + ",".join(args) + ",":
                        udp_count[fd] = udp_count.get(fd, 0) + 1
                else:
                    try:
                        fd = int(args[0])
                    except ValueError:
                        fd = None
                if fd is not None and fd in closed:
                    bad.append(("use-after-close", "%s on fd %d after close" % (name, fd)))
            elif name == "st":
                fd, r, w = int(args[0]), int(args[1]), int(args[2])
                if fd in closed:
                    bad.append(("notify-after-close", "fd %d" % fd))
                if interest.get(fd) == (r, w):
                    bad.append(("notify-repeat", "fd %d told (%d,%d) twice" % (fd, r, w)))
                if (r, w) == (0, 0) and fd not in told_nonzero:
                    bad.append(("stop-without-start", "fd %d" % fd))
                if (r, w) != (0, 0):
                    told_nonzero.add(fd)
                interest[fd] = (r, w)
        # legacy polling set: every fd reported must be an open socket
        m = re.search(r"fds=\[([^\]]*)\]", line)
        if m and m.group(1):
            for item in m.group(1).split(","):
                fd = int(item.split(":")[0])
                if fd in closed or fd not in opened:
                    bad.append(("getsock-reports-dead-fd", "fd %d" % fd))
        if t[0] == "destroy":
            left = opened - closed
            if left:
                bad.append(("socket-survives-destroy", "fds %s" % sorted(left)[:5]))
    if udpmax:
        for fd, n in udp_count.items():
            if n > udpmax:
                bad.append(("udp-max-exceeded", "fd %d carried %d queries, limit %d" % (fd, n, udpmax)))
    return bad


def mon_c06(case, out):
    """transmissions per request bounded by servers x tries + 5; deadlines within policy"""
    bad = []
    ns, tries, timeout, maxto = 1, 3, 2000, 0
    per_tok_tx = {}
    id2tok = {}
    cur_tok = None
    for op, evs, line in _iter(case, out):
        t = op.split()
        kv = _kv(t)
        if t[0] == "chan":
            ns = len(kv.get("servers", "x").split(","))
            tries = int(kv.get("tries", 3))
            timeout = int(kv.get("timeout", 2000))
            maxto = int(kv.get("maxtimeout", 0))
            per_tok_tx, id2tok = {}, {}
        cur_tok = int(kv["tok"]) if t[0] == "req" and kv.get("kind", "send") == "send" else None
        for name, args in evs:
            if name == "tx":
                a = _kv(args)
                qid = int(a.get("id", -1))
                if cur_tok is not None and qid not in id2tok:
                    id2tok[qid] = cur_tok
                    cur_tok = None
                tok = id2tok.get(qid)
                if tok is not None:
                    per_tok_tx[tok] = per_tok_tx.get(tok, 0) + 1
                    if per_tok_tx[tok] > ns * tries + 5:
                        bad.append(("too-many-transmissions", "token %d transmitted %d times (servers=%d tries=%d)"
                                    % (tok, per_tok_tx[tok], ns, tries)))
            elif name == "cb":
                tok = int(args[0])
                for q, tk in list(id2tok.items()):
                    if tk == tok:
                        del id2tok[q]
        m = re.search(r"dl=\[([^\]]*)\]", line)
        if m and m.group(1) and t[0] not in ("adv",):
            cap = maxto if maxto else None
            for item in m.group(1).split(","):
                rem = int(item.split(":")[1])
                if cap is not None and rem > cap:
                    bad.append(("deadline-above-maximum", "remaining %d ms > maxtimeout %d" % (rem, cap)))
    return bad


def mon_c07(case, out):
    """timeout hint never negative, never later than the earliest deadline or the caller's maximum"""
    bad = []
    for op, evs, line in _iter(case, out):
        m = re.search(r"dl=\[([^\]]*)\]", line)
        dls = [int(x.split(":")[1]) for x in m.group(1).split(",")] if m and m.group(1) else []
        mt = re.search(r"(?:^| )to=(-?\d+|-)", line)
        if mt:
            v = mt.group(1)
            if v == "-":
                if dls:
                    bad.append(("hint-missing", "no timeout hint although %d deadlines are pending" % len(dls)))
            else:
                v = int(v)
                if v < 0:
                    bad.append(("hint-negative", str(v)))
                if dls and v > max(min(dls), 0):
                    bad.append(("hint-later-than-deadline", "hint %d, earliest deadline %d" % (v, min(dls))))
        mq = re.search(r"timeout=(-?\d+|-)", line)
        t = op.split()
        if mq and t[0] == "timeoutq":
            kv = _kv(t)
            v = mq.group(1)
            if v != "-":
                v = int(v)
                if "maxtv" in kv and v > int(kv["maxtv"]):
                    bad.append(("hint-above-caller-maximum", "%d > %s" % (v, kv["maxtv"])))
                if dls and v > max(min(dls), 0):
                    bad.append(("hint-later-than-deadline", "hint %d, earliest %d" % (v, min(dls))))
        if t[0] in ("tick", "proc", "procall") and dls and min(dls) <= 0:
            bad.append(("expired-not-processed", "after processing a deadline of %d ms remains" % min(dls)))
    return bad


def mon_c09(case, out):
    """fresh attempts go to a server with the fewest consecutive failures (first in config order w/o rotation)"""
    bad = []
    servers, fails, rotate = [], {}, False
    fdsrv = {}
    live_ids = set()
    for op, evs, line in _iter(case, out):
        t = op.split()
        kv = _kv(t)
        if t[0] == "chan":
            live_ids = set()
            servers = kv.get("servers", "10.0.0.1").split(",")
            fails = {s: 0 for s in servers}
            rotate = kv.get("rotate", "0") != "0"
            fdsrv = {}
            continue
        first_tx = True
        # the request's own query draws its id first; a probe to a failed server, sent by the same call, draws later
        own_id = next((a[1] for n, a in evs if n == "rnd" and a and a[0] == "2" and a[1] not in live_ids), None)
        for name, args in evs:
            if name == "tx":
                if not first_tx:
                    continue          # later transmissions of the op are probes / reactions
                first_tx = False
                if own_id is not None and _kv(args).get("id") != own_id:
                    continue          # the request itself is still buffered (TCP); this is the probe
            if name == "send!":
                first_tx = False      # the attempt itself (refused by the socket layer); what follows is a probe
            if name == "srv":
                addr = args[0].rsplit(":", 1)[0]
                if args[1] == "up":
                    fails[addr] = 0
                else:
                    fails[addr] = fails.get(addr, 0) + 1
            elif name in ("conn", "conn!"):
                fdsrv[int(args[0])] = args[1].split("#")[0]
            elif name == "tx":
                a = _kv(args)
                fd = int(a.get("fd", -1))
                dst = fdsrv.get(fd)
                if dst is None or dst not in fails:
                    continue
                # a transmission on a brand-new or existing connection is an attempt; the policy must hold for
                # the failure counts *before* this op's later events; we check the weaker, always-valid form:
                best = min(fails.values())
                if fails[dst] > best + 0 and t[0] == "req" and kv.get("kind", "send") == "send" and name == "tx" \
                        and not any(n in ("srv", "react") for n, _ in evs):
                    bad.append(("attempt-not-to-best-server", "sent to %s (failures %d) while the best has %d"
                                % (dst, fails[dst], best)))
                if not rotate and t[0] == "req" and kv.get("kind", "send") == "send" \
                        and not any(n in ("srv", "react", "sock!", "conn!", "send!") for n, _ in evs):
                    first_best = [s for s in servers if fails[s] == best][0]
                    if dst != first_best and fails[dst] == best:
                        bad.append(("attempt-not-first-best", "sent to %s, first best is %s" % (dst, first_best)))
        m = re.search(r"dl=\[([^\]]*)\]", line)
        live_ids = {item.rsplit(":", 1)[0] for item in m.group(1).split(",")} if m and m.group(1) else set()
    return bad + mon_c09_time(case, out)


def mon_c17(case, out):
    """RFC 7873 on the wire of the whole channel: no request over TCP carries a COOKIE option"""
    bad = []
    for op, evs, line in _iter(case, out):
        for name, args in evs:
            if name == "tx" and "tcp" in args and _kv(args).get("ck", "-") != "-":
                bad.append(("cookie-over-tcp", "a request sent over TCP carries a COOKIE option: tx(%s)" % ",".join(args)[:160]))
    return bad


def mon_c09_time(case, out):
    """time-dependent parts of the failover policy, evaluated on the implementation's trace:
    (a) a failed server is probed only after `retrydelay` has passed since its latest failure;
    (b) every query whose deadline has passed when timeouts are processed counts as one failure of the server it was
        last sent to (one server-state notification each)"""
    bad = []
    now, delay = 0, 5000
    fdsrv, idsrv, last_fail = {}, {}, {}
    prev_dl = []
    for op, evs, line in _iter(case, out):
        t = op.split()
        kv = _kv(t)
        if t[0] == "chan":
            now, fdsrv, idsrv, last_fail, prev_dl = 0, {}, {}, {}, []
            delay = int(kv.get("retrydelay", 5000))
            continue
        if t[0] == "adv":
            now += int(kv.get("ms", t[1] if len(t) > 1 and t[1].lstrip("-").isdigit() else 0))
        drawn = [a[1] for n, a in evs if n == "rnd" and len(a) > 1 and a[0] == "2"]
        live = {q for q, _ in prev_dl}
        # the library draws again when an id is taken: the request's own id is the first draw that is free
        own_id = next((d for d in drawn if d not in live), None)
        quiet = not any(n in ("cb", "react") for n, _ in evs)
        downs = {}
        idsrv0 = dict(idsrv)     # where each query had last been sent before this op
        for name, args in evs:
            if name in ("conn", "conn!"):
                fdsrv[int(args[0])] = args[1].split("#")[0]
            elif name == "srv":
                addr = args[0].rsplit(":", 1)[0]
                if args[1] == "down":
                    downs[addr] = downs.get(addr, 0) + 1
                    last_fail[addr] = now
                else:
                    last_fail.pop(addr, None)
            elif name == "tx":
                a = _kv(args)
                dst = fdsrv.get(int(a.get("fd", -1)))
                qid = a.get("id")
                if t[0] == "req" and quiet and qid in drawn and qid != own_id and dst in last_fail \
                        and now - last_fail[dst] < delay:
                    bad.append(("probe-before-retry-delay", "server %s failed %d ms ago, retry delay is %d ms, and is probed already"
                                % (dst, now - last_fail[dst], delay)))
                if qid is not None and dst is not None:
                    idsrv[qid] = dst
        if t[0] == "tick":
            # (a query buffered on a TCP connection has no transmission event, so only totals are compared)
            nexp = sum(1 for qid, rem in prev_dl if rem <= 0)
            ndown = sum(downs.values())
            # a socket-layer failure while re-sending ends the other queries of that connection before their own
            # timeouts are looked at: only judge passes without one
            if ndown < nexp and not any(n.endswith("!") for n, _ in evs):
                bad.append(("timeout-not-counted-as-failure", "%d queries had timed out when timeouts were processed, but servers "
                            "were marked failed only %d time(s)" % (nexp, ndown)))
        m = re.search(r"dl=\[([^\]]*)\]", line)
        prev_dl = []
        if m and m.group(1):
            for item in m.group(1).split(","):
                qid, rem = item.rsplit(":", 1)
                prev_dl.append((qid, int(rem)))
    return bad


def mon_c05(case, out):
    """a callback's data must come from a reply that matched: the marker in the answer identifies the reply"""
    bad = []
    txinfo = []      # per tx: dict(id,q,t,c,fd,tcp)
    replies = {}     # marker(tx number) -> list of forged flags of replies built for it
    dns0x20 = False
    now = 0
    good_marks = {}   # marker -> True for replies that carried a well-formed server cookie to a cookie-bearing UDP request
    good_at = None    # virtual time at which such a reply was last delivered (single-server cookie scenarios only)
    nservers = 1
    reply_tx = {}     # marker -> transmissions (dict) the replies carrying it were addressed to
    eagain_seen = False
    weak_before_good = False
    for op, evs, line in _iter(case, out):
        t = op.split()
        kv = _kv(t)
        if t[0] == "chan":
            txinfo, replies, reply_tx = [], {}, {}
            eagain_seen = False
            dns0x20 = bool(int(kv.get("flags", "0")) & 1024)
            now, good_marks, good_at = 0, {}, None
            weak_before_good = False
            nservers = len(kv.get("servers", "x").split(","))
            continue
        if t[0] == "adv":
            now += int(kv.get("ms", t[1] if len(t) > 1 and t[1].isdigit() else 0))
        ntx_before = len(txinfo)
        for name, args in evs:
            if name == "send!" and len(args) > 1 and args[1] == "11":
                eagain_seen = True
            if name == "tx":
                d = _kv(args)
                d["_tcp"] = "tcp" in args
                txinfo.append(d)
        if t[0] == "reply":
            k = int(kv.get("tx", "0"))
            k = k if k >= 0 else len(txinfo) + k
            forged = any(x in kv for x in ("idadd", "qtadd", "qcadd")) or kv.get("qname") == "other" \
                or (kv.get("src") == "other" and 0 <= k < len(txinfo) and not txinfo[k]["_tcp"]) or (kv.get("qname") == "flipcase" and dns0x20 and 0 <= k < len(txinfo) and not txinfo[k]["_tcp"])
            # remember which transmission the reply answers: when it is delivered, the query must (still or again) be
            # assigned to that connection
            if 0 <= k < len(txinfo) and "on" not in kv and kv.get("kind", "noerror") == "noerror" and not forged:
                reply_tx.setdefault(int(kv.get("mark", k)), []).append(txinfo[k])
            ck = kv.get("cookie", "")
            withck = 0 <= k < len(txinfo) and not txinfo[k]["_tcp"] and txinfo[k].get("ck", "-") != "-"
            # (several replies can carry the same marker: the marker counts as "good" only if every one of them is)
            isgood = bool(withck and not forged and ck.startswith("new:") and 16 <= len(ck) - 4 <= 64 and (len(ck) - 4) % 2 == 0)
            mk = int(kv.get("mark", k))
            good_marks[mk] = good_marks.get(mk, True) and isgood
            # RFC 7873 / ares_cookie_validate: once the server has shown a server cookie, a response to a cookie-bearing
            # UDP request that lacks one is dropped for 120 s (then support is considered withdrawn)
            if withck and nservers == 1 and ck in ("none", "clientonly") and good_at is not None and now - good_at < 120000:
                forged = True
            # a response without a server cookie that is accepted before support was shown moves the server to
            # "cookies unsupported" (ares_cookie_validate, state GENERATED -> UNSUPPORTED); server cookies seen after that
            # do not establish support again, so the drop rule above no longer applies: once such a response was issued
            # (delivered or not, with or without answer records) the rule is switched off for the rest of the case
            if withck and good_at is None and (ck in ("none", "clientonly") or
                                               (ck in ("", "echo") and len(txinfo[k].get("ck", "")) <= 16)):
                weak_before_good = True
            if kv.get("kind", "noerror") == "noerror" and int(kv.get("an", "1")) > 0:
                mark = int(kv.get("mark", k))
                replies.setdefault(mark, []).append(forged)
        seen_tx = ntx_before
        for e in events(line):
            if e.startswith("tx("):
                seen_tx += 1
            m = re.match(r"cb\((\d+),ok,to=\d+,rc=0,an=\d+,10\.(\d+)\.(\d+)\.\d+/", e)
            if m:
                mark = int(m.group(2)) * 256 + int(m.group(3))
                if good_marks.get(mark) and not weak_before_good:
                    good_at = now
                # assigned connection: every reply carrying this marker was addressed to a transmission that, at the
                # moment of delivery, is not the query's latest one and used another connection
                rts = reply_tx.get(mark)
                # a datagram that the socket layer refused with EAGAIN stays buffered on its connection and goes out later,
                # even after the query has moved on: from then on transmission order no longer tells the assignment
                if rts and not eagain_seen:
                    def superseded(a):
                        same = [b for b in txinfo[:seen_tx] if b.get("id") == a.get("id") and b.get("q") == a.get("q") and b.get("t") == a.get("t")]
                        return bool(same) and same[-1].get("fd") != a.get("fd")
                    if all(superseded(a) for a in rts):
                        bad.append(("reply-on-unassigned-connection", "callback %s got data from reply marker %d, which arrived on connection %s "
                                    "while the query was assigned to another: %s" % (m.group(1), mark, rts[0].get("fd"), e[:120])))
                fl = replies.get(mark)
                if fl is not None and fl and all(fl):
                    bad.append(("forged-reply-delivered", "callback %s got data from reply marker %d, which was forged: %s"
                                % (m.group(1), mark, e[:120])))
    return bad


def mon_c20(case, out):
    """the segmented and the unsegmented half of a paired TCP scenario deliver the same callbacks and
    the virtual server sees the same messages"""
    bad = []
    halves = []
    cur = None
    for op, evs, line in _iter(case, out):
        if op.startswith("chan "):
            cur = {"cb": [], "tx": []}
            halves.append(cur)
        if cur is None:
            continue
        for e in events(line):
            if e.startswith("cb("):
                cur["cb"].append(re.sub(r",to=\d+", "", e))
            elif e.startswith("tx("):
                a = _kv(parse_ev(e)[1])
                cur["tx"].append((a.get("q"), a.get("t"), a.get("len")))
    if len(halves) == 2:
        a, b = halves
        if sorted(a["cb"]) != sorted(b["cb"]):
            bad.append(("segmentation-changes-callbacks", "segmented %s vs whole %s" % (a["cb"][:6], b["cb"][:6])))
        if a["tx"] != b["tx"]:
            bad.append(("segmentation-changes-wire-messages", "segmented %s vs whole %s" % (a["tx"][:6], b["tx"][:6])))
    return bad


def _hex(s):
    return s.encode().hex()


def mon_c12(case, out):
    """resolv.conf search semantics evaluated on the implementation: candidate names in order, stop at the first
    data or hard error, final status = no-data if any candidate existed without data, else the last status."""
    bad = []
    doms, ndots, nosearch = [], 1, False
    cur = None   # dict(tok, kind, cands, sent, outcomes, single)
    pending_outcome = None
    for op, evs, line in _iter(case, out):
        t = op.split()
        kv = _kv(t)
        if t[0] == "chan":
            doms = [d for d in kv.get("domains", "").split(",") if d]
            ndots = int(kv.get("ndots", 1))
            nosearch = bool(int(kv.get("flags", "0")) & 32)
            cur = None
            continue
        if t[0] == "req" and kv.get("kind") in ("search", "gai"):
            name = kv["name"]
            if name.endswith(".") or nosearch:
                cands = [name]
            else:
                nd = name.count(".")
                mid = [name + "." + ("" if d == "." else d) for d in doms]
                cands = ([name] if nd >= ndots else []) + mid + ([name] if nd < ndots else [])
            cur = {"tok": int(kv["tok"]), "kind": kv["kind"], "cands": cands, "sent": [], "outcomes": [], "done": None}
        if t[0] == "reply":
            pending_outcome = kv.get("kind")
        if t[0] == "adv":
            pending_outcome = "timeout"
        if t[0] in ("proc", "tick") and pending_outcome and cur is not None and cur["done"] is None \
                and len(cur["outcomes"]) < len(cur["sent"]):
            cur["outcomes"].append(pending_outcome)
            pending_outcome = None
        for name, args in evs:
            if name == "tx" and cur is not None and cur["done"] is None:
                a = _kv(args)
                q = bytes.fromhex(a.get("q", "")).decode() if a.get("q", "-") != "-" else ""
                # a new candidate is a new query (new id); the same id again is a retransmission
                if cur.get("lastid") != a.get("id"):
                    cur["sent"].append(q)
                    cur["lastid"] = a.get("id")
            elif name == "cb" and cur is not None and int(args[0]) == cur["tok"] and cur["done"] is None:
                cur["done"] = args[1]
                # expectation
                cands = [c[:-1] if c.endswith(".") and len(c) > 1 else c for c in cur["cands"]]
                exp_sent = cur["sent"]
                if [s.lower() for s in cur["sent"]] != [c.lower() for c in cands[:len(cur["sent"])]]:
                    bad.append(("search-candidates-order", "token %d: names sent %s, candidates %s" % (cur["tok"], cur["sent"], cands)))
                # outcomes as scripted: the k-th candidate got cur["outcomes"][k]
                outs_ = cur["outcomes"][:len(cur["sent"])]
                if len(outs_) == len(cur["sent"]) and outs_:
                    def soft(o, cand):
                        return o in ("nodata", "nxdomain") or (o in ("servfail", "refused") and cand.count(".") == 0)
                    stop = None
                    for k, o in enumerate(outs_):
                        # the single-label exemption (issue #852) looks at the candidate as built: "host" + root domain
                        # is "host.", two labels to ares_name_label_cnt
                        if not soft(o, cur["cands"][k]):
                            stop = k
                            break
                    st_map = {"noerror": "ok", "nodata": "nodata", "nxdomain": "notfound", "servfail": "servfail",
                              "refused": "refused", "timeout": "timeout", "formerr": "formerr"}
                    if stop is not None:
                        if stop != len(outs_) - 1:
                            bad.append(("search-did-not-stop", "token %d went on after %s on %r" % (cur["tok"], outs_[stop], cands[stop])))
                        exp = st_map[outs_[stop]]
                    else:
                        if len(outs_) < len(cands):
                            exp = None    # scenario ended early
                        else:
                            exp = "nodata" if "nodata" in outs_ else st_map[outs_[-1]]
                    if exp is not None and cur["done"] != exp:
                        bad.append(("search-final-status", "token %d (%s %r): outcomes %s -> reported %s, expected %s"
                                    % (cur["tok"], cur["kind"], cands, outs_, cur["done"], exp)))
    return bad


def _revname(ip):
    import ipaddress
    return ipaddress.ip_address(ip).reverse_pointer


def _reply_addrs(qt, marker, an):
    import ipaddress
    if qt == 28:
        base = int(ipaddress.ip_address("2001::"))
        return [str(ipaddress.ip_address(base + ((marker & 0xffff) << 8) + i + 1)) for i in range(an)]
    return ["10.%d.%d.%d" % ((marker >> 8) & 255, marker & 255, i + 1) for i in range(an)]


def mon_lookups(case, out):
    """C13 end to end on the front ends the channel model does not cover (the `lookups` stream: no search domains, no
    hosts file, no forged replies).  Reverse lookups (gethostbyaddr, getnameinfo): every PTR question is the RFC
    1035/3596 reverse-map name of the requested address, the name returned is a PTR target of a reply to that
    question and the address returned is the one asked for.  Forward lookups (gethostbyname, getaddrinfo with RFC 6724
    sorting): sub-queries are of the requested family only; the addresses returned are of that family, contain no
    duplicate, and per family are exactly the address set of one scripted reply to a question for that name (or the
    literal / the loopback addresses): none invented, none dropped by sorting."""
    import ipaddress
    bad = []
    reqs, txs, replies = {}, {}, []   # tok -> request; tx index -> (qname, qtype); (tx index, marker, an)
    rev_issued = set()
    ntx = 0

    def canon(a):
        try:
            return str(ipaddress.ip_address(a))
        except ValueError:
            return a

    for op, evs, line in _iter(case, out):
        t = op.split()
        kv = _kv(t)
        cur, own_id = None, None
        if t[0] == "chan":
            reqs, txs, replies, rev_issued, ntx = {}, {}, [], set(), 0
            continue
        if t[0] == "req" and kv.get("kind") in ("ghba", "gni", "ghbn", "gai"):
            cur = {"tok": int(kv["tok"]), "kind": kv["kind"], "name": kv["name"], "fam": int(kv.get("fam", 0))}
            reqs[cur["tok"]] = cur
            if cur["kind"] in ("ghba", "gni"):
                cur["rev"] = _revname(cur["name"])
                rev_issued.add(cur["rev"])
        if t[0] == "reply" and kv.get("kind", "noerror") == "noerror":
            k = int(kv.get("tx", "-1"))
            k = ntx + k if k < 0 else k
            if 0 <= k < ntx:
                replies.append((k, int(kv.get("mark", k)), int(kv.get("an", 1))))
        for name, args in evs:
            if name == "tx":
                a = _kv(args)
                idx = int(args[0])
                ntx = max(ntx, idx + 1)
                q = bytes.fromhex(a["q"]).decode("latin-1") if a.get("q", "-") != "-" else ""
                qt = int(a.get("t", 0))
                txs[idx] = (q.lower(), qt)
                if qt == 12 and q.lower() not in rev_issued:
                    bad.append(("reverse-name", "PTR question %r is not the reverse-map name of any address looked up (%s)"
                                % (q, sorted(rev_issued))))
                # the request's own query is the one carrying the first id drawn during the call (other
                # transmissions in the same call are requeues of older queries after a send failure)
                if cur is not None and own_id is not None and a.get("id") == own_id:
                    if cur["kind"] in ("ghba", "gni"):
                        if qt != 12 or q.lower() != cur["rev"]:
                            bad.append(("reverse-name", "%s(%s) asked type %d %r, reverse-map name is %r"
                                        % (cur["kind"], cur["name"], qt, q, cur["rev"])))
                    elif (cur["fam"] == 2 and qt != 1) or (cur["fam"] == 10 and qt != 28) or qt not in (1, 28):
                        bad.append(("lookup-family", "%s(%s, family %d) asked a type %d question"
                                    % (cur["kind"], cur["name"], cur["fam"], qt)))
            elif name == "rnd" and cur is not None and own_id is None and len(args) == 2 and args[0] == "2":
                own_id = args[1]
            elif name == "cb" and len(args) >= 2 and args[1] == "ok" and args[0].lstrip("-").isdigit() and int(args[0]) in reqs:
                r = reqs[int(args[0])]
                rest = ",".join(args[2:])
                if r["kind"] in ("ghba", "gni"):
                    targets = set()
                    for (k, mk, an) in replies:
                        if txs.get(k) == (r["rev"], 12):
                            targets |= {"host%d-%d.example" % (mk, i + 1) for i in range(an)}
                    if r["kind"] == "ghba":
                        m = re.search(r"host=([^,]*)", rest)
                        parts = [x for x in (m.group(1) if m else "").split(";") if x]
                        got, addrs = (parts[0] if parts else ""), [canon(x) for x in parts[1:]]
                        if addrs != [canon(r["name"])]:
                            bad.append(("reverse-address", "gethostbyaddr(%s) returned addresses %s" % (r["name"], addrs)))
                    else:
                        m = re.search(r"node=([^,]*)", rest)
                        got = m.group(1) if m else ""
                    if got not in targets:
                        bad.append(("reverse-target", "%s(%s) returned %r; PTR targets of the replies to %s: %s"
                                    % (r["kind"], r["name"], got, r["rev"], sorted(targets))))
                else:
                    if r["kind"] == "ghbn":
                        m = re.search(r"host=([^,]*)", rest)
                        parts = [x for x in (m.group(1) if m else "").split(";") if x]
                        addrs = [canon(x) for x in parts[1:]]
                    else:
                        m = re.search(r"ai=([^,]*)", rest)
                        parts = [x for x in (m.group(1) if m else "").split(";") if x and not x.startswith(("name=", "cn="))]
                        addrs = [canon(x.split("/")[0]) for x in parts]
                    if len(set(addrs)) != len(addrs):
                        bad.append(("lookup-duplicate", "%s(%s) returned %s" % (r["kind"], r["name"], addrs)))
                    v4 = {a for a in addrs if ":" not in a}
                    v6 = {a for a in addrs if ":" in a}
                    try:
                        ipaddress.ip_address(r["name"])
                        literal = True     # family restriction of literals: the `literal` stream (known finding F32)
                    except ValueError:
                        literal = False
                    if not literal and ((r["fam"] == 2 and v6) or (r["fam"] == 10 and v4) or (r["kind"] == "ghbn" and v4 and v6)):
                        bad.append(("lookup-family", "%s(%s, family %d) returned %s" % (r["kind"], r["name"], r["fam"], addrs)))
                    nm = r["name"].lower().rstrip(".")
                    for fam_set, qt in ((v4, 1), (v6, 28)):
                        if not fam_set:
                            continue
                        ok = False
                        try:
                            lit = ipaddress.ip_address(r["name"])
                            ok = fam_set == {str(lit)}
                        except ValueError:
                            pass
                        if nm == "localhost" and fam_set == {"127.0.0.1" if qt == 1 else "::1"}:
                            ok = True
                        for (k, mk, an) in replies:
                            if txs.get(k) == (nm, qt) and set(canon(x) for x in _reply_addrs(qt, mk, an)) == fam_set:
                                ok = True
                        if not ok:
                            cands = [sorted(_reply_addrs(qt, mk, an)) for (k, mk, an) in replies if txs.get(k) == (nm, qt)]
                            bad.append(("lookup-addresses", "%s(%s, family %d) returned %s; the replies to its type %d "
                                        "questions carried %s" % (r["kind"], r["name"], r["fam"], sorted(fam_set), qt, cands)))
    return bad
