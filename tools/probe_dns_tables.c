/* Probe linked against the freshly built library objects: enumerates the WHOLE domain of the
 * finite table functions of the DNS record layer and prints them (tools/gen_tables.py turns the
 * output into lean/CaresModel/Generated/DnsTables.lean). */
#include "ares_private.h"
#include <stdio.h>
#include <string.h>

#define TYPE_MAX 65536u /* ARES_REC_TYPE_RAW_RR is the largest enum value */

int main(void)
{
  unsigned int t;
  unsigned int c;
  unsigned int q;

  /* ares_dns_rec_type_isvalid(type, is_query) over 0..65536 x {0,1} */
  for (q = 0; q < 2; q++) {
    printf("rectype_valid_q%u:", q);
    for (t = 0; t <= TYPE_MAX; t++) {
      if (ares_dns_rec_type_isvalid((ares_dns_rec_type_t)t, q ? ARES_TRUE : ARES_FALSE)) {
        if (q == 0) {
          printf(" %u", t);
        }
      } else if (q == 1) {
        printf(" %u", t); /* for queries print the INVALID ones (the valid set is huge) */
      }
    }
    printf("\n");
  }

  printf("allow_name_comp:");
  for (t = 0; t <= TYPE_MAX; t++) {
    if (ares_dns_rec_allow_name_comp((ares_dns_rec_type_t)t)) {
      printf(" %u", t);
    }
  }
  printf("\n");

  printf("opcode_valid:");
  for (t = 0; t <= 65535; t++) {
    if (ares_dns_opcode_isvalid((ares_dns_opcode_t)t)) {
      printf(" %u", t);
    }
  }
  printf("\n");

  printf("rcode_valid:");
  for (t = 0; t <= 65535; t++) {
    if (ares_dns_rcode_isvalid((ares_dns_rcode_t)t)) {
      printf(" %u", t);
    }
  }
  printf("\n");

  /* ares_dns_class_isvalid(qclass, type, is_query): qclass over 0..65535, type over
   * 0..1023, 65535 and 65536 (every enum value of ares_dns_rec_type_t lies in that set),
   * is_query over {0,1}.  Printed per type as the list of valid classes, or "ALL". */
  for (t = 0; t <= TYPE_MAX; t++) {
    if (t >= 1024 && t < 65535) {
      continue;
    }
    for (q = 0; q < 2; q++) {
      unsigned int nvalid = 0;
      for (c = 0; c <= 65535; c++) {
        if (ares_dns_class_isvalid((ares_dns_class_t)c, (ares_dns_rec_type_t)t,
                                   q ? ARES_TRUE : ARES_FALSE)) {
          nvalid++;
        }
      }
      printf("class_valid %u %u:", t, q);
      if (nvalid == 65536) {
        printf(" ALL");
      } else {
        for (c = 0; c <= 65535; c++) {
          if (ares_dns_class_isvalid((ares_dns_class_t)c, (ares_dns_rec_type_t)t,
                                     q ? ARES_TRUE : ARES_FALSE)) {
            printf(" %u", c);
          }
        }
      }
      printf("\n");
    }
  }

  /* key datatype for every possible key value type*100+0..99 */
  printf("key_datatype:");
  for (t = 0; t <= TYPE_MAX * 100u + 99u; t++) {
    int d = (int)ares_dns_rr_key_datatype((ares_dns_rr_key_t)t);
    if (d != 0) {
      printf(" %u=%d", t, d);
    }
  }
  printf("\n");

  for (t = 0; t <= TYPE_MAX; t++) {
    size_t                   cnt  = 0;
    const ares_dns_rr_key_t *keys = ares_dns_rr_get_keys((ares_dns_rec_type_t)t, &cnt);
    if (keys != NULL && cnt > 0) {
      size_t i;
      printf("rr_keys %u:", t);
      for (i = 0; i < cnt; i++) {
        printf(" %u", (unsigned int)keys[i]);
      }
      printf("\n");
    }
  }

  for (t = 0; t <= TYPE_MAX; t++) {
    const char *s = ares_dns_rec_type_tostr((ares_dns_rec_type_t)t);
    if (strcmp(s, "UNKNOWN") != 0) {
      printf("rectype_str %u %s\n", t, s);
    }
  }
  printf("rectype_str_default %s\n", ares_dns_rec_type_tostr((ares_dns_rec_type_t)65000));
  for (t = 0; t <= 65535; t++) {
    const char *s = ares_dns_class_tostr((ares_dns_class_t)t);
    if (strcmp(s, "UNKNOWN") != 0) {
      printf("class_str %u %s\n", t, s);
    }
  }
  printf("class_str_default %s\n", ares_dns_class_tostr((ares_dns_class_t)65000));

  printf("is_hostnamech:");
  for (c = 0; c < 256; c++) {
    if (ares_is_hostnamech(c)) {
      printf(" %u", c);
    }
  }
  printf("\n");
  printf("isprint:");
  for (c = 0; c < 256; c++) {
    if (ares_isprint(c)) {
      printf(" %u", c);
    }
  }
  printf("\n");
  printf("isdigit:");
  for (c = 0; c < 256; c++) {
    if (ares_isdigit(c)) {
      printf(" %u", c);
    }
  }
  printf("\n");
  printf("tolower:");
  for (c = 0; c < 256; c++) {
    unsigned int l = ares_tolower((unsigned char)c);
    if (l != c) {
      printf(" %u=%u", c, l);
    }
  }
  printf("\n");

  /* is_reservedch() is static in ares_dns_name.c: observe it through ares_dns_name_parse on the
   * one-label name [1, c, 0]: output is "c", "\c" (reserved) or "\DDD" (not printable). */
  printf("name_escape:");
  for (c = 0; c < 256; c++) {
    unsigned char msg[3];
    ares_buf_t   *b;
    char         *name = NULL;
    int           kind = -1;
    msg[0] = 1;
    msg[1] = (unsigned char)c;
    msg[2] = 0;
    b = ares_buf_create_const(msg, 3);
    if (ares_dns_name_parse(b, &name, ARES_FALSE) == ARES_SUCCESS && name != NULL) {
      size_t l = strlen(name);
      if (l == 1 && (unsigned char)name[0] == c) {
        kind = 0;
      } else if (l == 2 && name[0] == '\\' && (unsigned char)name[1] == c) {
        kind = 1;
      } else if (l == 4 && name[0] == '\\' && name[1] == '0' + (char)(c / 100) &&
                 name[2] == '0' + (char)((c % 100) / 10) && name[3] == '0' + (char)(c % 10)) {
        kind = 2;
      }
    }
    printf(" %d", kind);
    ares_free(name);
    ares_buf_destroy(b);
  }
  printf("\n");
  return 0;
}
