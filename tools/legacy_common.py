"""Shared by tools/props/C18.py and tools/props/C13.py: reading the h_legacy output, the python reference for
the direct monitors (the property evaluated on the implementation's own outputs: what the legacy call
returned vs what the record getters reported for the same bytes), trace-mode plumbing."""

MAL = {2, 8, 10, 17}   # EFORMERR, EBADNAME, EBADRESP, EBADSTR: "malformed message"
AF_INET, AF_INET6 = 2, 10
T_A, T_NS, T_CNAME, T_SOA, T_PTR, T_MX, T_TXT, T_AAAA, T_SRV, T_NAPTR, T_URI, T_CAA = \
    1, 2, 5, 6, 12, 15, 16, 28, 33, 35, 256, 257


def i32(n):
    n &= 0xFFFFFFFF
    return n - (1 << 32) if n >= (1 << 31) else n


def parse_rec(line):
    """'rec st=N <dump>' -> (st, rec|None); rec = {'q': [name], 'an': [rr]}, rr = {n,t,c,ttl,f{key:str}}"""
    toks = line.split(" ")
    if len(toks) < 3 or toks[0] != "rec" or not toks[1].startswith("st="):
        return None, None
    st = int(toks[1][3:])
    if st != 0:
        return st, None
    rec = {"q": [], "an": []}
    for item in " ".join(toks[2:]).split(" ; "):
        f = item.split(" ")
        if f[0] == "Q":
            rec["q"].append(f[1][2:])
        elif f[0] == "RR":
            kv = dict(x.split("=", 1) for x in f[1:])
            if kv["s"] != "an":
                continue
            rr = {"n": kv["n"], "t": int(kv["t"]), "c": int(kv["c"]), "ttl": int(kv["ttl"]),
                  "f": {int(k): v for k, v in kv.items() if k.isdigit()}}
            rec["an"].append(rr)
    return st, rec


def hlen(h):
    return 0 if h in ("-", "~") else len(h) // 2


def abin(v):
    inner = v[1:-1]
    return inner.split(",") if inner else []


def hostent(name, aliases, fam, length, addrs):
    return "host{name=%s aliases=[%s] fam=%d len=%d addrs=[%s]}" % (name, ",".join(aliases), fam, length, ",".join(addrs))


def of_type(rec, t, classes=(1,)):
    return [rr for rr in rec["an"] if rr["t"] == t and rr["c"] in classes]


def canon_name(rec):
    """the name after following the aliases: target of the last CNAME (class IN), else the question name"""
    cn = of_type(rec, T_CNAME)
    return cn[-1]["f"][501] if cn else (rec["q"][0] if rec["q"] else "~")


def min_ttl(rec, ttl):
    m = i32(ttl)
    for c in of_type(rec, T_CNAME):
        m = min(m, i32(c["ttl"]))
    return m


# pinned-tree behaviours that differ from this reference are *findings*; the functions below return
# (expected_line, alternative_lines) where alternatives = {signature: line} of known deviations
def expected_leg(st, rec, fn, args):
    """reference answer of a legacy call, from the record the getters reported"""
    alts = {}
    if st != 0:
        # a malformed message: any status of the malformed class, no data
        body = {"a": " host=~ nttl=%s ttls=[]", "aaaa": " host=~ nttl=%s ttls=[]", "ns": " host=~", "ptr": " host=~",
                "soa": " soa=~"}.get(fn, " []")
        if fn in ("a", "aaaa"):
            body = body % ("-" if args[1] == "-" else "0")
        return ("%s st=<MAL>%s" % (fn, body)), alts
    an = rec["an"]
    if fn in ("a", "aaaa"):
        fam = AF_INET if fn == "a" else AF_INET6
        t = T_A if fn == "a" else T_AAAA
        key = 101 if fn == "a" else 2801
        want_host = args[0] != "0"
        cap = None if args[1] == "-" else int(args[1])
        addrs = of_type(rec, t)
        cn = of_type(rec, T_CNAME)
        usable = bool(of_type(rec, T_A) or of_type(rec, T_AAAA) or cn)
        if want_host:
            if not addrs and not cn:
                stx, host = 1, "host=~"
            else:
                stx = 0
                host = hostent(canon_name(rec), [c["n"] for c in cn], fam, 4 if fam == AF_INET else 16,
                               [a["f"][key] for a in addrs])
                if len(cn) >= 2 and cn[0]["f"][501] != canon_name(rec):
                    alts["hname-first-cname-target"] = hostent(cn[0]["f"][501], [c["n"] for c in cn], fam,
                                                                4 if fam == AF_INET else 16, [a["f"][key] for a in addrs])
        else:
            stx, host = (0 if usable else 1), "host=~"
        if cap is None:
            tt = " nttl=- ttls=[]"
        else:
            k = addrs[:cap] if usable else []
            tt = " nttl=%d ttls=[%s]" % (len(k), ",".join("%s/%d" % (a["f"][key], min_ttl(rec, a["ttl"])) for a in k))
        line = "%s st=%d %s%s" % (fn, stx, host, tt)
        for s in list(alts):
            alts[s] = "%s st=%d %s%s" % (fn, stx, alts[s], tt)
        return line, alts
    if fn in ("caa", "mx", "naptr", "srv", "uri", "txt", "txtext"):
        if fn == "mx":
            items = ["%s/%s" % (r["f"][1502], r["f"][1501]) for r in of_type(rec, T_MX)]
        elif fn == "srv":
            items = ["%s/%s/%s/%s" % (r["f"][3305], r["f"][3302], r["f"][3303], r["f"][3304]) for r in of_type(rec, T_SRV)]
        elif fn == "naptr":
            items = ["/".join(r["f"][k] for k in (3501, 3502, 3503, 3504, 3505, 3506)) for r in of_type(rec, T_NAPTR)]
        elif fn == "uri":
            items = ["%s/%s/%s/%d" % (r["f"][25601], r["f"][25602], r["f"][25603], i32(r["ttl"])) for r in of_type(rec, T_URI)]
        elif fn == "caa":
            # observation: class CHAOS is accepted as well ("XXX: Why do we allow Chaos class?")
            items = ["%s/%s/%d/%s/%d" % (r["f"][25701], r["f"][25702], hlen(r["f"][25702]), r["f"][25703], hlen(r["f"][25703]))
                     for r in of_type(rec, T_CAA, (1, 3))]
        else:
            items = []
            for r in of_type(rec, T_TXT, (1, 3)):
                for j, ch in enumerate(abin(r["f"][1601])):
                    items.append("%s/%d/%d" % (ch, hlen(ch), 1 if (fn == "txtext" and j == 0) else 0))
        stx = 1 if not an else 0
        return "%s st=%d [%s]" % (fn, stx, ";".join(items)), alts
    if fn == "soa":
        s = of_type(rec, T_SOA)
        if s:
            f = s[0]["f"]
            return "soa st=0 soa=" + "/".join(f[k] for k in (601, 602, 603, 604, 605, 606, 607)), alts
        alts["soa-nodata-is-ebadresp"] = "soa st=10 soa=~"
        return "soa st=1 soa=~", alts
    if fn == "ns":
        ns = of_type(rec, T_NS)
        if not ns:
            return "ns st=1 host=~", alts
        return "ns st=0 " + hostent(rec["q"][0], [r["f"][201] for r in ns], AF_INET, 4, []), alts
    if fn == "ptr":
        p = of_type(rec, T_PTR)
        if not p:
            return "ptr st=1 host=~", alts
        addr = args[0]
        alen = hlen(addr)
        return "ptr st=0 " + hostent(p[-1]["f"][1201], [r["f"][1201] for r in p], int(args[1]), alen,
                                     [addr] if alen > 0 else []), alts
    return None, alts


def matches(expected, actual):
    """expected may contain st=<MAL>"""
    if "st=<MAL>" in expected:
        pre, post = expected.split("st=<MAL>")
        if not (actual.startswith(pre) and actual.endswith(post)):
            return False
        mid = actual[len(pre):len(actual) - len(post)] if post else actual[len(pre):]
        return mid.startswith("st=") and mid[3:].isdigit() and int(mid[3:]) in MAL
    return expected == actual


def strip_mon(lines):
    return [l for l in lines if not l.startswith("!MON ")]


def compare_skip_mon(impl, model):
    a = strip_mon(impl)
    b = strip_mon(model)
    n = max(len(a), len(b))
    for i in range(n):
        x = a[i] if i < len(a) else "<missing>"
        y = b[i] if i < len(b) else "<missing>"
        if x != y:
            if y.startswith("ambiguous "):
                continue
            # report the index in the unfiltered implementation output
            k = -1
            for j, l in enumerate(impl):
                if not l.startswith("!MON "):
                    k += 1
                    if k == i:
                        return j
            return i
    return None


def driver_input(case, out):
    """trace mode: the Lean driver receives the record dump printed by the implementation instead of the
    message bytes, and the inet_pton answers observed for `aifake`"""
    o = strip_mon(out)
    res = []
    for i, l in enumerate(case):
        t = l.split(" ")
        if t[0] == "msg":
            res.append(o[i] if i < len(o) and o[i].startswith("rec ") else "rec st=999 -")
        elif t[0] == "aifake":
            p4, p6 = "~", "~"
            if i < len(o) and o[i].startswith("p4="):
                f = o[i].split(" ")
                p4, p6 = f[0][3:], f[1][3:]
            res.append(l + " " + p4 + " " + p6)
        else:
            res.append(l)
    return res
