#!/usr/bin/env python3
"""dev helper: run a replay file through h_sim and driver_sim and print both event lines per op.
usage: tools/simside.py <replay> [only-diff]"""
import subprocess
import sys
import os
sys.path.insert(0, os.path.dirname(os.path.abspath(__file__)))
import simlib

case = [l.rstrip("\n") for l in open(sys.argv[1]) if not l.startswith("#") and not l.startswith("case ") and l.strip()]
out = subprocess.run(['/verif/.build/bin-asan/h_sim'], input="case 0\n" + "\n".join(case) + "\n", capture_output=True, text=True)
o = out.stdout.split("\n")[1:]
din = simlib.driver_input(case, o)
m = subprocess.run(['/verif/lean/.lake/build/bin/driver_sim'], input="case 0\n" + "\n".join(din) + "\n", capture_output=True, text=True).stdout.split("\n")[1:]
for i, c in enumerate(case):
    a = o[i] if i < len(o) else "<none>"
    b = m[i] if i < len(m) else "<none>"
    same = simlib.compare([a], [b]) is None
    if len(sys.argv) > 2 and same:
        print("OP  ", c)
        continue
    print("OP  ", c)
    print(" IMPL", a)
    print(" MODL" + ("=" if same else "!"), b)
if out.returncode:
    print(out.stderr[-3000:])
