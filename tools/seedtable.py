#!/usr/bin/env python3
"""Print the DESIGN §0.3 table from seeded/*/{meta,detection}.json."""
import glob
import json
import os

VERIF = os.path.dirname(os.path.dirname(os.path.abspath(__file__)))
print("| seed | change (file: what) | needs | caught by (quick tier) | how reported |")
print("|---|---|---|---|---|")
for d in sorted(glob.glob(os.path.join(VERIF, "seeded", "*"))):
    name = os.path.basename(d)
    try:
        m = json.load(open(os.path.join(d, "meta.json")))
    except Exception:
        continue
    det = json.load(open(os.path.join(d, "detection.json"))) if os.path.exists(os.path.join(d, "detection.json")) else {}
    summ = " ".join(str(m.get("summary", "")).split())[:230]
    needs = " ".join(str(m.get("needs", "")).split())[:160]
    caught = [c for c, r in det.items() if r.get("exit") == 1 and r.get("violations")]
    missed = [c for c, r in det.items() if not (r.get("exit") == 1 and r.get("violations"))]
    how = []
    for c in caught:
        v = det[c]["violations"]
        withinput = [x for x in v if "no-failing-input-found" not in x]
        how.append("%s: %s" % (c, "failing input replayed" if withinput else "proof/correspondence broken, no failing input found"))
    print("| %s | %s | %s | %s%s | %s |" % (name, summ.replace("|", "/"), needs.replace("|", "/"), ", ".join(caught) or "—",
                                        (" (missed by " + ", ".join(missed) + ")") if missed else "", "; ".join(how)))
