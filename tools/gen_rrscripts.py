#!/usr/bin/env python3
"""Regenerate lean/CaresModel/Generated/RRScripts.lean from the clang AST of
src/lib/record/ares_dns_write.c and ares_dns_parse.c (DESIGN.md section 3.2).

For every `ares_dns_write_rr_<type>` / `ares_dns_parse_rr_<type>` body the calls to the field helpers are
collected in source order and turned into `(FieldKind, key)` pairs.  Anything unexpected (an unknown
helper, a key that is not an enum constant, a type function that disappeared) raises ExtractionError:
the runner then keeps the committed copy and says so in the evidence.
"""
import hashlib
import json
import os
import re
import subprocess
import sys

sys.path.insert(0, os.path.dirname(os.path.abspath(__file__)))
import vlib

OUT = os.path.join(vlib.LEAN, "CaresModel", "Generated", "RRScripts.lean")
WRITE_C = "src/lib/record/ares_dns_write.c"
PARSE_C = "src/lib/record/ares_dns_parse.c"
HDR = "include/ares_dns_record.h"

TYPES = ["a", "ns", "cname", "soa", "ptr", "hinfo", "mx", "txt", "sig", "aaaa", "srv", "naptr", "opt", "tlsa",
         "svcb", "https", "uri", "caa", "raw_rr"]
HAND = {"opt", "raw_rr"}


class ExtractionError(Exception):
    pass


def clang_docs(cfile, flt):
    cmd = ["clang-14", "-fsyntax-only", "-w", "-DHAVE_CONFIG_H", "-DCARES_BUILDING_LIBRARY", "-DCARES_STATICLIB"] + \
          vlib.includes() + ["-Xclang", "-ast-dump=json", "-Xclang", "-ast-dump-filter=" + flt,
                             os.path.join(vlib.REPO, cfile)]
    r = subprocess.run(cmd, stdout=subprocess.PIPE, stderr=subprocess.PIPE, text=True)
    if r.returncode != 0 and not r.stdout.strip():
        raise ExtractionError("clang failed on %s: %s" % (cfile, r.stderr[-500:]))
    dec = json.JSONDecoder()
    s, i, docs = r.stdout, 0, []
    while True:
        while i < len(s) and s[i] in " \n\r\t":
            i += 1
        if i >= len(s):
            break
        d, i = dec.raw_decode(s, i)
        docs.append(d)
    return docs


def find_ref(x):
    if x.get("kind") == "DeclRefExpr":
        rd = x.get("referencedDecl", {})
        return rd.get("name"), rd.get("kind")
    for c in x.get("inner", []):
        r = find_ref(c)
        if r:
            return r
    return None


def calls_in(node, out, in_loop=False):
    k = node.get("kind")
    if k == "CallExpr":
        inner = node.get("inner", [])
        callee = find_ref(inner[0]) if inner else None
        args = [find_ref(a) for a in inner[1:]]
        out.append((callee[0] if callee else None, args, in_loop))
    for c in node.get("inner", []):
        calls_in(c, out, in_loop or k in ("ForStmt", "WhileStmt", "DoStmt"))


def enum_values(header_text, prefix, known=None):
    """numeric values of the enum constants `prefix*` of include/ares_dns_record.h (they are written as
    literals or as (ARES_REC_TYPE_X * 100) + n)."""
    vals = {}
    known = known or {}
    for m in re.finditer(r"\b(" + prefix + r"\w+)\s*=\s*([^,/\n}]+)", header_text):
        name, expr = m.group(1), m.group(2).strip()
        expr2 = re.sub(r"\bARES_REC_TYPE_\w+", lambda mm: str(vals.get(mm.group(0), known.get(mm.group(0), "X"))), expr)
        expr2 = expr2.replace("<<", " << ")
        if not re.fullmatch(r"[0-9x()+*<\s]+", expr2):
            continue
        vals[name] = int(eval(expr2))
    return vals


def lean_bool(name):
    if name == "ARES_TRUE":
        return "true"
    if name == "ARES_FALSE":
        return "false"
    raise ExtractionError("boolean argument is not a constant: %r" % (name,))


def key_of(args, keys):
    ks = [a[0] for a in args if a and a[1] == "EnumConstantDecl" and a[0] in keys]
    if len(ks) != 1:
        raise ExtractionError("call without exactly one ARES_RR_* key argument: %r" % (args,))
    return keys[ks[0]]


def bools_of(args):
    return [a[0] for a in args if a and a[1] == "EnumConstantDecl" and a[0] in ("ARES_TRUE", "ARES_FALSE")]


# helper -> kind ; None = ignored (buffer plumbing)
IGNORE = re.compile(r"^(ares_buf_\w+|ares_strlen|ares_free|ares_dns_rr_get_opt_cnt|ares_dns_rr_remaining_len|"
                    r"ares_str_isprint|ares_dns_rr_get_abin_cnt|ares_dns_rr_get_abin|ares_dns_write_binstr|memcpy|memset)$")


def write_script(calls, keys, fname):
    sc = []
    for callee, args, in_loop in calls:
        if callee is None or IGNORE.match(callee):
            continue
        if callee in ("ares_dns_write_rr_be16", "ares_dns_write_rr_be32", "ares_dns_write_rr_u8"):
            sc.append((callee.rsplit("_", 1)[1], key_of(args, keys)))
        elif callee == "ares_dns_write_rr_name":
            b = bools_of(args)
            if len(b) != 1:
                raise ExtractionError("%s: write_rr_name without a constant validate flag" % fname)
            sc.append(("name %s" % lean_bool(b[0]), key_of(args, keys)))
        elif callee == "ares_dns_write_rr_str":
            sc.append(("str true", key_of(args, keys)))
        elif callee == "ares_dns_write_rr_abin":
            sc.append(("abin false", key_of(args, keys)))
        elif callee == "ares_dns_rr_get_addr":
            sc.append(("addr4", key_of(args, keys)))
        elif callee == "ares_dns_rr_get_addr6":
            sc.append(("addr6", key_of(args, keys)))
        elif callee == "ares_dns_rr_get_bin":
            sc.append(("binRest", key_of(args, keys)))
        elif callee == "ares_dns_rr_get_str":
            sc.append(("strRest", key_of(args, keys)))
        elif callee == "ares_dns_rr_get_opt":
            if not in_loop:
                raise ExtractionError("%s: option getter outside a loop" % fname)
            sc.append(("opts", key_of(args, keys)))
        else:
            raise ExtractionError("%s: unrecognised helper %s" % (fname, callee))
    return sc


def parse_script(calls, keys, fname):
    sc = []
    for callee, args, in_loop in calls:
        if callee is None or IGNORE.match(callee):
            continue
        if callee in ("ares_dns_parse_and_set_be16", "ares_dns_parse_and_set_be32", "ares_dns_parse_and_set_u8"):
            sc.append((callee.rsplit("_", 1)[1], key_of(args, keys)))
        elif callee == "ares_dns_parse_and_set_dns_name":
            b = bools_of(args)
            if len(b) != 1:
                raise ExtractionError("%s: parse name without a constant is_hostname flag" % fname)
            sc.append(("name %s" % lean_bool(b[0]), key_of(args, keys)))
        elif callee == "ares_dns_parse_and_set_dns_str":
            b = bools_of(args)
            if len(b) != 1:
                raise ExtractionError("%s: parse str without a constant blank_allowed flag" % fname)
            sc.append(("str %s" % lean_bool(b[0]), key_of(args, keys)))
        elif callee == "ares_dns_parse_and_set_dns_abin":
            b = bools_of(args)
            if len(b) != 1:
                raise ExtractionError("%s: parse abin without a constant validate flag" % fname)
            sc.append(("abin %s" % lean_bool(b[0]), key_of(args, keys)))
        elif callee == "ares_dns_rr_set_addr":
            sc.append(("addr4", key_of(args, keys)))
        elif callee == "ares_dns_rr_set_addr6":
            sc.append(("addr6", key_of(args, keys)))
        elif callee == "ares_dns_rr_set_bin_own":
            sc.append(("binRest", key_of(args, keys)))
        elif callee == "ares_dns_rr_set_str_own":
            sc.append(("strRest", key_of(args, keys)))
        elif callee == "ares_dns_rr_set_opt_own":
            if not in_loop:
                raise ExtractionError("%s: option setter outside a loop" % fname)
            sc.append(("opts", key_of(args, keys)))
        else:
            raise ExtractionError("%s: unrecognised helper %s" % (fname, callee))
    return sc


def lean_script(sc):
    return "[" + ", ".join("(.%s, %d)" % (k, key) if " " not in k else "(.%s, %d)" % (k, key) for k, key in sc) + "]"


def generate():
    hdr = open(os.path.join(vlib.REPO, HDR)).read()
    types = enum_values(hdr, "ARES_REC_TYPE_")
    keys = enum_values(hdr, "ARES_RR_", types)
    if len(keys) < 50 or "ARES_REC_TYPE_RAW_RR" not in types:
        raise ExtractionError("could not evaluate the key/type enums of %s" % HDR)
    res = {}
    for side, cfile, flt, mk in (("write", WRITE_C, "ares_dns_write_rr_", write_script),
                                 ("parse", PARSE_C, "ares_dns_parse_rr_", parse_script)):
        docs = {d.get("name"): d for d in clang_docs(cfile, flt)
                if d.get("kind") == "FunctionDecl" and any(c.get("kind") == "CompoundStmt" for c in d.get("inner", []))}
        table, hand = [], []
        for t in TYPES:
            fname = flt + t
            if fname not in docs:
                raise ExtractionError("function %s not found in %s" % (fname, cfile))
            calls = []
            calls_in(docs[fname], calls)
            tnum = types["ARES_REC_TYPE_" + t.upper()]
            if t in HAND:
                hand.append((tnum, [c for c, _, _ in calls if c]))
            else:
                table.append((tnum, mk(calls, keys, fname)))
        res[side] = (table, hand)
    prov = vlib.source_hashes([WRITE_C, PARSE_C, HDR])
    L = []
    L.append("import CaresModel.Dns.Script")
    L.append("/-! GENERATED by tools/gen_rrscripts.py from the clang AST -- do not edit.")
    for f, h in sorted(prov.items()):
        L.append("    %s sha256/16 %s" % (f, h))
    L.append("-/")
    L.append("namespace Cares.Generated")
    L.append("open Cares.Dns")
    for side in ("write", "parse"):
        table, hand = res[side]
        L.append("")
        L.append("/-- `ares_dns_%s_rr_<type>`: field helper calls in source order, keyed by `ares_dns_rec_type_t` -/" % side)
        L.append("def %sScript : List (Nat × Script) := [" % side)
        L.append(",\n".join("  (%d, %s)" % (t, lean_script(sc)) for t, sc in table))
        L.append("]")
        L.append("")
        L.append("/-- hand-modelled types (they rewrite the fixed RR header): every call made by the body, in order -/")
        L.append("def %sHandCalls : List (Nat × List String) := [" % side)
        L.append(",\n".join("  (%d, [%s])" % (t, ", ".join('"%s"' % c for c in cs)) for t, cs in hand))
        L.append("]")
    L.append("")
    L.append("end Cares.Generated")
    text = "\n".join(L) + "\n"
    os.makedirs(os.path.dirname(OUT), exist_ok=True)
    old = open(OUT).read() if os.path.exists(OUT) else None
    if old != text:
        tmp = OUT + ".tmp%d" % os.getpid()
        open(tmp, "w").write(text)
        os.replace(tmp, OUT)
    return {"Generated/RRScripts.lean": {"sources": prov, "changed": old != text,
                                        "sha": hashlib.sha256(text.encode()).hexdigest()[:16]}}


if __name__ == "__main__":
    print(json.dumps(generate(), indent=1))
