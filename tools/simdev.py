#!/usr/bin/env python3
"""dev helper: run N generated simulator cases through harness+driver, show the first disagreements"""
import os, random, sys
sys.path.insert(0, os.path.dirname(os.path.abspath(__file__)))
import vlib, runner, simlib

def main():
    n = int(sys.argv[1]) if len(sys.argv) > 1 else 50
    seed = int(sys.argv[2]) if len(sys.argv) > 2 else 1
    prof = eval(sys.argv[3]) if len(sys.argv) > 3 else {}
    maxops = int(sys.argv[4]) if len(sys.argv) > 4 else 25
    show = int(os.environ.get("SHOW", "2"))
    hbin, _ = vlib.build_harness("h_sim")
    rng = random.Random(seed)
    cases = [simlib.gen_case(rng, prof, maxops) for _ in range(n)]
    st = simlib.sim_stream("dev", prof, None)
    wd = os.path.join(vlib.BUILD, "work", "dev"); os.makedirs(wd, exist_ok=True)
    outs, crashes = runner.run_impl(st, hbin, cases, wd, "dev")
    for ci, rc, err, part in crashes[:show]:
        print("CRASH case", ci, "rc", rc, runner.sanitizer_sig(err)); print(runner.sanitizer_excerpt(err)); print("\n".join(cases[ci])); print("-- partial out"); print("\n".join(part[-6:]))
    mods = runner.run_model(st, cases, outs, wd, "dev")
    bad = 0
    for i, c in enumerate(cases):
        if outs[i] is None: continue
        d = simlib.compare(outs[i], mods[i])
        mon = simlib.mon_common(c, outs[i])
        if mon and bad < show:
            print("MON case", i, mon[:3])
        if d is not None:
            bad += 1
            if bad <= show:
                print("=== DISAGREE case", i, "op", d)
                for j in range(max(0, d - 6), d + 1):
                    print("  op  :", c[j]); 
                    if j < len(outs[i]): print("  impl:", simlib.strip_obs(outs[i][j]))
                    if j == d and j < len(mods[i]): print("  mod :", mods[i][j])
                print("  chan:", c[0])
    print("cases", n, "crashes", len(crashes), "disagree", bad)
main()
