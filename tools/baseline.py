#!/usr/bin/env python3
"""Guard-off baseline: rebuild /repo/_build (ordinary build, hooks guard never defined), run the suite, and
compare against the stable_pass list of /root/.vp/BASELINE.json. Exit 0 iff every stable test still passes."""
import json
import os
import subprocess
import sys
import xml.etree.ElementTree as ET

OUT = os.path.join(os.path.dirname(os.path.dirname(os.path.abspath(__file__))), ".build", "baseline")


def main():
    os.makedirs(OUT, exist_ok=True)
    r = subprocess.run(["cmake", "--build", "/repo/_build"], stdout=subprocess.PIPE, stderr=subprocess.STDOUT, text=True)
    if r.returncode != 0:
        print(r.stdout[-3000:])
        print("BASELINE: build failed")
        return 1
    junit = os.path.join(OUT, "ctest.xml")
    subprocess.run(["ctest", "--test-dir", "/repo/_build", "-j8", "--timeout", "900", "--output-junit", junit],
                   stdout=subprocess.PIPE, stderr=subprocess.STDOUT, text=True)
    gx = os.path.join(OUT, "gtest.xml")
    subprocess.run(["/repo/_build/bin/arestest", "--gtest_output=xml:" + gx], stdout=subprocess.PIPE,
                   stderr=subprocess.STDOUT, text=True, cwd="/repo/_build/test")
    passed = set()
    for tc in ET.parse(gx).getroot().iter("testcase"):
        name = "%s::%s" % (tc.get("classname"), tc.get("name"))
        if tc.find("failure") is None and tc.find("error") is None and tc.get("status", "run") == "run":
            passed.add(name)
    for tc in ET.parse(junit).getroot().iter("testcase"):
        if tc.get("status") == "run" and tc.find("failure") is None:
            passed.add("%s::%s" % (tc.get("name"), tc.get("name")))
    base = json.load(open("/root/.vp/BASELINE.json"))["stable_pass"]
    missing = [t for t in base if t not in passed]
    print("BASELINE: %d/%d stable tests pass" % (len(base) - len(missing), len(base)))
    for t in missing[:40]:
        print("  NOT PASSING:", t)
    return 1 if missing else 0


if __name__ == "__main__":
    sys.exit(main())
