#!/usr/bin/env python3
"""dev helper: run every registered check at a range of seeds on the unchanged tree and log anything that is not clean.
usage: tools/soak.py <first-seed> <last-seed> [tier] [ids...]"""
import os
import subprocess
import sys
import time

VERIF = os.path.dirname(os.path.dirname(os.path.abspath(__file__)))
a, b = int(sys.argv[1]), int(sys.argv[2])
tier = sys.argv[3] if len(sys.argv) > 3 else "quick"
ids = sys.argv[4:] or open(os.path.join(VERIF, "tools", "props", "READY")).read().split()
for seed in range(a, b + 1):
    for c in ids:
        env = dict(os.environ, VERIF_SEED=str(seed))
        t0 = time.time()
        r = subprocess.run([os.path.join(VERIF, "check"), c, "--tier", tier], cwd=VERIF, env=env, stdout=subprocess.PIPE,
                           stderr=subprocess.STDOUT, text=True)
        lines = [l for l in r.stdout.split("\n") if l.startswith("VIOLATION") or l.startswith("  ") or l.startswith("ERROR")]
        tail = [l for l in r.stdout.split("\n") if (" %s:" % tier) in l]
        print("seed=%d %s rc=%d %.0fs %s" % (seed, c, r.returncode, time.time() - t0, tail[-1] if tail else ""), flush=True)
        for l in lines[:8]:
            print("    " + l[:400], flush=True)
        if r.returncode != 0:
            d = os.path.join(VERIF, ".build", "soak-fail")
            os.makedirs(d, exist_ok=True)
            for f in os.listdir(os.path.join(VERIF, "out", c)):
                if f.startswith("replay_%s_" % tier):
                    subprocess.run(["cp", os.path.join(VERIF, "out", c, f), os.path.join(d, "%s-seed%d-%s" % (c, seed, f))])
