"""Translator for ares_timeval_remaining() (C07): the time left until a deadline, as ares_timeout(), the event thread
and ares_queue_wait_empty() compute it.  The C function in src/lib/ares_timeout.c is parsed statement by statement and
re-emitted as

    Cares.Generated.Timeval.remaining (nowSec nowUsec toutSec toutUsec : Int) : Int × Int      -- (sec, usec)

in lean/CaresModel/Generated/Timeval.lean on every run.  CaresProps/C07c.lean proves over whatever it says, for
normalised inputs (0 <= usec < 1000000): the result is normalised and non-negative, and equals max(0, tout - now).

Statement language: `memset(remaining, 0, sizeof(*remaining));`, `if (c) { return; }`, `remaining->f = e;`,
`remaining->f -= e;`, `remaining->f += e;`, `if (c) { .. } else { .. }`; expressions over + - ( ) integer literals and
the fields `now->sec/usec`, `tout->sec/usec`, `remaining->sec/usec`; conditions over < <= > >= == != && || !.
(The C fields are a signed 64-bit `sec` and an `unsigned int` `usec`; the Lean function is over Int: the theorems are
stated for normalised inputs, for which no intermediate value leaves the range of the C types.)
Anything else is an extraction failure (committed copy kept, reported), not a violation."""
import hashlib
import os
import re

import vlib
from gen_locktable import find_body

OUT = os.path.join(vlib.LEAN, "CaresModel", "Generated", "Timeval.lean")
TOKEN = re.compile(r"\s*(&&|\|\||==|!=|<=|>=|->|\+=|-=|[A-Za-z_]\w*|\d+[uUlL]*|[-+*<>=!(){};,&])")
FIELDS = {"now->sec": "nowSec", "now->usec": "nowUsec", "tout->sec": "toutSec", "tout->usec": "toutUsec",
          "remaining->sec": "r.1", "remaining->usec": "r.2"}


class ParseError(Exception):
    pass


def tokenize(s):
    toks, pos = [], 0
    s = s.strip()
    while pos < len(s):
        m = TOKEN.match(s, pos)
        if not m:
            raise ParseError("unsupported token at %r" % s[pos:pos + 30])
        toks.append(m.group(1))
        pos = m.end()
    return toks


class P:
    def __init__(self, toks):
        self.t, self.i = toks, 0

    def peek(self, k=0):
        return self.t[self.i + k] if self.i + k < len(self.t) else None

    def take(self, want=None):
        x = self.peek()
        if x is None or (want is not None and x != want):
            raise ParseError("expected %r, found %r (token %d)" % (want, x, self.i))
        self.i += 1
        return x

    def field(self):
        a = self.take()
        self.take("->")
        b = self.take()
        name = "%s->%s" % (a, b)
        if name not in FIELDS:
            raise ParseError("unknown field %s" % name)
        return name

    # expressions
    def prim(self):
        x = self.peek()
        if x == "(":
            self.take()
            e = self.expr()
            self.take(")")
            return "(%s)" % e
        if x == "-":
            self.take()
            return "(-%s)" % self.prim()
        if re.match(r"\d", x or ""):
            return re.sub(r"[uUlL]+$", "", self.take())
        if x in ("now", "tout", "remaining"):
            return FIELDS[self.field()]
        raise ParseError("unexpected token %r in an expression" % x)

    def expr(self):
        e = self.prim()
        while self.peek() in ("+", "-"):
            op = self.take()
            e = "%s %s %s" % (e, op, self.prim())
        return e

    # conditions
    def catom(self):
        if self.peek() == "!":
            self.take()
            return "!(%s)" % self.catom()
        if self.peek() == "(":
            # parenthesised condition or parenthesised arithmetic: try condition first
            save = self.i
            try:
                self.take("(")
                c = self.cond()
                self.take(")")
                if self.peek() in ("<", "<=", ">", ">=", "==", "!=", "+", "-"):
                    raise ParseError("arithmetic")
                return "(%s)" % c
            except ParseError:
                self.i = save
        a = self.expr()
        op = self.take()
        if op not in ("<", "<=", ">", ">=", "==", "!="):
            raise ParseError("comparison expected, found %r" % op)
        b = self.expr()
        return "decide (%s %s %s)" % (a, {"==": "=", "!=": "≠", "<=": "≤", ">=": "≥"}.get(op, op), b)

    def cconj(self):
        parts = [self.catom()]
        while self.peek() == "&&":
            self.take()
            parts.append(self.catom())
        return " && ".join(parts)

    def cond(self):
        parts = [self.cconj()]
        while self.peek() == "||":
            self.take()
            parts.append(self.cconj())
        return " || ".join("(%s)" % p for p in parts) if len(parts) > 1 else parts[0]

    # statements: returns a Lean expression of type Int × Int, given the rest of the function as continuation
    def stmts(self, ind, toplevel):
        x = self.peek()
        if x is None or x == "}":
            return ind + "r"
        if x == "memset":
            self.take()
            self.take("(")
            args = []
            depth = 1
            while depth:
                y = self.take()
                depth += y == "("
                depth -= y == ")"
                if depth:
                    args.append(y)
            self.take(";")
            if "".join(args) != "remaining,0,sizeof(*remaining)":
                raise ParseError("unexpected memset(%s)" % "".join(args))
            return "%slet r : Int × Int := (0, 0)\n%s" % (ind, self.stmts(ind, toplevel))
        if x == "if":
            self.take()
            self.take("(")
            c = self.cond()
            self.take(")")
            self.take("{")
            if self.peek() == "return":
                if not toplevel:
                    raise ParseError("return inside a nested block")
                self.take()
                self.take(";")
                self.take("}")
                if self.peek() == "else":
                    raise ParseError("else after an early return")
                return "%sif %s then r else\n%s" % (ind, c, self.stmts(ind, toplevel))
            a = self.stmts(ind + "    ", False)
            self.take("}")
            b = ind + "    r"
            if self.peek() == "else":
                self.take()
                self.take("{")
                b = self.stmts(ind + "    ", False)
                self.take("}")
            return "%slet r : Int × Int :=\n%s  if %s then\n%s\n%s  else\n%s\n%s" % (
                ind, ind, c, a, ind, b, self.stmts(ind, toplevel))
        if x == "return":
            self.take()
            self.take(";")
            if self.peek() not in (None, "}"):
                raise ParseError("statements after return")
            return ind + "r"
        if x == "remaining":
            f = self.field()
            op = self.take()
            if op not in ("=", "-=", "+="):
                raise ParseError("assignment expected, found %r" % op)
            e = self.expr()
            self.take(";")
            cur = FIELDS[f]
            val = e if op == "=" else "%s %s (%s)" % (cur, op[0], e)
            new = "(%s, r.2)" % val if f.endswith("->sec") else "(r.1, %s)" % val
            return "%slet r : Int × Int := %s\n%s" % (ind, new, self.stmts(ind, toplevel))
        raise ParseError("unknown statement starting with %r" % x)


def gen_timeval(path=None):
    path = path or os.path.join(vlib.REPO, "src", "lib", "ares_timeout.c")
    txt = open(path, errors="replace").read()
    txt = re.sub(r"/\*.*?\*/", " ", txt, flags=re.S)
    _, body = find_body("ares_timeval_remaining", [(path, txt)])
    if body is None:
        raise ParseError("ares_timeval_remaining() not found")
    inner = body[body.index("{") + 1:body.rindex("}")] if body.strip().startswith("{") else body
    p = P(tokenize(inner))
    lean = p.stmts("  ", True)
    if p.peek() is not None:
        raise ParseError("trailing tokens from %r" % p.peek())
    csrc = re.sub(r"\s+", " ", inner).strip()
    new = "\n".join([
        "/- GENERATED by tools/gen_timeval.py from /repo/src/lib/ares_timeout.c (ares_timeval_remaining) — do not edit. -/",
        "namespace Cares.Generated.Timeval", "",
        "/-- (sec, usec) left from `now` until `tout`, statement by statement as in the C source -/",
        "def remaining (nowSec nowUsec toutSec toutUsec : Int) : Int × Int :=",
        "  let r : Int × Int := (0, 0)",
        lean, "",
        "end Cares.Generated.Timeval", ""])
    if not os.path.exists(OUT) or open(OUT).read() != new:
        os.makedirs(os.path.dirname(OUT), exist_ok=True)
        open(OUT, "w").write(new)
    return {"Timeval.lean": "ares_timeval_remaining (sha256 %s)" % hashlib.sha256(csrc.encode()).hexdigest()[:12]}


if __name__ == "__main__":
    import sys
    args = [a for a in sys.argv[1:] if not a.startswith("--")]
    if "--dry" in sys.argv:
        OUT = "/tmp/Timeval.lean"
    print(gen_timeval(args[0] if args else None))
    print(open(OUT).read())
