#!/usr/bin/env python3
"""Regenerate /verif/MANIFEST.json from the property modules (tools/props/Cxx.py)."""
import importlib
import json
import os
import subprocess
import sys

HERE = os.path.dirname(os.path.abspath(__file__))
VERIF = os.path.dirname(HERE)
sys.path.insert(0, HERE)

ALL = ["C%02d" % i for i in range(1, 21)]
NOT_BUILT = "check not built yet in this round (design in DESIGN.md section 7); not claimed until its theorem and tie exist"


def main():
    hooks_commit = subprocess.run(["git", "-C", "/repo", "log", "--format=%H", "--grep=verif hooks"],
                                  stdout=subprocess.PIPE, text=True).stdout.split()
    checks, na, engines = [], [], {}
    ready = set(open(os.path.join(HERE, "props", "READY")).read().split())
    for pid in ALL:
        if pid not in ready or not os.path.exists(os.path.join(HERE, "props", pid + ".py")):
            na.append({"property_id": pid, "reason": NOT_BUILT})
            continue
        m = importlib.import_module("props." + pid)
        if getattr(m, "NOT_APPLICABLE", None):
            na.append({"property_id": pid, "reason": m.NOT_APPLICABLE})
            continue
        checks.append({
            "property_id": pid,
            "quick_cmd": "./check %s --tier quick" % pid,
            "thorough_cmd": "./check %s --tier thorough" % pid,
            "evidence_file": "/verif/evidence/%s.json" % pid,
            "replay_cmd_template": "./check %s --replay {path}" % pid,
            "engine": "lean4-proof+correspondence",
            "level_claimed": {"category": "proof", "text": m.LEVEL_TEXT, "design_ref": "DESIGN.md section 7 (%s)" % pid},
            "level_note": m.LEVEL_NOTE,
            "technique": m.TECHNIQUE,
        })
    man = {
        "version": 1,
        "setup_cmd": "./check setup",
        "hooks": {
            "guard": "CARES_VERIF_HOOKS",
            "enable": "-DCARES_VERIF_HOOKS passed by /verif/tools/vlib.py when it compiles /repo/src/lib/**/*.c for the harnesses",
            "baseline_off_cmd": "python3 /verif/tools/baseline.py",
            "source_commits": hooks_commit,
            "add_only": True,
        },
        "engines": [
            {"name": "lean4-proof+correspondence", "path": "/verif/lean + /verif/tools + /verif/harness",
             "serves_properties": [c["property_id"] for c in checks],
             "kind_free_text": "Lean 4 theorems over executable models (lake build + #print axioms audit), models tied to "
                               "/repo by regenerated tables/constants and by differential correspondence harnesses "
                               "(real C code in-process under ASan/UBSan vs compiled Lean driver on the same op lines)"}],
        "checks": checks,
        "not_applicable": na,
        "notes": "See DESIGN.md section 0 (as built). The known-findings file is the directory findings/ (one JSON per finding, committed, never written at run time): open entries print KNOWN-FINDING, fixed entries suppress nothing. Seeded breaking changes and which check catches them: seeded/ and DESIGN.md 0.3.",
    }
    with open(os.path.join(VERIF, "MANIFEST.json"), "w") as f:
        json.dump(man, f, indent=1)
        f.write("\n")
    print("MANIFEST: %d checks, %d not_applicable" % (len(checks), len(na)))


if __name__ == "__main__":
    main()
