#!/usr/bin/env python3
"""Run registered checks against a seeded change: apply seeded/<name>/patch.diff to /repo's working tree, run the given
checks (quick tier), record which raise a VIOLATION, and undo the change again (always).
usage: tools/seedtest.py seeded/<name> C01 [C10 ...]"""
import json
import os
import subprocess
import sys
import time

VERIF = os.path.dirname(os.path.dirname(os.path.abspath(__file__)))


def sh(cmd, **kw):
    return subprocess.run(cmd, stdout=subprocess.PIPE, stderr=subprocess.STDOUT, text=True, **kw)


def main():
    d = os.path.abspath(sys.argv[1])
    checks = sys.argv[2:]
    patch = os.path.join(d, "patch.diff")
    dirty = sh(["git", "-C", "/repo", "status", "--porcelain", "--untracked-files=no"]).stdout.strip()
    if dirty:
        print("refusing: /repo has uncommitted changes:\n" + dirty)
        return 2
    r = sh(["git", "-C", "/repo", "apply", "--check", patch])
    if r.returncode != 0:
        print("patch does not apply:", r.stdout)
        return 2
    sh(["git", "-C", "/repo", "apply", patch])
    results = {}
    try:
        for c in checks:
            t0 = time.time()
            env = dict(os.environ)
            env.setdefault("VERIF_SEED", "1")
            r = sh([os.path.join(VERIF, "check"), c, "--tier", "quick"], cwd=VERIF, env=env)
            viol = [l for l in r.stdout.split("\n") if l.startswith("VIOLATION")]
            results[c] = {"exit": r.returncode, "violations": viol[:6], "wall_s": round(time.time() - t0, 1),
                          "tail": r.stdout.strip().split("\n")[-1][:300]}
            print(c, "exit", r.returncode, "|", "; ".join(viol[:3])[:400])
    finally:
        sh(["git", "-C", "/repo", "checkout", "--", "."])
    out = os.path.join(d, "detection.json")
    prev = json.load(open(out)) if os.path.exists(out) else {}
    prev.update(results)
    json.dump(prev, open(out, "w"), indent=1)
    return 0


if __name__ == "__main__":
    sys.exit(main())
