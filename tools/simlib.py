"""Shared by the properties decided on the channel simulator (h_sim / driver_sim):
scenario generator, trace-mode plumbing, and direct property monitors over the implementation's events."""
import re

from runner import Stream

NAMES = ["www.example.com", "a.example", "mail.example.org", "x.y.z.example.net", "host", "Upper.Example.COM",
         "q1.test", "q2.test", "q3.test", "longer-label-name.sub.domain.example"]
REPLY_KINDS = [("noerror", 30), ("nodata", 5), ("nxdomain", 8), ("servfail", 12), ("refused", 6), ("notimp", 3),
               ("tc", 5), ("garbage", 3), ("empty", 2), ("formerr", 2), ("yxdomain", 1)]


def wchoice(rng, items):
    tot = sum(w for _, w in items)
    x = rng.uniform(0, tot)
    for v, w in items:
        x -= w
        if x <= 0:
            return v
    return items[-1][0]


def gen_chan(rng, p):
    ns = rng.choice(p.get("nservers", [1, 1, 2, 2, 3, 4]))
    servers = ",".join("10.0.0.%d" % (i + 1) for i in range(ns))
    flags = 0
    for bit, prob in p.get("flagprobs", {4: 0.3, 7: 0.15, 2: 0.1, 0: 0.1}).items():
        if rng.random() < prob:
            flags |= 1 << bit
    line = "chan servers=%s flags=%d tries=%d timeout=%d" % (
        servers, flags, rng.choice(p.get("tries", [1, 2, 2, 3, 4])), rng.choice(p.get("timeouts", [300, 1000, 2000, 5000, 7000])))
    if rng.random() < p.get("maxtimeout_prob", 0.3):
        line += " maxtimeout=%d" % rng.choice([500, 1500, 3000, 10000])
    if rng.random() < p.get("rotate_prob", 0.3):
        line += " rotate=1"
    if rng.random() < p.get("udpmax_prob", 0.25):
        line += " udpmax=%d" % rng.choice([1, 2, 3])
    if rng.random() < p.get("cache_prob", 0.3):
        line += " cache=%d" % rng.choice([1, 5, 60, 3600])
    if p.get("kinds"):
        doms = rng.sample(["example.com", "sub.example.org", "test", "."], rng.randint(0, 3))
        if doms:
            line += " domains=" + ",".join(doms)
        line += " ndots=%d" % rng.choice([0, 1, 1, 2, 3])
    if rng.random() < p.get("pendingwrite_prob", 0.0):
        line += " pendingwrite=1"
    if rng.random() < p.get("probe_prob", 0.3):
        line += " retrychance=%d retrydelay=%d" % (rng.choice([1, 1, 2, 10]), rng.choice([0, 100, 1000, 5000]))
    if rng.random() < p.get("fdreuse_prob", 0.5):
        # the socket layer hands out the lowest free descriptor number (POSIX); events keep naming sockets by a
        # never-reused logical id, so the trace of a correct library is the same
        line += " fdreuse=1"
    return line, ns, flags


def gen_case(rng, p, maxops):
    chan, ns, flags = gen_chan(rng, p)
    ops = [chan]
    nreact = 0
    if rng.random() < p.get("react_prob", 0.0):
        # reactions may only refer to later reactions (no unbounded recursion)
        nreact = rng.randint(1, 4)
        for i in range(nreact):
            kind = wchoice(rng, [("cancel", p.get("react_cancel_w", 1)), ("send", 3)])
            later = [j for j in range(i + 1, nreact)]
            rl = ",".join("R%d" % j for j in rng.sample(later, min(len(later), rng.randint(0, 2)))) if later else ""
            ops.append("reaction idx=%d kind=%s name=%s type=1 tok=%d%s" % (
                i, kind, rng.choice(NAMES), 900 + i, (" react=" + rl) if rl and kind != "cancel" else ""))
    tok = 0
    n = rng.randint(3, maxops)
    outstanding = 0
    for _ in range(n):
        r = rng.random()
        if r < p.get("req_w", 0.22) or outstanding == 0:
            tok += 1
            react = ""
            if nreact and rng.random() < 0.5:
                react = " react=" + ",".join("R%d" % j for j in sorted(rng.sample(range(nreact), rng.randint(1, min(2, nreact)))))
            edns = " edns=1" if rng.random() < p.get("edns_prob", 0.0) else ""
            kind = wchoice(rng, p.get("kinds", [("send", 1)]))
            nm = rng.choice(NAMES + (["host.", "a.b.c.d.", "\\097" * 62] if kind == "search" else [])
                            + (["10.1.2.3", "host.", "192.168.0.300"] if kind == "gai" else []))
            if kind == "gai":
                ops.append("req tok=%d kind=gai name=%s fam=%d%s" % (tok, nm, rng.choice([0, 0, 2, 10]), react))
                outstanding += 1
                continue
            ops.append("req tok=%d kind=%s name=%s type=%d%s%s" % (tok, kind, nm, rng.choice(p.get('qtypes', [1, 1, 1, 16, 15, 43])), edns, react))
            outstanding += 1
        elif r < 0.55:
            k = rng.choice([1, 1, 1, 1, 2, 2, 3, 5])
            kind = wchoice(rng, p.get("reply_kinds", REPLY_KINDS))
            line = "reply tx=-%d kind=%s" % (k, kind)
            if kind == "noerror":
                an = rng.choice([1, 1, 2, 3])
                line += " an=%d ttl=%s" % (an, ",".join(str(rng.choice([0, 1, 2, 5, 30, 300, 100000])) for _ in range(an)))
            if kind == "nxdomain" and rng.random() < 0.6:
                line += " soa=%d:%d" % (rng.choice([0, 3, 60]), rng.choice([0, 2, 100]))
            if p.get("edns_prob", 0.0) > 0:
                if rng.random() < 0.75:
                    line += " cookie=" + wchoice(rng, p.get("cookie_kinds", [
                        ("echo", 4), ("new:0102030405060708", 6), ("new:aabbccddeeff00112233445566778899", 2),
                        ("new:%s" % ("ab" * rng.randint(1, 33)), 2),
                        ("none", 4), ("clientonly", 2), ("badclient", 2), ("short", 1), ("force:0011223344556677", 1)]))
                if rng.random() < 0.08:
                    line += " opt=%d" % rng.choice([0, 2])
            f = rng.random()
            forged = p.get("forge_prob", 0.12)
            if f < forged:
                line += rng.choice([" idadd=1", " qname=flipcase", " qname=other", " qtadd=1", " qcadd=2", " src=other"])
            ops.append(line)
            if rng.random() < 0.85:
                ops.append("proc r=-%d" % k)
        elif r < 0.70:
            ops.append("adv %d" % rng.choice([1, 50, 299, 300, 999, 1000, 1001, 2000, 2500, 5000, 7000, 20000]))
            if rng.random() < 0.8:
                ops.append("tick")
        elif r < 0.76:
            ops.append("procall")
        elif r < 0.76 + p.get("cancel_w", 0.04):
            ops.append("cancel")
            outstanding = 0
        elif r < 0.82 + p.get("sockfail_w", 0.0):
            call = wchoice(rng, [("sendto", 5), ("socket", 2), ("connect", 2), ("recvfrom", 2)])
            errno = 111
            if call == "sendto" and rng.random() < 0.3:
                errno = 11
            ops.append("sockfail call=%s nth=%d errno=%d" % (call, rng.choice([1, 1, 2, 3]), errno))
        elif r < 0.84 + p.get("sockfail_w", 0.0) and p.get("edns_prob", 0.0) > 0:
            ops.append(rng.choice(["selfip v=1", "selfip v=0", "adv 119999", "adv 120001", "adv 300001", "adv 86400001", "adv 1000"]))
        elif r < 0.88 and p.get("tcp_ops", 0) and rng.random() < p["tcp_ops"]:
            c = rng.random()
            if c < 0.35:
                ops.append("chunks tx=-%d sizes=%s" % (rng.choice([1, 1, 2]), ",".join(str(rng.choice([1, 1, 2, 3, 5, 0, 20, 100])) for _ in range(rng.randint(1, 12)))))
            elif c < 0.7:
                ops.append("wlimit sizes=%s%s" % (",".join(str(rng.choice([1, 2, 3, 10, 0, 30, 1000])) for _ in range(rng.randint(1, 10))),
                                                  (" tx=-1" if rng.random() < 0.5 else "")))
            elif c < 0.8:
                ops.append("%s tx=-1" % rng.choice(["eof", "reset"]))
            else:
                ops.append("proc w=-1" if rng.random() < 0.5 else "pendingwrite")
        elif r < 0.9:
            ops.append("timeoutq" + (" maxtv=%d" % rng.choice([0, 1, 500, 100000]) if rng.random() < 0.7 else ""))
        else:
            ops.append("tick")
    if rng.random() < 0.4:
        ops.append("cancel")
    ops.append("destroy")
    return ops


def gen_tcp_scenario(rng, segmented):
    """One TCP exchange: k requests over one connection, replies delivered as a byte stream.
    `segmented` adds write-acceptance limits and read chunking; the unsegmented twin is otherwise identical."""
    k = rng.randint(1, 6)
    flags = 1 | (16 if rng.random() < 0.6 else 0)
    pw = rng.random() < 0.3
    seed = rng.getrandbits(32)
    r2 = __import__("random").Random(seed)

    def build(seg):
        rr = __import__("random").Random(seed)
        ops = ["chan servers=10.0.0.1 flags=%d tries=2 timeout=3000%s" % (flags, " pendingwrite=1" if pw else "")]
        if seg:
            ops.append("wlimit sizes=%s" % ",".join(str(rng.choice([1, 1, 2, 3, 7, 0, 30, 33, 34, 35, 1000])) for _ in range(rng.randint(1, 14))))
        names = [rr.choice(NAMES) for _ in range(k)]
        for i, nm in enumerate(names):
            ops.append("req tok=%d kind=send name=%s type=1" % (i + 1, nm))
        if pw:
            ops.append("pendingwrite")
        for _ in range(3 if not seg else 18):
            ops.append("procall")
        order = list(range(k))
        rr.shuffle(order)
        nrep = rr.randint(0, k)
        for j in order[:nrep]:
            kind = rr.choice(["noerror", "noerror", "nxdomain", "nodata", "empty"])
            ops.append("reply tx=%d kind=%s%s" % (j, kind, " an=%d ttl=%d" % (rr.randint(1, 3), rr.choice([1, 30, 300])) if kind == "noerror" else ""))
        if seg and nrep:
            ops.append("chunks tx=0 sizes=%s" % ",".join(str(rng.choice([1, 1, 1, 2, 3, 5, 0, 20, 40, 100])) for _ in range(rng.randint(1, 40))))
        for _ in range(3 if not seg else 45):
            ops.append("procall")
        end = rr.random()
        if end < 0.2:
            ops += ["eof tx=0", "procall"]
        elif end < 0.3:
            ops += ["reset tx=0", "procall"]
        # let every retransmission reach the wire completely before the next timer fires
        flushes = ["procall"] * (16 if seg else 2) + (["pendingwrite"] + ["procall"] * (16 if seg else 2) if pw else [])
        ops += ["adv 3000", "tick"] + flushes + ["adv 7000", "tick"] + flushes + ["cancel"]
        return ops
    return build(segmented)


def gen_tcp_pair(rng):
    st = rng.getstate()
    a = gen_tcp_scenario(rng, True)
    rng.setstate(st)
    b = gen_tcp_scenario(rng, False)
    return a + b + ["destroy"]


def gen_stream(profile, quick_n, thorough_n, quick_ops=30, thorough_ops=120):
    def gen(rng, tier):
        n = quick_n if tier == "quick" else thorough_n
        mo = quick_ops if tier == "quick" else thorough_ops
        return [gen_case(rng, profile, mo) for _ in range(n)]
    return gen


def driver_input(case, impl_out):
    out = []
    for i, op in enumerate(case):
        o = impl_out[i] if i < len(impl_out) else ""
        out.append(op + " || " + o)
    return out


RND = re.compile(r"rnd\(\d+,[0-9a-f]+\)( \| )?")


def strip_obs(line):
    line = RND.sub("", line)
    if line.endswith(" | "):
        line = line[:-3]
    return line if line else "-"


def compare(impl, model):
    n = max(len(impl), len(model))
    for i in range(n):
        a = strip_obs(impl[i]) if i < len(impl) else "<missing>"
        b = model[i] if i < len(model) else "<missing>"
        if a != b:
            return i
    return None


def events(line):
    return [e.strip() for e in line.split(" | ") if e.strip()]


EV = re.compile(r"^(\w[\w!:-]*)\((.*)\)$")


def parse_ev(e):
    m = EV.match(e)
    if not m:
        return e, []
    return m.group(1), m.group(2).split(",")


def mon_common(case, out):
    """Monitors that read the harness's own MON: markers (callback twice / after destroy, socket protocol)."""
    bad = []
    for line in out:
        for e in events(line):
            if e.startswith("MON:"):
                bad.append((e.split("(")[0][4:], e))
    return bad


def sim_stream(name, profile, monitor, quick_n=250, thorough_n=8000, **kw):
    def mon(case, out):
        return mon_common(case, out) + (monitor(case, out) if monitor else [])
    return Stream(name, "h_sim", "driver_sim", gen_stream(profile, quick_n, thorough_n, **kw),
                  monitor=mon, driver_input=driver_input, compare=compare,
                  nontrivial=lambda c, o: any(" cb(" in (" " + l) for l in o),
                  opkind=lambda l: l.split()[0] + (":" + l.split("kind=")[1].split()[0] if "kind=" in l else ""))


# ---------------------------------------------------------------------------------------------- C12 walk scenarios
WALK_NAMES = ["host", "www.example", "a.b.c", "a.b.c.d", "host.", "www.example.", "x"]
WALK_DOMAINS = ["example.com", "sub.example.org", "test", "."]


def gen_walk_case(rng):
    """One search (or single-family getaddrinfo) at a time against one server with tries=1, each candidate
    answered with a scripted outcome."""
    doms = rng.sample(WALK_DOMAINS, rng.randint(0, 3))
    ndots = rng.choice([0, 1, 1, 2, 3, 4])
    flags = (32 if rng.random() < 0.15 else 0)
    ops = ["chan servers=10.0.0.1 flags=%d tries=1 timeout=1000 ndots=%d%s" % (
        flags, ndots, (" domains=" + ",".join(doms)) if doms else "")]
    for tok in range(1, rng.randint(2, 4)):
        name = rng.choice(WALK_NAMES)
        kind = rng.choice(["search", "search", "gai"])
        if kind == "gai":
            ops.append("req tok=%d kind=gai name=%s fam=%d" % (tok, name, rng.choice([2, 10])))
        else:
            ops.append("req tok=%d kind=search name=%s type=%d" % (tok, name, rng.choice([1, 16])))
        for _ in range(len(doms) + 2):
            o = wchoice(rng, [("nxdomain", 8), ("nodata", 6), ("noerror", 3), ("servfail", 4), ("refused", 2), ("timeout", 1), ("formerr", 1)])
            if o == "timeout":
                ops += ["adv 10000", "tick"]
            else:
                ops += ["reply tx=-1 kind=%s%s" % (o, " an=1 ttl=30" if o == "noerror" else ""), "proc r=-1"]
    ops.append("destroy")
    return ops


def walk_stream(quick_n=300, thorough_n=8000):
    import simprops

    def gen(rng, tier):
        return [gen_walk_case(rng) for _ in range(quick_n if tier == "quick" else thorough_n)]
    return Stream("walk", "h_sim", "driver_sim", gen,
                  monitor=lambda c, o: mon_common(c, o) + simprops.mon_c12(c, o) + simprops.mon_c01(c, o),
                  driver_input=driver_input, compare=compare,
                  nontrivial=lambda c, o: any(" cb(" in (" " + l) for l in o),
                  opkind=lambda l: l.split()[0] + (":" + l.split("kind=")[1].split()[0] if "kind=" in l else ""))


def gen_gai_sync_case(rng):
    """ares_getaddrinfo(AF_UNSPEC) whose first (A) sub-request completes before the call that issued it returns - from
    the query cache, or because every attempt fails in the socket layer - while the AAAA sub-request is still to be
    issued / in flight; then answers, timeouts, cancel or destroy in some order"""
    name = rng.choice(NAMES)
    flags = (16 if rng.random() < 0.3 else 0)
    mode = rng.choice(["cache", "cache", "sockfail", "both"])
    ns = rng.choice([1, 1, 2])
    tries = 1 if mode != "cache" else rng.choice([1, 2])
    ops = ["chan servers=%s flags=%d tries=%d timeout=2000 cache=%d%s" % (
        ",".join("10.0.0.%d" % (i + 1) for i in range(ns)), flags, tries, rng.choice([60, 3600]),
        " fdreuse=1" if rng.random() < 0.5 else "")]
    nreact = 0
    if rng.random() < 0.4:
        nreact = 1
        ops.append("reaction idx=0 kind=%s name=%s type=1 tok=900" % (rng.choice(["send", "cancel"]), rng.choice(NAMES)))
    tok = 1
    if mode in ("cache", "both"):
        # put the A answer (and sometimes the AAAA answer) into the cache through the same request path
        for qt in ([1] if rng.random() < 0.8 else [1, 28]):
            ops.append("req tok=%d kind=query name=%s type=%d" % (tok, name, qt))
            tok += 1
            ops.append("reply tx=-1 kind=noerror an=%d ttl=%s" % (1, rng.choice(["60", "300"])))
            ops.append("procall")
    if mode in ("sockfail", "both"):
        for _ in range(rng.choice([1, 1, 2]) * ns):
            ops.append("sockfail call=%s nth=1 errno=%d" % (rng.choice(["socket", "socket", "connect", "sendto"]), rng.choice([24, 111, 13])))
    react = " react=R0" if nreact and rng.random() < 0.7 else ""
    ops.append("req tok=%d kind=gai name=%s fam=0%s" % (tok, name, react))
    tok += 1
    for _ in range(rng.randint(1, 5)):
        r = rng.random()
        if r < 0.45:
            kind = rng.choice(["noerror", "noerror", "nodata", "nxdomain", "servfail"])
            ops.append("reply tx=-%d kind=%s%s" % (rng.choice([1, 1, 2]), kind, " an=1 ttl=30" if kind == "noerror" else ""))
            ops.append("procall")
        elif r < 0.6:
            ops += ["adv %d" % rng.choice([2000, 2001, 5000]), "tick"]
        elif r < 0.7:
            ops.append("cancel")
        elif r < 0.85:
            ops.append("req tok=%d kind=gai name=%s fam=%d" % (tok, rng.choice([name, rng.choice(NAMES)]), rng.choice([0, 0, 2, 10])))
            tok += 1
        else:
            ops.append("procall")
    if rng.random() < 0.3:
        ops.append("cancel")
    ops.append("destroy")
    return ops


def gai_sync_stream(monitor, quick_n=200, thorough_n=6000):
    def gen(rng, tier):
        return [gen_gai_sync_case(rng) for _ in range(quick_n if tier == "quick" else thorough_n)]

    def mon(case, out):
        return mon_common(case, out) + (monitor(case, out) if monitor else [])
    return Stream("gai-sync", "h_sim", "driver_sim", gen, monitor=mon, driver_input=driver_input, compare=compare,
                  nontrivial=lambda c, o: any(" cb(" in (" " + l) for l in o),
                  opkind=lambda l: l.split()[0] + (":" + l.split("kind=")[1].split()[0] if "kind=" in l else ""))


def gen_cookie_rotate_case(rng):
    """RFC 7873 client state across several queries: the server's cookie support is established, a query is in flight,
    the client cookie is rotated (local address change on a new socket, or its 24 h lifetime), then cookie-less,
    client-only, stale-cookie and genuine replies to the in-flight query arrive in some order"""
    udpmax = rng.choice([0, 1, 1, 2])
    ops = ["chan servers=10.0.0.1 flags=%d tries=%d timeout=5000 cache=%d%s%s" % (
        rng.choice([0, 1024]), rng.choice([1, 2]), rng.choice([0, 60]), (" udpmax=%d" % udpmax) if udpmax else "",
        " fdreuse=1" if rng.random() < 0.5 else "")]
    srvck = "".join(rng.choice("0123456789abcdef") for _ in range(rng.choice([16, 16, 32, 64])))
    tok = 1
    ops += ["req tok=%d kind=send name=a.example type=1 edns=1" % tok,
            "reply tx=-1 kind=noerror an=1 ttl=30 cookie=new:%s" % srvck, "proc r=-1"]
    tok += 1
    if rng.random() < 0.3:
        ops += ["req tok=%d kind=send name=mail.example.org type=1 edns=1" % tok,
                "reply tx=-1 kind=noerror an=1 ttl=30 cookie=echo", "proc r=-1"]
        tok += 1
    # the query that will be attacked
    ops.append("req tok=%d kind=send name=www.example.com type=1 edns=1" % tok)
    victim = tok
    tok += 1
    # rotation
    rot = rng.choice(["selfip", "selfip", "lifetime", "none"])
    if rot == "selfip":
        ops.append("selfip v=1")
        ops.append("req tok=%d kind=send name=host type=1 edns=1" % tok)
        tok += 1
    elif rot == "lifetime":
        ops.append("adv %d" % rng.choice([86400001, 90000000]))
        ops.append("req tok=%d kind=send name=host type=1 edns=1" % tok)
        tok += 1
    back = 1 if rot == "none" else 2
    # replies to the victim's transmission
    for _ in range(rng.randint(1, 4)):
        kind = wchoice(rng, [("none", 4), ("clientonly", 3), ("badclient", 1), ("new:%s" % srvck, 2), ("echo", 2),
                             ("new:%s" % ("ab" * rng.choice([8, 16])), 1)])
        nmark = locals().get("nmark", 40) + 1
        ops.append("reply tx=-%d kind=noerror an=1 ttl=30 cookie=%s mark=%d" % (back, kind, nmark))
        ops.append("proc r=-%d" % back)
        if rng.random() < 0.2:
            ops.append("adv %d" % rng.choice([1000, 119999, 120001, 300001]))
    if rng.random() < 0.5:
        ops.append("req tok=%d kind=send name=www.example.com type=1 edns=1" % tok)   # what does the cache say now?
        tok += 1
    ops += ["adv 5000", "tick", "adv 10000", "tick", "destroy"]
    return ops


def cookie_rotate_stream(monitor, quick_n=200, thorough_n=6000):
    def gen(rng, tier):
        return [gen_cookie_rotate_case(rng) for _ in range(quick_n if tier == "quick" else thorough_n)]

    def mon(case, out):
        return mon_common(case, out) + (monitor(case, out) if monitor else [])
    return Stream("cookie-rotate", "h_sim", "driver_sim", gen, monitor=mon, driver_input=driver_input, compare=compare,
                  nontrivial=lambda c, o: any(" cb(" in (" " + l) for l in o),
                  opkind=lambda l: l.split()[0] + (":" + l.split("cookie=")[1].split(":")[0].split()[0] if "cookie=" in l else ""))


def _rand_ip(rng):
    """addresses for reverse lookups: a few fixed ones (so that cached and concurrent lookups of one address occur) and
    random ones with octets / nibbles over the whole range"""
    import ipaddress
    r = rng.random()
    if r < 0.35:
        return rng.choice(["10.1.2.3", "192.0.2.7", "2001:db8::5"])
    if r < 0.7:
        return ".".join(str(rng.choice([0, 1, 9, 10, 99, 100, 127, 128, 200, 255, rng.randint(0, 255)])) for _ in range(4))
    if r < 0.76:
        # IPv4-mapped / IPv4-compatible IPv6 addresses: still looked up under ip6.arpa
        return "::%s%s" % (rng.choice(["ffff:", "ffff:", ""]), ".".join(str(rng.randint(1, 255)) for _ in range(4)))
    if r < 0.83:
        return str(ipaddress.ip_address(rng.getrandbits(128)))
    b = bytearray(16)
    b[0:2] = rng.choice([b"\x20\x01", b"\xfe\x80", b"\xfd\x00", b"\x00\x00"])
    for _ in range(rng.randint(1, 5)):
        b[rng.randint(2, 15)] = rng.choice([1, 0x0a, 0xa0, 0xff, 0x10, rng.randint(0, 255)])
    return str(ipaddress.ip_address(bytes(b)))


def gen_lookups_case(rng):
    """the address-lookup front ends that the channel model does not cover (getaddrinfo with RFC 6724 sorting, which
    probes source addresses with throw-away sockets; gethostbyname; gethostbyaddr; getnameinfo): monitors only"""
    ns = rng.choice([1, 2])
    ops = ["chan servers=%s flags=%d tries=%d timeout=2000%s%s" % (
        ",".join("10.0.0.%d" % (i + 1) for i in range(ns)), rng.choice([0, 16]), rng.choice([1, 2]),
        " cache=60" if rng.random() < 0.3 else "", " fdreuse=1" if rng.random() < 0.5 else "")]
    tok = 0
    for _ in range(rng.randint(3, 9)):
        r = rng.random()
        if r < 0.4 or tok == 0:
            tok += 1
            kind = wchoice(rng, [("gai", 5), ("ghbn", 2), ("ghba", 1), ("gni", 1)])
            if kind == "gai":
                ops.append("req tok=%d kind=gai name=%s fam=%d sort=1" % (tok, rng.choice(NAMES[:5] + ["10.1.2.3", "localhost"]), rng.choice([0, 0, 2, 10])))
            elif kind == "ghbn":
                ops.append("req tok=%d kind=ghbn name=%s fam=%d" % (tok, rng.choice(NAMES[:5]), rng.choice([0, 2, 10])))
            else:
                ops.append("req tok=%d kind=%s name=%s" % (tok, kind, _rand_ip(rng)))
        elif r < 0.75:
            kind = rng.choice(["noerror", "noerror", "noerror", "nodata", "nxdomain", "servfail"])
            ops.append("reply tx=-%d kind=%s%s" % (rng.choice([1, 1, 2]), kind, (" an=%d ttl=30" % rng.choice([1, 2, 3, 4])) if kind == "noerror" else ""))
            ops.append("procall")
        elif r < 0.9:
            ops.append("sockfail call=%s nth=%d errno=%d" % (rng.choice(["getsockname", "getsockname", "connect", "socket", "sendto"]),
                                                             rng.choice([1, 1, 2, 3]), rng.choice([105, 111, 24])))
        elif r < 0.95:
            ops += ["adv 2000", "tick"]
        else:
            ops.append("cancel")
    ops += ["procall", "adv 5000", "tick", "adv 5000", "tick", "destroy"]
    return ops


def lookups_stream(monitor, quick_n=300, thorough_n=8000):
    def gen(rng, tier):
        return [gen_lookups_case(rng) for _ in range(quick_n if tier == "quick" else thorough_n)]

    def mon(case, out):
        return mon_common(case, out) + (monitor(case, out) if monitor else [])
    return Stream("lookups", "h_sim", None, gen, monitor=mon,
                  nontrivial=lambda c, o: any(" cb(" in (" " + l) for l in o),
                  opkind=lambda l: l.split()[0] + (":" + l.split("kind=")[1].split()[0] if "kind=" in l else ""))


def gen_late_reaction_case(rng):
    """completion callbacks that take a while (the virtual clock advances inside the callback) before they start a new
    request or cancel: monitors only (the model's reactions are instantaneous)"""
    ops = ["chan servers=10.0.0.1,10.0.0.2 flags=%d tries=2 timeout=2000 cache=%d%s" % (
        rng.choice([0, 16]), rng.choice([0, 60, 3600]), " fdreuse=1" if rng.random() < 0.5 else "")]
    ops.append("reaction idx=0 kind=%s name=%s type=1 tok=900 adv=%d" % (rng.choice(["send", "send", "cancel"]), rng.choice(NAMES),
                                                                         rng.choice([1, 999, 1500, 2500, 61000])))
    tok = 0
    for _ in range(rng.randint(1, 4)):
        tok += 1
        ops.append("req tok=%d kind=%s name=%s type=1 react=R0" % (tok, rng.choice(["send", "query", "search"]), rng.choice(NAMES)))
        r = rng.random()
        if r < 0.7:
            ops.append("reply tx=-1 kind=%s" % rng.choice(["noerror an=1 ttl=1", "noerror an=2 ttl=60,1", "nodata", "servfail", "nxdomain soa=1:1"]))
            ops.append("procall")
        else:
            ops += ["adv 2000", "tick", "adv 4000", "tick"]
    ops += ["cancel", "destroy"]
    return ops


def late_reaction_stream(monitor, quick_n=100, thorough_n=3000):
    def gen(rng, tier):
        return [gen_late_reaction_case(rng) for _ in range(quick_n if tier == "quick" else thorough_n)]

    def mon(case, out):
        return mon_common(case, out) + (monitor(case, out) if monitor else [])
    return Stream("late-reaction", "h_sim", None, gen, monitor=mon,
                  nontrivial=lambda c, o: any(" cb(" in (" " + l) for l in o),
                  opkind=lambda l: l.split()[0] + (":" + l.split("kind=")[1].split()[0] if "kind=" in l else ""))


def gen_storm_case(rng):
    """the same protocol-resend trigger again and again for one query: BADCOOKIE with ever-changing server cookies,
    truncation, FORMERR, SERVFAIL, duplicates of each - transmissions must stay within servers x tries + 5"""
    ns = rng.choice([1, 1, 2, 3])
    ops = ["chan servers=%s flags=%d tries=%d timeout=1000" % (
        ",".join("10.0.0.%d" % (i + 1) for i in range(ns)), rng.choice([0, 16, 4, 128]), rng.choice([1, 2, 3]))]
    ops.append("req tok=1 kind=send name=%s type=1 edns=%d" % (rng.choice(NAMES), rng.choice([1, 1, 0])))
    kinds = rng.choice([["badcookie"], ["tc"], ["formerr"], ["servfail"], ["badcookie", "tc"], ["badcookie", "formerr", "tc", "servfail", "refused"]])
    for _ in range(rng.randint(6, 25)):
        k = rng.choice(kinds)
        line = "reply tx=-%d kind=%s" % (rng.choice([1, 1, 1, 2]), k)
        if k == "badcookie" or rng.random() < 0.5:
            line += " cookie=new:%s" % "".join(rng.choice("0123456789abcdef") for _ in range(2 * rng.choice([8, 8, 16, 32])))
        ops.append(line)
        if rng.random() < 0.3:
            ops.append(line)     # duplicate
        ops.append(rng.choice(["proc r=-1", "procall", "procall"]))
        if rng.random() < 0.2:
            ops.append("procall")
    ops += ["adv 30000", "tick", "adv 30000", "tick", "destroy"]
    return ops


def storm_stream(monitor, quick_n=250, thorough_n=6000):
    def gen(rng, tier):
        return [gen_storm_case(rng) for _ in range(quick_n if tier == "quick" else thorough_n)]
    return Stream("storm", "h_sim", "driver_sim", gen,
                  monitor=lambda c, o: mon_common(c, o) + monitor(c, o),
                  driver_input=driver_input, compare=compare,
                  nontrivial=lambda c, o: any("tx(" in l for l in o),
                  opkind=lambda l: l.split()[0] + (":" + l.split("kind=")[1].split()[0] if "kind=" in l else ""))
