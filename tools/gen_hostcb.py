"""Translator for the completion decision of ares_getaddrinfo (C13 / C14): the if / else-if chain that host_callback()
in src/lib/ares_getaddrinfo.c runs once the last outstanding sub-request (A / AAAA) of a candidate name has completed
is parsed and re-emitted, branch by branch, as the Lean function

    Cares.Generated.HostCb.final (status addinfo : Status) (nodes nomem single : Bool) (nodata : Nat) : Act × Nat

(`status` = status of the sub-request that completed last, `addinfo` = result of converting its answer into address
nodes, `nodes` = at least one address collected so far, `nomem` = hquery->nomem, `single` = the candidate name has one
label, `nodata` = hquery->nodata_cnt; result: end the request with a status / go on to the next candidate or lookup
source with a fallback status, and the new nodata count), regenerated from /repo on every run into
lean/CaresModel/Generated/HostCb.lean.  CaresProps/C13c.lean proves over whatever it says: cancel / destroy end the
request with that status (no partial result); a recorded allocation failure ends it with ARES_ENOMEM; success is only
reported with at least one address; and on the domain the channel model exercises the generated decision is the
hand-written model's (`CaresModel/Chan/Client.lean`, gaiOnCb).

Anything outside the small statement / expression language below is an extraction failure (committed copy kept,
failure reported in the evidence), not a violation."""
import hashlib
import os
import re

import vlib
from gen_locktable import find_body

OUT = os.path.join(vlib.LEAN, "CaresModel", "Generated", "HostCb.lean")

STATUS = {"ARES_SUCCESS": ".ok", "ARES_ENODATA": ".nodata", "ARES_EFORMERR": ".formerr", "ARES_ESERVFAIL": ".servfail",
          "ARES_ENOTFOUND": ".notfound", "ARES_ENOTIMP": ".notimp", "ARES_EREFUSED": ".refused", "ARES_EBADQUERY": ".badquery",
          "ARES_EBADNAME": ".badname", "ARES_EBADFAMILY": ".badfamily", "ARES_EBADRESP": ".badresp",
          "ARES_ECONNREFUSED": ".connrefused", "ARES_ETIMEOUT": ".timeout", "ARES_EOF": ".eof", "ARES_EFILE": ".efile",
          "ARES_ENOMEM": ".nomem", "ARES_EDESTRUCTION": ".destruction", "ARES_EBADSTR": ".badstr",
          "ARES_ECANCELLED": ".cancelled", "ARES_ENOSERVER": ".noserver"}

TOKEN = re.compile(r"\s*(&&|\|\||==|!=|->|\+\+|[A-Za-z_]\w*|\d+|[-!(){}\[\];,?:])")


class ParseError(Exception):
    pass


def tokenize(s):
    toks, pos = [], 0
    s = s.strip()
    while pos < len(s):
        m = TOKEN.match(s, pos)
        if not m:
            raise ParseError("unsupported token at %r" % s[pos:pos + 30])
        toks.append(m.group(1))
        pos = m.end()
    return toks


class P:
    def __init__(self, toks):
        self.t, self.i = toks, 0

    def peek(self, k=0):
        return self.t[self.i + k] if self.i + k < len(self.t) else None

    def take(self, want=None):
        x = self.peek()
        if x is None or (want is not None and x != want):
            raise ParseError("expected %r, found %r (token %d)" % (want, x, self.i))
        self.i += 1
        return x

    # ---- values: status expressions
    def lvalue(self):
        """identifier with -> [ ] ( ) suffixes, returned as normalised text"""
        name = self.take()
        if not re.match(r"[A-Za-z_]", name):
            raise ParseError("identifier expected, found %r" % name)
        while self.peek() in ("->", "[", "("):
            op = self.take()
            if op == "->":
                name += "->" + self.take()
            else:
                close = "]" if op == "[" else ")"
                depth, inner = 1, ""
                while depth:
                    x = self.take()
                    if x == op:
                        depth += 1
                    elif x == close:
                        depth -= 1
                        if not depth:
                            break
                    inner += x
                name += op + inner + close
        return name

    def value(self):
        """status-valued expression"""
        if self.peek() == "(":
            self.take("(")
            v = self.value()
            self.take(")")
            return v
        lv = self.lvalue()
        if lv in STATUS:
            v = STATUS[lv]
        elif lv == "status":
            v = "status"
        elif lv == "addinfostatus":
            v = "addinfo"
        elif lv == "hquery->nodata_cnt" and self.peek() == "?":
            self.take("?")
            a = self.value()
            self.take(":")
            b = self.value()
            return "(if nodata != 0 then %s else %s)" % (a, b)
        else:
            raise ParseError("unknown status expression %s" % lv)
        return v

    # ---- conditions
    def atom(self):
        if self.peek() == "!":
            self.take()
            return "!(%s)" % self.atom()
        if self.peek() == "(":
            self.take("(")
            c = self.cond()
            self.take(")")
            return "(%s)" % c
        lv = self.lvalue()
        if lv in ("status", "addinfostatus") or lv in STATUS:
            op = self.take()
            if op not in ("==", "!="):
                raise ParseError("comparison expected after %s" % lv)
            rhs = self.lvalue()
            l = {"status": "status", "addinfostatus": "addinfo"}.get(lv) or STATUS[lv]
            r = {"status": "status", "addinfostatus": "addinfo"}.get(rhs) or STATUS.get(rhs)
            if r is None:
                raise ParseError("unknown status %s" % rhs)
            return "(%s %s %s)" % (l, op, r)
        if lv == "hquery->ai->nodes":
            if self.peek() in ("==", "!="):
                op = self.take()
                if self.take() != "NULL":
                    raise ParseError("nodes compared with something else than NULL")
                return "nodes" if op == "!=" else "!nodes"
            return "nodes"
        if lv == "hquery->nomem":
            return "nomem"
        if lv == "hquery->nodata_cnt":
            return "(nodata != 0)"
        if re.fullmatch(r"ares_name_label_cnt\(hquery->names\[hquery->next_name_idx-1\]\)", lv):
            self.take("==")
            if self.take() != "1":
                raise ParseError("label count compared with something else than 1")
            return "single"
        raise ParseError("unknown condition atom %s" % lv)

    def conj(self):
        parts = [self.atom()]
        while self.peek() == "&&":
            self.take()
            parts.append(self.atom())
        return " && ".join(parts)

    def cond(self):
        parts = [self.conj()]
        while self.peek() == "||":
            self.take()
            parts.append(self.conj())
        return " || ".join(parts) if len(parts) == 1 else "(" + " || ".join(parts) + ")"

    # ---- statements; every path of a block must end in end_hquery / next_lookup
    def block(self, ind):
        """returns Lean text computing (Act × Nat); consumes statements up to the closing brace of the block"""
        pre = []
        while True:
            x = self.peek()
            if x is None or x == "}":
                raise ParseError("a branch of the chain ends without end_hquery() / next_lookup()")
            if x == "if":
                # either a side-effect-only `if (c) { hquery->nodata_cnt++; }` or a deciding if / else chain
                save = self.i
                self.take("if")
                self.take("(")
                c = self.cond()
                self.take(")")
                self.take("{")
                if self.peek() == "hquery" and self.peek(1) == "->" and self.peek(2) == "nodata_cnt" and self.peek(3) == "++":
                    for _ in range(4):
                        self.take()
                    self.take(";")
                    self.take("}")
                    if self.peek() == "else":
                        raise ParseError("else after a counter update is not translated")
                    pre.append("%slet nodata := if %s then nodata + 1 else nodata" % (ind, c))
                    continue
                self.i = save
                return "\n".join(pre + [self.chain(ind)])
            fn = self.take()
            if fn not in ("end_hquery", "next_lookup"):
                raise ParseError("unknown statement starting with %s" % fn)
            self.take("(")
            if self.take() != "hquery":
                raise ParseError("first argument is not hquery")
            self.take(",")
            v = self.value()
            self.take(")")
            self.take(";")
            if self.peek() != "}":
                raise ParseError("statements after %s()" % fn)
            return "\n".join(pre + ["%s(%s %s, nodata)" % (ind, ".finish" if fn == "end_hquery" else ".next", v)])

    def chain(self, ind):
        self.take("if")
        self.take("(")
        c = self.cond()
        self.take(")")
        self.take("{")
        b = self.block(ind + "  ")
        self.take("}")
        if self.peek() != "else":
            raise ParseError("an if of the chain has no else: fall-through is not translated")
        self.take("else")
        if self.peek() == "if":
            rest = self.chain(ind)
            return "%sif %s then\n%s\n%selse\n%s" % (ind, c, b, ind, rest) if not rest.lstrip().startswith("if ") else \
                "%sif %s then\n%s\n%selse %s" % (ind, c, b, ind, rest.lstrip())
        self.take("{")
        e = self.block(ind + "  ")
        self.take("}")
        return "%sif %s then\n%s\n%selse\n%s" % (ind, c, b, ind, e)


def gen_hostcb():
    path = os.path.join(vlib.REPO, "src", "lib", "ares_getaddrinfo.c")
    txt = open(path, errors="replace").read()
    txt = re.sub(r"/\*.*?\*/", " ", txt, flags=re.S)
    _, body = find_body("host_callback", [(path, txt)])
    if body is None:
        raise ParseError("host_callback() not found")
    m = re.search(r"if\s*\(\s*!\s*hquery\s*->\s*remaining\s*\)\s*\{", body)
    if not m:
        raise ParseError("`if (!hquery->remaining) {` not found")
    depth, e = 1, m.end()
    while e < len(body) and depth:
        depth += body[e] == "{"
        depth -= body[e] == "}"
        e += 1
    inner = body[m.end():e - 1]
    p = P(tokenize(inner))
    lean = p.chain("  ")
    if p.peek() is not None:
        raise ParseError("statements after the decision chain: %s" % p.peek())
    # does the function record allocation failures at all (F50)?  `nomem` is an input of the decision either way
    csrc = re.sub(r"\s+", " ", inner).strip()
    new = "\n".join([
        "/- GENERATED by tools/gen_hostcb.py from /repo/src/lib/ares_getaddrinfo.c (host_callback) — do not edit. -/",
        "import CaresModel.Chan.Types",
        "namespace Cares.Generated.HostCb",
        "open Cares.Chan", "",
        "/-- what host_callback() does once no sub-request of the current candidate is outstanding -/",
        "inductive Act where",
        "  | finish (s : Status)   -- end_hquery(hquery, s)",
        "  | next (s : Status)     -- next_lookup(hquery, s): next candidate name / lookup source, s = status if there is none",
        "  deriving DecidableEq, Repr", "",
        "/-- the decision chain, branch by branch as in the C source; second component: hquery->nodata_cnt afterwards -/",
        "def final (status addinfo : Status) (nodes nomem single : Bool) (nodata : Nat) : Act × Nat :=",
        lean, "",
        "end Cares.Generated.HostCb", ""])
    if not os.path.exists(OUT) or open(OUT).read() != new:
        os.makedirs(os.path.dirname(OUT), exist_ok=True)
        open(OUT, "w").write(new)
    return {"HostCb.lean": "host_callback decision chain (sha256 %s)" % hashlib.sha256(csrc.encode()).hexdigest()[:12]}


if __name__ == "__main__":
    import sys
    if len(sys.argv) > 1 and sys.argv[1] == "--dry":
        OUT = "/tmp/HostCb.lean"
    print(gen_hostcb())
    print(open(OUT).read())
