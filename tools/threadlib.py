"""Thread harness streams (h_thread): timing scenarios for the event thread, stress runs for C11."""
import re

from runner import Stream

BACKENDS = ["epoll", "poll", "select"]


def gen_timing(rng, tier):
    cases = []
    n = 1 if tier == "quick" else 8
    for ev in BACKENDS:
        for mode in ("fresh", "idle", "busy"):
            for _ in range(n):
                cases.append(["timing evsys=%s mode=%s timeout=%d tries=%d gap=%d" % (
                    ev, mode, rng.choice([120, 150, 200, 300]), rng.choice([1, 2, 2, 3]), rng.choice([50, 200, 400]))])
        for _ in range(n):
            # a new query with an earlier deadline than the one the thread is asleep on (older query on a later retry round)
            cases.append(["timing evsys=%s mode=staggered timeout=%d tries=%d gap=%d" % (ev, rng.choice([250, 300]), rng.choice([4, 5]), 50)])
            # a deadline that expires while the thread is busy with the previous one (slow application callback)
            cases.append(["timing evsys=%s mode=slowcb timeout=%d tries=1 gap=%d" % (ev, rng.choice([250, 300]), 50)])
    return cases


def mon_timing(case, out):
    bad = []
    for line in out:
        m = re.match(r"timing staggered (\w+) busy_sends=(\d+) first=(-?\d+) retx=(-?\d+) due=(\d+) done=(\d)", line)
        if m:
            ev, bs, first, retx, due, done = m.group(1), int(m.group(2)), int(m.group(3)), int(m.group(4)), int(m.group(5)), int(m.group(6))
            if bs < 3:
                bad.append(("thread-harness-output", "staggered/%s: older query only sent %d times" % (ev, bs)))
            elif first < 0:
                bad.append(("never-sent", "staggered/%s: the new query was never transmitted" % ev))
            elif retx < 0 and not done:
                bad.append(("late-retransmission", "staggered/%s: a query sent while the event thread slept on a later deadline was not "
                            "retransmitted within %d ms + 2.5 s (its own deadline)" % (ev, due)))
            elif retx >= 0 and retx - first > due + 400:
                bad.append(("late-retransmission", "staggered/%s: first retransmission %d ms after the first send, deadline %d ms: the "
                            "event thread slept past the new query's deadline" % (ev, retx - first, due)))
            continue
        m = re.match(r"timing (\w+) (\w+) completed=(\d) status=(\d+) elapsed=(-?\d+) budget=(\d+)", line)
        if not m:
            if "unsupported" not in line:
                bad.append(("thread-harness-output", line[:100]))
            continue
        mode, ev, done, st, el, budget = m.group(1), m.group(2), int(m.group(3)), int(m.group(4)), int(m.group(5)), int(m.group(6))
        if not done:
            bad.append(("never-timed-out", "%s connection, backend %s: a query to a silent server was not completed "
                        "within its retry budget (%d ms) plus 2.5 s with no application action" % (mode, ev, budget)))
        elif el > budget:
            bad.append(("late-timeout", "%s/%s completed after %d ms, budget %d" % (mode, ev, el, budget)))
        elif st != 12:
            bad.append(("unexpected-status", "%s/%s status %d" % (mode, ev, st)))
    return bad


def gen_stress(rng, tier):
    cases = []
    reps = 1 if tier == "quick" else 6
    for ev in BACKENDS:
        for _ in range(reps):
            cases.append(["stress evsys=%s threads=%d iters=%d seed=%d reinit=%d setservers=1" % (
                ev, rng.choice([2, 4, 6, 8]), 250 if tier == "quick" else 1500, rng.randint(1, 10 ** 6), rng.choice([0, 1, 1]))])
    # the application passes no flags: every reload re-applies the flags of the system configuration (options use-vc)
    for _ in range(reps):
        cases.append(["stress evsys=%s threads=%d iters=%d seed=%d reinit=1 setservers=1 sysflags=1" % (
            rng.choice(BACKENDS), rng.choice([4, 6]), 250 if tier == "quick" else 1500, rng.randint(1, 10 ** 6))])
    return cases


def mon_stress(case, out):
    bad = []
    for line in out:
        m = re.match(r"stress (\w+) threads=(\d+) accepted=(\d+) callbacks=(\d+) twice=(\d+) missing=(\d+) lockorder=(\d+) "
                     r"lockevents=(\d+) waitempty_bad=(\d+) deadlock=(\d+)", line)
        if not m:
            if "unsupported" not in line:
                bad.append(("thread-harness-output", line[:100]))
            continue
        ev = m.group(1)
        acc, cbs, twice, missing, lo, lev, web, dl = [int(x) for x in m.groups()[2:]]
        if twice:
            bad.append(("threads-cb-twice", "%d requests got more than one callback (%s)" % (twice, ev)))
        if missing:
            bad.append(("threads-cb-missing", "%d requests never got a callback (%s)" % (missing, ev)))
        if lo:
            bad.append(("lock-order", "channel lock requested while holding the event mutex %d times (%s)" % (lo, ev)))
        if web:
            bad.append(("wait-empty-unsound", "ares_queue_wait_empty reported success with requests outstanding (%s)" % ev))
        if dl == 1:
            bad.append(("deadlock", "client threads did not finish within 60 s (%s)" % ev))
        if dl == 2:
            bad.append(("never-timed-out", "requests outstanding after 5 s with a 100 ms x 2 retry budget (%s)" % ev))
        if lev == 0:
            bad.append(("lock-hook-silent", "no lock events were logged (%s)" % ev))
    return bad


def gen_waitempty(rng, tier):
    n = 1 if tier == "quick" else 4
    return [["waitempty evsys=%s wait=%d gap=%d" % (ev, rng.choice([400, 600, 800]), rng.choice([50, 150, 250]))]
            for ev in BACKENDS for _ in range(n)]


def mon_waitempty(case, out):
    """a waiter that was notified while the queue was momentarily empty (a callback cancelled everything and then started a
    new request under the same lock) may report success only with nothing outstanding"""
    bad = []
    for line in out:
        m = re.match(r"waitempty (\w+) status=(-?\d+) active=(-?\d+) elapsed=(-?\d+) wait=(\d+)", line)
        if not m:
            if "unsupported" not in line:
                bad.append(("thread-harness-output", line[:100]))
            continue
        ev, st, active, el, wait = m.group(1), int(m.group(2)), int(m.group(3)), int(m.group(4)), int(m.group(5))
        if st == 0 and active != 0:
            bad.append(("wait-empty-unsound", "ares_queue_wait_empty(%d ms) returned ARES_SUCCESS after %d ms with %d request(s) "
                        "outstanding (%s): woken by the notification of a momentarily empty queue and not re-checked" % (wait, el, active, ev)))
        elif st not in (0, 12):
            bad.append(("unexpected-status", "waitempty/%s status %d" % (ev, st)))
    return bad


def waitempty_stream():
    return Stream("wait-empty-renotify", "h_thread", None, gen_waitempty, monitor=mon_waitempty,
                  nontrivial=lambda c, o: any("status=" in l for l in o), timeout=600,
                  opkind=lambda l: " ".join(l.split()[:2]))


def timing_stream():
    return Stream("event-thread-timing", "h_thread", None, gen_timing, monitor=mon_timing,
                  nontrivial=lambda c, o: any("completed=1" in l for l in o), timeout=1200,
                  opkind=lambda l: " ".join(l.split()[:3]))


def stress_stream(flavour="asan", name="thread-stress"):
    env = {"TSAN_OPTIONS": "exitcode=66 halt_on_error=1 second_deadlock_stack=1"} if flavour == "tsan" else None
    return Stream(name, "h_thread", None, gen_stress, monitor=mon_stress, flavour=flavour, env=env,
                  nontrivial=lambda c, o: any("accepted=" in l for l in o), timeout=1800,
                  opkind=lambda l: " ".join(l.split()[:2]))
