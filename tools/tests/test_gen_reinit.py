"""Self-test of gen_reinit.py: the current tree and the source variants written by mk_variants.py."""
import os, subprocess, sys, tempfile
HERE = os.path.dirname(os.path.abspath(__file__))
sys.path.insert(0, HERE)
import gen_reinit
REPO = sys.argv[1] if len(sys.argv) > 1 else "/repo"
subprocess.check_call([sys.executable, os.path.join(HERE, "mk_variants.py"), REPO], stdout=subprocess.DEVNULL)
V = os.path.join(HERE, "..", "variants")
GOOD = ["readConfig", "lock", "flush", "clearPending", "unlock"]
EXPECT = {
    REPO: (GOOD, True, False),
    os.path.join(V, "regression-clear-early"): (["lock", "clearPending", "unlock", "readConfig", "lock", "flush", "unlock"], True, False),
    os.path.join(V, "reinit-join-unlocked"): (GOOD, False, False),
    os.path.join(V, "destroy-join-locked"): (GOOD, True, True),
    os.path.join(V, "clear-after-unlock"): (["readConfig", "lock", "flush", "unlock", "clearPending"], True, False),
    os.path.join(V, "unparsable-conditional-lock"): None,
}
bad = 0
for repo, exp in EXPECT.items():
    try:
        x = gen_reinit.extract(repo)
        got = (x["prog"], x["joinHoldsLock"], x["destroyJoinHoldsLock"])
    except gen_reinit.ParseError as e:
        got = None
        msg = str(e)
    ok = got == exp
    bad += not ok
    print("%-4s %-40s %s" % ("ok" if ok else "FAIL", os.path.basename(os.path.normpath(repo)),
                             got if got is not None else "ParseError: " + msg))
sys.exit(1 if bad else 0)
