"""Writes source variants (temp trees with only the three files gen_reinit.py reads) used to test the translator."""
import os, shutil, sys
REPO = sys.argv[1] if len(sys.argv) > 1 else "/repo"
BASE = os.path.join(os.path.dirname(os.path.abspath(__file__)), "..", "variants")
FILES = ["ares_init.c", "ares_destroy.c", "ares_sysconfig.c"]

def tree(name, edits):
    d = os.path.join(BASE, name, "src", "lib")
    os.makedirs(d, exist_ok=True)
    for f in FILES:
        txt = open(os.path.join(REPO, "src", "lib", f)).read()
        for (ff, old, new) in edits:
            if ff == f:
                assert txt.count(old) == 1, (name, f, old[:40], txt.count(old))
                txt = txt.replace(old, new)
        open(os.path.join(d, f), "w").write(txt)

# 1. the regression: reinit_pending cleared in a short locked section at the START of the thread, L taken again later
tree("regression-clear-early", [
    ("ares_init.c",
     "  status = ares_init_by_sysconfig(channel);\n  if (status != ARES_SUCCESS) {\n    DEBUGF(",
     "  /* let the next ares_reinit() request through as soon as this one has started */\n"
     "  ares_channel_lock(channel);\n  channel->reinit_pending = ARES_FALSE;\n  ares_channel_unlock(channel);\n\n"
     "  status = ares_init_by_sysconfig(channel);\n  if (status != ARES_SUCCESS) {\n    DEBUGF("),
    ("ares_init.c",
     "  channel->reinit_pending = ARES_FALSE;\n  ares_channel_unlock(channel);\n\n  return NULL;",
     "  ares_channel_unlock(channel);\n\n  return NULL;"),
])
# 2. upstream 1.34.5 shape of ares_reinit(): unlock right after setting reinit_pending, join/create without L
tree("reinit-join-unlocked", [
    ("ares_init.c", "  channel->reinit_pending = ARES_TRUE;\n\n  if (ares_threadsafety()) {",
     "  channel->reinit_pending = ARES_TRUE;\n  ares_channel_unlock(channel);\n\n  if (ares_threadsafety()) {"),
    ("ares_init.c", "      channel->reinit_pending = ARES_FALSE;\n      /* LCOV_EXCL_STOP */\n    }\n    ares_channel_unlock(channel);\n  } else {\n    ares_channel_unlock(channel);\n",
     "      ares_channel_lock(channel);\n      channel->reinit_pending = ARES_FALSE;\n      ares_channel_unlock(channel);\n      /* LCOV_EXCL_STOP */\n    }\n  } else {\n"),
])
# 3. ares_destroy() joins the reload thread inside its first locked section
tree("destroy-join-locked", [
    ("ares_destroy.c", "  channel->sys_up = ARES_FALSE;\n  ares_channel_unlock(channel);\n",
     "  channel->sys_up = ARES_FALSE;\n  if (channel->reinit_thread != NULL) {\n    void *rv0;\n    ares_thread_join(channel->reinit_thread, &rv0);\n    channel->reinit_thread = NULL;\n  }\n  ares_channel_unlock(channel);\n"),
    ("ares_destroy.c", "  if (channel->reinit_thread != NULL) {\n    void *rv;\n    ares_thread_join(channel->reinit_thread, &rv);\n    channel->reinit_thread = NULL;\n  }\n", ""),
])
# 4. not straight-line: the final locked section only on success -> extraction failure expected
tree("unparsable-conditional-lock", [
    ("ares_init.c", "  ares_channel_lock(channel);\n\n  /* Flush cached queries on reinit */",
     "  if (status == ARES_SUCCESS) {\n    ares_channel_lock(channel);\n  }\n\n  /* Flush cached queries on reinit */"),
])
# 5. thread clears reinit_pending after its last unlock (no lock, data race on the flag)
tree("clear-after-unlock", [
    ("ares_init.c", "  channel->reinit_pending = ARES_FALSE;\n  ares_channel_unlock(channel);\n\n  return NULL;",
     "  ares_channel_unlock(channel);\n  channel->reinit_pending = ARES_FALSE;\n\n  return NULL;"),
])
print("variants written to", os.path.normpath(BASE))
