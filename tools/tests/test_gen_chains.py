"""Self-test of gen_hostcb.py, gen_waitempty.py and gen_timeval.py: for the current tree and for rewritten copies of the
three C functions, regenerate the Lean definition into a scratch copy of the Lean project and check whether the property
file still compiles.  Expected: the current tree and behaviour-preserving rewrites are accepted, the seeded regressions
(C13-8, the tree before F50, C11-5, C07-4) are rejected by a failing theorem, constructs outside the translators' small
languages are extraction failures.

usage: python3 tools/tests/test_gen_chains.py [/repo]      (a few minutes; builds in a scratch directory, removed afterwards)"""
import os
import shutil
import subprocess
import sys
import tempfile

HERE = os.path.dirname(os.path.abspath(__file__))
TOOLS = os.path.dirname(HERE)
sys.path.insert(0, TOOLS)
REPO = sys.argv[1] if len(sys.argv) > 1 else "/repo"
import vlib  # noqa: E402
import gen_hostcb  # noqa: E402
import gen_waitempty  # noqa: E402
import gen_timeval  # noqa: E402


def src(rel):
    return open(os.path.join(REPO, rel)).read()


def must(s, old, new):
    assert old in s, "pattern not found: %r" % old[:60]
    return s.replace(old, new, 1)


GAI = src("src/lib/ares_getaddrinfo.c")
THR = src("src/lib/util/ares_threads.c")
TMO = src("src/lib/ares_timeout.c")

CASES = [
    # (translator, relative path, variant name, source text, expectation: "accept" | "reject" | "extraction-failure")
    ("hostcb", "src/lib/ares_getaddrinfo.c", "current", GAI, "accept"),
    ("hostcb", "src/lib/ares_getaddrinfo.c", "swap-or-operands",
     must(GAI, "status == ARES_EDESTRUCTION || status == ARES_ECANCELLED) {\n      /* must",
          "status == ARES_ECANCELLED || status == ARES_EDESTRUCTION) {\n      /* must"), "accept"),
    ("hostcb", "src/lib/ares_getaddrinfo.c", "nodes-ne-null",
     must(GAI, "} else if (hquery->ai->nodes) {", "} else if (hquery->ai->nodes != NULL) {"), "accept"),
    ("hostcb", "src/lib/ares_getaddrinfo.c", "nomem-only-without-nodes",
     must(GAI, "} else if (hquery->nomem) {", "} else if (hquery->nomem && !hquery->ai->nodes) {"), "reject"),
    ("hostcb", "src/lib/ares_getaddrinfo.c", "nomem-test-dropped",
     must(GAI, "} else if (hquery->nomem) {", "} else if (hquery->nomem && status == ARES_ENOMEM) {"), "reject"),
    ("hostcb", "src/lib/ares_getaddrinfo.c", "cancel-returns-partial",
     must(GAI, "if (status == ARES_EDESTRUCTION || status == ARES_ECANCELLED) {\n      /* must",
          "if ((status == ARES_EDESTRUCTION || status == ARES_ECANCELLED) && !hquery->ai->nodes) {\n      /* must"), "reject"),
    ("hostcb", "src/lib/ares_getaddrinfo.c", "unknown-construct",
     must(GAI, "} else if (hquery->nomem) {", "} else if (hquery->nomem && 0 == 0) {"), "extraction-failure"),
    ("waitempty", "src/lib/util/ares_threads.c", "current", THR, "accept"),
    ("waitempty", "src/lib/util/ares_threads.c", "yoda",
     must(THR, "if (status == ARES_ETIMEOUT) {\n        break;", "if (ARES_ETIMEOUT == status) {\n        break;"), "accept"),
    ("waitempty", "src/lib/util/ares_threads.c", "unconditional-break (C11-5)",
     must(THR, "      if (status == ARES_ETIMEOUT) {\n        break;\n      }\n    }\n  }\n  ares_thread_mutex_unlock(channel->lock);",
          "      break;\n    }\n  }\n  ares_thread_mutex_unlock(channel->lock);"), "reject"),
    ("waitempty", "src/lib/util/ares_threads.c", "unlock-before-loop",
     must(THR, "  ares_thread_mutex_lock(channel->lock);\n  while (ares_llist_len(channel->all_queries)) {",
          "  ares_thread_mutex_lock(channel->lock);\n  ares_thread_mutex_unlock(channel->lock);\n  while (ares_llist_len(channel->all_queries)) {"),
     "reject"),
    ("waitempty", "src/lib/util/ares_threads.c", "continue-statement",
     must(THR, "if (status == ARES_ETIMEOUT) {\n        break;\n      }", "if (status != ARES_ETIMEOUT) {\n        continue;\n      }\n      break;"),
     "extraction-failure"),
    ("timeval", "src/lib/ares_timeout.c", "current", TMO, "accept"),
    ("timeval", "src/lib/ares_timeout.c", "equivalent-expiry-test",
     must(TMO, "if (tout->sec < now->sec ||\n      (tout->sec == now->sec && tout->usec < now->usec)) {",
          "if (now->sec > tout->sec ||\n      (tout->sec == now->sec && tout->usec <= now->usec)) {"), "accept"),
    ("timeval", "src/lib/ares_timeout.c", "component-wise (C07-4)",
     must(TMO, "if (tout->sec < now->sec ||\n      (tout->sec == now->sec && tout->usec < now->usec)) {",
          "if (tout->sec <= now->sec && tout->usec <= now->usec) {"), "reject"),
    ("timeval", "src/lib/ares_timeout.c", "borrow-forgotten",
     must(TMO, "    remaining->sec  -= 1;\n", ""), "reject"),
]

GEN = {"hostcb": (gen_hostcb, "gen_hostcb", "HostCb.lean", "CaresProps/C13c.lean"),
       "waitempty": (gen_waitempty, "gen_waitempty", "WaitEmpty.lean", "CaresProps/C11c.lean"),
       "timeval": (gen_timeval, "gen_timeval", "Timeval.lean", "CaresProps/C07c.lean")}


def main():
    scratch = tempfile.mkdtemp(prefix="gen-chains-")
    bad = 0
    try:
        lean = os.path.join(scratch, "lean")
        shutil.copytree(vlib.LEAN, lean, symlinks=True)
        fake = os.path.join(scratch, "repo")
        for kind, rel, name, text, expect in CASES:
            mod, fn, outname, prop = GEN[kind]
            shutil.rmtree(fake, ignore_errors=True)
            os.makedirs(os.path.dirname(os.path.join(fake, rel)))
            open(os.path.join(fake, rel), "w").write(text)
            vlib.REPO = fake
            mod.OUT = os.path.join(lean, "CaresModel", "Generated", outname)
            try:
                getattr(mod, fn)()
                r = subprocess.run(["lake", "build", prop.replace("/", ".")[:-5]], cwd=lean, stdout=subprocess.PIPE,
                                   stderr=subprocess.STDOUT, text=True)
                got = "accept" if r.returncode == 0 else "reject"
            except Exception as e:   # ParseError of the respective module
                if type(e).__name__ != "ParseError":
                    raise
                got = "extraction-failure"
            ok = got == expect
            bad += not ok
            print("%-4s %-10s %-34s %s" % ("ok" if ok else "FAIL", kind, name, got), flush=True)
    finally:
        shutil.rmtree(scratch, ignore_errors=True)
    return 1 if bad else 0


if __name__ == "__main__":
    sys.exit(main())
