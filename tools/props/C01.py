"""C01 - every request completes exactly once (channel simulator family)."""
import simlib
import simprops
import vlib

ID = "C01"
IMPORTS = ["CaresProps.C01", "CaresProps.C01b"]
DRIVER_MODULES = ["Driver.SimMain"]
LEAN_TARGETS = ["CaresProps.C01", "CaresProps.C01b", "driver_sim"]
THEOREMS = vlib.discover_theorems("CaresProps/C01.lean") + vlib.discover_theorems("CaresProps/C01b.lean")
TRUSTED = [
    "Lean 4.33.0 kernel; axioms allowed: propext, Classical.choice, Quot.sound",
    "hand-written channel model lean/CaresModel/Chan/{Types,Client,Core}.lean (exec: request life cycle of ares_send.c, "
    "ares_process.c, ares_conn.c, ares_close_sockets.c, ares_cancel.c, ares_destroy.c, ares_query.c, ares_search.c against "
    "a virtual socket layer), tied to the code by the h_sim correspondence stream: same scenario lines to the real channel "
    "(virtual sockets via ares_set_socket_functions_ex, virtual clock and scripted RNG via the guarded hooks) and to the "
    "compiled Lean driver, event lines diffed",
    "harness/h_sim.c (virtual socket layer, virtual server, callback reactions), tools/simlib.py (scenario generator), "
    "tools/simprops.py (direct property monitors), tools/runner.py",
    "free choices of the implementation (query ids, 0x20 case, cookie bytes, rotation pick, probe lottery, jitter) are "
    "observed from the trace, checked against the set the policy allows, and fed to the model; theorems quantify over all of them",
    "Lean compiler (driver_sim is the compiled form of the definitions the kernel checked)",
]
ASSUMPTIONS = [
    "virtual sockets/clock/RNG are representative of real ones; IPv4 servers only; no system configuration is read",
    "allocation succeeds (C14 covers failures); single-threaded use (C11 covers threads)",
    "C-level memory safety is observed under ASan/UBSan on the explored scenarios, not proved",
]
RULE = ("scenarios are generated from VERIF_SEED by tools/simlib.py (channel options, request kinds, per-transmission server "
        "behaviours incl. forged/late replies, timer advances, socket failures, callback reactions that send or cancel); "
        "a case is non-trivial when at least one completion callback fired; distinct by hash of its op lines")
EXPLANATION = 'Invariant proofs over the channel model (ownership/index invariant, callback accounting, no use of released objects) + step-wise correspondence of the real channel with the model on generated histories incl. re-entrant callbacks; monitors: per-token callback count, completion after cancel/destroy, sanitizers.'


STREAMS = [
    simlib.sim_stream("reentrant", {"react_prob": 0.7, "cancel_w": 0.05, "sockfail_w": 0.08, "react_cancel_w": 2,
                                    "kinds": [("send", 3), ("query", 1), ("search", 2)]}, simprops.mon_c01,
                      quick_n=500, thorough_n=12000, quick_ops=40, thorough_ops=150),
    simlib.sim_stream("plain", {"kinds": [("send", 2), ("query", 1), ("search", 2)], "cancel_w": 0.06}, simprops.mon_c01,
                      quick_n=300, thorough_n=8000, quick_ops=40, thorough_ops=150),
    simlib.sim_stream("gai", {"react_prob": 0.5, "cancel_w": 0.05, "sockfail_w": 0.06, "cache_prob": 0.5,
                              "kinds": [("gai", 4), ("query", 1), ("send", 1)], "qtypes": [1, 1, 28]}, simprops.mon_c01,
                      quick_n=250, thorough_n=8000, quick_ops=30, thorough_ops=120),
    simlib.gai_sync_stream(simprops.mon_c01),
    # callbacks that take (virtual) time before they react: monitors only
    simlib.late_reaction_stream(simprops.mon_c01),
    # front ends outside the channel model: callbacks exactly once is checked by monitors only
    simlib.lookups_stream(lambda c, o: simprops.mon_c01(c, o) + simprops.mon_c10(c, o), quick_n=200),
]

LEVEL_TEXT = 'Proof: Lean 4 invariants over the channel model for every history (any interleaving of API calls, replies, timer expiry, socket failures, and API calls made from inside callbacks): index/ownership well-formedness, no released query/connection/compound request is used again, no token is called back twice, cancel/destroy complete everything and after a completed destroy no connection is left (C01b). Tie: the real channel is run against the model step by step on generated re-entrant histories under ASan/UBSan; monitors count callbacks per token.'
LEVEL_NOTE = "Trusted: Lean kernel; the hand-written model's faithfulness as far as the correspondence stream exercises it (entry points raw send / query / search / getaddrinfo; gethostbyname, gethostbyaddr, getnameinfo are not modelled); virtual sockets, clock and RNG. Heap safety itself is observed (ASan), not proved."
TECHNIQUE = 'Lean 4 invariant proof over an executable channel state machine + differential trace correspondence with the real channel'
