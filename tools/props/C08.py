"""C08 - the query cache only replays fresh, matching, successful answers."""
from props import _proto

ID = "C08"
IMPORTS = ["CaresProps.C08"]
LEAN_TARGETS = ["CaresProps.C08", "driver_proto"]
THEOREMS = [
    "Cares.C08.key_format_numeric",
    "Cares.C08.rr_get_ttl_decrements",
    "Cares.C08.tolower_tables_agree",
    "Cares.C08.key_injective",
    "Cares.C08.hit_sound_inv",
    "Cares.C08.hit_sound",
    "Cares.C08.entries_from_inserts",
    "Cares.C08.no_dangling",
    "Cares.C08.max_ttl_zero_never_hits",
    "Cares.C08.flush_empties",
    "Cares.C08.flush_empties_history",
    "Cares.C08.ttl_visible_decremented",
    "Cares.C08.c08_f13_pinned_key_collision",
    "Cares.C08.c08_f12_pinned_ttl_not_decremented",
]
GENERATORS = _proto.generators()
TRUSTED = [
    "Lean 4.33.0 kernel; axioms allowed: propext, Classical.choice, Quot.sound",
    "hand-written Lean model of ares_qcache.c (CaresModel/Proto/Qcache.lean: key, insert filter and TTL rules, expiry "
    "list + case-insensitive table with coexisting equal keys, fetch, flush, TTL exposure), tied to the code by the "
    "`cache` correspondence stream: ares_qcache_insert / ares_qcache_fetch / ares_qcache_flush / ares_set_servers_csv are "
    "called in-process on a real channel with records built through the public ares_dns_record_* API; hit/miss, the "
    "identity of the replayed response and the TTLs read through ares_dns_rr_get_ttl and through ares_dns_write + "
    "ares_dns_parse are diffed against the compiled model",
    "tools/gen_proto_consts.py: observed key format (QCACHE_KEY_FORMAT), observed ares_dns_rr_get_ttl behaviour, opcode "
    "tostr table, ares_tolower and libc tolower tables, rcode/class/type constants",
    "harness/h_proto.c, tools/runner.py, tools/props/_proto.py (generator; python reference cache keyed by (opcode, rd, cd, "
    "type, class, lower-case name) as the direct monitor), the Lean compiler (driver_proto)",
]
ASSUMPTIONS = [
    "allocation succeeds",
    "only requests the library can have sent are ever stored (one question, question name made of host name characters, "
    "no '|': ares_dns_write validates question names and ares_dns_parse refuses QDCOUNT != 1); looked-up requests are "
    "arbitrary API records.  A multi-question request can otherwise share a key with a single-question one whose name "
    "contains '|' (kernel-checked in the model, unreachable through the library)",
    "strcasecmp of the string table folds like libc tolower in the C locale; the hash uses ares_tolower; both tables are "
    "regenerated and proved equal",
    "flush on server-list change / reinit is exercised here only through ares_set_servers_csv with a changed server set; "
    "a pure re-ordering of the same servers does not flush (observation); the channel-level statement belongs to the "
    "simulator",
    "time does not run backwards (ttl_visible_decremented)",
]
EXPLANATION = ("Lean theorems over all histories of insert/fetch/flush with explicit instants (invariant by induction over "
               "the history), key injectivity from decide facts over regenerated tables; differential correspondence of "
               "the real cache against the compiled model; python reference cache as monitor.")
STREAMS = [_proto.cache_stream()]
RULE = ("cases are generated from VERIF_SEED (TTL mixes incl. 0 and 2^32-1, negative answers with/without SOA, TC, error "
        "rcodes, OPT/SOA/SIG records, expiry boundaries T-1/T/T+1, trailing dot, letter case, RD/CD, opcodes, unnamed "
        "types 43/48/99/65535, max_ttl 0, flush and server-list changes, odd look-up names and two-question look-ups); a "
        "case is non-trivial when at least one fetch was a hit; distinct by hash of the op lines")
LEVEL_TEXT = ("Proof: Lean 4 theorems, for every history of cache inserts, fetches and flushes at arbitrary instants: a hit "
              "returns a response stored earlier for a request with the same opcode, RD/CD, type, class and name (case and "
              "one trailing dot ignored), not later than min(max_ttl, lifetime of its own TTLs), with rcode NOERROR/NXDOMAIN "
              "and without TC; key equality <=> same cache class (from decide facts over regenerated tables); max_ttl 0 "
              "never hits; flush empties; every TTL visible through ares_dns_write and ares_dns_rr_get_ttl is reduced by the "
              "time cached; the table never points at a released entry. Tie: the real ares_qcache_* functions are run "
              "in-process against the compiled model, and a python reference cache monitors the property on the "
              "implementation. Flush on reinit and the 'no transmission' observable are the channel simulator's part.")
LEVEL_NOTE = ("Trusted: Lean kernel (axioms propext, Classical.choice, Quot.sound only); faithfulness of the hand-written "
              "model as far as the correspondence stream exercises it; the probe in tools/gen_proto_consts.py; harness/"
              "h_proto.c; runner. Needs the numeric cache key (F13) and ares_dns_rr_get_ttl applying ttl_decrement (F12): on a "
              "tree without those fixes the two table obligations fail and the monitors produce failing inputs.")
TECHNIQUE = "Lean 4 invariant proof over operation histories + decide over regenerated tables + differential correspondence + reference-cache monitor"
