"""Shared by C17 (cookies), C08 (query cache) and C06a (timeout arithmetic): generators, python references that
evaluate the property directly on the implementation's outputs, and the stream definitions for `h_proto` /
`driver_proto`.  Everything is seeded from the `rng` handed in by the runner."""
from runner import Stream

HARNESS = "h_proto"
DRIVER = "driver_proto"

# ------------------------------------------------------------------------------------------------------------------
# C17 - reference client of RFC 7873 as described in the implementation plan at the top of ares_cookie.c
# (written from that text, not from the Lean model; time is an integer number of microseconds)

REGRESSION_MS = 120 * 1000
UNSUPPORTED_RETRY_MS = 120 * 1000      # the code uses the regression constant here (comment says 300 s): observation
CLIENT_ROTATE_MS = 86400 * 1000
RESEND_MAX = 3
BADCOOKIE = 23


class RefCookie:
    """per-server cookie state"""

    def __init__(self):
        self.clear()

    def clear(self):
        self.state = "initial"
        self.client = bytes(8)
        self.client_ts = None
        self.client_ip = None
        self.server = b""
        self.unsup_ts = None          # None = not set

    def _gen(self, ip, now, fresh):
        self.client = fresh
        self.client_ts = now
        self.client_ip = ip

    def apply(self, has_opt, tcp, ip, now, fresh):
        """returns (cookie or None or 'noopt', cause) ; cause names why the client cookie was (re)generated"""
        if not has_opt:
            return "noopt", None
        if tcp:
            return None, None
        cause = None
        if self.state == "supported" and self.unsup_ts is not None and (now - self.unsup_ts) // 1000 >= REGRESSION_MS:
            self.clear()
            cause = "regression-window"
        if self.state == "unsupported":
            if (now - self.unsup_ts) // 1000 < UNSUPPORTED_RETRY_MS:
                return None, "quiet"
            self.clear()
            cause = "unsupported-retry"
        if self.state == "initial":
            self._gen(ip, now, fresh)
            self.state = "generated"
            cause = cause or "initial"
        if self.state in ("generated", "supported") and ip != self.client_ip:
            self.server = b""
            self._gen(ip, now, fresh)
            cause = "ip-change"
        if self.state == "supported" and (now - self.client_ts) // 1000 >= CLIENT_ROTATE_MS:
            self.server = b""
            self._gen(ip, now, fresh)
            cause = "rotation"
        return self.client + self.server, cause

    def validate(self, q, req_cookie, resp_cookie, rcode, now):
        """q = dict(ctc, tcp); returns (verdict, requeue, reason)"""
        if resp_cookie is not None and (len(resp_cookie) < 8 or len(resp_cookie) > 40):
            return "drop", 0, "length-8-to-40"
        if req_cookie is None:
            return "accept", 0, "no-cookie-requested"
        if resp_cookie is not None and resp_cookie[:8] != req_cookie[:8]:
            return "drop", 0, "bad-client-part"
        if resp_cookie is not None and len(resp_cookie) > 8 and self.state in ("generated", "supported"):
            # support is only recorded while a client cookie is in use (a reply that arrives after a reset must not
            # leave the client in SUPPORTED with the all-zero cookie of the cleared state)
            self.state = "supported"
            self.unsup_ts = None
            if self.client == req_cookie[:8]:
                self.server = resp_cookie[8:]
        if rcode == BADCOOKIE:
            if resp_cookie is None:
                return "drop", 0, "badcookie-without-cookie"
            q["ctc"] += 1
            if q["ctc"] >= RESEND_MAX:
                q["tcp"] = 1
            return "drop", 1, "badcookie-resend-limit"
        if resp_cookie is not None and len(resp_cookie) > 8:
            return "accept", 0, "valid-cookie"
        if self.state == "supported":
            if self.unsup_ts is None:
                self.unsup_ts = now
            return "drop", 0, "supported-requires-cookie"
        if self.state == "generated":
            self.clear()
            self.state = "unsupported"
            self.unsup_ts = now
        return "accept", 0, "never-cookie-server"


def _spec(b):
    if b is None:
        return "none"
    if b == "noopt":
        return "noopt"
    return b.hex() if len(b) else "-"


def _unspec(s):
    if s == "none":
        return None
    if s == "noopt":
        return "noopt"
    return b"" if s == "-" else bytes.fromhex(s)


def _rb(rng, n):
    return bytes(rng.getrandbits(8) for _ in range(n))


IPS = ["0a000064", "0a000065", "c0a80001", "20010db8000000000000000000000001", "20010db8000000000000000000000002",
       "-"]            # "-" = local address unknown (socket functions without getsockname)
ADVANCES_MS = [1, 999, 1000, 1001, 59000, 60000, 119999, 120000, 120001, 121000, 180000, 299999, 300000, 300001,
               86399000, 86400000, 86400001, 90000000]


def gen_cookie(rng, tier):
    ncases = 500 if tier == "quick" else 30000
    maxops = 45 if tier == "quick" else 140
    cases = []
    for ci in range(ncases):
        behaviour = rng.choice(["none", "valid", "changed", "wrongclient", "badcookie", "disappear", "mixed", "mixed",
                                "reappear", "lengths"])
        whole = rng.random() < 0.4          # keep the clock on whole seconds (usec = 0): F18 lives there
        start_sec = rng.choice([1, 1000, 86400, 1700000000, rng.randint(1, 2000000000)])
        start_usec = 0 if whole else rng.randint(0, 999999)
        now = start_sec * 1000000 + start_usec
        ops = ["chan nsrv=2 tries=4", "time %d %d" % (start_sec, start_usec)]
        ref = [RefCookie(), RefCookie()]
        qs = {}                              # q -> dict(req=cookie spec as the reference predicts it, ctc, tcp, srv)
        ip = rng.choice(IPS)
        srv_cookie = [_rb(rng, rng.choice([8, 8, 16, 32])), _rb(rng, 8)]
        good_left = rng.randint(1, 6)
        nops = rng.randint(4, maxops)
        nextq = 0
        for _ in range(nops):
            r = rng.random()
            outstanding = [q for q in qs if qs[q].get("sent")]
            if r < 0.42 or not outstanding:
                # (re)send a query
                if outstanding and rng.random() < 0.35:
                    q = rng.choice(outstanding)
                else:
                    q = nextq % 12
                    nextq += 1
                    style = rng.random()
                    if style < 0.08:
                        spec = "noopt"
                    elif style < 0.16:
                        spec = _rb(rng, rng.choice([0, 4, 8, 16, 40, 41])).hex() or "-"
                    else:
                        spec = "none"
                    tcp0 = 1 if rng.random() < 0.05 else 0
                    qs[q] = {"req": spec, "ctc": 0, "tcp": tcp0}
                    ops.append("qnew %d %s %d 0" % (q, spec, tcp0))
                srv = 0 if rng.random() < 0.85 else 1
                if rng.random() < 0.07:
                    ip = rng.choice(IPS)
                tcp = qs[q]["tcp"] if rng.random() < 0.93 else 1 - qs[q]["tcp"]
                fresh = _rb(rng, 8)
                ops.append("apply %d %d %s %d %s" % (q, srv, ip, tcp, fresh.hex()))
                has_opt = qs[q]["req"] != "noopt"
                c, _ = ref[srv].apply(has_opt, bool(tcp), ip, now, fresh)
                qs[q]["req"] = _spec(c)
                qs[q]["sent"] = True
                qs[q]["srv"] = srv
            elif r < 0.80:
                q = rng.choice(outstanding)
                srv = qs[q]["srv"] if rng.random() < 0.95 else 1 - qs[q]["srv"]
                reqc = _unspec(qs[q]["req"])
                reqc = None if reqc in (None, "noopt") else reqc
                b = behaviour
                if b == "mixed":
                    b = rng.choice(["none", "valid", "valid", "changed", "wrongclient", "badcookie", "lengths"])
                if b == "disappear":
                    b = "valid" if good_left > 0 else "none"
                    good_left -= 1
                if b == "reappear":
                    b = "none" if good_left > 0 else "valid"
                    good_left -= 1
                rcode = rng.choice([0, 0, 0, 0, 3, 2, 5])
                base = reqc[:8] if reqc is not None and len(reqc) >= 8 else _rb(rng, 8)
                if b == "none":
                    resp = rng.choice(["none", "none", "noopt"])
                elif b == "valid":
                    resp = (base + srv_cookie[srv]).hex()
                elif b == "changed":
                    srv_cookie[srv] = _rb(rng, rng.choice([8, 9, 16, 31, 32]))
                    resp = (base + srv_cookie[srv]).hex()
                elif b == "wrongclient":
                    wrong = bytearray(base)
                    wrong[rng.randint(0, 7)] ^= 1 << rng.randint(0, 7)
                    resp = (bytes(wrong) + srv_cookie[srv]).hex()
                elif b == "badcookie":
                    rcode = BADCOOKIE
                    resp = rng.choice([(base + srv_cookie[srv]).hex()] * 4 + ["none", base.hex()])
                else:  # lengths
                    n = rng.choice([0, 1, 7, 8, 9, 39, 40, 41, 64])
                    full = base + _rb(rng, 64)
                    resp = full[:n].hex() if n else "-"
                ops.append("validate %d %d %s %d" % (q, srv, resp, rcode))
                rc = _unspec(resp)
                rc = None if rc in (None, "noopt") else rc
                ref[srv].validate(qs[q], reqc, rc, rcode, now)
            else:
                ms = rng.choice(ADVANCES_MS) if rng.random() < 0.8 else rng.randint(1, 200000)
                us = ms * 1000 if whole or rng.random() < 0.5 else ms * 1000 + rng.randint(0, 999)
                if whole:
                    us = (us // 1000000 + 1) * 1000000 if us % 1000000 else us
                ops.append("adv %d" % us)
                now += us
        cases.append(ops)
    # a small malformed stream
    for _ in range(5 if tier == "quick" else 50):
        cases.append([rng.choice(["apply 0 0 0a000064 0", "validate 99 0 none 0", "qnew 1 2", "qnew 3 none 0 0",
                                  "apply 3 7 0a000064 0 0011223344556677", "apply 3 0 0a00 0 0011223344556677",
                                  "validate 3 0 none 12", "validate 0 0 none 0", "bogus"])
                      for _ in range(rng.randint(1, 6))])
    return cases


def mon_cookie(case, out):
    """reference client run next to the implementation; the first difference is reported under the clause of the
    property it belongs to"""
    ref = {}
    qs = {}
    now = 1000 * 1000000
    last_client = {}
    fresh_seen = {}
    for line, o in zip(case, out):
        t = line.split()
        if not t:
            continue
        if t[0] == "chan":
            ref, qs, last_client, fresh_seen = {}, {}, {}, {}
        elif t[0] == "time" and len(t) == 3:
            now = int(t[1]) * 1000000 + int(t[2])
        elif t[0] == "adv" and len(t) == 2:
            now += int(t[1])
        elif t[0] == "qnew" and len(t) == 5 and o == "ok":
            qs[t[1]] = {"req": t[2], "ctc": int(t[4]), "tcp": 1 if int(t[3]) else 0}
        elif t[0] == "apply" and len(t) == 6 and t[1] in qs and o.startswith("cookie="):
            srv = t[2]
            r = ref.setdefault(srv, RefCookie())
            q = qs[t[1]]
            tcp = int(t[4]) != 0
            prev_client = r.client if r.state in ("generated", "supported") else None
            exp, cause = r.apply(q["req"] != "noopt", tcp, t[3], now, bytes.fromhex(t[5]))
            got = o.split()[0][len("cookie="):]
            gb = _unspec(got)
            if gb not in (None, "noopt") and gb[:8] not in fresh_seen.setdefault(srv, set()) | {bytes.fromhex(t[5])}:
                return [("client-cookie-not-random", "%s: client part %s was never drawn from the RNG for this server"
                         % (line, gb[:8].hex()))]
            fresh_seen.setdefault(srv, set()).add(bytes.fromhex(t[5]))
            if got != _spec(exp):
                g = _unspec(got)
                if tcp and g not in (None, "noopt"):
                    return [("never-on-tcp", "cookie %s sent over TCP (%s)" % (got, line))]
                if exp is None and g is not None:
                    return [("cookie-to-unsupporting-server", "%s: sent %s, expected none" % (line, got))]
                if g in (None, "noopt"):
                    return [("cookie-missing", "%s: no cookie sent, expected %s" % (line, _spec(exp)))]
                if g[:8] != exp[:8]:
                    if cause in ("regression-window", "unsupported-retry", "ip-change", "rotation", "initial"):
                        return [(cause, "%s: client cookie %s kept/sent where a fresh one (%s) was due (%s)"
                                 % (line, g[:8].hex(), exp[:8].hex(), cause))]
                    return [("client-cookie-changed", "%s: client cookie changed from %s to %s without IP change, "
                             "rotation or reset" % (line, (prev_client or b"").hex(), g[:8].hex()))]
                return [("echo-server-cookie", "%s: server part sent %s, latest received %s"
                         % (line, g[8:].hex(), exp[8:].hex()))]
            q["req"] = got
        elif t[0] == "validate" and len(t) == 5 and t[1] in qs and (o.startswith("accept") or o.startswith("drop")):
            srv = t[2]
            r = ref.setdefault(srv, RefCookie())
            q = qs[t[1]]
            reqc = _unspec(q["req"])
            reqc = None if reqc in (None, "noopt") else reqc
            rc = _unspec(t[3])
            rc = None if rc in (None, "noopt") else rc
            state_before = r.state
            verdict, rq, reason = r.validate(q, reqc, rc, int(t[4]), now)
            f = o.split()
            got = (f[0], int(f[1][3:]), int(f[2][4:]), int(f[3][4:]))
            if got[0] != verdict:
                if verdict == "drop":
                    return [(reason, "%s: response accepted, must be dropped (%s, state %s)" % (line, reason, state_before))]
                return [("dropped-acceptable-response:" + reason,
                         "%s: response dropped, the client must use it (%s, state %s)" % (line, reason, state_before))]
            if got[1:] != (rq, q["ctc"], q["tcp"]):
                return [("badcookie-resend-limit", "%s: requeue/cookie_try_count/using_tcp = %s, expected %s"
                         % (line, got[1:], (rq, q["ctc"], q["tcp"])))]
    return []


def nt_cookie(case, out):
    return any(o.startswith("cookie=") and len(o.split()[0]) > 15 for o in out) and \
        any(o.startswith("accept") or o.startswith("drop") for o in out)


def cookie_stream():
    return Stream("cookie", HARNESS, DRIVER, gen_cookie, monitor=mon_cookie, nontrivial=nt_cookie,
                  opkind=lambda l: l.split()[0] if l.split() else "")


# ------------------------------------------------------------------------------------------------------------------
# C08 - query cache

NAMES = [b"example.com", b"a", b"www.example.com", b"x.y.z", b"", b"ab", b"a|1|1|b", b"a|A|IN|b", b"b", b"Ex\\.am.ple",
         b"xn--nxasmq6b.org", b"1.0.0.127.in-addr.arpa"]
QTYPES = [1, 1, 1, 28, 28, 5, 15, 16, 43, 48, 99, 255, 257, 65535, 0]
QCLASSES = [1, 1, 1, 1, 3, 255]
TTLS = [0, 1, 2, 3, 5, 30, 60, 300, 3600, 86400, 4294967295]
RRTYPES = [1, 1, 1, 28, 5, 2, 16, 6, 24, 41, 99, 48]
MAXTTLS = [0, 1, 2, 5, 60, 3600, 3600, 86400, 4294967295]


def _variant(rng, name):
    b = bytearray(name)
    if rng.random() < 0.5:
        for i in range(len(b)):
            if rng.random() < 0.4 and (65 <= b[i] <= 90 or 97 <= b[i] <= 122):
                b[i] ^= 0x20
    if rng.random() < 0.3 and not name.endswith(b"."):
        b += b"."
    return bytes(b)


def _hex(b):
    return b.hex() if b else "-"


def _req_tokens(req):
    op, rd, cd, qs = req
    return "%d %d %d %s" % (op, rd, cd, ",".join("%s/%d/%d" % (_hex(n), t, c) for (n, t, c) in qs))


def _lower(b):
    return bytes(c + 32 if 65 <= c <= 90 else c for c in b)


def _strip(b):
    return b[:-1] if b.endswith(b".") else b


def key_class(req):
    """the property's notion of 'the same request': opcode, RD, CD, and per question type, class and name
    (case-insensitively, one trailing dot ignored)"""
    op, rd, cd, qs = req
    return (op, rd, cd, tuple((t, c, _lower(_strip(n))) for (n, t, c) in qs))


def ttl_of(rcode, rrs):
    """lifetime the response's own TTLs allow (RFC 2308 for NXDOMAIN)"""
    if rcode == 3:
        for (s, t, ttl, mn) in rrs:
            if s == 2 and t == 6:
                return min(ttl, mn)
        return 0
    ttls = [ttl for (s, t, ttl, mn) in rrs if t not in (41, 6, 24)]
    return min(ttls) if ttls else 0xFFFFFFFF


WIRE_NAMES = [n for n in NAMES if all(c in b"*-./0123456789ABCDEFGHIJKLMNOPQRSTUVWXYZ_abcdefghijklmnopqrstuvwxyz" for c in n)]
SERVER_SETS = ["10.0.0.1,10.0.0.2", "10.0.0.9,10.0.0.1", "10.0.0.7"]


def gen_cache(rng, tier):
    """Requests that get *stored* are ones the library can put on the wire and get an answer for (one question, host
    name characters only: ares_dns_write validates question names, ares_dns_parse refuses QDCOUNT != 1); requests that
    are *looked up* are arbitrary records."""
    ncases = 450 if tier == "quick" else 25000
    maxops = 50 if tier == "quick" else 160
    cases = []
    for ci in range(ncases):
        maxttl = rng.choice(MAXTTLS)
        ops = ["chan nsrv=2 cache=%d" % maxttl]
        srvset = 0
        now = rng.choice([1, 100, 86400, 1700000000, rng.randint(1, 2000000000)])
        pool = []                    # requests that may be stored
        for _ in range(rng.randint(1, 4)):
            nm = rng.choice(WIRE_NAMES)
            op = 0 if rng.random() < 0.9 else rng.choice([1, 2, 4, 5])
            pool.append((op, rng.randint(0, 1), rng.randint(0, 1), [(nm, rng.choice(QTYPES), rng.choice(QCLASSES))]))
        if rng.random() < 0.3:
            # near-collisions: same name, neighbouring unnamed types / other class / other flags / other opcode
            base = pool[0]
            n0, t0, c0 = base[3][0]
            pool.append((base[0], base[1], base[2], [(n0, rng.choice([43, 48, 99, 65535, t0 + 1]), c0)]))
            pool.append((base[0], base[1], base[2], [(n0, t0, rng.choice([1, 3, 255]))]))
            pool.append((base[0], 1 - base[1], base[2], [(n0, t0, c0)]))
            pool.append((base[0], base[1], 1 - base[2], [(n0, t0, c0)]))
            pool.append((rng.choice([0, 1, 2, 4, 5]), base[1], base[2], [(n0, t0, c0)]))
        lookonly = []                # requests that are only looked up: odd names, several questions
        if rng.random() < 0.15:
            lookonly.append((0, 1, 0, [(b"a|1|1|b", 1, 1)]))
            lookonly.append((0, 1, 0, [(b"a", 1, 1), (b"b", 1, 1)]))
            lookonly.append((0, 1, 0, [(b"a|A|IN|b", 1, 1)]))
            lookonly.append((0, 1, 0, [(b"Ex\\.am.ple", 1, 1)]))
            lookonly.append((0, 1, 0, [(rng.choice(NAMES), rng.choice(QTYPES), 1), (rng.choice(NAMES), 1, 1)]))
            pool.append((0, 1, 0, [(b"a", 1, 1)]))
            pool.append((0, 1, 0, [(b"b", 1, 1)]))
        live = []                     # (expiry instant, req) of entries the generator believes to be cached
        rid = 1
        nops = rng.randint(3, maxops)
        for _ in range(nops):
            r = rng.random()
            req = rng.choice(pool)
            spelled = (req[0], req[1], req[2], [(_variant(rng, n), t, c) for (n, t, c) in req[3]])
            if r < 0.33:
                style = rng.random()
                rcode = 0 if style < 0.6 else 3 if style < 0.85 else rng.choice([1, 2, 5, 4, 9])
                tc = 1 if rng.random() < 0.06 else 0
                rrs = []
                nrr = rng.choice([0, 1, 1, 2, 3, 5])
                for _ in range(nrr):
                    rrs.append((rng.choice([1, 1, 1, 2, 3]), rng.choice(RRTYPES),
                                rng.choice(TTLS) if rng.random() < 0.7 else rng.randint(0, 1000), 0))
                if rcode == 3 and rng.random() < 0.7:
                    rrs.append((2, 6, rng.choice(TTLS), rng.choice(TTLS)))
                rrs = [(3 if t == 41 else s, t, ttl, rng.choice(TTLS) if t == 6 else 0) for (s, t, ttl, mn) in rrs]
                ops.append(("qins %d %s %d %d %d %s" % (now, _req_tokens(spelled), rid, rcode, tc,
                                                       " ".join("%d/%d/%d/%d" % x for x in rrs))).rstrip())
                eff = min(maxttl, ttl_of(rcode, rrs))
                if rcode in (0, 3) and not tc and eff > 0:
                    live.append((now + eff, req))
                rid += 1
            elif r < 0.70:
                if lookonly and rng.random() < 0.3:
                    lr = rng.choice(lookonly)
                    spelled = (lr[0], lr[1], lr[2], [(_variant(rng, n), t, c) for (n, t, c) in lr[3]])
                ops.append("qget %d %s" % (now, _req_tokens(spelled)))
            elif r < 0.84 and live:
                # walk across an expiry boundary: T-1, T, T+1
                exp, lreq = rng.choice(live)
                for inst in (exp - 1, exp, exp + 1):
                    if inst >= now and rng.random() < 0.85:
                        now = inst
                        sp = (lreq[0], lreq[1], lreq[2], [(_variant(rng, n), t, c) for (n, t, c) in lreq[3]])
                        ops.append("qget %d %s" % (now, _req_tokens(sp)))
            elif r < 0.88:
                if rng.random() < 0.5:
                    ops.append("qflush")
                else:
                    srvset = (srvset + rng.choice([1, 2])) % 3      # always a different set of servers
                    ops.append("qsetservers " + SERVER_SETS[srvset])
                live = []
            else:
                now += rng.choice([0, 1, 1, 2, 3, 10, 59, 60, 61, 300, 3599, 3600, 3601, 86400, rng.randint(0, 100000)])
        cases.append(ops)
    for _ in range(5 if tier == "quick" else 50):
        cases.append([rng.choice(["qget 5 0 1", "qins 1 0 1 0 61/1/1 1 0 0 9/1/1/0", "qget 5 3 1 0 61/1/1",
                                  "qget 5 0 1 0 61/65536/1", "qget 5 0 1 0 61/1/2", "qins 5 0 1 0 61/1/1 1 12 0",
                                  "qget x", "qflush now"]) for _ in range(rng.randint(1, 5))])
    return cases


def _parse_req(tok):
    op, rd, cd, ql = tok
    qs = []
    for q in ql.split(","):
        n, t, c = q.split("/")
        qs.append((b"" if n == "-" else bytes.fromhex(n), int(t), int(c)))
    return (int(op), int(rd), int(cd), qs)


def mon_cache(case, out):
    """python reference keyed by (opcode, rd, cd, type, class, lower-case name): every hit must be explained by an
    earlier accepted insert for the same key that is still fresh, cacheable, not flushed; every visible TTL must be
    reduced by the time spent cached"""
    maxttl = 3600
    entries = {}          # response id -> dict
    flush_seq = 0
    seq = 0
    for line, o in zip(case, out):
        t = line.split()
        if not t:
            continue
        seq += 1
        try:
            if t[0] == "chan" and o == "ok":
                for x in t[1:]:
                    if x.startswith("cache="):
                        maxttl = int(x[6:])
                entries = {}
            elif t[0] in ("qflush", "qsetservers") and o == "ok":
                flush_seq = seq
            elif t[0] == "qins" and o == "ok":
                req = _parse_req(t[2:6])
                rrs = [tuple(int(v) for v in x.split("/")) for x in t[9:]]
                entries[int(t[6])] = {"key": key_class(req), "t": int(t[1]), "rcode": int(t[7]), "tc": int(t[8]),
                                      "rrs": rrs, "seq": seq, "req": req}
            elif t[0] == "qget" and o.startswith("hit "):
                req = _parse_req(t[2:6])
                now = int(t[1])
                f = dict(x.split("=", 1) for x in o.split()[1:])
                e = entries.get(int(f["id"]))
                where = "%s -> %s" % (line, o)
                if maxttl == 0:
                    return [("hit-with-max-ttl-0", where)]
                if e is None:
                    return [("hit-unknown-response", where)]
                k = key_class(req)
                if k != e["key"]:
                    what = "questions"
                    if len(k[3]) == len(e["key"][3]) == 1:
                        names = ["opcode", "rd", "cd"]
                        what = [names[i] for i in range(3) if k[i] != e["key"][i]] + \
                               [n for i, n in enumerate(["type", "class", "name"]) if k[3][0][i] != e["key"][3][0][i]]
                        what = "+".join(what)
                        if what == "type" and all(x not in NAMED_TYPES for x in (k[3][0][0], e["key"][3][0][0])):
                            what = "type(both-unnamed)"
                    return [("hit-key-mismatch:" + what, "%s answered from the entry stored for %s" % (where, e["req"]))]
                if e["rcode"] not in (0, 3) or e["tc"]:
                    return [("hit-uncacheable", "%s replays rcode=%d tc=%d" % (where, e["rcode"], e["tc"]))]
                if e["seq"] < flush_seq:
                    return [("hit-after-flush", where)]
                life = min(maxttl, ttl_of(e["rcode"], e["rrs"]))
                if not (now < e["t"] + life):
                    return [("hit-stale", "%s: inserted at %d, lifetime %d" % (where, e["t"], life))]
                dec = now - e["t"]
                order = [rr for s in (1, 2, 3) for rr in e["rrs"] if rr[0] == s and rr[1] != 41]
                want = "[" + " ".join(str(max(rr[2] - dec, 0)) for rr in order) + "]"
                if f.get("wire") != want:
                    return [("ttl-not-decremented:wire", "%s: expected %s after %d s" % (where, want, dec))]
                if f.get("api") != want:
                    return [("ttl-not-decremented:api", "%s: expected %s after %d s" % (where, want, dec))]
        except (ValueError, IndexError, KeyError):
            continue
    return []


NAMED_TYPES = {1, 2, 5, 6, 12, 13, 15, 16, 24, 28, 33, 35, 41, 52, 64, 65, 255, 256, 257}


def nt_cache(case, out):
    return any(o.startswith("hit ") for o in out)


def cache_stream():
    return Stream("cache", HARNESS, DRIVER, gen_cache, monitor=mon_cache, nontrivial=nt_cache,
                  opkind=lambda l: l.split()[0] if l.split() else "")


# ------------------------------------------------------------------------------------------------------------------
# C06a - metrics and per-attempt timeout

MIN_TIMEOUT, MAX_TIMEOUT, AVG_MULT, MIN_COUNT = 250, 5000, 5, 3


def gen_timeout(rng, tier):
    ncases = 300 if tier == "quick" else 15000
    cases = []
    for ci in range(ncases):
        nsrv = rng.choice([1, 1, 2, 3, 4, 6])
        tries = rng.choice([1, 2, 3, 4, 5, 10, 33, 64, 65, 66, 70, 100, 130, 200]) if rng.random() < 0.5 else rng.randint(1, 8)
        timeout = rng.choice([1, 100, 249, 250, 251, 300, 1000, 2000, 4999, 5000, 5001, 60000, 2147483647])
        maxt = rng.choice([0, 0, 0, 1, 100, 250, 300, 3000, 5000, 20000, 2147483647])
        ops = ["chan nsrv=%d tries=%d timeout=%d maxtimeout=%d" % (nsrv, tries, timeout, maxt)]
        sec = rng.choice([1000, 59, 60, 899, 900, 3600, 86399, 86400, 1700000000, rng.randint(1, 2000000000)])
        usec = rng.choice([0, 0, 1, 500000, 999999])
        ops.append("time %d %d" % (sec, usec))
        n = rng.randint(0, 25)
        for _ in range(n):
            r = rng.random()
            if r < 0.55:
                srv = rng.randrange(nsrv)
                lat_us = rng.choice([0, 1, 999, 1000, 20000, 50000, 100000, 800000, 3000000, rng.randint(0, 9000000)])
                s_us = sec * 1000000 + usec - lat_us
                if s_us < 0:
                    s_us = 0
                ops.append("mrec %d %d %d %d %d" % (srv, s_us // 1000000, s_us % 1000000,
                                                    0 if rng.random() < 0.1 else 1, rng.choice([0, 0, 0, 3, 2, 5])))
            elif r < 0.8:
                ops.append("mtmo %d" % rng.randrange(nsrv))
            else:
                a = rng.choice([1, 1000, 30000000, 60000000, 61000000, 900000000, 3600000000, 86400000000,
                                rng.randint(0, 200000000)])
                ops.append("adv %d" % a)
                t = sec * 1000000 + usec + a
                sec, usec = t // 1000000, t % 1000000
        ops.append("tq %d" % min(nsrv * tries, rng.choice([5, 20, 80, 220, 1300])))
        for s in range(nsrv):
            ops.append("mtmo %d" % s)
        cases.append(ops)
    return cases


def mon_timeout(case, out):
    """policy evaluated directly: every attempt waits at least the base timeout of the server it was sent to (as
    ares_metrics_server_timeout reported it right before) and at most maxtimeout when set; the first pass through the
    server list uses exactly the base; the number of attempts is servers x tries"""
    nsrv, tries, maxt = 2, 3, 0
    for line, o in zip(case, out):
        t = line.split()
        if not t:
            continue
        if t[0] == "chan":
            for x in t[1:]:
                if x.startswith("nsrv="):
                    nsrv = int(x[5:])
                if x.startswith("tries="):
                    tries = int(x[6:])
                if x.startswith("maxtimeout="):
                    maxt = int(x[11:])
        elif t[0] == "mtmo":
            try:
                v = int(o)
            except ValueError:
                continue
            cap = maxt if maxt else MAX_TIMEOUT
            if v < min(MIN_TIMEOUT, cap) or v > cap:
                return [("base-timeout-out-of-range", "%s -> %s (floor %d, cap %d)" % (line, o, MIN_TIMEOUT, cap))]
        elif t[0] == "tq":
            atts = [x for x in o.split() if x.startswith("a=")]
            for k, a in enumerate(atts):
                f = a[2:].split(":")
                ms, base = int(f[1]), int(f[3])
                if ms < base:
                    return [("attempt-below-base", "attempt %d waits %d ms, the server's base timeout is %d: %s"
                             % (k, ms, base, o[:200]))]
                if maxt and ms > maxt:
                    return [("attempt-above-maxtimeout", "attempt %d waits %d ms (> maxtimeout %d): %s"
                             % (k, ms, maxt, o[:200]))]
                if k < nsrv and ms != base:
                    return [("first-pass-not-base", "attempt %d (first pass through the servers) waits %d ms, base %d: %s"
                             % (k, ms, base, o[:200]))]
                if ms >= 1 << 63:
                    return [("attempt-deadline-overflow", "attempt %d waits %d ms (does not fit the signed clock): %s"
                             % (k, ms, o[:200]))]
                if k // nsrv >= 1 and k // nsrv < 40 and not maxt and ms > base * (1 << (k // nsrv)):
                    return [("attempt-above-doubling", "attempt %d (round %d) waits %d ms, base %d: %s"
                             % (k, k // nsrv, ms, base, o[:200]))]
            want = min(int(t[1]), nsrv * tries)
            if len(atts) != want and "end=" in o:
                return [("attempt-count", "%d transmissions, expected %d (servers %d x tries %d): %s"
                         % (len(atts), want, nsrv, tries, o[:200]))]
    return []


def tq_driver_input(case, out):
    """the driver is told which server each attempt went to and the 16-bit draw (free choices, observed)"""
    res = []
    for i, line in enumerate(case):
        if line.startswith("tq ") and i < len(out):
            res.append(line + " " + out[i])
        else:
            res.append(line)
    return res


def nt_timeout(case, out):
    return any(o.startswith("a=") for o in out)


def timeout_stream():
    return Stream("timeout", HARNESS, DRIVER, gen_timeout, monitor=mon_timeout, nontrivial=nt_timeout,
                  driver_input=tq_driver_input, opkind=lambda l: l.split()[0] if l.split() else "")


def generators():
    import gen_proto_consts
    return [gen_proto_consts.gen_proto_consts, gen_proto_consts.gen_proto_calc]
