"""C16 - configuration is saved, duplicated and re-applied losslessly; user settings win."""
import socket
from runner import Stream
from props import _text as T

ID = "C16"
IMPORTS = ["CaresProps.C16"]
# only this slice's modules: other builders' files may be mid-edit in the shared lake project
LEAN_TARGETS = ["CaresProps.C16", "driver_text"]
THEOREMS = [
    "Cares.C16.user_wins",
    "Cares.C16.user_wins_reinit",
    "Cares.C16.user_wins_init",
    "Cares.C16.save_init_fixpoint",
    "Cares.C16.csv_fixpoint",
    "Cares.C16.servers_invariant",
    "Cares.C16.dup_equiv",
    "Cares.C16.entry_roundtrip_v4",
    "Cares.C16.csv_fixpoint_v4",
    "Cares.C16.dup_equiv_v4",
    "Cares.C16.ntop_pton_v4",
    "Cares.C16.ntop_pton_v6_examples",
    "Cares.C16.pinned_usevc_overrides_user_flags",
]
TRUSTED = [
    "Lean 4.33.0 kernel; axioms allowed: propext, Classical.choice, Quot.sound",
    "hand-written Lean model of ares_init_by_options / ares_save_options / init_by_defaults / ares_sysconfig_apply / ares_reinit / "
    "ares_dup / ares_servers_update / ares_get_servers_csv / set_servers_csv / inet_ntop / inet_pton (CaresModel/Options.lean, "
    "CaresModel/Text/*.lean), tied to the code by the h_text correspondence stream",
    "harness/h_text.c (fopen(), if_nametoindex(), if_indextoname() interposition; channel internals read for the effective dump), "
    "tools/props/C16.py (generator, monitors)",
    "Lean compiler (driver_text is the compiled form of the definitions the kernel checked)",
]
ASSUMPTIONS = [
    "allocation succeeds; ARES_OPT_EVENT_THREAD and socket callbacks are not part of the compared configuration",
    "the system configuration (files, environment, host name, interfaces) does not change between the operations related by "
    "save_init_fixpoint / dup_equiv (it is a parameter of the model; the streams also change it on purpose before reinit)",
    "interface names are not all-digit strings and name <-> index is a bijection on the configured interfaces",
    "gethostname() as seen by python and by the harness agree (same machine)",
]
EXPLANATION = ("Theorems: every field guarded by its option bit survives ares_sysconfig_apply at init and at every reinit (user_wins); "
               "effective(init(save ch)) = effective ch on the fields the legacy struct carries; dup ch = ch including servers with "
               "ports and link-local interfaces; reinit under an unchanged system configuration is the identity; getCsv(setCsv(getCsv ch)) "
               "= getCsv ch (per-entry hypothesis); pton(ntop a) = a (IPv4 proved, IPv6 instances). Tie: random option masks/values x server sets x sortlists x domains x generated system "
               "configuration x reinit, effective configuration of original vs copy compared in-process.")

HOSTDOMAIN = None
try:
    _h = socket.gethostname()
    if "." in _h:
        HOSTDOMAIN = _h.split(".", 1)[1]
except Exception:
    pass

BITS = {"FLAGS": 0, "TIMEOUT": 1, "TRIES": 2, "NDOTS": 3, "UDP_PORT": 4, "TCP_PORT": 5, "SERVERS": 6, "DOMAINS": 7, "LOOKUPS": 8,
        "SORTLIST": 10, "SNDBUF": 11, "RCVBUF": 12, "TIMEOUTMS": 13, "ROTATE": 14, "EDNSPSZ": 15, "NOROTATE": 16, "RESOLVCONF": 17,
        "HOSTS_FILE": 18, "UDP_MAX_QUERIES": 19, "MAXTIMEOUTMS": 20, "QUERY_CACHE": 21, "SERVER_FAILOVER": 23}


def _intval(rng, lo_ok=1):
    return rng.choice([lo_ok, lo_ok, 2, 3, 5, 10, 100, 1232, 4096, 65535, 2147483, 2147484, 2147483647, 0, -1, -5, rng.randint(1, 100000)])


def _v4hex(rng):
    return "4:" + bytes(rng.choice([1, 8, 9, 10, 127, 192, 255, rng.randint(1, 254)]) for _ in range(4)).hex()


def _v6hex(rng, ll=False):
    if ll:
        b = [0xfe, rng.choice([0x80, 0x81, 0xbf])] + [0] * 6 + [rng.randint(0, 255) for _ in range(8)]
    else:
        # never fe80::/10 or fec0::/10: ares_set_servers_ports() would store what the CSV parser rejects (finding F39-C16, corpus)
        b = [rng.choice([0x20, 0x26, 0xfd, 0, 0xfc, 0xff])] + [rng.choice([0, 0, 1, 0xc0, rng.randint(0, 255)]) for _ in range(15)]
    return "6:" + bytes(b).hex()


def _sysconf(rng):
    """a generated system configuration (resolv.conf text)"""
    lines = []
    for _ in range(rng.randint(0, 6)):
        r = rng.random()
        if r < 0.35:
            s = rng.choice([T.v4(rng), T.v6(rng, ll=False), "[" + T.v6(rng, ll=True) + "]:" + T.port(rng) + "%" + rng.choice(["lo", "eth0", "br-lan", "nope0", "4"]),
                            T.v4(rng) + ":" + T.port(rng), "[" + T.v6(rng, ll=False) + "]:" + T.port(rng)])
            lines.append("nameserver " + s)
        elif r < 0.5:
            lines.append("search " + " ".join(T.domain(rng) for _ in range(rng.randint(1, 3))))
        elif r < 0.6:
            lines.append("sortlist " + " ".join(T.sort_entry(rng) for _ in range(rng.randint(1, 2))))
        elif r < 0.85:
            lines.append("options " + " ".join(T.option_tok(rng) for _ in range(rng.randint(1, 3))))
        elif r < 0.93:
            lines.append("lookup " + " ".join(T.lookup_word(rng) for _ in range(rng.randint(1, 2))))
        else:
            lines.append(T.junk_line(rng).decode("latin1"))
    return ("\n".join(lines) + "\n").encode("latin1") if lines else b""


def _files(rng, ops, resolvpath):
    path = resolvpath if (resolvpath and resolvpath != "null") else "/etc/resolv.conf"
    r = rng.random()
    if r < 0.85:
        ops.append("file %s %s" % (path, T.hx(_sysconf(rng))))
    else:
        ops.append("file %s none" % path)
    if rng.random() < 0.3:
        ops.append("file /etc/nsswitch.conf " + T.hx(rng.choice([b"hosts: files dns\n", b"hosts: dns\n", b"hosts: dns files\n", b"passwd: files\n", b"hosts: mdns\n"])))
    if rng.random() < 0.1:
        ops.append("file /etc/svc.conf " + T.hx(rng.choice([b"hosts=bind,local\n", b"hosts=local\n"])))
    if rng.random() < 0.2:
        ops.append("env LOCALDOMAIN " + rng.choice(["none", T.hx(T.domain(rng)), T.hx(T.domain(rng) + " other.example")]))
    if rng.random() < 0.2:
        ops.append("env RES_OPTIONS " + rng.choice(["none", T.hx("ndots:%d" % rng.randint(0, 5)), T.hx("use-vc"), T.hx("rotate attempts:%d" % rng.randint(1, 6)),
                                                   T.hx("timeout:%d" % rng.randint(1, 9))]))


def _init_line(rng, h):
    names = [n for n in BITS if rng.random() < 0.35]
    if rng.random() < 0.05:
        return "init %d null=1" % h, None
    mask = 0
    for n in names:
        mask |= 1 << BITS[n]
    f = {}
    f["flags"] = rng.choice([0, 0x100, 0x80, 0x1, 0x110, 0x2, 0x102, 0x40, 0x20, 0x200, 0x300, 0x400, 0x7ff])
    f["timeout"] = _intval(rng)
    f["tries"] = rng.choice([1, 2, 3, 4, 10, 0, -1, 64])
    f["ndots"] = rng.choice([0, 1, 2, 3, 15, -1, 100])
    f["maxtimeout"] = _intval(rng)
    f["udpport"] = rng.choice([0, 53, 5353, 65535, 1])
    f["tcpport"] = rng.choice([0, 53, 5353, 65535, 2])
    f["sndbuf"] = _intval(rng)
    f["rcvbuf"] = _intval(rng)
    f["ednspsz"] = rng.choice([0, -1, 512, 1232, 4096, 65535])
    f["udpmaxq"] = rng.choice([0, -1, 1, 100])
    f["qcache"] = rng.choice([0, 1, 300, 3600, 86400])
    f["retrychance"] = rng.choice([0, 1, 10, 100])
    f["retrydelay"] = rng.choice([0, 1000, 5000])
    toks = ["init %d" % h, "mask=0x%x" % mask] + ["%s=%s" % (k, ("0x%x" % v) if k == "flags" else v) for k, v in f.items()]
    r = rng.random()
    if r < 0.7:
        srv = [_v4hex(rng) for _ in range(rng.randint(1, 4))]
        if rng.random() < 0.2:
            srv.append(srv[0])
        toks.append("servers=" + ",".join(srv))
    elif r < 0.85:
        toks.append("nservers=%d" % rng.choice([0, -1]))
    r = rng.random()
    if r < 0.7:
        toks.append("domains=" + ",".join(T.hx(T.domain(rng)) for _ in range(rng.randint(1, 4))))
    r = rng.random()
    toks.append("lookups=" + rng.choice(["null", T.hx("bf"), T.hx("fb"), T.hx("b"), T.hx("f"), T.hx("xyz")]))
    if rng.random() < 0.6:
        toks.append("sort=" + ",".join("%s/%d" % ((_v4hex(rng), rng.choice([8, 16, 24, 32])) if rng.random() < 0.7 else (_v6hex(rng), rng.choice([10, 64, 128])))
                                       for _ in range(rng.randint(1, 3))))
    rp = rng.choice(["null", "null", "/virt/r1", "/virt/r1", "/virt/missing"])
    toks.append("resolvpath=" + rp)
    toks.append("hostspath=" + rng.choice(["null", "/virt/hosts"]))
    return " ".join(toks), (rp if (mask >> 17) & 1 else None)


def _csv(rng, appif=None):
    ents = []
    if appif:
        # a link-local server on the interface only the application's socket functions know
        for _ in range(rng.choice([1, 1, 2])):
            ents.append("[" + T.v6(rng, ll=True) + "]" + rng.choice(["", ":53", ":5353"]) + "%" + appif)
    for _ in range(rng.randint(0, 5)):
        k = rng.random()
        if k < 0.3:
            a = T.v4(rng)
            ents.append(a + rng.choice(["", ":53", ":54", ":" + T.port(rng)]))
        elif k < 0.5:
            ents.append("[" + T.v6(rng, ll=False) + "]" + rng.choice(["", ":53", ":5353"]))
        elif k < 0.7:
            ents.append("[" + T.v6(rng, ll=True) + "]" + rng.choice(["", ":53", ":5353"]) + "%" + rng.choice(["lo", "eth0", "br-lan", "wl_0.1", "4", "1", "nope0"]))
        elif k < 0.9:
            a = T.ipany(rng) if rng.random() < 0.7 else T.v6(rng, ll=True)
            host = a
            if ":" in a:
                # interface names with '-', '_' or '.' cannot be rendered in the dns:// form (finding F37-C16, corpus)
                host = "[" + a + (("%" + rng.choice(["lo", "eth0", "4"])) if a.startswith("fe") else "") + "]"
            ents.append("dns://" + host + ":" + rng.choice(["53", "54", "5353"]) + "?tcpport=" + rng.choice(["53", "54", "853"]))
        else:
            ents.append(T.server_entry(rng, False))
    return ",".join(ents)


def gen_chan(rng, tier):
    ncases = 700 if tier == "quick" else 15000
    cases = []
    for _ in range(ncases):
        ops = [T.IFACES_LINE, "hostdomain " + ("none" if HOSTDOMAIN is None else T.hx(HOSTDOMAIN))]
        line, rp = _init_line(rng, 0)
        _files(rng, ops, rp)
        ops.append(line)
        # application socket functions whose interface callbacks know one more interface than the libc: a duplicate has
        # to resolve link-local servers through them as well
        appif = None
        if rng.random() < 0.25:
            appif = rng.choice(["vnet7", "tun_app0"])
            ops.append("appif 0 %s %d" % (T.hx(appif), rng.choice([977, 1200])))
            ops.append("setcsv 0 " + T.hx(_csv(rng, appif)))
        # user setters
        for _ in range(rng.choice([0, 0, 1, 2])):
            r = rng.random()
            if r < 0.5:
                ops.append("setcsv 0 " + T.hx(_csv(rng, appif if rng.random() < 0.7 else None)))
            elif r < 0.75:
                ops.append("setports 0 " + (",".join("%s/%s/%s" % (_v4hex(rng) if rng.random() < 0.6 else _v6hex(rng), T.port(rng), T.port(rng))
                                                      for _ in range(rng.randint(0, 3))) or "-"))
            else:
                ops.append("setsortlist 0 " + T.hx(" ".join(T.sort_entry(rng, rng.random() < 0.85) for _ in range(rng.randint(0, 3)))))
        ops += ["eff 0", "save 0", "saveinit 0 1", "dup 0 2", "reinit 0"]
        if rng.random() < 0.5:
            ops.append("csvfix 2")
        # configuration change + reinit: user-supplied settings must still win
        if rng.random() < 0.6:
            if rng.random() < 0.35:
                # the application re-applies exactly the server list the channel already has (e.g. the one the system
                # configuration supplied): from then on it is the application's list and must survive a reinit
                ops += ["csvfix 0", "eff 0"]
            _files(rng, ops, rp)
            ops += ["reinit 0", "eff 0"]
            if rng.random() < 0.5:
                ops += ["dup 0 3"]
        cases.append(ops)
    # addresses: pton(ntop(a)) = a
    n2 = 150 if tier == "quick" else 3000
    for _ in range(n2):
        cases.append(["ntoppton " + (_v4hex(rng) if rng.random() < 0.3 else _rand6(rng)) for _ in range(8)])
    return cases


def _rand6(rng):
    k = rng.random()
    if k < 0.3:
        b = [rng.randint(0, 255) for _ in range(16)]
    elif k < 0.6:
        b = [rng.choice([0, 0, 0, 1, 255, rng.randint(0, 255)]) for _ in range(16)]
    elif k < 0.8:
        z = rng.choice([10, 12, 14, 15])
        b = [0] * z + [rng.choice([0, 255, 1, rng.randint(0, 255)]) for _ in range(16 - z)]
        if rng.random() < 0.3:
            b[10] = b[11] = 255
    else:
        b = [rng.randint(0, 255) for _ in range(16)]
        i = rng.randint(0, 7)
        j = rng.randint(i, 8)
        for w in range(i, j):
            b[2 * w] = b[2 * w + 1] = 0
    return "6:" + bytes(b).hex()


FIELDS = ["servers", "domains", "lookups", "sort", "ndots", "tries", "timeout", "maxtimeout", "rotate", "flags", "udpport", "tcpport",
          "sndbuf", "rcvbuf", "ednspsz", "udpmaxq", "qcache", "retry", "mask", "resolv", "hosts"]
# field -> mask bit that records "the application supplied it"
GUARD = {"flags": 0, "tries": 2, "ndots": 3, "servers": 6, "domains": 7, "lookups": 8, "sort": 10, "timeout": 13, "rotate": (14, 16)}


# fields ares_sysconfig_apply only overwrites when the new system configuration names a value
STALE_FIELDS = {"servers", "domains", "lookups", "sort", "tries", "timeout", "flags"}


def _eff(o):
    if not (o.startswith("st=ok") or o.startswith("servers=")):
        return None
    d = T.kvs(o)
    return d if all(f in d for f in FIELDS) else None


def _diff(a, b, skip=()):
    return [f for f in FIELDS if f not in skip and a.get(f) != b.get(f)]


def mon_chan(case, out):
    try:
        return _mon_chan(case, out)
    except (KeyError, ValueError, IndexError):
        return []          # a shrunk / malformed case the monitor cannot interpret


def _mon_chan(case, out):
    bad = []
    cur = {}          # handle -> last effective dump
    changed = False   # system configuration changed since channel 0 was initialised
    init0 = None
    user_set = set()  # fields of channel 0 the application set through a setter after initialisation
    for line, o in zip(case, out):
        t = line.split()
        op = t[0]
        if op in ("file", "env") and init0 is not None:
            changed = True
        if op == "ntoppton":
            p = o.split()
            if len(p) != 2 or p[1] != t[1]:
                bad.append(("ntop-pton", "pton(ntop(%s)) = %s" % (t[1], o)))
            continue
        if op == "init":
            e = _eff(o)
            if e is None:
                return bad
            cur[0] = e
            init0 = T.kvs(line)
            m = int(e["mask"], 16)
            given = T.kvs(line)
            # user_wins at initialisation: what the application supplied is what the channel has
            if m & 1 and int(e["flags"], 16) != int(given["flags"], 16):
                bad.append(("user-wins-init:flags", "application passed flags=%s, channel has %s (%s)" % (given["flags"], e["flags"], line[:160])))
            if m & (1 << 2) and e["tries"] != given["tries"]:
                bad.append(("user-wins-init:tries", "application passed tries=%s, channel has %s" % (given["tries"], e["tries"])))
            if m & (1 << 3) and e["ndots"] != given["ndots"]:
                bad.append(("user-wins-init:ndots", "application passed ndots=%s, channel has %s" % (given["ndots"], e["ndots"])))
            if m & (1 << 8) and e["lookups"] != given["lookups"]:
                bad.append(("user-wins-init:lookups", "application passed lookups=%s, channel has %s" % (given["lookups"], e["lookups"])))
            if m & (1 << 7) and "domains" in given and e["domains"] != "[" + given["domains"] + "]":
                bad.append(("user-wins-init:domains", "application passed domains=%s, channel has %s" % (given["domains"], e["domains"])))
            if m & (1 << 13) and (int(given["mask"], 16) & (1 << 13)) and e["timeout"] != given["timeout"]:
                bad.append(("user-wins-init:timeout", "application passed timeout=%s ms, channel has %s" % (given["timeout"], e["timeout"])))
            if m & (1 << 14) and not m & (1 << 16) and e["rotate"] != "1":
                bad.append(("user-wins-init:rotate", "ARES_OPT_ROTATE given, rotate=%s" % e["rotate"]))
            if m & (1 << 16) and e["rotate"] != "0":
                bad.append(("user-wins-init:rotate", "ARES_OPT_NOROTATE given, rotate=%s" % e["rotate"]))
            if m & (1 << 6) and "servers" in given:
                want = []
                for a in given["servers"].split(","):
                    if a not in want:
                        want.append(a)
                if int(e["flags"], 16) & 2:
                    want = want[:1]
                got = [s["addr"] for s in T.parse_servers(e["servers"])]
                if got != want:
                    bad.append(("user-wins-init:servers", "application passed servers %s, channel has %s" % (want, got)))
            bad += [("ranges", m2) for m2 in T.check_ranges(o, "effective")]
        elif op in ("setcsv", "setports", "setsortlist") and o.startswith("st="):
            d = T.kvs(o)
            if 0 in cur:
                for k in ("servers", "sort", "mask"):
                    if k in d:
                        cur[0][k] = d[k]
            if t[1] == "0" and d.get("st") == "ok":
                if op in ("setcsv", "setports") and "servers" in d and T.parse_servers(d["servers"]):
                    user_set.add("servers")
        elif op == "eff":
            e = _eff(o)
            if e is not None:
                cur[int(t[1])] = e
        elif op == "saveinit":
            e = _eff(o)
            src = cur.get(0)
            if e is None or src is None or changed:
                continue
            m = int(src["mask"], 16)
            skip = []
            if m & (1 << 6):
                a = []
                for s in T.parse_servers(src["servers"]):
                    if s["addr"].startswith("4:") and s["addr"] not in a:
                        a.append(s["addr"])
                if int(src["flags"], 16) & 2:
                    a = a[:1]
                b = [s["addr"] for s in T.parse_servers(e["servers"])]
                if not a:
                    skip = ["servers", "mask"]
                    if (int(e["mask"], 16) | (1 << 6)) != m:
                        bad.append(("save-init-fixpoint:mask", "mask %s -> %s" % (src["mask"], e["mask"])))
                else:
                    skip = ["servers"]
                    if a != b:
                        bad.append(("save-init-fixpoint:servers", "IPv4 servers %s became %s" % (a, b)))
            df = _diff(src, e, skip)
            if df:
                bad.append(("save-init-fixpoint:" + ",".join(df), "init(save(ch)) differs from ch in %s: %s vs %s" %
                            (df, {f: src.get(f) for f in df}, {f: e.get(f) for f in df})))
        elif op == "dup":
            e = _eff(o)
            src = cur.get(0)
            if src is None:
                continue
            if e is None:
                # a channel without servers cannot be saved (ARES_ENODATA): not a copy that differs
                if T.parse_servers(src["servers"]) == []:
                    continue
                v4 = [x for x in T.parse_servers(src["servers"]) if x["addr"].startswith("4:")]
                why = "csv-null" if _csv_unrenderable(src) else \
                    ("no-dflt-svr-without-ipv4-server" if (int(src["flags"], 16) & 0x200) and not v4 and (int(src["mask"], 16) & 0x40) else
                     ("dup-after-config-change:dup-fails" if changed else "dup-fails"))
                bad.append((why if why.startswith("dup-after") else "dup-fails:" + why, "ares_dup failed (%s) for %s" % (o, src["servers"])))
                continue
            df = _diff(src, e)
            if df:
                stale = changed and set(df) <= STALE_FIELDS
                sig = ("dup-after-config-change:" if stale else "dup-equiv:") + ",".join(df)
                if df == ["servers"] and not stale:
                    lost = [x for x in T.parse_servers(src["servers"]) if x not in T.parse_servers(e["servers"])]
                    if lost and all(x["addr"][:5] in ("6:fec", "6:fed", "6:fee", "6:fef") or
                                    (x["addr"][:5] in ("6:fe8", "6:fe9", "6:fea", "6:feb") and x["iface"] == "-") for x in lost):
                        sig = "dup-drops-unparseable-servers"
                bad.append((sig, "dup(ch) differs from ch in %s: %s vs %s" % (df, {f: src.get(f) for f in df}, {f: e.get(f) for f in df})))
        elif op == "reinit":
            e = _eff(o)
            src = cur.get(0)
            if e is None or src is None:
                continue
            m = int(src["mask"], 16)
            for f in sorted(user_set):
                if src.get(f) != e.get(f) and not (m & (1 << GUARD[f])):
                    bad.append(("user-wins-reinit:" + f, "%s was set by the application through a setter (mask %s does not record it) "
                                "but reinit replaced it: %s -> %s" % (f, src["mask"], src.get(f), e.get(f))))
            for f, bit in GUARD.items():
                bits = bit if isinstance(bit, tuple) else (bit,)
                if any(m & (1 << b) for b in bits) and src.get(f) != e.get(f):
                    bad.append(("user-wins-reinit:" + f, "%s was supplied by the application (mask %s) but reinit changed it: %s -> %s" %
                                (f, src["mask"], src.get(f), e.get(f))))
            if not changed:
                df = _diff(src, e)
                if df:
                    bad.append(("reinit-not-idempotent:" + ",".join(df), "reinit under an unchanged system configuration changed %s: %s -> %s" %
                                (df, {f: src.get(f) for f in df}, {f: e.get(f) for f in df})))
            cur[0] = e
        elif op == "csvfix":
            d = T.kvs(o)
            if "csv1" not in d:
                continue
            if d.get("csv1") == "none":
                bad.append(("csv-null", "ares_get_servers_csv returned NULL for %s" % d.get("servers")))
            elif d.get("st") == "ok" and t[1] == "0" and "servers" in d and T.parse_servers(d["servers"]):
                user_set.add("servers")
            if d.get("csv1") == "none":
                pass
            elif d.get("csv1") != d.get("csv2") or d.get("st") != "ok":
                bad.append(("csv-fixpoint", "getCsv(setCsv(getCsv ch)) = %s, getCsv ch = %s (%s)" % (d.get("csv2"), d.get("csv1"), d.get("st"))))
        if len(bad) > 3:
            break
    return bad


def _csv_unrenderable(e):
    for s in T.parse_servers(e["servers"]):
        if s["udp"] != s["tcp"] and s["iface"] != "-" and not T.unhx(s["iface"]).isalnum():
            return True
    return False


STREAMS = [
    Stream("chan", "h_text", "driver_text", gen_chan, monitor=mon_chan,
           nontrivial=lambda c, o: any(x.startswith("st=ok servers=[") for x in o) or any(x.startswith("3") or x.startswith("2") for x in o)),
]

LEVEL_TEXT = ("Proof (partial where stated): Lean 4 theorems over all option masks/values, server lists, sortlists, domain lists and all "
              "system-configuration contents. user_wins: a field whose option bit the application set is unchanged by ares_sysconfig_apply, "
              "at init (user_wins_init) and at every reinit (user_wins_reinit). save_init_fixpoint: options saved from a channel returned by "
              "ares_init_options and used to initialise a new one give exactly the same channel (all fields incl. servers). csv_fixpoint: "
              "getCsv(setCsv(getCsv ch)) = getCsv ch for every server list ares_servers_update can produce, under the decidable per-entry "
              "hypothesis entryOk (rendering + parsing one entry gives it back; false exactly for the open findings F37/F39-C16), which is "
              "itself proved for every IPv4 server with equal ports (entry_roundtrip_v4, csv_fixpoint_v4, dup_equiv_v4). dup_equiv: "
              "ares_dup of a freshly initialised channel gives the same channel, servers travelling through the CSV step (same hypothesis). "
              "ntop_pton: proved for all IPv4 addresses, kernel-checked instances for IPv6 (general IPv6 statement not proved). Not proved: "
              "dup_equiv for channels whose servers were replaced by the CSV/port setters after initialisation, and entryOk itself in "
              "general - both are checked on the implementation by the monitors. Tie: random option masks/values incl. rejected ones, "
              "IPv4/IPv6/link-local server sets with default/equal/differing ports, sortlists, domains x generated system configuration x "
              "reinit points, run on real channels in-process and on the compiled model; monitors evaluate save->init fixpoint, dup "
              "equivalence, csv fixpoint, reinit idempotence, pton(ntop a) = a and user-wins on the implementation itself.")
LEVEL_NOTE = ("Trusted: Lean kernel (axioms propext, Classical.choice, Quot.sound only); the hand-written model as far as the stream exercises "
              "it; harness/h_text.c (reads channel internals, interposes fopen/if_nametoindex/if_indextoname); the runner. Unlocked reads of "
              "ares_save_options (F22) belong to C11. Open findings F36-C16 (settings kept after their directive disappeared), F37-C16 "
              "(CSV NULL for interface names with '-', '_', '.'), F39-C16 (servers the CSV parser rejects) print KNOWN-FINDING.")
TECHNIQUE = "Lean 4 proofs over an executable model of channel configuration + differential correspondence and metamorphic monitors on real channels"
