"""C02 - DNS message parsers are total and memory-safe on arbitrary bytes."""
import gen_dns
import gen_tables
from runner import Stream

try:
    import gen_rrscripts
    _GEN_SCRIPTS = [gen_rrscripts.generate]
except Exception:      # the script table is another builder's generator; its committed copy is used
    _GEN_SCRIPTS = []

ID = "C02"
IMPORTS = ["CaresProps.C02"]
LEAN_TARGETS = ["CaresProps.C02", "driver_codec"]
THEOREMS = [
    "Cares.C02.ptr_strictly_backward",
    "Cares.C02.ptr_targets_strictly_decreasing",
    "Cares.C02.name_iterations_le",
    "Cares.C02.no_oob",
    "Cares.C02.expand_name_no_oob",
    "Cares.C02.expand_string_no_oob",
    "Cares.C02.result_shape",
    "Cares.C02.result_or_error",
    "Cares.C02.reader_cursor_inv",
    "Cares.C02.name_set_position_in_bounds",
    # decide-obligation over the regenerated tables (field scripts vs. ares_dns_rr_get_keys / key datatypes)
    "Cares.Dns.scriptTable_ok",
]
GENERATORS = [gen_tables.gen_dns_tables] + _GEN_SCRIPTS
TRUSTED = [
    "Lean 4.33.0 kernel; axioms allowed: propext, Classical.choice, Quot.sound",
    "hand-written Lean models of ares_buf.c (reader half), ares_dns_name.c (parse side), ares_dns_multistring.c, "
    "ares_dns_parse.c, the validity checks of ares_dns_record.c, ares_expand_name.c, ares_expand_string.c "
    "(CaresModel/Dns/{Bytes,Escape,Name,Parse}.lean), tied to the code by the h_codec correspondence streams",
    "generated tables (tools/gen_tables.py: exhaustive probe linked against the built objects; tools/gen_rrscripts.py: "
    "clang AST field scripts) and the probe/AST extraction itself",
    "harness/h_codec.c, harness/hcodec_dump.h, tools/gen_dns.py, tools/runner.py, tools/props/C02.py",
    "Lean compiler (driver_codec is the compiled form of the definitions the kernel checked)",
    "ASan/UBSan/LSan as the observer of C-level memory safety on the explored inputs",
]
ASSUMPTIONS = [
    "allocation succeeds in these streams (failure schedules belong to C14)",
    "buf != NULL and alen equal to the true buffer length (the harness copies every input into an exact-size heap block)",
    "ares_dns_name_parse / ares_expand_name are modelled with a non-NULL output pointer",
]
EXPLANATION = ("Theorems over ALL byte strings and flag words: the model of the decoders never reads outside the buffer "
               "and never wraps a size subtraction (no_oob), compression pointers go strictly backward and cannot loop "
               "(ptr_*), iteration bound, success returns a fully formed record (result_shape). Tie: the real "
               "ares_dns_parse / ares_expand_name / ares_expand_string run in-process under ASan+UBSan+LSan on "
               "structure-aware generated messages, byte mutations and the repo fuzz corpora; status class + canonical "
               "dump through the public getters are diffed against the compiled model.")


def extra_obligations():
    """totality audit: no `partial`, no fuel parameter, no `decreasing_by sorry` in the DNS model files"""
    import os
    import re
    import vlib
    res = []
    d = os.path.join(vlib.LEAN, "CaresModel", "Dns")
    bad = []
    for f in ("Bytes.lean", "Escape.lean", "Name.lean", "Parse.lean"):
        txt = vlib.strip_comments(open(os.path.join(d, f)).read())
        for ln, line in enumerate(txt.split("\n"), 1):
            if re.search(r"\bpartial\b|\bfuel\b|decreasing_by\s+sorry|\bunsafe\b", line):
                bad.append("%s:%d %s" % (f, ln, line.strip()))
    res.append(("totality: decoders are total definitions without fuel (CaresModel/Dns/*.lean)", not bad, "; ".join(bad)))
    return res


def hexs(b):
    return b.hex() if b else "-"


def pick_flags(rng):
    r = rng.random()
    if r < 0.5:
        return 0
    if r < 0.6:
        return 63
    return rng.randrange(64)


def gen_parse(rng, tier, scale=1.0):
    n = max(1, int({"quick": 4, "thorough": 100}.get(tier, 1) * scale))
    cases = []
    seeds = gen_dns.load_seeds()
    # hand-shaped layouts first
    for data, tag in gen_dns.pointer_games(rng) + gen_dns.edge_messages(rng):
        cases.append(["# %s" % tag, "parse %d %s" % (0, hexs(data))])
        if rng.random() < 0.3:
            cases.append(["# %s" % tag, "parse %d %s" % (pick_flags(rng), hexs(data))])
    for s in seeds:
        cases.append(["# seed", "parse 0 %s" % hexs(s)])
    for _ in range(1800 * n):
        b = gen_dns.gen_message(rng, big=rng.random() < 0.01)
        fl = pick_flags(rng)
        cases.append(["# expect " + gen_dns.expected_line(b, fl), "parse %d %s" % (fl, hexs(b.data))])
        k = rng.random()
        if k < 0.55:
            data, tag = gen_dns.anomalies(rng, b)
            cases.append(["# anomaly-%s" % tag, "parse %d %s" % (pick_flags(rng), hexs(data))])
        if k < 0.35 or k > 0.8:
            data = gen_dns.mutate(rng, b.data)
            cases.append(["# mutated", "parse %d %s" % (pick_flags(rng), hexs(data))])
    for _ in range(600 * n):
        s = rng.choice(seeds) if seeds else b""
        cases.append(["# seed-mutated", "parse %d %s" % (pick_flags(rng), hexs(gen_dns.mutate(rng, s)))])
    # every RR type alone, all 64 flag values
    for t in gen_dns.KNOWN + [99]:
        b = gen_dns.gen_message(rng, types=[t])
        for fl in range(64):
            if tier != "quick" or fl in (0, 63) or rng.random() < 0.1:
                cases.append(["# expect " + gen_dns.expected_line(b, fl), "parse %d %s" % (fl, hexs(b.data))])
    # raw random bytes
    for _ in range(200 * n):
        ln = rng.choice([0, 1, 2, 11, 12, 13, 17, 40, 100])
        cases.append(["# random", "parse %d %s" % (pick_flags(rng), hexs(bytes(rng.randrange(256) for _ in range(ln))))])
    return cases


def gen_expand(rng, tier):
    n = {"quick": 1, "thorough": 40}.get(tier, 1)
    cases = []
    names = gen_dns.load_name_seeds()
    for data, tag in gen_dns.pointer_games(rng):
        for off in sorted({0, 12, len(data) - 16, len(data) - 1, len(data), rng.randrange(len(data) + 1)}):
            if 0 <= off <= len(data):
                cases.append(["# %s" % tag, "xname %s %d" % (hexs(data), off), "xstr %s %d" % (hexs(data), off)])
    for _ in range(500 * n):
        b = gen_dns.gen_message(rng)
        data = b.data if rng.random() < 0.6 else gen_dns.mutate(rng, b.data)
        ops = []
        starts = [e[1] for e in b.layout if e[0] in ("name", "strlen", "lablen", "ptr")]
        for _ in range(3):
            off = rng.choice(starts) if starts and rng.random() < 0.8 else rng.randrange(len(data) + 1)
            if off <= len(data):
                ops.append("%s %s %d" % (rng.choice(["xname", "xname", "xstr"]), hexs(data), off))
        if ops:
            cases.append(ops)
    for nm in names:
        # presentation names of the repo corpus as label material: split on dots, clamp to 63
        labels = [l[:63] for l in nm.strip().split(b".") if l]
        wire = b"".join(bytes([len(l)]) + l for l in labels) + b"\x00"
        cases.append(["xname %s 0" % hexs(wire), "xstr %s 0" % hexs(wire)])
        cases.append(["xname %s 0" % hexs(gen_dns.mutate(rng, wire))])
    for _ in range(300 * n):
        ln = rng.choice([1, 2, 3, 5, 9, 30])
        alpha = rng.choice([[0, 1, 0xc0], [0, 1, 2, 0xc0, 0xc1, 97], list(range(256))])
        data = bytes(rng.choice(alpha) for _ in range(ln))
        cases.append(["xname %s %d" % (hexs(data), rng.randrange(ln + 1)), "xstr %s %d" % (hexs(data), rng.randrange(ln + 1))])
    if tier == "thorough":
        # exhaustive: every string over a 3-symbol alphabet up to length 7, every start offset
        import itertools
        for ln in range(1, 8):
            for tup in itertools.product([0, 1, 0xc0], repeat=ln):
                data = bytes(tup)
                cases.append(["xname %s %d" % (hexs(data), off) for off in range(ln)])
    return cases


def mon_parse(case, out):
    bad = []
    expect = None
    for line, o in zip(case, out):
        if line.startswith("# expect "):
            expect = line[len("# expect "):]
            continue
        if line.startswith("parse "):
            if "!result-on-error" in o or "!MON-null-record" in o:
                bad.append(("result-shape", "parser returned %s" % o[:80]))
            # the comparison with the intended values is C04's monitor (props/C04.py: mon_intended);
            # for an unmutated generated message C02 only demands an answer without a crash
            expect = None
    return bad


def intended_sig(expect, got):
    """specific signature: which item differs first"""
    ei, gi = expect.split(" ; "), gen_dns.normalise(got).split(" ; ")
    for k in range(max(len(ei), len(gi))):
        a = ei[k] if k < len(ei) else "<none>"
        g = gi[k] if k < len(gi) else "<none>"
        if a != g:
            ta, tg = a.split(" "), g.split(" ")
            for x, y in zip(ta, tg):
                if x != y:
                    key = x.split("=")[0]
                    if key == "6553601" and y == "6553601=0" and a.endswith("6553602=-"):
                        return "intended-mismatch:raw-rr-empty-rdata-type-0"
                    return "intended-mismatch:%s:%s" % (ta[0], key)
            return "intended-mismatch:%s:length" % ta[0]
    return "intended-mismatch:status"


def compare(impl, model):
    """first differing output line, ignoring echoed comment lines (the harness tokeniser truncates long ones)"""
    n = max(len(impl), len(model))
    for i in range(n):
        x = impl[i] if i < len(impl) else "<missing>"
        y = model[i] if i < len(model) else "<missing>"
        if x.startswith("#") and y.startswith("#"):
            continue
        if x != y:
            return i
    return None


def nontrivial(case, out):
    return any(o.startswith("st=ok") for o in out)


STREAMS = [
    Stream("parse", "h_codec", "driver_codec", gen_parse, monitor=mon_parse, nontrivial=nontrivial, compare=compare,
           opkind=lambda l: l.split()[0] + (" " + l.split()[1].split("-")[0] if l.startswith("#") and len(l.split()) > 1 else "")),
    Stream("expand", "h_codec", "driver_codec", gen_expand, nontrivial=nontrivial, compare=compare,
           opkind=lambda l: l.split()[0]),
]

RULE = ("inputs are generated from VERIF_SEED (structure-aware encoder output, structural anomalies, byte mutations, "
        "repo fuzz corpora, hand-shaped pointer layouts); an input is non-trivial when the implementation accepted it "
        "(st=ok) in at least one operation; distinct by hash of the op lines")
LEVEL_TEXT = ("Proof (partial): Lean 4 theorems for ALL byte strings and ALL parse-flag words about an explicit-check model of "
              "the decoders (ares_buf reader, ares_dns_name_parse, ares_dns_parse with every RR type, multistring and "
              "option loops, ares_expand_name/_string): total definitions without fuel; compression pointers strictly "
              "backward, targets strictly decreasing, iteration bound; no read outside the buffer and no wrapping size "
              "subtraction (no_oob); success returns a fully formed record, otherwise an error (result_shape, "
              "result_or_error); cursor invariant of every reader step. Tie: real ares_dns_parse / ares_expand_name / "
              "ares_expand_string in-process under ASan+UBSan+LSan vs the compiled model on generated messages, "
              "mutations, fuzz corpora (status class + canonical getter dump). Partial: C-level memory safety, leaks "
              "and UB are observed by sanitizers on explored inputs, not proved; the legacy ares_parse_*_reply entry "
              "points are covered by C18's streams, not by these theorems.")
LEVEL_NOTE = ("Trusted: Lean kernel (axioms propext, Classical.choice, Quot.sound only); faithfulness of the hand-written "
              "model as far as the correspondence streams exercise it; generated tables (exhaustive probe, clang AST "
              "scripts); harness/h_codec.c, tools/gen_dns.py, the runner; sanitizers for the C-level part.")
TECHNIQUE = "Lean 4 proof over an explicit-check model (well-founded recursion, invariants) + differential correspondence under sanitizers"
