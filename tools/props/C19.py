"""C19 - internal containers behave as their abstract data types."""
from runner import Stream

ID = "C19"
IMPORTS = ["CaresProps.C19"]
LEAN_TARGETS = ["CaresModel", "CaresLemmas", "CaresProps", "driver_dsa"]
THEOREMS = [
    "Cares.C19.arr_insertAt_refines",
    "Cares.C19.arr_claimAt_refines",
    "Cares.C19.arr_at_refines",
    "Cares.C19.arr_step_refines",
    "Cares.C19.arr_run_refines",
    "Cares.C19.arr_insert_never_stuck",
]
TRUSTED = [
    "Lean 4.33.0 kernel; axioms allowed: propext, Classical.choice, Quot.sound",
    "hand-written Lean models of ares_array.c (CaresModel/Dsa/*.lean), tied to the code by the h_dsa "
    "correspondence stream (same op lines to harness and compiled Lean driver, outputs diffed)",
    "harness/h_dsa.c, tools/runner.py, tools/props/C19.py (generator, reference monitor, differ)",
    "Lean compiler (driver_dsa is the compiled form of the definitions the kernel checked)",
]
ASSUMPTIONS = [
    "allocation succeeds in this stream (failure schedules belong to C14)",
    "element destructors are not modelled",
]
EXPLANATION = ("Refinement theorems (each container model refines the trivial list/map reference for every "
               "operation sequence) + step-by-step correspondence of the real containers with the model.")


def gen_arr(rng, tier):
    ncases = 400 if tier == "quick" else 20000
    maxops = 60 if tier == "quick" else 400
    cases = []
    for _ in range(ncases):
        n = rng.randint(1, maxops)
        style = rng.choice(["mixed", "drain_front", "grow", "queue", "edges"])
        ops = ["arr new 1"]
        ln = 0
        for _ in range(n):
            r = rng.random()
            v = rng.randint(1, 1 << 20)
            if style == "drain_front" and ln > 0 and r < 0.55:
                ops.append(rng.choice(["arr rmfirst 1", "arr rm 1 0", "arr claim 1 0"]))
                ln -= 1
            elif style == "queue" and r < 0.5:
                ops.append("arr inslast 1 %d" % v)
                ln += 1
            elif style == "queue" and ln > 0 and r < 0.95:
                ops.append("arr rmfirst 1")
                ln -= 1
            elif style == "grow" and r < 0.8:
                ops.append("arr ins 1 %d %d" % (rng.randint(0, ln), v))
                ln += 1
            elif r < 0.30:
                idx = rng.randint(0, ln + (1 if rng.random() < 0.1 else 0))
                ops.append("arr ins 1 %d %d" % (idx, v))
                if idx <= ln:
                    ln += 1
            elif r < 0.40:
                ops.append("arr insfirst 1 %d" % v)
                ln += 1
            elif r < 0.50:
                ops.append("arr inslast 1 %d" % v)
                ln += 1
            elif r < 0.65:
                idx = rng.randint(0, max(ln, 1))
                ops.append(rng.choice(["arr rm 1 %d", "arr claim 1 %d"]) % idx)
                if idx < ln:
                    ln -= 1
            elif r < 0.72:
                ops.append("arr rmfirst 1")
                ln = max(ln - 1, 0)
            elif r < 0.79:
                ops.append("arr rmlast 1")
                ln = max(ln - 1, 0)
            elif r < 0.86:
                ops.append("arr at 1 %d" % rng.randint(0, ln + 1))
            elif r < 0.90:
                ops.append(rng.choice(["arr first 1", "arr last 1", "arr len 1"]))
            else:
                ops.append("arr dump 1")
        ops.append("arr dump 1")
        if rng.random() < 0.5:
            ops.append("arr finish 1")
        cases.append(ops)
    return cases


def mon_arr(case, out):
    """The property evaluated directly on the implementation: a python list is the trivial reference."""
    ref = None
    bad = []
    for line, o in zip(case, out):
        t = line.split()
        if t[0] != "arr":
            continue
        cmd = t[1]
        a = [int(x) for x in t[3:]]
        exp = None
        if cmd == "new":
            ref, exp = [], "ok"
        elif ref is None:
            continue
        elif cmd == "ins":
            if a[0] <= len(ref):
                ref.insert(a[0], a[1]); exp = "ok"
            else:
                exp = "err"
        elif cmd == "insfirst":
            ref.insert(0, a[0]); exp = "ok"
        elif cmd == "inslast":
            ref.append(a[0]); exp = "ok"
        elif cmd in ("rm", "claim"):
            if a[0] < len(ref):
                v = ref.pop(a[0]); exp = "ok" if cmd == "rm" else str(v)
            else:
                exp = "err"
        elif cmd == "rmfirst":
            exp = "ok" if ref else "err"
            ref[:1] = []
        elif cmd == "rmlast":
            exp = "ok" if ref else "err"
            ref[-1:] = []
        elif cmd == "at":
            exp = str(ref[a[0]]) if a[0] < len(ref) else "none"
        elif cmd == "first":
            exp = str(ref[0]) if ref else "none"
        elif cmd == "last":
            exp = str(ref[-1]) if ref else "none"
        elif cmd == "len":
            exp = str(len(ref))
        elif cmd in ("dump", "finish"):
            exp = "[" + " ".join(map(str, ref)) + "]"
            if cmd == "finish":
                ref = None
        if exp is not None and o != exp:
            bad.append(("arr-order", "after %r the array answered %r, the list reference %r" % (line, o, exp)))
            break
    return bad


STREAMS = [
    Stream("arr", "h_dsa", "driver_dsa", gen_arr, monitor=mon_arr),
]

LEVEL_TEXT = ("Proof: Lean 4 refinement theorems, for every operation sequence, that the model of each container "
              "(ares_array with its offset/count/allocation fields and ares_array_move bounds checks; more containers "
              "as they are added) behaves as the trivial list/map reference, never gets stuck and keeps its invariant. "
              "Tie: the real containers are run step by step against the compiled model on generated op sequences "
              "(drain-from-front, growth thresholds, boundary indexes) under ASan/UBSan; a python list reference "
              "monitors the property directly on the implementation.")
LEVEL_NOTE = ("Trusted: Lean kernel (axioms propext, Classical.choice, Quot.sound only), the hand-written model's "
              "faithfulness as far as the correspondence stream exercises it, harness/h_dsa.c, the runner. "
              "C-level memory safety is observed under sanitizers, not proved.")
TECHNIQUE = "Lean 4 refinement proof (model -> abstract list/map) + differential correspondence with the C containers"
