"""C19 - internal containers behave as their abstract data types."""
from runner import Stream
import gen_consts

ID = "C19"
IMPORTS = ["CaresProps.C19"]
LEAN_TARGETS = ["CaresProps.C19", "driver_dsa"]
THEOREMS = [
    "Cares.C19.arr_insertAt_refines",
    "Cares.C19.arr_claimAt_refines",
    "Cares.C19.arr_at_refines",
    "Cares.C19.arr_step_refines",
    "Cares.C19.arr_run_refines",
    "Cares.C19.arr_insert_never_stuck",
    # ares_htable + typed wrappers
    "Cares.C19.ht_consts_ok",
    "Cares.C19.ht_size_arith_fits",
    "Cares.C19.ht_empty",
    "Cares.C19.ht_insert_refines",
    "Cares.C19.ht_expand_preserves",
    "Cares.C19.ht_expand_prealloc_suffices",
    "Cares.C19.ht_remove_refines",
    "Cares.C19.ht_get_refines",
    "Cares.C19.ht_count_eq_keys",
    "Cares.C19.ht_collisions_eq_sum",
    "Cares.C19.ht_step_refines",
    "Cares.C19.ht_run_refines_partial",
    "Cares.C19.ht_reachable_inv",
    "Cares.C19.ht_null_key_lost",
    "Cares.C19.fnv_step_is_mul",
    "Cares.C19.tolower_nonzero",
    "Cares.C19.fnv1a_casecmp_respects_caseeq",
    # ares_buf
    "Cares.C19.buf_consts_ok",
    "Cares.C19.buf_empty_rel",
    "Cares.C19.buf_step_refines",
    "Cares.C19.buf_run_refines",
    "Cares.C19.buf_reachable_inv",
    "Cares.C19.buf_append_queue",
    "Cares.C19.buf_reclaim_preserves",
    "Cares.C19.buf_tag_rollback_restores",
    "Cares.C19.buf_backpatch_eq_overwrite",
    "Cares.C19.buf_split_refines",
    "Cares.C19.buf_setlen_unprotected",
    # ares_slist
    "Cares.C19.sl_consts_ok",
    "Cares.C19.sl_empty_inv",
    "Cares.C19.sl_insert_refines",
    "Cares.C19.sl_insert_perm",
    "Cares.C19.sl_remove_refines",
    "Cares.C19.sl_find_first_equal",
    "Cares.C19.sl_first_last",
    "Cares.C19.sl_reinsert_restores",
    "Cares.C19.sl_levels_sublist",
    "Cares.C19.sl_step_refines",
    "Cares.C19.sl_run_refines",
    "Cares.C19.sl_reachable_inv",
    # ares_llist (pointer level)
    "Cares.C19.ll_empty",
    "Cares.C19.ll_create",
    "Cares.C19.ll_insert_first",
    "Cares.C19.ll_insert_last",
    "Cares.C19.ll_claim",
    "Cares.C19.ll_mvparent_first",
    "Cares.C19.ll_mvparent_last",
    "Cares.C19.ll_insert_before_partial",
    "Cares.C19.ll_insert_after_partial",
    "Cares.C19.ll_insert_before_pinned_breaks",
    "Cares.C19.ll_observations",
    "Cares.C19.ll_run_refines",
]
TRUSTED = [
    "Lean 4.33.0 kernel; axioms allowed: propext, Classical.choice, Quot.sound",
    "hand-written Lean models of ares_array.c, ares_htable*.c, ares_buf.c, ares_slist.c, ares_llist.c "
    "(CaresModel/Dsa/*.lean, CaresModel/Buf.lean), tied to the code by the h_dsa correspondence streams "
    "(same op lines to harness and compiled Lean driver, outputs diffed) and by constants regenerated from the "
    "sources on every run (tools/gen_consts.py -> CaresModel/Generated/DsaConsts.lean)",
    "harness/h_dsa.c (incl. its allocator with failure schedule, ledger and zero-fill), tools/runner.py, "
    "tools/props/C19.py (generators, python reference monitors, differ), tools/gen_consts.py (probe TU)",
    "Lean compiler (driver_dsa is the compiled form of the definitions the kernel checked)",
    "the model-side coin flips of the skip list differ from the implementation's: sl_insert_refines holds for all "
    "coin sequences, node levels are not observable",
    "the hash seed of the typed hash tables is not observable: ht_run_refines_partial holds for every lawful "
    "hash / key-equality pair; only the `raw` table (identity hash of the harness) is compared allocation by allocation",
]
ASSUMPTIONS = [
    "allocation succeeds in the arr/ht/buf/sl/ll streams; the allocfail streams inject single failures (C14)",
    "element destructors are not modelled (values are plain integers / strings owned by the harness)",
    "skip list: the user changes a node's key only immediately before ares_slist_node_reinsert",
    "byte buffer: ares_buf_set_length is used as documented (never below an active tag); positions "
    "(get/set_position) are compared only where they do not depend on the growth policy",
    "sizes stay far below 2^32 / 2^63 (no size_t wrap in length arithmetic)",
]
EXPLANATION = ("Refinement theorems (each container model refines its trivial reference - list, association map, byte "
               "queue, sorted list, family of lists - for every operation sequence) + step-by-step correspondence of the "
               "real containers with the compiled models + python reference monitors evaluating the ADT property on the "
               "implementation's own answers.")
RULE = ("cases are generated from VERIF_SEED by seven stream generators (styles: front draining, growth thresholds, "
        "duplicate keys, colliding hashes, case variants, equal sort keys, tall/flat skip-list towers, moves between "
        "lists, back-patching, every split flag combination, injected allocation failures); a case is non-trivial when "
        "at least one operation produced a non-error result; distinct by hash of its op lines")


def gen_arr(rng, tier):
    ncases = 400 if tier == "quick" else 15000
    maxops = 60 if tier == "quick" else 400
    cases = []
    for _ in range(ncases):
        n = rng.randint(1, maxops)
        style = rng.choice(["mixed", "drain_front", "grow", "queue", "edges"])
        ops = ["arr new 1"]
        ln = 0
        for _ in range(n):
            r = rng.random()
            v = rng.randint(1, 1 << 20)
            if style == "drain_front" and ln > 0 and r < 0.55:
                ops.append(rng.choice(["arr rmfirst 1", "arr rm 1 0", "arr claim 1 0"]))
                ln -= 1
            elif style == "queue" and r < 0.5:
                ops.append("arr inslast 1 %d" % v)
                ln += 1
            elif style == "queue" and ln > 0 and r < 0.95:
                ops.append("arr rmfirst 1")
                ln -= 1
            elif style == "grow" and r < 0.8:
                ops.append("arr ins 1 %d %d" % (rng.randint(0, ln), v))
                ln += 1
            elif r < 0.30:
                idx = rng.randint(0, ln + (1 if rng.random() < 0.1 else 0))
                ops.append("arr ins 1 %d %d" % (idx, v))
                if idx <= ln:
                    ln += 1
            elif r < 0.40:
                ops.append("arr insfirst 1 %d" % v)
                ln += 1
            elif r < 0.50:
                ops.append("arr inslast 1 %d" % v)
                ln += 1
            elif r < 0.65:
                idx = rng.randint(0, max(ln, 1))
                ops.append(rng.choice(["arr rm 1 %d", "arr claim 1 %d"]) % idx)
                if idx < ln:
                    ln -= 1
            elif r < 0.72:
                ops.append("arr rmfirst 1")
                ln = max(ln - 1, 0)
            elif r < 0.79:
                ops.append("arr rmlast 1")
                ln = max(ln - 1, 0)
            elif r < 0.86:
                ops.append("arr at 1 %d" % rng.randint(0, ln + 1))
            elif r < 0.90:
                ops.append(rng.choice(["arr first 1", "arr last 1", "arr len 1"]))
            else:
                ops.append("arr dump 1")
        ops.append("arr dump 1")
        if rng.random() < 0.5:
            ops.append("arr finish 1")
        cases.append(ops)
    return cases


def mon_arr(case, out):
    """The property evaluated directly on the implementation: a python list is the trivial reference."""
    ref = None
    bad = []
    for line, o in zip(case, out):
        t = line.split()
        if t[0] != "arr":
            continue
        cmd = t[1]
        a = [int(x) for x in t[3:]]
        exp = None
        if cmd == "new":
            ref, exp = [], "ok"
        elif ref is None:
            continue
        elif cmd == "ins":
            if a[0] <= len(ref):
                ref.insert(a[0], a[1]); exp = "ok"
            else:
                exp = "err"
        elif cmd == "insfirst":
            ref.insert(0, a[0]); exp = "ok"
        elif cmd == "inslast":
            ref.append(a[0]); exp = "ok"
        elif cmd in ("rm", "claim"):
            if a[0] < len(ref):
                v = ref.pop(a[0]); exp = "ok" if cmd == "rm" else str(v)
            else:
                exp = "err"
        elif cmd == "rmfirst":
            exp = "ok" if ref else "err"
            ref[:1] = []
        elif cmd == "rmlast":
            exp = "ok" if ref else "err"
            ref[-1:] = []
        elif cmd == "at":
            exp = str(ref[a[0]]) if a[0] < len(ref) else "none"
        elif cmd == "first":
            exp = str(ref[0]) if ref else "none"
        elif cmd == "last":
            exp = str(ref[-1]) if ref else "none"
        elif cmd == "len":
            exp = str(len(ref))
        elif cmd in ("dump", "finish"):
            exp = "[" + " ".join(map(str, ref)) + "]"
            if cmd == "finish":
                ref = None
        if exp is not None and o != exp:
            bad.append(("arr-order", "after %r the array answered %r, the list reference %r" % (line, o, exp)))
            break
    return bad



# ------------------------------------------------------------------------------------------ hash tables
HT_KINDS = ["szvp", "strvp", "asvp", "vpvp", "vpstr", "dict", "raw"]
HT_STRKEY = {"strvp", "dict"}
HT_STRVAL = {"vpstr", "dict"}
HT_KEYS = {"asvp", "dict", "raw"}


def _hex(bs):
    return "".join("%02x" % b for b in bs) or "-"


def _rand_word(rng, lo, hi):
    n = rng.randint(lo, hi)
    return bytes(rng.choice(b"abcXYZ09-_.") for _ in range(n))


def _case_variant(rng, w):
    return bytes((c ^ 0x20) if (65 <= (c & ~0x20) <= 90 and rng.random() < 0.5) else c for c in w)


def gen_ht(rng, tier):
    ncases = 260 if tier == "quick" else 7500
    big = 70 if tier == "quick" else 420
    cases = []
    for _ in range(ncases):
        style = rng.choice(["grow", "dup", "churn", "collide", "case", "threshold"])
        if style == "collide":
            kind = "raw"
        elif style == "case":
            kind = rng.choice(["strvp", "dict"])
        else:
            kind = rng.choice(HT_KINDS)
        strkey, strval = kind in HT_STRKEY, kind in HT_STRVAL

        def newval():
            return _hex(_rand_word(rng, 1, 6)) if strval else str(rng.randint(1, 1 << 20))

        # key universe
        if style == "collide":
            # identity hash: keys sharing the low bits share a bucket until the table has grown enough
            bases = [rng.randint(0, 15) for _ in range(rng.randint(1, 3))]
            uni = sorted({b + m * rng.choice([16, 32, 64, 128, 1024, 4096]) for b in bases for m in range(rng.randint(2, 14))})
            uni = [str(k) for k in uni]
        elif strkey:
            n = {"dup": 4, "case": 6}.get(style, rng.randint(8, big))
            words = list({_rand_word(rng, 0 if kind == "strvp" else 1, 8) for _ in range(n)})
            if rng.random() < 0.3:
                words.append(b"")
            uni = [_hex(w) for w in words]
        else:
            n = {"dup": 4}.get(style, rng.randint(8, big))
            top = (1 << 31) - 1 if kind == "asvp" else (1 << 32) - 1
            uni = [str(k) for k in ({rng.randint(0, top) for _ in range(n)} | ({rng.randint(0, 40) for _ in range(n // 2)}))]
        rng.shuffle(uni)

        def pick():
            k = rng.choice(uni)
            if style == "case" or (strkey and rng.random() < 0.15):
                k = _hex(_case_variant(rng, bytes.fromhex(k) if k != "-" else b""))
            return k

        ops = ["ht new 1 %s" % kind]
        if style in ("grow", "collide"):
            for i, k in enumerate(uni):
                ops.append("ht put 1 %s %s" % (k, newval()))
                r = rng.random()
                if r < 0.25:
                    ops.append("ht get 1 %s" % rng.choice(uni[:i + 1]))
                elif r < 0.32:
                    ops.append("ht count 1")
                elif r < 0.40:
                    ops.append("ht put 1 %s %s" % (rng.choice(uni[:i + 1]), newval()))
                elif r < 0.46:
                    ops.append("ht del 1 %s" % rng.choice(uni[:i + 1]))
        elif style == "threshold":
            # sit right at a growth threshold (75% of 16, 32, 64) and go back and forth across it
            target = rng.choice([12, 12, 24, 48])
            uni = uni + [str(10 ** 6 + i) if not strkey else _hex(b"k%d" % i) for i in range(max(0, target + 2 - len(uni)))]
            live = []
            for k in uni[:target]:
                ops.append("ht put 1 %s %s" % (k, newval()))
                live.append(k)
            for _ in range(rng.randint(4, 30)):
                r = rng.random()
                if r < 0.45 and live:
                    k = live.pop(rng.randrange(len(live)))
                    ops.append("ht del 1 %s" % k)
                elif r < 0.9:
                    k = rng.choice(uni)
                    ops.append("ht put 1 %s %s" % (k, newval()))
                    if k not in live:
                        live.append(k)
                else:
                    ops.append("ht count 1")
        else:
            for _ in range(rng.randint(5, big)):
                r = rng.random()
                if r < 0.45:
                    ops.append("ht put 1 %s %s" % (pick(), newval()))
                elif r < 0.65:
                    ops.append("ht del 1 %s" % pick())
                elif r < 0.70 and kind == "strvp":
                    ops.append("ht claim 1 %s" % pick())
                elif r < 0.92:
                    ops.append("ht get 1 %s" % pick())
                elif r < 0.97:
                    ops.append("ht count 1")
                else:
                    ops.append("ht keys 1")
        # final sweep: every key of the universe, the count, the key dump
        for k in uni:
            ops.append("ht get 1 %s" % k)
        ops.append("ht count 1")
        ops.append("ht keys 1")
        if kind == "raw":
            # identity hash: the model predicts every allocation (bucket array, llists pre-allocated from
            # num_collisions, lazily created llists, nodes), so the number of allocation calls is compared too
            ops = [o for op in ops for o in ([op, "alloc count"] if op.startswith("ht put") and rng.random() < 0.3 else [op])]
            ops.append("alloc count")
        cases.append(ops)
    return cases


def _canon(kind, k):
    if kind in HT_STRKEY:
        return bytes(c | 0x20 if 65 <= c <= 90 else c for c in (bytes.fromhex(k) if k != "-" else b""))
    return int(k)


def mon_ht(case, out):
    """The property evaluated directly on the implementation: every live key maps to its latest value, removed
    keys are gone, count = number of live keys (python dict as the trivial reference)."""
    tabs = {}
    bad = []
    for line, o in zip(case, out):
        t = line.split()
        if t[0] == "alloc" and t[1] == "failnth":
            return bad      # from here on the allocation-failure monitor judges the case
        if t[0] != "ht":
            continue
        cmd, h = t[1], t[2]
        exp = None
        if cmd == "new":
            tabs[h] = (t[3], {})
            exp = "ok"
        elif h not in tabs:
            continue
        else:
            kind, ref = tabs[h]
            nullkey = kind in ("vpvp", "vpstr") and len(t) > 3 and t[3] == "0"
            if cmd == "put":
                if kind == "dict" and t[3] == "-":
                    exp = "err"
                else:
                    ref[_canon(kind, t[3])] = (t[3], t[4]); exp = "ok"
            elif cmd == "get":
                e = ref.get(_canon(kind, t[3])); exp = e[1] if e else "none"
            elif cmd == "claim":
                e = ref.get(_canon(kind, t[3])); exp = e[1] if e else "none"
                if o == exp:
                    ref.pop(_canon(kind, t[3]), None)
            elif cmd == "del":
                exp = "ok" if _canon(kind, t[3]) in ref else "none"
                if o == exp:
                    ref.pop(_canon(kind, t[3]), None)
            elif cmd == "count":
                exp = str(len(ref))
            elif cmd == "keys":
                if kind not in HT_KEYS:
                    exp = "unsupported"
                elif kind == "dict":
                    exp = "[" + " ".join(_hex(b) for b in sorted(bytes.fromhex(s) for s, _ in ref.values())) + "]"
                else:
                    exp = "[" + " ".join(str(k) for k in sorted(ref)) + "]"
            if exp is not None and o != exp and nullkey and cmd in ("get", "del") and o == "none":
                # a NULL key was accepted by insert but can neither be found nor removed; keep monitoring the rest
                if not any(s == "ht-nullkey" for s, _ in bad):
                    bad.append(("ht-nullkey", "%s table: the NULL key was inserted (counted by num_keys) but %r "
                                "answered %r instead of %r" % (kind, line, o, exp)))
                continue
        if exp is not None and o != exp:
            bad.append(("ht-map", "after %r the hash table answered %r, the map reference %r" % (line, o, exp)))
            break
    return bad


# ------------------------------------------------------------------------------------------ byte buffers
WS = b"\r\t \v\f"
LOWER = bytes(c | 0x20 if 65 <= c <= 90 else c for c in range(256))


def spec_split(rem, delims, flags, maxs):
    """Specification of ares_buf_split on the unread bytes: (sections, start of the last section or None)."""
    keep, blank, nodup, ci, ltrim, rtrim = (flags & 1, flags & 2, flags & 4, flags & 8, flags & 16, flags & 32)
    out, i, first, last = [], 0, True, None
    while i < len(rem):
        if first:
            start = i
        elif keep:
            start = i; i += 1
        else:
            i += 1; start = i
        last = start
        if maxs and len(out) >= maxs - 1:
            i = len(rem)
        else:
            while i < len(rem) and rem[i] not in delims:
                i += 1
        sec = rem[start:i]
        if ltrim:
            sec = sec.lstrip(WS + b"\n")
        if rtrim:
            sec = sec.rstrip(WS + b"\n")
        if sec or blank:
            dup = any((s.translate(LOWER) == sec.translate(LOWER)) if ci else s == sec for s in out)
            if not (nodup and dup):
                out.append(sec)
        first = False
    return out, last


class BufRef:
    """Trivial reference for one ares_buf_t: everything ever appended (`stream`), an absolute read position and
    an absolute tag.  Reclaiming is invisible here; `base` (how much of the front the implementation has dropped)
    is only *learned* from get-position answers and checked against the bound min(tag, pos)."""

    def __init__(self, const=None):
        self.const = const is not None
        self.stream = bytearray(const or b"")
        self.pos, self.tag = 0, None
        self.base, self.base_known = 0, True
        self.hidden = bytearray()      # known bytes physically behind data_len that a later set_length may expose
        self.unknown = False           # a set_length exposed bytes this reference does not know
        self.alloc = False             # has the buffer ever allocated?

    def rem(self):
        return bytes(self.stream[self.pos:])

    def floor(self):
        return self.pos if self.tag is None or self.tag > self.pos else self.tag

    def _consume_prefix(self, n, empty_is_zero=True):
        self.pos += n
        return str(n)

    def apply(self, t, out):
        """t = tokens after the handle; out = what the implementation answered. Returns the expected answer or None."""
        cmd, a = t[0], t[1:]
        rem = self.rem()
        if cmd in ("app", "be16", "be32"):
            data = (bytes.fromhex(a[0]) if a[0] != "-" else b"") if cmd == "app" else \
                int(a[0]).to_bytes(2 if cmd == "be16" else 4, "big")
            if not data:
                return "ok"
            if self.const:
                return "err"
            if out == "ok":
                if self.floor() > self.base:
                    self.base_known = False
                if len(data) <= len(self.hidden):
                    del self.hidden[:len(data)]      # overwritten in place
                else:
                    self.hidden = bytearray()        # the buffer may have been compacted or reallocated
                self.stream += data
                self.alloc = True
            return "ok"
        if cmd == "fetch":
            n = int(a[0])
            if n == 0 or n > len(rem):
                return "err"
            self.pos += n
            return _hex(rem[:n])
        if cmd in ("fbe16", "fbe32"):
            n = 2 if cmd == "fbe16" else 4
            if len(rem) < n:
                return "err"
            self.pos += n
            return str(int.from_bytes(rem[:n], "big"))
        if cmd == "consume":
            n = int(a[0])
            if n > len(rem):
                return "err"
            self.pos += n
            return "ok"
        if cmd == "tag":
            self.tag = self.pos
            return "ok"
        if cmd == "rollback":
            if self.tag is None:
                return "err"
            self.pos, self.tag = self.tag, None
            return "ok"
        if cmd == "tagclear":
            if self.tag is None:
                return "err"
            self.tag = None
            return "ok"
        if cmd == "tagfetch":
            if self.tag is None:
                return "err"
            if self.tag > self.pos:
                return None
            if not self.alloc and not self.const:
                return "err"
            return _hex(bytes(self.stream[self.tag:self.pos]))
        if cmd == "taglen":
            if self.tag is None:
                return "0"
            return str(self.pos - self.tag) if self.tag <= self.pos else None
        if cmd == "reclaim":
            if not self.const and self.alloc:
                if self.floor() > self.base:
                    self.hidden = bytearray()
                self.base = self.floor()
                self.base_known = True
            return "ok"
        if cmd == "len":
            return str(len(rem))
        if cmd == "peek":
            return _hex(rem)
        if cmd == "getpos":
            if out.isdigit():
                b = self.pos - int(out)
                # the front may only be dropped up to min(tag, pos), never given back
                if not (self.base <= b <= self.floor()) and not (self.base_known and b == self.base):
                    return "a position between %d and %d" % (self.pos - self.floor(), self.pos - self.base)
                if self.base_known and b != self.base:
                    return str(self.pos - self.base)
                self.base, self.base_known = b, True
                return out
            return str(self.pos - self.base)
        if cmd == "setpos":
            if not self.base_known:
                return None
            n = int(a[0])
            if n > len(self.stream) - self.base:
                return "err"
            self.pos = self.base + n
            return "ok"
        if cmd == "setlen":
            n = int(a[0])
            if self.const:
                return "err"
            if out != "ok":
                return None if n >= len(rem) else "ok"   # growing is bounded by the allocation, which is not modelled here
            if n <= len(rem):
                cut = self.stream[self.pos + n:]
                self.hidden = bytearray(cut) + self.hidden
                del self.stream[self.pos + n:]
            else:
                k = n - len(rem)
                if k > len(self.hidden):
                    self.stream += bytes(k)        # unknown bytes: stop judging this buffer
                    self.unknown = True
                else:
                    self.stream += self.hidden[:k]
                    del self.hidden[:k]
            return "ok"
        if cmd in ("ws", "nonws", "line", "until", "charset"):
            if cmd == "ws":
                w = WS + (b"\n" if a[0] != "0" else b"")
                n = len(rem) - len(rem.lstrip(w))
            elif cmd == "nonws":
                n = 0
                while n < len(rem) and rem[n] not in WS + b"\n":
                    n += 1
            elif cmd == "line":
                n = rem.find(b"\n")
                n = len(rem) if n < 0 else (n + 1 if a[0] != "0" else n)
            elif cmd == "until":
                cs = bytes.fromhex(a[0]) if a[0] != "-" else b""
                n = 0
                if cs:
                    while n < len(rem) and rem[n] not in cs:
                        n += 1
                    if a[1] != "0" and n == len(rem) and rem:
                        return "max"
            else:
                cs = bytes.fromhex(a[0]) if a[0] != "-" else b""
                n = 0
                while cs and n < len(rem) and rem[n] in cs:
                    n += 1
            self.pos += n
            return str(n)
        if cmd == "split":
            delims = bytes.fromhex(a[0]) if a[0] != "-" else b""
            if not delims:
                return "err"
            secs, last = spec_split(rem, delims, int(a[1]), int(a[2]))
            if rem:
                self.tag = self.pos + last
                self.pos = len(self.stream)
            return "[" + " ".join(_hex(s) for s in secs) + "]"
        if cmd in ("finishbin", "finishstr"):
            if self.const:
                return "err"
            return _hex(bytes(self.stream[self.floor():]))
        return None


BUF_TEXT = b"ab, \tXy\n;,Z q\r\n"


def gen_buf(rng, tier):
    ncases = 300 if tier == "quick" else 9000
    maxops = 60 if tier == "quick" else 300
    cases = []
    for _ in range(ncases):
        style = rng.choice(["queue", "tags", "stream", "parse", "split", "backpatch", "positions", "const"])
        const = style == "const" or (style in ("parse", "split") and rng.random() < 0.5)
        ops = []

        def text(lo, hi):
            n = rng.randint(lo, hi)
            if style in ("parse", "split"):
                return bytes(rng.choice(BUF_TEXT) for _ in range(n))
            return bytes(rng.randrange(256) for _ in range(n))

        if const:
            data = text(1, 80)
            ref = BufRef(const=data)
            ops.append("buf const 1 %s" % _hex(data))
        else:
            ref = BufRef()
            ops.append("buf new 1")

        def emit(s):
            ops.append("buf 1 ".replace("buf 1 ", "buf %s 1 " % s.split()[0]) + " ".join(s.split()[1:]) if False else
                       "buf %s 1%s" % (s.split()[0], "".join(" " + x for x in s.split()[1:])))
            ref.apply(s.split(), "ok" if s.split()[0] in ("app", "be16", "be32", "setlen") and not ref.const else "")

        n = rng.randint(3, maxops)
        for _ in range(n):
            r = rng.random()
            rem = len(ref.rem())
            if style == "split" and r < 0.25:
                delims = bytes(rng.sample(list(b",; \n\tq"), rng.randint(1, 3)))
                fl = rng.choice([0, 1, 2, 3, 16, 18, 32, 48, 50, 6, 14, 63, rng.randrange(64)])
                mx = rng.choice([0, 0, 0, 1, 2, 3, 5])
                if fl & 6 == 6 and not fl & 8 and \
                        sum(1 for x in spec_split(ref.rem(), delims, fl & ~4, mx)[0] if not x) >= 2:
                    fl |= 8     # two blank sections + NO_DUPLICATES is finding F31-C19 (memcmp(NULL, .., 0)); see corpus
                emit("split %s %d %d" % (_hex(delims), fl, mx))
                continue
            if style == "backpatch" and not ref.const and rem >= 4 and r < 0.3 and (ref.tag is None or ref.tag <= ref.pos):
                # the length-prefix idiom of ares_dns_write.c: shorten, overwrite in place, restore the length
                p = rng.randint(0, rem - 2)
                k = rng.randint(1, min(4, rem - p))
                emit("len")
                emit("setlen %d" % p)
                emit("app %s" % _hex(bytes(rng.randrange(256) for _ in range(k))))
                emit("setlen %d" % rem)
                emit("peek")
                continue
            if style == "positions" and r < 0.35:
                emit("getpos")
                top = len(ref.stream) - ref.base
                emit("setpos %d" % rng.randint(0, top + (1 if rng.random() < 0.15 else 0)))
                emit("peek")
                continue
            if r < 0.30 and not ref.const:
                big = style == "stream" and rng.random() < 0.3
                c = rng.random()
                if c < 0.75:
                    emit("app %s" % _hex(text(0 if rng.random() < 0.05 else 1, 300 if big else 24)))
                elif c < 0.88:
                    emit("be16 %d" % rng.randrange(1 << 16))
                else:
                    emit("be32 %d" % rng.randrange(1 << 32))
            elif r < 0.30:
                emit("app %s" % _hex(text(1, 4)))         # const buffer: must be refused
            elif r < 0.48:
                c = rng.random()
                k = rng.randint(0, rem + 1) if rng.random() < 0.2 else rng.randint(0, max(rem, 1))
                if c < 0.5:
                    emit("fetch %d" % k)
                elif c < 0.8:
                    emit("consume %d" % k)
                elif c < 0.9:
                    emit("fbe16")
                else:
                    emit("fbe32")
            elif r < 0.62:
                c = rng.random()
                if style in ("tags", "stream", "queue") or c < 0.5:
                    emit(rng.choice(["tag", "tag", "rollback", "tagclear", "tagfetch", "taglen"]))
                else:
                    emit("len")
            elif r < 0.70:
                emit("reclaim")
            elif r < 0.80 and style == "parse":
                c = rng.random()
                if c < 0.25:
                    emit("ws %d" % rng.randint(0, 1))
                elif c < 0.45:
                    emit("nonws")
                elif c < 0.65:
                    emit("line %d" % rng.randint(0, 1))
                elif c < 0.85:
                    emit("until %s %d" % (_hex(bytes(rng.sample(list(b",;\n q"), rng.randint(0, 3)))), rng.randint(0, 1)))
                else:
                    emit("charset %s" % _hex(bytes(rng.sample(list(b"ab, \t"), rng.randint(0, 4)))))
            elif r < 0.86:
                emit(rng.choice(["len", "peek", "getpos"]))
            elif r < 0.90 and not ref.const and (ref.tag is None or ref.tag <= ref.pos) and rem > 0:
                emit("setlen %d" % rng.randint(0, rem))     # truncate
            else:
                emit(rng.choice(["len", "peek", "taglen"]))
        ops.append("buf len 1")
        ops.append("buf peek 1")
        if rng.random() < 0.6:
            ops.append("buf %s 1" % rng.choice(["finishbin", "finishstr"]))
        cases.append(ops)
    return cases


def mon_buf(case, out):
    """The byte-queue property evaluated directly on the implementation's answers (BufRef is the trivial reference)."""
    refs = {}
    for line, o in zip(case, out):
        t = line.split()
        if t[0] == "alloc" and t[1] == "failnth":
            return []
        if t[0] != "buf":
            continue
        cmd, h = t[1], t[2]
        if cmd == "new":
            refs[h] = BufRef(); exp = "ok"
        elif cmd == "const":
            data = bytes.fromhex(t[3]) if t[3] != "-" else b""
            if data:
                refs[h] = BufRef(const=data); exp = "ok"
            else:
                refs.pop(h, None); exp = "none"
        elif h not in refs:
            continue
        else:
            exp = refs[h].apply([cmd] + t[3:], o)
            if refs[h].unknown or (cmd in ("finishbin", "finishstr") and o != "err"):
                refs.pop(h)
                if cmd == "setlen":
                    exp = None
        if exp is not None and o != exp:
            return [("buf-queue", "after %r the buffer answered %r, the byte-queue reference %r" % (line, o, exp))]
    return []



# ------------------------------------------------------------------------------------------ skip lists
import bisect


class SlRef:
    """Sorted-list specification: a node goes in front of the first node whose key is not smaller."""

    def __init__(self):
        self.items = []          # [key, id] in order

    def keys(self):
        return [k for k, _ in self.items]

    def insert(self, n, k):
        self.items.insert(bisect.bisect_left(self.keys(), k), [k, n])

    def index(self, n):
        for i, (_, x) in enumerate(self.items):
            if x == n:
                return i
        return None

    def dump(self, rev=False):
        it = reversed(self.items) if rev else self.items
        return "[" + " ".join("%d:%d" % (n, k) for k, n in it) + "]"


def gen_sl(rng, tier):
    ncases = 260 if tier == "quick" else 7500
    maxops = 70 if tier == "quick" else 400
    cases = []
    for _ in range(ncases):
        style = rng.choice(["dups", "asc", "desc", "random", "timers", "random"])
        ops = []
        pat = rng.choice([None, None, "ff", "00", "55", "0f", "ffff01", "%02x%02x" % (rng.randrange(256), rng.randrange(256))])
        if pat:
            ops.append("sl rand %s" % pat)
        nlists = 1 if rng.random() < 0.8 else 2
        for h in range(1, nlists + 1):
            ops.append("sl new %d" % h)
        live = {}                 # node id -> list
        refs = {h: SlRef() for h in range(1, nlists + 1)}
        nextid = [1]
        clock = [100]

        def newkey():
            if style == "dups":
                return rng.randint(1, 4)
            if style == "asc" or style == "timers":
                clock[0] += rng.randint(0, 3)
                return clock[0]
            if style == "desc":
                clock[0] -= rng.randint(0, 3)
                return max(clock[0], 0)
            return rng.randint(0, 60) if rng.random() < 0.7 else rng.randint(0, 1 << 30)

        n = rng.randint(3, maxops)
        for _ in range(n):
            r = rng.random()
            h = rng.randint(1, nlists)
            ref = refs[h]
            if (r < 0.40 or not live) and nextid[0] < 500:
                nid, k = nextid[0], newkey()
                nextid[0] += 1
                ops.append("sl ins %d %d %d" % (h, nid, k))
                ref.insert(nid, k)
                live[nid] = h
            elif r < 0.55:
                nid = rng.choice(list(live))
                if style == "timers" and refs[live[nid]].items and rng.random() < 0.7:
                    nid = refs[live[nid]].items[0][1]        # expire the earliest
                ops.append("sl rm %d" % nid)
                rf = refs[live.pop(nid)]
                del rf.items[rf.index(nid)]
            elif r < 0.70:
                nid = rng.choice(list(live))
                k = newkey()
                ops.append("sl setkey %d %d" % (nid, k))
                ops.append("sl reinsert %d" % nid)
                rf = refs[live[nid]]
                del rf.items[rf.index(nid)]
                rf.insert(nid, k)
            elif r < 0.82:
                ks = ref.keys()
                k = rng.choice(ks) if ks and rng.random() < 0.7 else newkey()
                ops.append("sl find %d %d" % (h, k))
            elif r < 0.88:
                ops.append("sl %s %d" % (rng.choice(["first", "last", "len"]), h))
            elif r < 0.93 and live:
                ops.append("sl %s %d" % (rng.choice(["next", "prev"]), rng.choice(list(live))))
            elif r < 0.97:
                ops.append("sl dumpf %d" % h)
            else:
                ops.append("sl dumpb %d" % h)
        for h in range(1, nlists + 1):
            ops += ["sl dumpf %d" % h, "sl dumpb %d" % h, "sl len %d" % h, "sl first %d" % h, "sl last %d" % h]
        cases.append(ops)
    return cases


def mon_sl(case, out):
    """The ordered-list property evaluated directly on the implementation's answers."""
    refs, live = {}, {}
    for line, o in zip(case, out):
        t = line.split()
        if t[0] != "sl":
            continue
        cmd = t[1]
        exp = None
        if cmd == "rand":
            exp = "ok"
        elif cmd == "new":
            refs[t[2]] = SlRef(); exp = "ok"
        elif cmd in ("rm", "setkey", "reinsert", "next", "prev"):
            nid = int(t[2])
            if nid not in live:
                exp = "bad-handle"
            else:
                rf = refs[live[nid]]
                i = rf.index(nid)
                if cmd == "rm":
                    del rf.items[i]; del live[nid]; exp = str(nid)
                elif cmd == "setkey":
                    rf.items[i][0] = int(t[3]); exp = "ok"
                elif cmd == "reinsert":
                    k = rf.items[i][0]
                    del rf.items[i]
                    rf.insert(nid, k); exp = "ok"
                elif cmd == "next":
                    exp = str(rf.items[i + 1][1]) if i + 1 < len(rf.items) else "none"
                else:
                    exp = str(rf.items[i - 1][1]) if i > 0 else "none"
        elif t[2] in refs:
            rf = refs[t[2]]
            if cmd == "ins":
                rf.insert(int(t[3]), int(t[4])); live[int(t[3])] = t[2]; exp = "ok"
            elif cmd == "find":
                k = int(t[3])
                i = bisect.bisect_left(rf.keys(), k)
                exp = str(rf.items[i][1]) if i < len(rf.items) and rf.items[i][0] == k else "none"
            elif cmd == "first":
                exp = str(rf.items[0][1]) if rf.items else "none"
            elif cmd == "last":
                exp = str(rf.items[-1][1]) if rf.items else "none"
            elif cmd == "len":
                exp = str(len(rf.items))
            elif cmd == "dumpf":
                exp = rf.dump()
            elif cmd == "dumpb":
                exp = rf.dump(rev=True)
        if exp is not None and o != exp:
            return [("sl-order", "after %r the skip list answered %r, the sorted-list reference %r" % (line, o, exp))]
    return []



# ------------------------------------------------------------------------------------------ linked lists
import os
import re


def _ll_fixed():
    """what the model says ARES__LLIST_INSERT_BEFORE does on the tree under check (see CaresModel/Dsa/LList.lean)"""
    p = os.path.join(os.path.dirname(os.path.abspath(__file__)), "..", "..", "lean", "CaresModel", "Dsa", "LList.lean")
    m = re.search(r"def pinnedLinkPrev : Bool := (true|false)", open(p).read())
    return bool(m) and m.group(1) == "true"


class LlRef:
    """Lists with node identity: a dict of python lists."""

    def __init__(self):
        self.lists = {}
        self.where = {}

    def apply(self, t):
        """t = tokens after `ll`; returns (expected answer, op was an insert in the middle)"""
        cmd, a = t[0], [int(x) for x in t[1:]]
        L, W = self.lists, self.where
        if cmd in ("insbefore", "insafter", "claim", "destroy", "mvfirst", "mvlast", "next", "prev", "parent"):
            n = a[0]
            if n not in W:
                return "bad-handle", False
            l = L[W[n]]
            i = l.index(n)
            if cmd in ("insbefore", "insafter"):
                b = a[1]
                if b < 1 or b in W:
                    return "bad-handle", False
                pos = i if cmd == "insbefore" else i + 1
                middle = 0 < pos < len(l)
                l.insert(pos, b)
                W[b] = W[n]
                return "ok", middle
            if cmd in ("claim", "destroy"):
                l.pop(i); del W[n]
                return (str(n) if cmd == "claim" else "ok"), False
            if cmd in ("mvfirst", "mvlast"):
                if a[1] not in L:
                    return "bad-handle", False
                l.pop(i)
                if cmd == "mvfirst":
                    L[a[1]].insert(0, n)
                else:
                    L[a[1]].append(n)
                W[n] = a[1]
                return "ok", False
            if cmd == "next":
                return (str(l[i + 1]) if i + 1 < len(l) else "none"), False
            if cmd == "prev":
                return (str(l[i - 1]) if i > 0 else "none"), False
            return str(W[n]), False
        lid = a[0]
        if cmd == "new":
            if lid in L:
                return "bad-op", False
            L[lid] = []
            return "ok", False
        if lid not in L:
            return "bad-handle", False
        l = L[lid]
        if cmd in ("insfirst", "inslast"):
            b = a[1]
            if b < 1 or b in W:
                return "bad-handle", False
            if cmd == "insfirst":
                l.insert(0, b)
            else:
                l.append(b)
            W[b] = lid
            return "ok", False
        if cmd == "idx":
            return (str(l[a[1]]) if a[1] < len(l) else "none"), False
        if cmd == "first":
            return (str(l[0]) if l else "none"), False
        if cmd == "last":
            return (str(l[-1]) if l else "none"), False
        if cmd == "len":
            return str(len(l)), False
        if cmd == "dumpf":
            return "[" + " ".join(map(str, l)) + "]", False
        if cmd == "dumpb":
            return "[" + " ".join(map(str, reversed(l))) + "]", False
        return None, False


def gen_ll(rng, tier):
    ncases = 260 if tier == "quick" else 7500
    maxops = 60 if tier == "quick" else 300
    fixed = _ll_fixed()
    cases = []
    for _ in range(ncases):
        style = rng.choice(["basic", "moves", "moves", "middle", "queue"])
        nlists = 1 if style in ("basic", "queue") and rng.random() < 0.7 else rng.randint(2, 3)
        ref = LlRef()
        ops = []
        frozen = [False]      # pinned tree: after an insert in the middle only look, do not touch (see F32-C19)

        def emit(s):
            exp, middle = ref.apply(s.split())
            ops.append("ll " + s)
            if middle and not fixed:
                frozen[0] = True

        for h in range(1, nlists + 1):
            emit("new %d" % h)
        nextid = [1]

        def fresh():
            nextid[0] += 1
            return nextid[0] - 1

        def observe():
            h = rng.randint(1, nlists)
            c = rng.random()
            if c < 0.3:
                emit("dumpf %d" % h)
            elif c < 0.5:
                emit("dumpb %d" % h)
            elif c < 0.65:
                emit("idx %d %d" % (h, rng.randint(0, len(ref.lists[h]) + 1)))
            elif c < 0.75:
                emit("%s %d" % (rng.choice(["len", "first", "last"]), h))
            elif ref.where:
                emit("%s %d" % (rng.choice(["next", "prev", "parent"]), rng.choice(list(ref.where))))

        for _ in range(rng.randint(3, maxops)):
            r = rng.random()
            h = rng.randint(1, nlists)
            live = list(ref.where)
            if frozen[0] or r < 0.2:
                observe()
            elif r < 0.45 or not live:
                if style == "queue":
                    emit("inslast %d %d" % (h, fresh()))
                else:
                    emit("%s %d %d" % (rng.choice(["insfirst", "inslast"]), h, fresh()))
            elif r < 0.60:
                n = rng.choice(live)
                if style == "queue" and ref.lists[ref.where[n]]:
                    n = ref.lists[ref.where[n]][0]
                emit("%s %d" % (rng.choice(["claim", "destroy"]), n))
            elif r < 0.80 and (style == "moves" or rng.random() < 0.3):
                emit("%s %d %d" % (rng.choice(["mvfirst", "mvlast"]), rng.choice(live), rng.randint(1, nlists)))
            elif r < 0.95:
                at = rng.choice(live)
                l = ref.lists[ref.where[at]]
                if style != "middle":
                    # only the two forms that are plain head / tail insertion
                    if rng.random() < 0.5:
                        emit("insbefore %d %d" % (l[0], fresh()))
                    else:
                        emit("insafter %d %d" % (l[-1], fresh()))
                else:
                    emit("%s %d %d" % (rng.choice(["insbefore", "insafter"]), at, fresh()))
            else:
                emit("claim %d" % (nextid[0] + 7))       # not a live node
        for h in range(1, nlists + 1):
            ops += ["ll dumpf %d" % h, "ll dumpb %d" % h, "ll len %d" % h]
        cases.append(ops)
    return cases


def mon_ll(case, out):
    """Order with node identity, evaluated directly on the implementation: forward and backward iteration, indexing,
    neighbours and the counter must all describe the same sequence as the list reference."""
    ref = LlRef()
    seen_middle = False
    for line, o in zip(case, out):
        t = line.split()
        if t[0] == "alloc" and t[1] == "failnth":
            return []
        if t[0] != "ll":
            continue
        exp, middle = ref.apply(t[1:])
        seen_middle = seen_middle or middle
        if exp is not None and o != exp:
            if seen_middle:
                return [("ll-insert-before-link", "after an insert_before/insert_after in the middle of a list, %r answered %r, "
                         "the list reference %r" % (line, o, exp))]
            return [("ll-order", "after %r the linked list answered %r, the list reference %r" % (line, o, exp))]
    return []



# ------------------------------------------------------------------------------------------ allocation failures (C14)
FAIL_TOKENS = {"nomem"}


class AdtRefs:
    """All container references together, with the C14 rule: an operation that reports an allocation failure must
    leave the abstract value untouched; it may only do so while an injected failure is pending."""

    def __init__(self):
        self.arr, self.ht, self.buf, self.ll = {}, {}, {}, LlRef()
        self.armed = False

    def failure(self, t, o):
        if o == "nomem":
            return True
        if t[0] == "ht" and t[1] == "put" and o == "err":
            kind = self.ht.get(t[2], (None,))[0]
            return not (kind == "dict" and t[3] == "-")
        if t[0] == "buf" and t[1] in ("finishbin", "finishstr") and o == "err":
            return t[2] in self.buf and not self.buf[t[2]].const
        return False

    def step(self, line, o):
        """returns (expected answer or None, violation text or None)"""
        t = line.split()
        if t[0] == "alloc":
            if t[1] == "failnth":
                self.armed = int(t[2]) > 0
            return None, None
        if self.failure(t, o):
            if not self.armed:
                return None, "%r reported an allocation failure although none was injected" % line
            self.armed = False
            if t[0] == "buf" and t[1] in ("be16", "be32"):
                self.buf.pop(t[2], None)     # a multi-byte append may have been cut short: stop judging this buffer
            if t[1] in ("new", "const"):
                {"arr": self.arr, "ht": self.ht, "buf": self.buf}.get(t[0], {}).pop(t[2], None)
                if t[0] == "ll":
                    self.ll.lists.pop(int(t[2]), None)
            return o, None                   # failure accepted: the references stay as they are
        fam = t[0]
        if fam == "arr":
            return self._arr(t), None
        if fam == "ht":
            return self._ht(t), None
        if fam == "buf":
            cmd, h = t[1], t[2]
            if cmd == "new":
                self.buf[h] = BufRef(); return "ok", None
            if cmd == "const":
                data = bytes.fromhex(t[3]) if t[3] != "-" else b""
                if data:
                    self.buf[h] = BufRef(const=data); return "ok", None
                self.buf.pop(h, None); return "none", None
            if h not in self.buf:
                return None, None
            exp = self.buf[h].apply([cmd] + t[3:], o)
            if self.buf[h].unknown or (cmd in ("finishbin", "finishstr") and o != "err"):
                self.buf.pop(h)
            return exp, None
        if fam == "ll":
            return self.ll.apply(t[1:])[0], None
        return None, None

    def _arr(self, t):
        cmd, h = t[1], t[2]
        a = [int(x) for x in t[3:]]
        if cmd == "new":
            self.arr[h] = []; return "ok"
        if h not in self.arr:
            return "bad-handle"
        ref = self.arr[h]
        if cmd == "ins":
            if a[0] <= len(ref):
                ref.insert(a[0], a[1]); return "ok"
            return "err"
        if cmd == "insfirst":
            ref.insert(0, a[0]); return "ok"
        if cmd == "inslast":
            ref.append(a[0]); return "ok"
        if cmd == "setsize":
            return "err" if a[0] == 0 or a[0] < len(ref) else "ok"
        if cmd in ("rm", "claim"):
            if a[0] < len(ref):
                v = ref.pop(a[0]); return "ok" if cmd == "rm" else str(v)
            return "err"
        if cmd == "rmfirst":
            e = "ok" if ref else "err"; ref[:1] = []; return e
        if cmd == "rmlast":
            e = "ok" if ref else "err"; ref[-1:] = []; return e
        if cmd == "at":
            return str(ref[a[0]]) if a[0] < len(ref) else "none"
        if cmd == "len":
            return str(len(ref))
        if cmd == "dump":
            return "[" + " ".join(map(str, ref)) + "]"
        return None

    def _ht(self, t):
        cmd, h = t[1], t[2]
        if cmd == "new":
            self.ht[h] = (t[3], {}); return "ok"
        if h not in self.ht:
            return "bad-handle"
        kind, ref = self.ht[h]
        if kind in ("vpvp", "vpstr") and len(t) > 3 and t[3] == "0":
            return None                                   # F30-C19 is judged by the `ht` stream
        if cmd == "put":
            if kind == "dict" and t[3] == "-":
                return "err"
            ref[_canon(kind, t[3])] = (t[3], t[4]); return "ok"
        if cmd == "get":
            e = ref.get(_canon(kind, t[3])); return e[1] if e else "none"
        if cmd == "del":
            return "ok" if ref.pop(_canon(kind, t[3]), None) else "none"
        if cmd == "count":
            return str(len(ref))
        if cmd == "keys":
            if kind not in HT_KEYS:
                return "unsupported"
            if kind == "dict":
                return "[" + " ".join(_hex(b) for b in sorted(bytes.fromhex(s) if s != "-" else b"" for s, _ in ref.values())) + "]"
            return "[" + " ".join(str(k) for k in sorted(ref)) + "]"
        return None


def mon_allocfail(case, out):
    """C14 on the containers: a reported allocation failure leaves the abstract value unchanged (every later
    observation still matches the reference), failures appear only when injected, and (harness ledger, `!MON leak`)
    nothing is leaked."""
    refs = AdtRefs()
    for line, o in zip(case, out):
        exp, bad = refs.step(line, o)
        if bad:
            return [("alloc-spurious", bad)]
        if exp is not None and o != exp:
            return [("alloc-atomic", "after %r the container answered %r, the reference (failed operations have no effect) %r"
                     % (line, o, exp))]
    return []


def _gen_allocfail(rng, tier, families, ncases_quick, ncases_thorough):
    ncases = ncases_quick if tier == "quick" else ncases_thorough
    maxops = 50 if tier == "quick" else 200
    cases = []
    for _ in range(ncases):
        fam = rng.choice(families)
        ops = []
        nid = [1]

        def arm():
            if rng.random() < 0.35:
                ops.append("alloc failnth %d" % rng.choice([1, 1, 1, 2, 2, 3, 4, 6, 9]))

        def fresh():
            nid[0] += 1
            return nid[0] - 1

        if rng.random() < 0.1:
            ops.append("alloc failnth %d" % rng.randint(1, 3))      # creation itself may fail
        if fam == "arr":
            ops.append("arr new 1")
            ln = 0
            for _ in range(rng.randint(3, maxops)):
                r = rng.random()
                if r < 0.5:
                    arm()
                    ops.append(rng.choice(["arr ins 1 %d %d" % (rng.randint(0, ln), fresh()), "arr inslast 1 %d" % fresh(),
                                           "arr insfirst 1 %d" % fresh()]))
                    ln += 1           # upper bound is good enough for choosing indexes
                elif r < 0.6:
                    arm()
                    ops.append("arr setsize 1 %d" % rng.choice([1, 4, 5, 8, 9, 16, 17, 33, rng.randint(0, 70)]))
                elif r < 0.8:
                    ops.append(rng.choice(["arr rmfirst 1", "arr rmlast 1", "arr rm 1 %d" % rng.randint(0, max(ln, 1))]))
                    ln = max(ln - 1, 0)
                elif r < 0.9:
                    ops.append("arr dump 1")
                else:
                    ops.append("alloc count")
            ops += ["arr dump 1", "arr len 1", "alloc count"]
        elif fam == "ll":
            ops += ["ll new 1", "ll new 2"]
            live = []
            for _ in range(rng.randint(3, maxops)):
                r = rng.random()
                if r < 0.5 or not live:
                    arm()
                    n = fresh()
                    ops.append("ll %s %d %d" % (rng.choice(["insfirst", "inslast"]), rng.randint(1, 2), n))
                    live.append(n)      # may not exist if the insert failed: then later ops answer bad-handle on both sides
                elif r < 0.65:
                    ops.append("ll claim %d" % live.pop(rng.randrange(len(live))))
                elif r < 0.8:
                    ops.append("ll %s %d %d" % (rng.choice(["mvfirst", "mvlast"]), rng.choice(live), rng.randint(1, 2)))
                elif r < 0.9:
                    ops.append("ll %s %d" % (rng.choice(["dumpf", "dumpb", "len"]), rng.randint(1, 2)))
                else:
                    ops.append("alloc count")
            ops += ["ll dumpf 1", "ll dumpb 1", "ll dumpf 2", "ll len 1", "ll len 2", "alloc count"]
        elif fam == "buf":
            ops.append("buf new 1")
            for _ in range(rng.randint(3, maxops)):
                r = rng.random()
                if r < 0.45:
                    arm()
                    n = rng.choice([1, 2, 7, 15, 16, 17, 31, 32, 33, 60, 130, rng.randint(1, 90)])
                    ops.append("buf app 1 %s" % _hex(bytes(rng.randrange(256) for _ in range(n))))
                elif r < 0.5:
                    arm()
                    ops.append(rng.choice(["buf be16 1 %d" % rng.randrange(1 << 16), "buf be32 1 %d" % rng.randrange(1 << 32)]))
                elif r < 0.65:
                    ops.append(rng.choice(["buf consume 1 %d", "buf fetch 1 %d"]) % rng.randint(0, 40))
                elif r < 0.75:
                    ops.append(rng.choice(["buf tag 1", "buf rollback 1", "buf tagclear 1", "buf reclaim 1"]))
                elif r < 0.9:
                    ops.append(rng.choice(["buf len 1", "buf peek 1", "buf tagfetch 1"]))
                else:
                    ops.append("alloc count")
            ops += ["buf len 1", "buf peek 1", "alloc count"]
            if rng.random() < 0.5:
                arm()
                ops += ["buf %s 1" % rng.choice(["finishbin", "finishstr"]), "alloc count"]
        else:
            kind = fam
            strkey, strval = kind in HT_STRKEY, kind in HT_STRVAL
            ops.append("ht new 1 %s" % kind)
            if kind == "raw":
                uni = [str(b + m * 16) for b in rng.sample(range(16), 3) for m in range(rng.randint(2, 8))]
            elif strkey:
                uni = list({_hex(_rand_word(rng, 1, 6)) for _ in range(rng.randint(4, 40))})
            else:
                uni = [str(k) for k in {rng.randint(1, 1 << 30) for _ in range(rng.randint(4, 40))}]

            def val():
                return _hex(_rand_word(rng, 1, 5)) if strval else str(rng.randint(1, 1 << 20))

            for _ in range(rng.randint(5, maxops + 20)):
                r = rng.random()
                if r < 0.55:
                    arm()
                    ops.append("ht put 1 %s %s" % (rng.choice(uni), val()))
                elif r < 0.7:
                    ops.append("ht del 1 %s" % rng.choice(uni))
                elif r < 0.85:
                    ops.append("ht get 1 %s" % rng.choice(uni))
                elif r < 0.9:
                    ops.append("ht count 1")
                elif r < 0.95 and kind in HT_KEYS:
                    arm()
                    ops.append("ht keys 1")
                else:
                    ops.append("alloc count")
            ops.append("alloc failnth 0")
            for k in uni:
                ops.append("ht get 1 %s" % k)
            ops += ["ht count 1", "ht keys 1", "alloc count"]
        cases.append(ops)
    return cases


def gen_allocfail(rng, tier):
    """containers whose every allocation the model predicts (array, `raw` hash table, byte buffer, linked list)"""
    return _gen_allocfail(rng, tier, ["arr", "raw", "raw", "buf", "buf", "ll"], 300, 9000)


def gen_allocfail_typed(rng, tier):
    """the typed hash tables: their seed, hence the number of allocations of an insert, is not predictable, so this
    stream has no model side; the reference monitor and the allocation ledger judge it"""
    return _gen_allocfail(rng, tier, ["szvp", "strvp", "asvp", "vpvp", "vpstr", "dict"], 200, 4500)


def cmp_no_alloc_count(a, b):
    n = max(len(a), len(b))
    for i in range(n):
        x = a[i] if i < len(a) else "<missing>"
        y = b[i] if i < len(b) else "<missing>"
        if x != y:
            return i
    return None



STREAMS = [
    Stream("arr", "h_dsa", "driver_dsa", gen_arr, monitor=mon_arr, timeout=120),
    Stream("ht", "h_dsa", "driver_dsa", gen_ht, monitor=mon_ht, timeout=120),
    Stream("buf", "h_dsa", "driver_dsa", gen_buf, monitor=mon_buf, timeout=120),
    Stream("sl", "h_dsa", "driver_dsa", gen_sl, monitor=mon_sl, timeout=120),
    Stream("ll", "h_dsa", "driver_dsa", gen_ll, monitor=mon_ll, timeout=120),
    # C14 (container part): single allocation failures injected through ares_library_init_mem
    Stream("allocfail", "h_dsa", "driver_dsa", gen_allocfail, monitor=mon_allocfail, timeout=120),
    Stream("allocfail_typed", "h_dsa", None, gen_allocfail_typed, monitor=mon_allocfail, timeout=120),
]

LEVEL_TEXT = ("Proof: Lean 4 refinement theorems, for every operation sequence, that the model of each container behaves as "
              "its trivial reference and keeps its invariant: ares_array (offset/count/allocation, ares_array_move bounds) -> "
              "list; ares_htable + six typed tables (buckets, power-of-two size, num_keys, num_collisions = sum(len-1), growth "
              "at the regenerated expand percentage with the pre-allocation of ares_htable_expand proved sufficient) -> "
              "association map, for every lawful hash/equality and every seed, plus the FNV-1a shift-add = multiply and "
              "case-insensitive-hash lemmas; ares_buf (in-place / reclaim / grow ladder, tag, rollback, reclaim never drops "
              "bytes at or after min(tag, offset), back-patching = overwrite, ares_buf_split = list specification for all "
              "flags) -> byte queue; ares_slist (level lists, for ALL coin flips: sorted, nothing lost, equal keys go "
              "first, find = first equal, tail, reinsert, levels nested) -> sorted list; ares_llist (pointer-level heap of "
              "prev/next/parent) -> family of sequences. Partial where the pinned tree is defective: NULL key of the "
              "pointer-keyed tables (F30-C19) and insert_before/after in the middle of a list (F32-C19) have kernel-checked "
              "counterexamples and _partial theorems. Tie: real containers run step by step against the compiled models "
              "under ASan/UBSan with an allocation ledger; python references monitor the property directly.")
LEVEL_NOTE = ("Trusted: Lean kernel (axioms propext, Classical.choice, Quot.sound only), the hand-written models' "
              "faithfulness as far as the correspondence streams exercise it, harness/h_dsa.c, the runner, "
              "tools/gen_consts.py. Skip-list levels and hash seeds are not observable and are quantified over in the "
              "theorems rather than compared. C-level memory safety is observed under sanitizers, not proved.")
TECHNIQUE = "Lean 4 refinement proof (model -> abstract list/map/queue) + differential correspondence with the C containers"
