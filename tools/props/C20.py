"""C20 - outcome does not depend on how the transport chops or delays bytes (channel simulator family)."""
import simlib
import simprops
import vlib

ID = "C20"
IMPORTS = ["CaresProps.C20"]
DRIVER_MODULES = ["Driver.SimMain"]
LEAN_TARGETS = ["CaresProps.C20", "driver_sim"]
THEOREMS = vlib.discover_theorems("CaresProps/C20.lean")
TRUSTED = [
    "Lean 4.33.0 kernel; axioms allowed: propext, Classical.choice, Quot.sound",
    "hand-written channel model lean/CaresModel/Chan/{Types,Client,Core}.lean (exec: request life cycle of ares_send.c, "
    "ares_process.c, ares_conn.c, ares_close_sockets.c, ares_cancel.c, ares_destroy.c, ares_query.c, ares_search.c against "
    "a virtual socket layer), tied to the code by the h_sim correspondence stream: same scenario lines to the real channel "
    "(virtual sockets via ares_set_socket_functions_ex, virtual clock and scripted RNG via the guarded hooks) and to the "
    "compiled Lean driver, event lines diffed",
    "harness/h_sim.c (virtual socket layer, virtual server, callback reactions), tools/simlib.py (scenario generator), "
    "tools/simprops.py (direct property monitors), tools/runner.py",
    "free choices of the implementation (query ids, 0x20 case, cookie bytes, rotation pick, probe lottery, jitter) are "
    "observed from the trace, checked against the set the policy allows, and fed to the model; theorems quantify over all of them",
    "Lean compiler (driver_sim is the compiled form of the definitions the kernel checked)",
]
ASSUMPTIONS = [
    "virtual sockets/clock/RNG are representative of real ones; IPv4 servers only; no system configuration is read",
    "allocation succeeds (C14 covers failures); single-threaded use (C11 covers threads)",
    "C-level memory safety is observed under ASan/UBSan on the explored scenarios, not proved",
]
RULE = ("scenarios are generated from VERIF_SEED by tools/simlib.py (channel options, request kinds, per-transmission server "
        "behaviours incl. forged/late replies, timer advances, socket failures, callback reactions that send or cancel); "
        "a case is non-trivial when at least one completion callback fired; distinct by hash of its op lines")
EXPLANATION = "Segmentation-invariance lemmas for the model's TCP read and write paths + paired scenarios (segmented vs whole) on the implementation."


def _gen_pairs(rng, tier):
    return [simlib.gen_tcp_pair(rng) for _ in range(150 if tier == "quick" else 4000)]


STREAMS = [
    simlib.Stream("tcp-pairs", "h_sim", "driver_sim", _gen_pairs,
                  monitor=lambda c, o: simlib.mon_common(c, o) + simprops.mon_c20(c, o),
                  driver_input=simlib.driver_input, compare=simlib.compare,
                  nontrivial=lambda c, o: any(" cb(" in (" " + l) for l in o)),
    simlib.sim_stream("mixed", {"flagprobs": {0: 0.6, 4: 0.5, 2: 0.2}, "tcp_ops": 0.9, "pendingwrite_prob": 0.3,
                                "reply_kinds": [("noerror", 20), ("tc", 15), ("empty", 8), ("nxdomain", 4), ("garbage", 2)]},
                      None, quick_n=250, thorough_n=6000),
]

LEVEL_TEXT = 'Proof: Lean 4 lemmas that the messages extracted from a TCP stream depend only on the bytes read so far (not on read boundaries), that the frames reaching the server under any write-acceptance pattern are exactly the queued frames, whole and in order, that a truncated UDP answer is retried over TCP unless configured otherwise and a zero-length datagram changes nothing; at the level of whole channel runs an alignment invariant (for every live TCP connection the consumed position is a message boundary of the stream of its socket) is preserved by every completed call, and the replies handed to process_answer on a connection over a run are exactly the messages that have completely arrived - a prefix of the stream independent of the chunking. Tie: every scenario is run twice on the real channel - split down to single-byte reads and short/blocked writes vs unsegmented - and must deliver the same callbacks and wire messages; both halves are also compared with the model.'
LEVEL_NOTE = 'Trusted: Lean kernel; model faithfulness (messages are abstract: byte counts and frame boundaries, not contents); virtual sockets.'
TECHNIQUE = 'Lean 4 proof of segmentation invariance + metamorphic paired scenarios and differential correspondence'
