"""C06a - arithmetic part of C06 (latency metrics, base timeout, per-attempt timeout).  Not a property of its own: the
coordinator's C06.py can import THEOREMS / STREAMS / GENERATORS / IMPORTS from here; `./check C06a` exists so that this
part can be run and mutation-tested on its own (mkmanifest ignores it)."""
from props import _proto

ID = "C06a"
IMPORTS = ["CaresProps.C06a"]
LEAN_TARGETS = ["CaresProps.C06a", "driver_proto"]   # CaresLemmas/Float32.lean imports Mathlib.Tactic.Ring / Linarith
THEOREMS = [
    "Cares.C06a.calc_shift_guarded",
    "Cares.C06a.timeout_constants",
    "Cares.C06a.calc_samples_agree",
    "Cares.C06a.server_timeout_eq",
    "Cares.C06a.server_timeout_bounds",
    "Cares.C06a.record_ignores_failures",
    "Cares.C06a.timeout_bounds",
    "Cares.C06a.timeout_bounds_full",
    "Cares.C06a.first_pass_exact",
    "Cares.C06a.jitter_window",
    "Cares.C06a.jitter_exact_ok",
    "Cares.C06a.timeout_bounds_tree",
    "Cares.C06a.no_ub_guarded",
    "Cares.C06a.no_ub",
    "Cares.C06a.c06_f10_pinned_shift_ub",
]
GENERATORS = _proto.generators()
TRUSTED = [
    "Lean 4.33.0 kernel; axioms allowed: propext, Classical.choice, Quot.sound",
    "hand-written Lean model of ares_metrics_record / ares_metrics_server_timeout / ares_calc_query_timeout "
    "(CaresModel/Proto/Timeout.lean, exact IEEE binary32 model of the jitter)",
    "tie 1: tools/gen_proto_consts.py (gen_proto_calc) #includes ares_process.c of the tree under check and evaluates the "
    "static ares_calc_query_timeout on a real channel for 400 inputs; the Lean theorem calc_samples_agree re-evaluates the "
    "model on them in the kernel; the same probe observes whether 64 rounds survive UBSan (CALC_SHIFT_GUARDED)",
    "tie 2: `timeout` stream: ares_metrics_record / ares_metrics_server_timeout called directly, and a query against silent "
    "virtual servers through the public API whose per-attempt ares_timeout() value is compared with the model "
    "(server chosen and 16-bit draw are observed inputs)",
    "harness/h_proto.c (virtual sockets, clock, RNG), tools/runner.py, tools/props/_proto.py, the Lean compiler",
]
ASSUMPTIONS = [
    "x86-64 / SSE float evaluation (FLT_EVAL_METHOD = 0) for the exact jitter model",
    "the general theorems use the interval abstraction of the jitter (JitOk: at most tp*(1/2 + 2^-24 + 2^-49)); that the "
    "exact binary32 model lies in it is proved (CaresLemmas/Float32.lean, jitter_exact_ok) and also re-checked by the driver "
    "on every observed attempt",
    "budget logic, non-counting resends and termination are the channel model's part of C06",
]
EXPLANATION = "arithmetic part of C06: see CaresProps/C06a.lean"
STREAMS = [_proto.timeout_stream()]
LEVEL_TEXT = "sub-check of C06 (arithmetic)"
LEVEL_NOTE = "sub-check of C06 (arithmetic)"
TECHNIQUE = "Lean 4 proofs over the timeout arithmetic + kernel re-evaluation of generated samples + differential correspondence"
