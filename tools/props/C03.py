"""C03 - write then parse is the identity, including for what goes on the wire."""
import os
import sys

from runner import Stream

sys.path.insert(0, os.path.dirname(os.path.dirname(os.path.abspath(__file__))))
import gen_rrscripts

ID = "C03"
IMPORTS = ["CaresProps.C03"]
LEAN_TARGETS = ["CaresProps.C03", "driver_write"]      # own modules only (other slices build their own)
THEOREMS = [
    # name layer
    "Cares.C03.unescape_escape",
    "Cares.C03.labels_concat",
    "Cares.C03.decode_append",
    "Cares.C03.name_offsets_invariant",
    "Cares.C03.written_name_parses",
    # scripted RR types (scripts regenerated from the clang AST on every run)
    "Cares.C03.generated_scripts_compatible",
    "Cares.C03.fields_roundtrip",
    # messages, frames, legacy builders
    "Cares.C03.roundtrip_partial",
    "Cares.C03.no_truncation",
    "Cares.C03.frame_roundtrip_partial",
    "Cares.C03.createQuery_recOk",
    "Cares.C03.create_query_parse",
    # translator obligations (hand-written switches = regenerated tables)
    "Cares.C03.rrKeys_eq_generated",
    "Cares.C03.keyDatatype_eq_generated",
    "Cares.C03.allowNameComp_eq_generated",
    "Cares.C03.script_keys_are_rrKeys",
    "Cares.C03.recTypeValid_eq_generated",
    "Cares.C03.hostname_chars_eq_generated",
    "Cares.C03.escape_eq_parser",
    # kernel-checked counterexamples for the guards of roundtrip_partial (open findings F33..F38)
    "Cares.C03.c03_fails_qdcount",
    "Cares.C03.c03_fails_extrcode_without_opt",
    "Cares.C03.c03_fails_opt_class_ttl",
    "Cares.C03.c03_fails_rawrr_decoded_type",
    "Cares.C03.c03_fails_nonprintable_string",
    "Cares.C03.c03_fails_rewrite_spelling",
]
GENERATORS = [gen_rrscripts.generate]

# ------------------------------------------------------------------------------------------------
# generators

HOSTCH = "abcdefghijklmnopqrstuvwxyzABCDEFGHIJKLMNOPQRSTUVWXYZ0123456789-_"
TLDS = ["com", "org", "net", "example", "test", "arpa", "io", "COM", "Org"]
KNOWN_TYPES = [1, 2, 5, 6, 12, 13, 15, 16, 24, 28, 33, 35, 41, 52, 64, 65, 255, 256, 257]
RR_TYPES = [1, 2, 5, 6, 12, 13, 15, 16, 24, 28, 33, 35, 52, 64, 65, 256, 257, 65536]
COMPRESSIBLE = [2, 5, 6, 12, 15]


def hx(b):
    if isinstance(b, str):
        b = b.encode("latin-1")
    return b.hex() if b else "-"


def label(rng, lo=1, hi=12):
    n = rng.randint(lo, hi)
    return "".join(rng.choice(HOSTCH) for _ in range(n))


class Pool(list):
    """names used so far in one record; `variants` = also spell names in non-canonical ways (trailing dot,
    superfluous escapes), which is the input class of finding F38-C03"""
    variants = True


def host(rng, pool):
    """a host name (only host-name characters, so it passes validate_hostname), often sharing a suffix
    with a name used before in the same record"""
    variants = getattr(pool, "variants", True)
    r = rng.random()
    if pool and r < 0.55:
        base = rng.choice(pool)
        k = rng.random()
        if k < 0.25:
            name = base                                        # exact repeat -> pure pointer
        elif k < 0.60:
            name = ".".join(label(rng) for _ in range(rng.randint(1, 2))) + "." + base.lstrip(".")
        elif k < 0.75 and "." in base:
            name = base.split(".", 1)[1] or base               # a proper suffix of an earlier name
        elif k < 0.88:
            name = "".join(c.swapcase() if rng.random() < 0.3 else c for c in base)   # 0x20-style case change
        elif variants:
            name = base[:-1] if base.endswith(".") else base + "."
        else:
            name = base
        if name in ("", "."):
            name = base
    elif r < 0.62:
        name = label(rng, 63, 63) + "." + rng.choice(TLDS)     # longest legal label
    elif r < 0.66:
        name = ".".join(label(rng, 1, 3) for _ in range(rng.randint(8, 40)))          # many labels
    else:
        name = ".".join([label(rng) for _ in range(rng.randint(0, 3))] + [rng.choice(TLDS)])
    if variants and rng.random() < 0.06:
        # escapes that still denote host-name characters
        i = rng.randrange(len(name))
        if name[i] != ".":
            esc = "\\%03d" % ord(name[i]) if rng.random() < 0.6 or name[i].isdigit() else "\\" + name[i]
            name = name[:i] + esc + name[i + 1:]
    if variants and rng.random() < 0.05 and not name.endswith("."):
        name += "."
    pool.append(name)
    return name


def esc_label(rng, canonical=False):
    """label text for RDATA names (not validated): arbitrary bytes via escapes, reserved characters"""
    out = []
    for _ in range(rng.randint(1, 10)):
        k = rng.random()
        if k < 0.55:
            out.append(rng.choice(HOSTCH))
        elif k < 0.70:
            v = rng.choice([0, 1, 9, 32, 46, 92, 127, 128, 200, 255, rng.randint(0, 255)])
            out.append(canon_byte(v) if canonical else "\\%03d" % v)
        elif k < 0.82:
            c = rng.choice(".\\\"();@$ x")
            out.append(canon_byte(ord(c)) if canonical else "\\" + c)
        else:
            c = rng.choice(" !#%&'*+,/:<=>?[]^`{|}~@$();\"")
            out.append(canon_byte(ord(c)) if canonical else c)
    return "".join(out)


def canon_byte(v):
    """the way the parser prints one label byte"""
    if v < 0x20 or v > 0x7e:
        return "\\%03d" % v
    if chr(v) in "\".;\\()@$":
        return "\\" + chr(v)
    return chr(v)


def rdname(rng, pool, esc_rate=0.25):
    """a name for an RDATA field"""
    if rng.random() < esc_rate:
        base = rng.choice(pool) if pool and rng.random() < 0.6 else rng.choice(TLDS)
        canonical = not getattr(pool, "variants", True)
        name = ".".join(esc_label(rng, canonical) for _ in range(rng.randint(1, 2))) + "." + base.lstrip(".")
        pool.append(name)
        return name
    if rng.random() < 0.03:
        return rng.choice(["", "."]) if getattr(pool, "variants", True) else ""
    return host(rng, pool)


def printable(rng, lo, hi):
    return "".join(chr(rng.randint(0x20, 0x7e)) for _ in range(rng.randint(lo, hi)))


def blob(rng, lo, hi):
    n = rng.randint(lo, hi)
    return bytes(rng.getrandbits(8) for _ in range(n))


def opts(rng, maxn=4, maxlen=24):
    ids = rng.sample(range(0, 20), rng.randint(0, maxn)) if rng.random() < 0.8 else \
        [rng.randint(0, 65535) for _ in range(rng.randint(1, maxn))]
    seen, out = set(), []
    for i in ids:
        if i in seen:
            continue
        seen.add(i)
        out.append("%d:%s" % (i, hx(blob(rng, 0, maxlen))))
    return ",".join(out)


def u16(rng):
    return rng.choice([0, 1, 255, 256, 65535, rng.randint(0, 65535)])


def u32(rng):
    return rng.choice([0, 1, 0x7fffffff, 0x80000000, 0xffffffff, rng.randint(0, 0xffffffff)])


def unknown_type(rng):
    while True:
        t = rng.choice([3, 4, 7, 99, 250, 254, 258, 1000, 32768, 65535, rng.randint(1, 65535)])
        if t not in KNOWN_TYPES:
            return t


def rr_fields(rng, t, pool, canonical=True):
    """list of key=value tokens for a well-formed RR of type t"""
    n = lambda: hx(rdname(rng, pool))
    if t == 1:
        return ["101=" + hx(blob(rng, 4, 4))]
    if t == 2:
        return ["201=" + n()]
    if t == 5:
        return ["501=" + n()]
    if t == 6:
        return ["601=" + n(), "602=" + n()] + ["%d=%d" % (k, u32(rng)) for k in (603, 604, 605, 606, 607)]
    if t == 12:
        return ["1201=" + n()]
    if t == 13:
        return ["1301=" + hx(printable(rng, 0, 20)), "1302=" + hx(printable(rng, 0, rng.choice([5, 40, 255])))]
    if t == 15:
        return ["1501=%d" % u16(rng), "1502=" + n()]
    if t == 16:
        chunks = [blob(rng, 0, rng.choice([0, 10, 40, 255, 256, 300, 600])) for _ in range(rng.randint(1, 4))]
        return ["1601=" + ",".join(hx(c) for c in chunks)]
    if t == 24:
        return ["2401=%d" % u16(rng), "2402=%d" % rng.randint(0, 255), "2403=%d" % rng.randint(0, 255),
                "2404=%d" % u32(rng), "2405=%d" % u32(rng), "2406=%d" % u32(rng), "2407=%d" % u16(rng),
                "2408=" + n(), "2409=" + hx(blob(rng, 1, 70))]
    if t == 28:
        return ["2801=" + hx(blob(rng, 16, 16))]
    if t == 33:
        return ["3302=%d" % u16(rng), "3303=%d" % u16(rng), "3304=%d" % u16(rng), "3305=" + n()]
    if t == 35:
        return ["3501=%d" % u16(rng), "3502=%d" % u16(rng), "3503=" + hx(printable(rng, 0, 4)),
                "3504=" + hx(printable(rng, 0, 12)), "3505=" + hx(printable(rng, 0, 30)), "3506=" + n()]
    if t == 41:
        f = ["4101=%d" % rng.choice([512, 1232, 4096, 65535, u16(rng)]), "4103=%d" % rng.choice([0, 0, 1, 255]),
             "4104=%d" % rng.choice([0, 0x8000, u16(rng)])]
        o = opts(rng, 4, 40)
        return f + (["4105=" + o] if o else [])
    if t == 52:
        return ["5201=%d" % rng.randint(0, 255), "5202=%d" % rng.randint(0, 255), "5203=%d" % rng.randint(0, 255),
                "5204=" + hx(blob(rng, 1, 64))]
    if t in (64, 65):
        o = opts(rng, 5, 30)
        return ["%d=%d" % (t * 100 + 1, u16(rng)), "%d=%s" % (t * 100 + 2, n())] + \
               (["%d=%s" % (t * 100 + 3, o)] if o else [])
    if t == 256:
        return ["25601=%d" % u16(rng), "25602=%d" % u16(rng), "25603=" + hx(printable(rng, 1, 60))]
    if t == 257:
        return ["25701=%d" % rng.choice([0, 128, rng.randint(0, 255)]),
                "25702=" + hx("".join(rng.choice("abcdefghijklmnopqrstuvwxyz0123456789") for _ in range(rng.randint(1, 15)))),
                "25703=" + hx(blob(rng, 1, 80))]
    if t == 65536:
        return ["6553601=%d" % unknown_type(rng), "6553602=" + hx(blob(rng, 1, 60))]
    return []


def header_line(rng, h=1, rcode=None, ext_ok=False):
    flags = rng.choice([0, 8, 1, 1 | 16 | 8, 1 | 2, rng.randint(0, 127)])
    opcode = rng.choice([0, 0, 0, 1, 2, 4, 5])
    if rcode is None:
        rcode = rng.choice([0, 0, 0, 2, 3, 5, rng.randint(0, 11)] + ([16, 23, rng.randint(16, 23)] if ext_ok else []))
    return "new %d %d %d %d %d" % (h, rng.randint(0, 65535), flags, opcode, rcode), rcode


def qtype_for(rng):
    return rng.choice([1, 28, 255, 16, 6, 33, 65, rng.choice(KNOWN_TYPES), unknown_type(rng), 0])


def tcp_lines(rng, h=1):
    out = []
    k = rng.random()
    if k < 0.35:
        out.append("writetcp %d - 0" % h)
    elif k < 0.75:
        p = blob(rng, 1, 40)
        out.append("writetcp %d %s %d" % (h, hx(p), rng.randint(0, len(p))))
    else:
        # a queued frame in front (what the connection's out_buf looks like)
        p = blob(rng, 12, 60)
        fr = bytes([len(p) >> 8, len(p) & 255]) + p
        out.append("writetcp %d %s %d" % (h, hx(fr), rng.choice([0, 0, 2, len(fr)])))
    return out


def gen_record(rng, nrr=None, ext=False):
    """op lines building one well-formed record (handle 1) - the canonical class of the round-trip claim"""
    pool = Pool()
    pool.variants = rng.random() < 0.15
    with_opt = rng.random() < 0.35
    hl, rcode = header_line(rng, ext_ok=with_opt)
    ops = [hl]
    ops.append("q 1 %s %d %d" % (hx(host(rng, pool)), qtype_for(rng), rng.choice([1, 1, 1, 3, 4, 254, 255])))
    if nrr is None:
        nrr = rng.choice([0, 1, 1, 2, 3, 5, 8, rng.randint(0, 30)])
    rrs = []
    for _ in range(nrr):
        t = rng.choice(RR_TYPES + COMPRESSIBLE * 2)
        sect = rng.choice([1, 1, 2, 3])
        cls = 255 if (t == 24 and rng.random() < 0.2) else rng.choice([1, 1, 1, 1, 3, 4, 254])
        owner = host(rng, pool)
        rrs.append((sect, "rr 1 %d %s %d %d %d %s" % (sect, hx(owner), t, cls, u32(rng), " ".join(rr_fields(rng, t, pool)))))
    if with_opt:
        rrs.append((3, "rr 1 3 - 41 1 0 " + " ".join(rr_fields(rng, 41, pool))))
    ops += [l for _, l in rrs]
    return ops


def gen_write(rng, tier):
    """main stream: well-formed records of every RR type, shared suffixes, escapes, mixed case"""
    n = 6000 if tier == "quick" else 200000
    cases = []
    for _ in range(n):
        ops = gen_record(rng)
        if rng.random() < 0.3:
            ops.append("dump 1")
        ops.append("write 1")
        ops += tcp_lines(rng)
        if rng.random() < 0.1:
            ops.append("ttldec 1 %d" % rng.choice([1, 300, 0xffffffff]))
            ops.append("write 1")
        cases.append(ops)
    return cases


def gen_big(rng, tier):
    """messages around the 14-bit pointer limit (16 KiB) and the 16-bit size limit (64 KiB)"""
    n = 24 if tier == "quick" else 600
    cases = []
    for i in range(n):
        pool = []
        ops = [header_line(rng)[0], "q 1 %s 1 1" % hx(host(rng, pool))]
        target = rng.choice([16000, 16300, 16384, 16500, 20000, 40000, 65000, 65400, 65536, 66000, 70000, 140000])
        size = 12 + 30
        style = rng.choice(["txt", "raw", "mixed", "onebig"])
        while size < target:
            if style == "onebig":
                want = target - size
                chunks = ["41" * 255] * (want // 256)
                ops.append("rr 1 1 %s 16 1 5 1601=%s" % (hx(host(rng, pool)), ",".join(chunks) or "-"))
                size += want
                break
            if style == "raw" or (style == "mixed" and rng.random() < 0.3):
                ln = rng.choice([200, 1000, 4000, 60000, 65535, 65536])
                ops.append("rr 1 %d %s 65536 1 5 6553601=%d 6553602=%s" %
                           (rng.choice([1, 2, 3]), hx(host(rng, pool)), unknown_type(rng), "ab" * ln))
                size += ln + 30
            elif style == "mixed" and rng.random() < 0.5:
                t = rng.choice(COMPRESSIBLE + [33, 35])
                ops.append("rr 1 %d %s %d 1 %d %s" % (rng.choice([1, 2, 3]), hx(host(rng, pool)), t, u32(rng),
                                                   " ".join(rr_fields(rng, t, pool))))
                size += 60
            else:
                k = rng.choice([4, 16, 64])
                ops.append("rr 1 1 %s 16 1 5 1601=%s" % (hx(host(rng, pool)), ",".join(["42" * 255] * k)))
                size += 256 * k + 30
        # names after the limit: they must be written in full, or point below 16384 only
        for _ in range(rng.randint(2, 8)):
            t = rng.choice(COMPRESSIBLE + [1, 33])
            ops.append("rr 1 %d %s %d 1 %d %s" % (rng.choice([1, 2, 3]), hx(host(rng, pool)), t, u32(rng),
                                               " ".join(rr_fields(rng, t, pool))))
        if rng.random() < 0.3:
            ops.append("rr 1 3 - 41 1 0 4101=1232 4103=0 4104=0 4105=10:%s" % ("00" * rng.choice([8, 65535, 65536, 70000])))
        ops.append("write 1")
        ops += tcp_lines(rng)
        cases.append(ops)
    return cases


EDGE_KINDS = ["qd0", "qd2", "qtype-big", "extrcode-noopt", "opt-class-ttl", "opt-in-answer", "rawrr-known-type",
              "rawrr-empty", "str-nonprint", "caa-empty-tag", "uri-nonprint", "unset-field", "wrong-key", "bad-type",
              "bad-class", "bad-header", "bad-sect", "name-invalid-host", "name-bad-escape", "name-long-label",
              "name-too-long", "name-dangling-bs", "name-empty-label-bypass", "name-511", "str-256", "any-rr",
              "txt-empty", "bin-empty", "dup-opt", "nul-name", "case-suffix", "many-rr", "root-names", "spelling"]


def gen_edge(rng, tier):
    """one deviation from the canonical class per case: setter validity checks, writer error paths, and the
    input classes where the literal property is known not to hold on this tree (findings)"""
    n = 1600 if tier == "quick" else 40000
    cases = []
    for i in range(n):
        kind = EDGE_KINDS[i % len(EDGE_KINDS)]
        pool = []
        hl, _ = header_line(rng)
        q = "q 1 %s 1 1" % hx(host(rng, pool))
        ops = [hl, q]
        base = pool[0].rstrip(".")
        if kind == "qd0":
            ops = [hl]
        elif kind == "qd2":
            ops.append("q 1 %s 28 1" % hx(host(rng, pool)))
        elif kind == "qtype-big":
            ops = [hl, "q 1 %s %d 1" % (hx(base), rng.choice([65536, 65537, 65536 + 28, 1 << 20]))]
        elif kind == "extrcode-noopt":
            ops = [header_line(rng, rcode=rng.randint(16, 23))[0], q]
        elif kind == "opt-class-ttl":
            ops.append("rr 1 3 - 41 %d %d %s" % (rng.choice([1, 3, 254]), rng.choice([0, 5, 0x80000000]),
                                                " ".join(rr_fields(rng, 41, pool))))
        elif kind == "opt-in-answer":
            ops = [header_line(rng, rcode=rng.choice([0, 3, 16, 23]))[0], q,
                   "rr 1 %d - 41 1 0 %s" % (rng.choice([1, 2]), " ".join(rr_fields(rng, 41, pool)))]
        elif kind == "rawrr-known-type":
            ops.append("rr 1 1 %s 65536 1 60 6553601=%d 6553602=%s" % (hx(base), rng.choice([1, 16, 28, 41, 255]), hx(blob(rng, 4, 16))))
        elif kind == "rawrr-empty":
            ops.append("rr 1 1 %s 65536 1 60 6553601=%d 6553602=-" % (hx(base), unknown_type(rng)))
        elif kind == "str-nonprint":
            t, k = rng.choice([(13, 1301), (13, 1302), (35, 3503), (35, 3505), (257, 25702)])
            f = [x for x in rr_fields(rng, t, pool) if not x.startswith("%d=" % k)]
            ops.append("rr 1 1 %s %d 1 60 %s %d=%s" % (hx(base), t, " ".join(f), k, hx(b"a" + bytes([rng.choice([1, 9, 10, 127, 128, 255])]) + b"b")))
        elif kind == "caa-empty-tag":
            ops.append("rr 1 1 %s 257 1 60 25701=0 25702=- 25703=%s" % (hx(base), hx(blob(rng, 1, 9))))
        elif kind == "uri-nonprint":
            ops.append("rr 1 1 %s 256 1 60 25601=1 25602=1 25603=%s" % (hx(base), hx(b"http://x/" + bytes([rng.choice([1, 10, 128, 255])]))))
        elif kind == "unset-field":
            t = rng.choice([2, 6, 13, 15, 24, 33, 35, 52, 64, 256, 257, 16, 65536])
            f = rr_fields(rng, t, pool)
            drop = rng.randrange(len(f))
            if rng.random() < 0.3 and t in (2, 13, 15):
                f[drop] = f[drop].split("=")[0] + "=~"
            else:
                f = f[:drop] + f[drop + 1:]
            ops.append("rr 1 1 %s %d 1 60 %s" % (hx(base), t, " ".join(f)))
        elif kind == "wrong-key":
            t = rng.choice(RR_TYPES)
            t2 = rng.choice([x for x in RR_TYPES if x != t])
            f = rr_fields(rng, t, pool) + rr_fields(rng, t2, pool)[:1]
            if rng.random() < 0.3:
                f.append("%d=1" % rng.choice([100, 103, 699, 4102, 99999, 0]))
            ops.append("rr 1 1 %s %d 1 60 %s" % (hx(base), t, " ".join(f)))
        elif kind == "bad-type":
            ops.append("rr 1 1 %s %d 1 60" % (hx(base), rng.choice([0, 3, 99, 255, 65535, 65537])))
            ops.append("q 1 %s %d 1" % (hx(base), rng.choice([65536, 0, 99])))
        elif kind == "bad-class":
            ops.append("rr 1 1 %s %d %d 60 101=01020304" % (hx(base), rng.choice([1, 24, 65536]), rng.choice([0, 2, 255, 256, 65535])))
            ops.append("q 1 %s 1 %d" % (hx(base), rng.choice([0, 2, 255, 256])))
        elif kind == "bad-header":
            ops = ["new 1 %d %d %d %d" % (rng.randint(0, 65535), rng.choice([0, 128, 255, 1 << 15]),
                                         rng.choice([0, 3, 6, 15, 16]), rng.choice([0, 12, 15, 24, 255, 4095])), q]
        elif kind == "bad-sect":
            ops.append("rr 1 %d %s 1 1 60 101=01020304" % (rng.choice([0, 4, 255]), hx(base)))
        elif kind == "name-invalid-host":
            bad = base + rng.choice([" x", "!", "\\032", "\\.", "\\@", "a b"])
            which = rng.random()
            if which < 0.4:
                ops = [hl, "q 1 %s 1 1" % hx(bad)]
            elif which < 0.7:
                ops.append("rr 1 1 %s 1 1 60 101=01020304" % hx(bad))
            else:
                ops.append("rr 1 1 %s 2 1 60 201=%s" % (hx(base), hx(bad)))     # fine in RDATA
        elif kind == "name-bad-escape":
            bad = rng.choice(["a\\", "a\\1", "a\\12", "a\\256", "a\\999", "a\\1x2", "\\", "a\\25", "\\1\\2"]) + rng.choice(["", "." + base])
            ops.append("rr 1 1 %s 2 1 60 201=%s" % (hx(base), hx(bad)))
        elif kind == "name-long-label":
            ln = rng.choice([63, 64, 65, 100])
            ops.append("rr 1 1 %s 2 1 60 201=%s" % (hx(base), hx("a" * ln + "." + base)))
        elif kind == "name-too-long":
            # total_len + cnt - 1 around 255
            tot = rng.choice([253, 254, 255, 256, 257, 300])
            labs, left = [], tot
            while left > 0:
                k = min(left, rng.choice([63, 50, 30]))
                labs.append("b" * k)
                left -= k + 1
            ops.append("rr 1 1 %s 2 1 60 201=%s" % (hx(base), hx(".".join(labs))))
            ops.append("rr 1 1 %s 33 1 60 3302=1 3303=1 3304=1 3305=%s" % (hx(base), hx(".".join(labs))))
        elif kind == "name-dangling-bs":
            # `x\.` in front of a remembered suffix: the match cuts between `\` and `.`
            ops.append("rr 1 1 %s 2 1 60 201=%s" % (hx(base), hx("x\\." + base)))
            ops.append("rr 1 1 %s 2 1 60 201=%s" % (hx(base), hx("x\\\\." + base)))
        elif kind == "name-empty-label-bypass":
            bad = rng.choice(["." + base, "a.." + base, ".." + base, "a\\.b.." + base])
            if rng.random() < 0.5:
                ops.append("rr 1 1 %s 2 1 60 201=%s" % (hx(base), hx(bad)))
            else:
                ops.append("rr 1 1 %s 1 1 60 101=01020304" % hx(bad))
        elif kind == "name-511":
            # presentation text longer than name_copy[512] (needs escapes; at most 255 label bytes)
            nlab = rng.choice([2, 3, 4])
            labs = ["".join("\\%03d" % rng.choice([1, 65, 200]) for _ in range(rng.choice([40, 50, 60, 63]))) for _ in range(nlab)]
            nm = ".".join(labs) + rng.choice(["", "." + base])
            t = rng.choice([2, 33])
            ops.append("rr 1 1 %s %d 1 60 %s" % (hx(base), t, ("201=" if t == 2 else "3302=1 3303=1 3304=1 3305=") + hx(nm)))
        elif kind == "str-256":
            ops.append("rr 1 1 %s 13 1 60 1301=%s 1302=%s" % (hx(base), hx("c" * rng.choice([255, 256, 300])), hx("os")))
        elif kind == "any-rr":
            ops.append("rr 1 1 %s 255 1 60" % hx(base))
        elif kind == "txt-empty":
            ops.append("rr 1 1 %s 16 1 60%s" % (hx(base), rng.choice(["", " 1601=-", " 1601=-,-", " 1601=-,61"])))
        elif kind == "bin-empty":
            t, k = rng.choice([(24, 2409), (52, 5204), (257, 25703)])
            f = [x for x in rr_fields(rng, t, pool) if not x.startswith("%d=" % k)]
            ops.append("rr 1 1 %s %d 1 60 %s %d=-" % (hx(base), t, " ".join(f), k))
        elif kind == "dup-opt":
            ops.append("rr 1 3 - 41 1 0 4101=1232 4103=0 4104=0 4105=10:aa,11:bb,10:cc,11:-")
            ops.append("rr 1 1 %s 64 1 60 6401=1 6402=%s 6403=1:aa,1:bb,3:01bb" % (hx(base), hx(base)))
        elif kind == "nul-name":
            ops.append("rr 1 1 %s 2 1 60 201=%s" % (hx(base), hx("a\\000b." + base)))
        elif kind == "case-suffix":
            ops.append("rr 1 1 %s 2 1 60 201=%s" % (hx("www." + base.upper()), hx("ns." + base.swapcase())))
            ops.append("rr 1 1 %s 5 1 60 501=%s" % (hx("WWW." + base), hx("www." + base)))
        elif kind == "root-names":
            ops = [hl, "q 1 %s 2 1" % hx(rng.choice([".", ""]))]
            for _ in range(rng.randint(1, 4)):
                nm = rng.choice([".", "", "a.", "a..", "..", base + ".", base + "..", "a\\.."])
                own = rng.choice([".", "", base])
                ops.append("rr 1 1 %s 2 1 60 201=%s" % (hx(own), hx(nm)))
        elif kind == "spelling":
            v = rng.choice([base + ".", "\\%03d" % ord(base[0]) + base[1:], base])
            ops.append("rr 1 1 %s 2 1 60 201=%s" % (hx(v), hx("ns." + rng.choice([base, base + "."]))))
        elif kind == "many-rr":
            for _ in range(rng.randint(40, 200)):
                ops.append("rr 1 %d %s 1 1 5 101=7f000001" % (rng.choice([1, 2, 3]), hx(host(rng, pool))))
        ops.append("dump 1")
        ops.append("write 1")
        ops += tcp_lines(rng)
        cases.append(ops)
    return cases


def gen_mkquery(rng, tier):
    n = 1500 if tier == "quick" else 40000
    cases = []
    for _ in range(n):
        pool = []
        k = rng.random()
        if k < 0.7:
            name = host(rng, pool)
        elif k < 0.8:
            name = rdname(rng, pool, 1.0)
        elif k < 0.85:
            name = rng.choice(["", ".", "a.onion", "A.ONION.", "x.onion.com", "onion", ".onion"])
        elif k < 0.9:
            name = "a" * rng.choice([63, 64]) + ".com"
        else:
            name = ".".join(["b" * 49] * rng.choice([5, 6])) + rng.choice(["", "."])
        cls = rng.choice([1, 1, 1, 3, 4, 254, 255, 0, 2, 256])
        typ = rng.choice([1, 28, 255, 12, 33, 65, 0, 99, 65535, 65536, 41, rng.randint(0, 300)])
        udp = rng.choice([-1, -1, 0, 512, 1232, 4096, 65535, 65536, 1, 100000])
        cases.append(["mkquery %s %d %d %d %d %d" % (hx(name), cls, typ, rng.randint(0, 65535), rng.choice([0, 1, 1, 7]), udp)])
    return cases


# ---- wire messages for the "parsed" half of the claim (an RFC 1035 encoder written from intended values)

def wire_name(rng, labels, msg, table):
    """append `labels` (list of bytes) at the end of msg, compressing against `table` now and then"""
    out = b""
    for i in range(len(labels)):
        key = tuple(x.lower() for x in labels[i:])
        if key in table and table[key] < 0x4000 and rng.random() < 0.7:
            return out + bytes([0xC0 | (table[key] >> 8), table[key] & 255])
        if len(msg) + len(out) < 0x4000 and rng.random() < 0.8:
            table.setdefault(key, len(msg) + len(out))
        out += bytes([len(labels[i])]) + labels[i]
    return out + b"\0"


def wire_labels(rng, pool):
    if pool and rng.random() < 0.5:
        base = rng.choice(pool)
        labs = [label(rng).encode() for _ in range(rng.randint(0, 2))] + base[rng.randint(0, max(0, len(base) - 1)):]
    else:
        labs = []
        for _ in range(rng.randint(0, 4)):
            k = rng.random()
            if k < 0.8:
                labs.append(label(rng).encode())
            elif k < 0.9:
                labs.append(bytes(rng.choice([46, 92, 32, 0, 255, 64, 34, 40, 59, 36, rng.randint(0, 255)]) for _ in range(rng.randint(1, 8))))
            else:
                labs.append(b"x" * rng.choice([1, 63]))
        labs.append(rng.choice(TLDS).encode())
    pool.append(labs)
    return labs


def wire_rdata(rng, t, msg_so_far, pool, table, host_only):
    def nm(compress):
        labs = wire_labels(rng, pool) if not host_only else [l for l in wire_labels(rng, pool)]
        return wire_name(rng, labs, msg_so_far + rd, table if compress else {})
    rd = b""
    b16 = lambda: u16(rng).to_bytes(2, "big")
    b32 = lambda: u32(rng).to_bytes(4, "big")
    cs = lambda s: bytes([len(s)]) + s
    if t == 1:
        rd += blob(rng, 4, 4)
    elif t in (2, 5, 12):
        rd += nm(True)
    elif t == 6:
        rd += nm(True)
        rd += nm(True)
        rd += b32() + b32() + b32() + b32() + b32()
    elif t == 13:
        rd += cs(printable(rng, 0, 20).encode()) + cs(printable(rng, 0, 20).encode())
    elif t == 15:
        rd += b16()
        rd += nm(True)
    elif t == 16:
        for _ in range(rng.randint(1, 4)):
            rd += cs(blob(rng, 0, rng.choice([0, 5, 50, 255])))
    elif t == 24:
        rd += b16() + blob(rng, 2, 2) + b32() + b32() + b32() + b16()
        rd += nm(rng.random() < 0.3)
        rd += blob(rng, 1, 40)
    elif t == 28:
        rd += blob(rng, 16, 16)
    elif t == 33:
        rd += b16() + b16() + b16()
        rd += nm(rng.random() < 0.3)
    elif t == 35:
        rd += b16() + b16() + cs(printable(rng, 0, 3).encode()) + cs(printable(rng, 0, 10).encode()) + cs(printable(rng, 0, 20).encode())
        rd += nm(rng.random() < 0.3)
    elif t == 52:
        rd += blob(rng, 3, 3) + blob(rng, 1, 40)
    elif t in (64, 65):
        rd += b16()
        rd += nm(rng.random() < 0.3)
        for i in rng.sample(range(0, 12), rng.randint(0, 4)) + ([3] if rng.random() < 0.1 else []):
            v = blob(rng, 0, 20)
            rd += i.to_bytes(2, "big") + len(v).to_bytes(2, "big") + v
    elif t == 256:
        rd += b16() + b16() + printable(rng, 1, 40).encode()
    elif t == 257:
        rd += blob(rng, 1, 1) + cs(label(rng, 1, 10).encode()) + blob(rng, 1, 40)
    else:
        rd += blob(rng, 1, 40)
    return rd


def gen_wire(rng):
    pool, table = [], {}
    flags = rng.getrandbits(16) & ~0x0040
    if rng.random() < 0.8:
        flags &= ~0x7800   # opcode 0
    msg = bytearray(rng.randint(0, 65535).to_bytes(2, "big") + flags.to_bytes(2, "big") + b"\0\1" + b"\0" * 6)
    msg += wire_name(rng, wire_labels(rng, pool), bytes(msg), table)
    msg += qtype_for(rng).to_bytes(2, "big") + rng.choice([1, 1, 3, 255]).to_bytes(2, "big")
    counts = [0, 0, 0]
    for sect in range(3):
        for _ in range(rng.choice([0, 1, 1, 2, 4])):
            t = rng.choice(RR_TYPES[:-1] + COMPRESSIBLE + [unknown_type(rng)])
            msg += wire_name(rng, wire_labels(rng, pool), bytes(msg), table)
            hdr = t.to_bytes(2, "big") + rng.choice([1, 1, 3, 4, 254]).to_bytes(2, "big") + u32(rng).to_bytes(4, "big")
            start = len(msg) + 10
            rd = wire_rdata(rng, t, bytes(msg) + hdr + b"\0\0", pool, table, False)
            if rng.random() < 0.05 and t in (1, 28, 2, 15, 33, 6):
                rd += blob(rng, 1, 6)      # RDLENGTH larger than what the type needs: parser skips the rest
            msg += hdr + len(rd).to_bytes(2, "big") + rd
            counts[sect] += 1
        if sect == 0 and rng.random() < 0.02:
            # an OPT RR outside the additional section carrying extended-rcode bits (input class of F34-C03)
            ttl = (rng.choice([1, 1, 0x17]) << 24) | rng.choice([0, 0x8000])
            msg += b"\0" + (41).to_bytes(2, "big") + (1232).to_bytes(2, "big") + ttl.to_bytes(4, "big") + b"\0\0"
            counts[0] += 1
        if sect == 2 and rng.random() < 0.4:
            rd = b""
            for i in rng.sample(range(0, 16), rng.randint(0, 3)):
                v = blob(rng, 0, 24)
                rd += i.to_bytes(2, "big") + len(v).to_bytes(2, "big") + v
            ttl = (rng.choice([0, 0, 1, 0x17]) << 24) | (rng.choice([0, 0, 1]) << 16) | rng.choice([0, 0x8000])
            msg += b"\0" + (41).to_bytes(2, "big") + rng.choice([512, 1232, 4096]).to_bytes(2, "big") + ttl.to_bytes(4, "big") + len(rd).to_bytes(2, "big") + rd
            counts[2] += 1
    msg[6:12] = b"".join(c.to_bytes(2, "big") for c in counts)
    return bytes(msg)


def gen_parsed(rng, tier):
    """records obtained from the parser: generated wire messages (pointers, odd label bytes, trailing RDATA)
    are parsed, then written, framed and re-parsed"""
    n = 1500 if tier == "quick" else 50000
    cases = []
    for _ in range(n):
        w = gen_wire(rng)
        if rng.random() < 0.1:
            # byte-level mutation (most are rejected by the parser; the accepted ones are odd records)
            b = bytearray(w)
            for _ in range(rng.randint(1, 3)):
                b[rng.randrange(len(b))] = rng.getrandbits(8)
            w = bytes(b)
        ops = ["parse 1 0 %s" % hx(w), "write 1"] + tcp_lines(rng)
        if rng.random() < 0.3:
            ops += ["reparse 1 2", "write 2"]
        cases.append(ops)
    return cases


# ------------------------------------------------------------------------------------------------
# comparison / monitors

def compare(impl, model):
    a = [l for l in impl if not l.startswith("!MON ")]
    n = max(len(a), len(model))
    for i in range(n):
        x = a[i] if i < len(a) else "<missing>"
        y = model[i] if i < len(model) else "<missing>"
        if x != y:
            # report the index in the unfiltered list
            j = -1
            for k, l in enumerate(impl):
                if not l.startswith("!MON "):
                    j += 1
                    if j == i:
                        return k
            return len(impl)
    return None


def nontrivial(case, out):
    return any(l.startswith("st=ok") or l.startswith("st=w-ok") for l in out)


def py_labels(name):
    """independent RFC 1035 5.1 reading of a presentation name -> list of label bytes (None = invalid)"""
    if name in (b"", b"."):
        return []
    labs, cur, i = [], bytearray(), 0
    while i < len(name):
        c = name[i]
        i += 1
        if c == 0x2e:
            if not cur:
                return None
            labs.append(bytes(cur))
            cur = bytearray()
            if i == len(name):
                return labs
            continue
        if c == 0x5c:
            if i >= len(name):
                return None
            c = name[i]
            i += 1
            if 0x30 <= c <= 0x39:
                if i + 1 >= len(name) or not (0x30 <= name[i] <= 0x39 and 0x30 <= name[i + 1] <= 0x39):
                    return None
                v = (c - 0x30) * 100 + (name[i] - 0x30) * 10 + (name[i + 1] - 0x30)
                if v > 255:
                    return None
                c = v
                i += 2
        cur.append(c)
    if not cur:
        return None
    labs.append(bytes(cur))
    return labs


def mon_mkquery(case, out):
    """ares_create_query/ares_mkquery: when it succeeds the bytes are exactly header + question (+ OPT) of the
    requested values, as encoded by this independent encoder"""
    bad = []
    for line, o in zip(case, [l for l in out if not l.startswith("!MON ")]):
        t = line.split()
        if t[0] != "mkquery" or not o.startswith("st=ok "):
            continue
        name = bytes.fromhex(t[1]) if t[1] != "-" else b""
        cls, typ, qid, rd, udp = int(t[2]), int(t[3]), int(t[4]), int(t[5]), int(t[6])
        labs = py_labels(name.split(b"\0")[0])
        got = bytes.fromhex(o.split()[1])
        if labs is None:
            bad.append(("mkquery:accepted-invalid-name", "query written for a name that is not a valid presentation name: %r" % name))
            continue
        exp = qid.to_bytes(2, "big") + (b"\x01\x00" if rd else b"\0\0") + b"\0\1\0\0\0\0" + \
            (b"\0\1" if udp > 0 else b"\0\0") + b"".join(bytes([len(l)]) + l for l in labs) + b"\0" + \
            (typ & 0xffff).to_bytes(2, "big") + (cls & 0xffff).to_bytes(2, "big")
        if udp > 0:
            exp += b"\0\0\x29" + udp.to_bytes(2, "big") + b"\0\0\0\0\0\0"
        if got != exp:
            bad.append(("mkquery:bytes-differ-from-reference-encoder", "got %s expected %s" % (got.hex(), exp.hex())))
    return bad


def opkind(line):
    t = line.split()
    if t[0] == "rr" and len(t) > 4:
        return "rr type=" + t[4]
    if t[0] == "writetcp":
        return "writetcp " + ("empty" if t[2] == "-" else "queued")
    return t[0]


STREAMS = [
    Stream("write", "h_write", "driver_write", gen_write, nontrivial=nontrivial, compare=compare, opkind=opkind),
    Stream("edge", "h_write", "driver_write", gen_edge, nontrivial=nontrivial, compare=compare, opkind=opkind),
    Stream("big", "h_write", "driver_write", gen_big, nontrivial=nontrivial, compare=compare, opkind=opkind),
    Stream("mkquery", "h_write", "driver_write", gen_mkquery, monitor=mon_mkquery, nontrivial=nontrivial,
           compare=compare, opkind=opkind),
    Stream("parsed", "h_write", "driver_write", gen_parsed, nontrivial=nontrivial, compare=compare, opkind=opkind),
]

TRUSTED = [
    "Lean 4.33.0 kernel; axioms allowed: propext, Classical.choice, Quot.sound",
    "hand-written Lean models of ares_dns_write.c, ares_dns_name.c (write side), the record builder API of "
    "ares_dns_record.c and ares_create_query.c (CaresModel/Dns/{NameWrite,Build,Write}.lean), tied to the code by "
    "byte-exact comparison of the written messages (harness/h_write.c vs compiled driver_write) on generated records",
    "tools/gen_rrscripts.py (clang-14 JSON AST -> per-type field scripts) and clang's AST",
    "harness/h_write.c incl. its round-trip monitor (independent presentation-name splitter), tools/props/C03.py "
    "(generators, reference query encoder), tools/runner.py",
    "the parser model CaresModel/Dns/Parse.lean (C02/C04 slice) that the round-trip theorems are stated against",
    "Lean compiler (driver_write is the compiled form of the definitions the kernel checked)",
]
ASSUMPTIONS = [
    "allocation succeeds (failure schedules belong to C14)",
    "names and strings handed to the API contain no NUL byte (C strings)",
    "ttl_decrement is 0 for built and parsed records (it is only set by the query cache)",
]
RULE = ("a case is one record built through the public setters (or parsed from a generated wire message) followed by "
        "write / framed-write operations; non-trivial when at least one serialisation succeeded; distinct by hash of "
        "its op lines")
EXPLANATION = ("Round-trip theorems over the writer model + byte-exact correspondence of the real writer with that "
               "model on generated records of every RR type; the harness additionally re-parses, compares field by "
               "field and re-writes every message the real code produced (the property itself, on the implementation).")
LEVEL_TEXT = ("Proof (partial): Lean 4 theorems over executable models of the message writer (ares_dns_write.c, write side of "
              "ares_dns_name.c, record builder API, ares_create_query) and of the parser (C02/C04 slice). Proved for every "
              "record in the decidable class recOk (what the typed setters guarantee, minus the input classes of findings "
              "F33-F37): write r = ok bs -> |bs| <= 65535 and parse bs = ok (canon r) (names in the parser's spelling, TXT "
              "chunks <= 255), no 16/14-bit field truncated, and write (canon r) = ok bs when r is spelled canonically "
              "(F38); the same for the TCP frame appended behind ANY queued bytes; ares_create_query/ares_mkquery without "
              "guards; name layer (unescape(escape ls) = ls, offset-list invariant, decode stability under append) and the "
              "generic lemma for scripted RR types over scripts regenerated from the clang AST at full strength. The full "
              "statement is false on the tree for F33-F38; each guard has a kernel-checked counterexample replayed on the "
              "implementation. Not proved: that every record produced by the parser is in recOk and canonical (the "
              "'Parsed r' half is covered by the correspondence stream only). Tie: byte-exact comparison of the real writer "
              "with the compiled model on generated records of every RR type (shared suffixes, escapes, mixed case, up to "
              "and beyond 16 KiB / 64 KiB, TCP frames behind queued data), and the harness re-parses, compares field by "
              "field through the public getters and re-writes every message the real code produced.")
LEVEL_NOTE = ("Trusted: Lean kernel (axioms propext, Classical.choice, Quot.sound only); faithfulness of the hand-written "
              "writer model as far as the byte-exact correspondence stream exercises it; the parser model of the C02/C04 "
              "slice; tools/gen_rrscripts.py + clang AST; harness/h_write.c and its monitor; the runner. Requires the fix "
              "commits of branch wt-c03 (F5, F6, F7, F30-C03, F31-C03, F32-C03, F39-C03): on the unrepaired tree the check "
              "reports those as violations with failing inputs.")
TECHNIQUE = "Lean 4 round-trip proof over an executable writer model + differential correspondence with the C writer"
