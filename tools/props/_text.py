"""Shared generators / dump parsers for the h_text streams (C15, C12, C16).

Everything is seeded from the `rng` handed in by the runner.  Text is generated as python `bytes` and
hex-encoded into op lines (`-` = empty)."""
import re

IFACES = [("lo", 1), ("eth0", 4), ("br-lan", 7), ("wl_0.1", 9)]
IFACES_LINE = "ifaces " + ",".join("%s:%d" % x for x in IFACES)


def hx(b):
    if isinstance(b, str):
        b = b.encode("latin1")
    return b.hex() if b else "-"


def unhx(s):
    return b"" if s == "-" else bytes.fromhex(s)


# ---------------------------------------------------------------------------------------------
# atoms

def rstr(rng, alpha, lo, hi):
    return "".join(rng.choice(alpha) for _ in range(rng.randint(lo, hi)))


def v4(rng, valid=True):
    if valid or rng.random() < 0.5:
        return ".".join(str(rng.choice([0, 1, 8, 9, 10, 127, 128, 172, 191, 192, 223, 224, 240, 255, rng.randint(0, 255)]))
                        for _ in range(4))
    k = rng.random()
    if k < 0.3:
        return ".".join(str(rng.choice([0, 1, 99, 255, 256, 300, 1000])) for _ in range(rng.choice([1, 2, 3, 5])))
    if k < 0.5:
        return "0x" + rstr(rng, "0123456789abcdefABCDEF", 0, 10)
    return rstr(rng, "0123456789.x/", 1, 10)


def v6(rng, valid=True, ll=None):
    def grp():
        return rstr(rng, "0123456789abcdef", 1, 4)
    if ll is None:
        ll = rng.random() < 0.2
    if ll:
        return rng.choice(["fe80::", "fe80::1:", "febf::", "fe80:0:0:0:1:2:3:"]) + rstr(rng, "0123456789abcdef", 1, 3)
    if valid or rng.random() < 0.4:
        k = rng.random()
        if k < 0.3:
            return ":".join(grp() for _ in range(8))
        if k < 0.7:
            a = [grp() for _ in range(rng.randint(0, 3))]
            b = [grp() for _ in range(rng.randint(0, 3))]
            return ":".join(a) + "::" + ":".join(b)
        if k < 0.8:
            return rng.choice(["::ffff:", "::"]) + v4(rng)
        return rng.choice(["::1", "::", "2001:db8::1", "fec0::1", "fec0:1::2", "ff02::1", "2620:fe::9"])
    k = rng.random()
    if k < 0.4:
        return ":".join(rstr(rng, "0123456789abcdefg", 1, 5) for _ in range(rng.choice([7, 8, 9])))
    return rstr(rng, "0123456789abcdef:.", 1, 20)


def ipany(rng, valid=True):
    return v4(rng, valid) if rng.random() < 0.5 else v6(rng, valid)


def port(rng):
    return str(rng.choice([0, 1, 53, 54, 5353, 65535, 65536, 99999, rng.randint(1, 65535)]))


def iface(rng):
    return rng.choice(["lo", "eth0", "br-lan", "wl_0.1", "nope0", "1", "4", "7", "9", "2", "eth0:1", "0123456789abcdef", "x" * 15])


def domain(rng):
    labs = [rstr(rng, "abcdefghijklmnopqrstuvwxyzABC0123456789-_", 1, rng.choice([1, 3, 8, 20])) for _ in range(rng.randint(1, 4))]
    d = ".".join(labs)
    if rng.random() < 0.1:
        d += "."
    if rng.random() < 0.05:
        d = "."
    return d


def server_entry(rng, valid=True):
    k = rng.random()
    if k < 0.25:
        s = v4(rng, valid)
        if rng.random() < 0.4:
            s += ":" + port(rng)
    elif k < 0.45:
        s = v6(rng, valid)
        if rng.random() < 0.4:
            s += "%" + iface(rng)
    elif k < 0.70:
        s = "[" + ipany(rng, valid) + "]"
        if rng.random() < 0.6:
            s += ":" + port(rng)
        if rng.random() < 0.4:
            s += "%" + iface(rng)
    else:
        a = ipany(rng, valid)
        host = a
        if ":" in a:
            if rng.random() < 0.5:
                host = a + "%" + iface(rng)
            host = "[" + host + "]"
        s = rng.choice(["dns://", "dns://", "dns://", "DNS://", "Dns://"]) + host
        if rng.random() < 0.6:
            s += ":" + port(rng)
        if rng.random() < 0.5:
            s += "?tcpport=" + port(rng)
        if not valid:
            s += rng.choice(["", "/", "/a/../b", "?x=y&tcpport=7", "#frag", "?tcpport", "?=1", "?a=%zz", "/%41", "?TCPPORT=9", "?tcpport=1&tcpport=2"])
            if rng.random() < 0.3:
                s = s.replace("dns://", rng.choice(["http://", "dns:/", "://", "dns://u@", "dns://u:p@", "dns://u:@", "dns://:p@", "dns://a@b:c@", "1dns://"]), 1)
    return s


def sort_entry(rng, valid=True):
    a = ipany(rng, valid)
    k = rng.random()
    if k < 0.4:
        return a
    if k < 0.7:
        return a + "/" + str(rng.choice([0, 1, 8, 16, 24, 31, 32, 33, 64, 127, 128, 129, 255, 256, 4294967304, rng.randint(0, 140)]))
    if k < 0.9:
        return a + "/" + rng.choice(["255.0.0.0", "255.255.0.0", "255.255.255.0", "255.255.255.255", "255.0.255.0", "0.0.0.0", "255.255", "1.2.3.4.5", "300.0.0.0"])
    return a + "/" + rstr(rng, "0123456789.", 0, 17)


def number(rng):
    return rng.choice(["0", "1", "2", "3", "5", "15", "16", "30", "255", "256", "65535", "65536", "4294967", "4294968", "2147483647",
                       "2147483648", "4294967295", "4294967296", "4294967297", "18446744073709551615", "18446744073709551616",
                       "99999999999999999999999", "-1", "-0", "+3", " 4", "007", "1x", "x1", "", "0x10", "1e3", "1.5",
                       str(rng.randint(0, 100))])


def option_tok(rng, valid=True):
    k = rng.random()
    if valid:
        if k < 0.25:
            return "ndots:" + str(rng.choice([0, 1, 2, 3, 15, rng.randint(0, 20)]))
        if k < 0.45:
            return rng.choice(["timeout:", "retrans:"]) + str(rng.choice([1, 2, 5, 30, rng.randint(1, 60)]))
        if k < 0.65:
            return rng.choice(["attempts:", "retry:"]) + str(rng.choice([1, 2, 3, 5, rng.randint(1, 10)]))
        if k < 0.8:
            return "rotate"
        if k < 0.9:
            return rng.choice(["use-vc", "usevc"])
        return rng.choice(["edns0", "inet6", "single-request", "no-tld-query", "trust-ad", "debug"])
    if k < 0.5:
        return rng.choice(["ndots", "timeout", "retrans", "attempts", "retry", "rotate", "use-vc"]) + ":" + number(rng)
    if k < 0.6:
        return rng.choice(["ndots", "timeout", "attempts"])
    if k < 0.7:
        return rng.choice([":", "::", ":5", "ndots:", "ndots::3", "ndots:1:2", "NDOTS:3", "Rotate", "timeout :3"])
    return rstr(rng, "abcdefghijklmnop:-0123456789", 1, 12)


def lookup_word(rng, valid=True):
    if valid:
        return rng.choice(["dns", "bind", "resolv", "resolve", "files", "file", "local", "DNS", "Files"])
    return rng.choice(["mdns4_minimal", "[NOTFOUND=return]", "myhostname", "nis", "hosts", "b", "f", "yp", "dnsx", ""])


SEP_SEARCH = [" ", " ", ",", ", ", "  ", " , "]


def directive(rng):
    """one valid resolv.conf directive (bytes, no LF)"""
    k = rng.random()
    ws = rng.choice([" ", " ", "\t", "  ", " \t "])
    if k < 0.30:
        n = rng.choice([1, 1, 1, 2, 3])
        sep = rng.choice([" ", ",", ", "])
        return ("nameserver" + ws + sep.join(server_entry(rng) for _ in range(n))).encode()
    if k < 0.42:
        return ("search" + ws + rng.choice(SEP_SEARCH).join(domain(rng) for _ in range(rng.randint(1, 6)))).encode()
    if k < 0.50:
        return ("domain" + ws + domain(rng) + rng.choice(["", "", " second.example"])).encode()
    if k < 0.62:
        sep = rng.choice([" ", " ", ";", "; "])
        return ("sortlist" + ws + sep.join(sort_entry(rng) for _ in range(rng.randint(1, 4)))).encode()
    if k < 0.82:
        return ("options" + ws + " ".join(option_tok(rng) for _ in range(rng.randint(1, 4)))).encode()
    if k < 0.92:
        return (rng.choice(["lookup", "hostresorder"]) + ws + " ".join(lookup_word(rng) for _ in range(rng.randint(1, 3)))).encode()
    return rng.choice([b"# comment", b"; comment", b"#nameserver 1.1.1.1", b";search x.y"])


def junk_line(rng):
    """a resolv.conf line that is junk by the predicate `Cares.C15.isJunk` (never contains LF):
    comment, unknown keyword, unsplittable (over-long / non-printable part, empty value), or a known
    keyword whose value carries nothing (separators only, nothing parsable, only no-op options)."""
    k = rng.random()
    if k < 0.10:
        return rng.choice([b"#", b";", b"# nameserver 9.9.9.9", b";options ndots:9", b"#\xff\x00binary"]) + bytes(rng.randrange(1, 256) for _ in range(rng.randint(0, 6))).replace(b"\n", b"")
    if k < 0.22:                                   # binary junk
        b = bytes(rng.choice([rng.randrange(0, 256), rng.randrange(128, 256), rng.randrange(0, 32)]) for _ in range(rng.randint(1, 40)))
        b = b.replace(b"\n", b"\r")
        kw = rng.choice([b"", b"", b"nameserver ", b"search ", b"options ", b"sortlist ", b"lookup ", b"domain "])
        if kw:
            # the value must keep a non-printable byte after the trimming of the line
            if all(32 <= c <= 126 for c in b.strip(b" \t\r\v\f")):
                b = b"x\x01y" + b
            return kw + b
        return b"\x02" + b
    if k < 0.30:                                   # unknown keyword
        kw = rng.choice(["nameservers", "Nameserver", "NAMESERVER", "server", "resolver", "option", "searchh", "sort", "ndots:3",
                         "port", "family", "timeout", "x", "nameserver1.2.3.4", "nameserver:"])
        return (kw + " " + rng.choice(["1.2.3.4", "a.b.c", "ndots:2", "x y z", "10.0.0.0/8"])).encode()
    if k < 0.38:                                   # over-long keyword (option[32])
        return (rng.choice(["nameserver", "search", "x"]) * 4 + rstr(rng, "abc", 0, 40) + " 1.2.3.4").encode()[:300] if rng.random() < 0.5 else \
               (rstr(rng, "abcdefgh", 32, 80) + " 1.2.3.4").encode()
    if k < 0.46:                                   # over-long value (value[512])
        kw = rng.choice(["nameserver", "search", "options", "sortlist", "lookup", "domain"])
        fill = rng.choice(["1.2.3.4 ", "a.example ", "ndots:3 ", "x"])
        v = fill * (512 // len(fill) + rng.randint(1, 10))
        return (kw + " " + v).encode()
    if k < 0.52:                                   # keyword without value / whitespace only
        return rng.choice([b"nameserver", b"search", b"options", b"sortlist", b"lookup", b"domain", b"nameserver   ", b"search\t\t",
                           b"options \r", b"   ", b"\t", b"\r"])
    if k < 0.58:                                   # value with a control character
        kw = rng.choice(["nameserver", "search", "options", "sortlist", "lookup", "domain"])
        return (kw + " " + rng.choice(["1.2.3.4", "a.b", "ndots:3"]) + rng.choice(["\t", "\x7f", "\x00", "\x1b", "\x80"]) + rng.choice(["1.2.3.5", "c.d", "rotate"])).encode("latin1")
    if k < 0.66:                                   # separators only
        return rng.choice([b"search ,", b"domain ,", b"search , ,", b"search ,,,", b"domain , , ,", b"nameserver ,", b"nameserver , ,",
                           b"sortlist ;", b"sortlist ; ;", b"options :", b"options : :", b"lookup ,", b"options ::"])
    if k < 0.78:                                   # nothing parsable
        c = rng.random()
        if c < 0.4:
            return ("nameserver " + " ".join(rng.choice(["junk", "1.2.3.4.5", "1.2.3.256", "[1.2.3.4", "1.2.3.4:", "1.2.3.4:x", "fec0::1",
                                                         "[fec0::2]:53", "dns://fec0::3", "1.2.3.4%", "::1%%", "dns://", "dns://example.com", "http://1.2.3.4",
                                                         "12345::1", ":::", "1.2.3.4x", "[::1]x", "[::1]:123456", "1.2.3.4:53:53", "dns://[::1", "dns://1.2.3.4:x",
                                                         "dns://1.2.3.4?=", "dns://1.2.3.4/%zz", "[fe80::1%lo]", "fe80::1%0123456789abcdef"])
                                              for _ in range(rng.randint(1, 3)))).encode()
        if c < 0.7:
            return ("sortlist " + " ".join(rng.choice(["junk", "1.2.3.4/33", "::1/129", "1.2.3.4/", "1.2.3.4/x", "10.0.0.0/8 bogus", "1.2.3.4/255.255.255.256",
                                                       "1.2.3.4/1.2.3.4.5", "1.2.3.4/99999999999", "999.1.1.1", "1.2.3.4!", "/8", "1.2.3.4//8"])
                                            for _ in range(rng.randint(1, 3)))).encode()
        return (rng.choice(["lookup ", "hostresorder "]) + " ".join(lookup_word(rng, False) for _ in range(rng.randint(1, 3))) + " x").encode()
    if k < 0.90:                                   # options that are no-ops
        toks = [rng.choice(["edns0", "inet6", "debug", "timeout:0", "attempts:0", "retrans:0", "retry:0", "timeout", "attempts", "timeout:x",
                            "attempts:abc", "retry:", ":", "::", ":5", "NDOTS:3", "Rotate", "ROTATE", "Use-Vc", "timeout:4294967296",
                            "attempts:-0", "retrans:+0", "foo:bar", "ndot:3", "rotate1", "timeout:0x10", "x" * 40 + ":1", "trust-ad"])
                for _ in range(rng.randint(1, 4))]
        return ("options " + " ".join(toks)).encode()
    return rng.choice([b"domain", b"domain   ", b"search", b"\x0b\x0c", b" \t \r "])


def resolv_text(rng, lines, eol=None):
    eol = eol or (lambda: b"\n")
    out = b""
    for i, l in enumerate(lines):
        out += l
        if i < len(lines) - 1 or rng.random() < 0.8:
            out += eol()
    return out


# ---------------------------------------------------------------------------------------------
# dump parsing

def kvs(line):
    """'st=ok a=[x y] b=1' -> dict (values keep their brackets)"""
    return dict(m.groups() for m in re.finditer(r"(\w+)=(\[[^\]]*\]|\S*)", line))


def parse_servers(v):
    v = v.strip("[]")
    res = []
    for t in v.split():
        p = t.split("/")
        res.append({"addr": p[0], "udp": int(p[1]), "tcp": int(p[2]), "iface": p[3], "scope": int(p[4]) if len(p) > 4 else 0})
    return res


def parse_sort(v):
    v = v.strip("[]")
    return [(t.split("/")[0], int(t.split("/")[1])) for t in v.split()]


def check_ranges(line, where):
    """documented ranges of every parsed number in a sysconfig / effective dump"""
    bad = []
    d = kvs(line)
    if "servers" in d:
        for s in parse_servers(d["servers"]):
            if not (1 <= s["udp"] <= 65535 and 1 <= s["tcp"] <= 65535):
                bad.append("port out of range %r" % (s,))
            if s["addr"].startswith("6:fec") or s["addr"].startswith("6:fed") or s["addr"].startswith("6:fee") or s["addr"].startswith("6:fef"):
                bad.append("blacklisted server configured %r" % (s,))
            ll = s["addr"].startswith("6:fe8") or s["addr"].startswith("6:fe9") or s["addr"].startswith("6:fea") or s["addr"].startswith("6:feb")
            if ll and (s["iface"] == "-" or s["scope"] == 0):
                bad.append("link-local server without interface %r" % (s,))
            if s["iface"] != "-" and len(unhx(s["iface"])) > 15:
                bad.append("interface name too long %r" % (s,))
    if "sort" in d:
        for a, m in parse_sort(d["sort"]):
            if m > (32 if a.startswith("4:") else 128):
                bad.append("sortlist mask %d out of range for %s" % (m, a))
    if "lookups" in d and d["lookups"] not in ("none",):
        lk = unhx(d["lookups"])
        if where != "effective" and (len(lk) > 2 or any(c not in b"bf" for c in lk) or len(set(lk)) != len(lk)):
            bad.append("lookups %r" % lk)
    if "timeout" in d and where == "sysconfig":
        t = int(d["timeout"])
        if t != 0 and (t < 1000 or t % 1000 != 0):
            bad.append("timeout_ms %d is not a whole number of seconds >= 1" % t)
    if "domains" in d and d["domains"] not in ("none",):
        for x in d["domains"].strip("[]").split(","):
            if x and x != "-" and any(c < 32 or c > 126 for c in unhx(x)):
                bad.append("non-printable search domain")
    return bad
