"""C06 - retries are bounded and every query terminates (channel simulator family)."""
import simlib
import simprops
import os

import vlib
from props import C06a as _a

ID = "C06"
IMPORTS = [m for m in ("CaresProps.C06", "CaresProps.C06a") if os.path.exists(os.path.join(vlib.LEAN, *m.split(".")) + ".lean")]
GENERATORS = _a.GENERATORS
DRIVER_MODULES = ["Driver.SimMain", "Driver.ProtoMain"]
LEAN_TARGETS = IMPORTS + ["driver_sim", "driver_proto"]
THEOREMS = vlib.discover_theorems("CaresProps/C06.lean") + _a.THEOREMS
TRUSTED = [
    "Lean 4.33.0 kernel; axioms allowed: propext, Classical.choice, Quot.sound",
    "hand-written channel model lean/CaresModel/Chan/{Types,Client,Core}.lean (exec: request life cycle of ares_send.c, "
    "ares_process.c, ares_conn.c, ares_close_sockets.c, ares_cancel.c, ares_destroy.c, ares_query.c, ares_search.c against "
    "a virtual socket layer), tied to the code by the h_sim correspondence stream: same scenario lines to the real channel "
    "(virtual sockets via ares_set_socket_functions_ex, virtual clock and scripted RNG via the guarded hooks) and to the "
    "compiled Lean driver, event lines diffed",
    "harness/h_sim.c (virtual socket layer, virtual server, callback reactions), tools/simlib.py (scenario generator), "
    "tools/simprops.py (direct property monitors), tools/runner.py",
    "arithmetic part (ares_metrics.c, ares_calc_query_timeout): model CaresModel/Proto/Timeout.lean with an exact binary32 jitter model; tied by a probe that evaluates the static function of the tree under check on 400 inputs re-evaluated in the kernel (calc_samples_agree) and by the h_proto timeout stream",
    "free choices of the implementation (query ids, 0x20 case, cookie bytes, rotation pick, probe lottery, jitter) are "
    "observed from the trace, checked against the set the policy allows, and fed to the model; theorems quantify over all of them",
    "Lean compiler (driver_sim is the compiled form of the definitions the kernel checked)",
]
ASSUMPTIONS = [
    "virtual sockets/clock/RNG are representative of real ones; IPv4 servers only; no system configuration is read",
    "allocation succeeds (C14 covers failures); single-threaded use (C11 covers threads)",
    "C-level memory safety is observed under ASan/UBSan on the explored scenarios, not proved",
]
RULE = ("scenarios are generated from VERIF_SEED by tools/simlib.py (channel options, request kinds, per-transmission server "
        "behaviours incl. forged/late replies, timer advances, socket failures, callback reactions that send or cancel); "
        "a case is non-trivial when at least one completion callback fired; distinct by hash of its op lines")
EXPLANATION = 'Bounds on frames written per query and on deadlines, progress of timeout processing, over the channel model; correspondence with long retry sequences.'


STREAMS = _a.STREAMS + [
    simlib.storm_stream(simprops.mon_c06),
    simlib.sim_stream("retries", {"tries": [1, 2, 5, 9, 20], "nservers": [1, 2, 3, 5], "timeouts": [250, 300, 1000, 5000, 20000],
                                  "maxtimeout_prob": 0.5, "reply_kinds": [("servfail", 20), ("refused", 8), ("notimp", 4), ("tc", 8),
                                  ("noerror", 10), ("garbage", 4), ("formerr", 3), ("nxdomain", 3)], "sockfail_w": 0.06},
                      simprops.mon_c06, quick_n=400, thorough_n=10000, quick_ops=60, thorough_ops=250),
    simlib.sim_stream("edns", {"edns_prob": 0.7, "reply_kinds": [("noerror", 20), ("badcookie", 15), ("formerr", 6), ("formerr_noopt", 6),
                               ("tc", 6), ("servfail", 8)]}, simprops.mon_c06, quick_n=200, thorough_n=5000, quick_ops=40, thorough_ops=120),
]

LEVEL_TEXT = 'Proof: Lean 4 theorems over the channel model: frames handed to connections per query are bounded by servers x tries + 5 (one EDNS downgrade, one TCP upgrade, three bad-cookie resends), deadlines lie within [base, maximum], processing timeouts leaves no expired query and strictly consumes the retry budget; arithmetic of ares_calc_query_timeout incl. overflow is proved separately (C06a theorems) and the deadline interval of the channel model is proved to contain exactly the values that arithmetic can produce (timeouts below 2^23 ms). Tie: correspondence on long retry histories with virtual time; monitors: transmissions per token, deadlines vs maximum, UBSan.'
LEVEL_NOTE = 'Trusted: Lean kernel; model faithfulness as exercised; virtual clock. Server-list edits while queries are in flight are exercised by the harness but not yet modelled.'
TECHNIQUE = 'Lean 4 proof (budget invariant, termination measure) over the channel model + differential correspondence with virtual time'
