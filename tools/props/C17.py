"""C17 - DNS cookies follow the RFC 7873 client state machine."""
from props import _proto

ID = "C17"
IMPORTS = ["CaresProps.C17"]
LEAN_TARGETS = ["CaresProps.C17", "driver_proto", "driver_sim"]
THEOREMS = [
    "Cares.C17.timeval_is_set_ok",
    "Cares.C17.addr_equal_unspec_ok",
    "Cares.C17.validate_learns_only_in_use",
    "Cares.C17.cookie_constants",
    "Cares.C17.never_on_tcp",
    "Cares.C17.never_on_tcp_step",
    "Cares.C17.apply_stable",
    "Cares.C17.client_cookie_stable",
    "Cares.C17.client_cookie_changes_only_for_cause",
    "Cares.C17.client_cookie_is_fresh",
    "Cares.C17.server_cookie_saved",
    "Cares.C17.echo_latest_server_cookie",
    "Cares.C17.supported_requires_cookie",
    "Cares.C17.regression_bounded",
    "Cares.C17.regression_not_before",
    "Cares.C17.generated_accepts_cookieless",
    "Cares.C17.badcookie_step",
    "Cares.C17.requeue_only_badcookie",
    "Cares.C17.badcookie_at_most_three_then_tcp",
    "Cares.C17.badcookie_then_tcp",
    "Cares.C17.never_cookie_server_never_supported",
    "Cares.C17.never_cookie_server_is_used_without",
    "Cares.C17.unsupported_sends_no_cookie",
    "Cares.C17.bad_client_part_dropped",
    "Cares.C17.length_8_to_40_only",
    "Cares.C17.no_oob_read",
    "Cares.C17.apply_draws_le_one",
    "Cares.C17.c17_f18_pinned_regression_never_ends",
    "Cares.C17.c17_f30_pinned_unspec_never_equal",
]
GENERATORS = _proto.generators()
TRUSTED = [
    "Lean 4.33.0 kernel; axioms allowed: propext, Classical.choice, Quot.sound",
    "hand-written Lean model of ares_cookie_apply / ares_cookie_validate (CaresModel/Proto/Cookie.lean), tied to the code "
    "by the `cookie` correspondence stream: the real functions are called in-process on a real server of a real "
    "channel (hand-made ares_conn_t / ares_query_t, records built with the public ares_dns_record_* API) and the "
    "compiled model is run on the same op lines; outputs (COOKIE option left in the request, accept/drop, requeue, "
    "cookie_try_count, using_tcp) are diffed",
    "tools/gen_proto_consts.py: COOKIE_* constants, timeval_is_set and ares_addr_equal(AF_UNSPEC) tables printed by a "
    "probe translation unit that #includes ares_cookie.c of the tree under check",
    "harness/h_proto.c, tools/runner.py, tools/props/_proto.py (generator, python reference client of RFC 7873 used as "
    "the direct monitor), the virtual clock / RNG hooks, the Lean compiler (driver_proto)",
]
ASSUMPTIONS = [
    "allocation succeeds (ares_dns_rr_set_opt cannot fail)",
    "time stamps come from ares_tvnow(): usec < 1000000 and at least one second after the clock's origin, non-decreasing",
    "a response is only validated against a request that was written before (ares_cookie_apply ran on it): this is "
    "what the channel does; the harness and the theorems (`rq ∈ sent`) assume it",
    "a connection's self_ip has family AF_INET, AF_INET6 or AF_UNSPEC (ares_conn_set_self_ip)",
    "the channel-level consequences (which responses get delivered, the actual retransmission over TCP, the try budget) "
    "belong to the channel model (h_sim); here: the two functions and all their interleavings for one server",
]
EXPLANATION = ("Lean theorems over all histories of (apply | validate | time advance) events for one server: one theorem "
               "per clause of the property (see CaresProps/C17.lean), invariant proved by induction over the event fold. "
               "Tie: direct calls of ares_cookie_apply / ares_cookie_validate against the compiled model, plus a python "
               "reference client that evaluates each clause on the implementation's outputs.")
def _channel_streams():
    # the call sites (ares_conn_query_write / process_answer in ares_process.c) are outside the pure cookie functions:
    # whole-channel streams with UDP -> TCP fallbacks (TC, repeated BADCOOKIE) and client-cookie rotation
    import simlib
    import simprops
    return [simlib.storm_stream(simprops.mon_c17, quick_n=150), simlib.cookie_rotate_stream(simprops.mon_c17, quick_n=150)]


STREAMS = [_proto.cookie_stream()] + _channel_streams()
DRIVER_MODULES = list(globals().get("DRIVER_MODULES", [])) + ["Driver.SimMain"]
RULE = ("cases are generated from VERIF_SEED (server behaviours none/valid/changed/wrong-client/BADCOOKIE/disappearing/"
        "reappearing support/odd lengths, source-address changes incl. unknown address, time advances across 120 s / 300 s / "
        "1 day with whole-second clocks); a case is non-trivial when at least one cookie with a server part was put on the "
        "wire and at least one response was validated; distinct by hash of the op lines")
LEVEL_TEXT = ("Proof: Lean 4 theorems, for every history of sends (ares_cookie_apply), responses (ares_cookie_validate) and "
              "time advances on one server, of each clause of RFC 7873 client behaviour in the property: never on TCP; "
              "client cookie constant until reset / source-address change / daily rotation; echo of the latest server "
              "cookie; SUPPORTED => responses without a valid cookie are dropped, for no longer than the regression "
              "period counted from the first such drop; at most COOKIE_RESEND_MAX BADCOOKIE resends then TCP; a server "
              "that never returns cookies never has a response dropped; wrong client part dropped; only lengths 8..40. "
              "Constants and the timeval_is_set / address-equality tables are regenerated from source. Tie: the two C "
              "functions are run in-process on a real channel against the compiled model, and a python RFC 7873 reference "
              "client monitors every clause on the implementation. Channel-level delivery/retransmission is C05/C06's "
              "simulator, not claimed here.")
LEVEL_NOTE = ("Trusted: Lean kernel (axioms propext, Classical.choice, Quot.sound only); faithfulness of the hand-written "
              "model as far as the correspondence stream exercises it; tools/gen_proto_consts.py probe; harness/h_proto.c "
              "(hand-made ares_conn_t/ares_query_t); runner. The theorems need the repaired timeval_is_set (F18) and "
              "ares_addr_equal (F30-C17) - on a tree without those fixes the two table obligations fail and the monitors "
              "produce the failing histories.")
TECHNIQUE = "Lean 4 invariant proof over event folds + differential correspondence with the C functions + reference-client monitor"
