"""C13 - address lookups return exactly the addresses the answers contain (PURE PART).

This module holds the pure conversions only (answer record -> addrinfo -> hostent/addrttl, the two sorts,
literals, loopback rule, reverse-map names, PTR replies).  The end-to-end lookups (merge of the A and AAAA
sub-queries in ares_getaddrinfo.c host_callback, hosts file, lookup order, the query names actually sent)
are tied by the coordinator's channel simulator (h_sim), which imports `Cares.AddrInfo.addrinfoOfAnswer`."""
import ipaddress

import vlib
from runner import Stream
import gen_legacy as g
import legacy_common as lc
import simlib
import simprops
import gen_hostcb

ID = "C13"
IMPORTS = ["CaresProps.C13", "CaresProps.C13b", "CaresProps.C13c"]
LEAN_TARGETS = ["CaresProps.C13", "CaresProps.C13b", "CaresProps.C13c", "driver_legacy", "driver_text"]
THEOREMS = [
    "Cares.C13.addrs_exact",
    "Cares.C13.addrs_multiset",
    "Cares.C13.addrinfoOfAnswer_spec",
    "Cares.C13.merge_appends",
    "Cares.C13.hostent_addrs_family",
    "Cares.C13.addrttl_family_capacity",
    "Cares.C13.sort_is_permutation",
    "Cares.C13.sort_is_sorted",
    "Cares.C13.relink_walk",
    "Cares.C13.sortaddrinfo_is_permutation",
    "Cares.C13.model_sort_is_permutation",
    "Cares.C13.localhost_addrs",
    "Cares.C13.fake_addrs",
    "Cares.C13.fake_family_partial",
    "Cares.C13.fake_family_fails",
    "Cares.C13.ptr_name_correct",
    "Cares.C13.ptr_name_injective",
    "Cares.C13.reverse_returns_ptr_targets",
]
THEOREMS = THEOREMS + vlib.discover_theorems("CaresProps/C13b.lean") + vlib.discover_theorems("CaresProps/C13c.lean")
GENERATORS = [gen_hostcb.gen_hostcb]
TRUSTED = [
    "Lean 4.33.0 kernel; axioms allowed: propext, Classical.choice, Quot.sound",
    "hand-written Lean models (CaresModel/AddrInfo.lean) of ares_parse_into_addrinfo.c, ares_addrinfo2hostent.c, "
    "ares_addrinfo_localhost.c, fake_addrinfo (ares_getaddrinfo.c), the relink step and the RFC 6724 comparator of "
    "ares_sortaddrinfo.c, sort_addresses/sort6_addresses (ares_gethostbyname.c), ares_subnet_match, "
    "ares_dns_addr_to_ptr, ares_parse_ptr_reply_dnsrec; tied by the h_legacy trace-mode streams",
    "libc qsort is trusted to return a permutation of its input (sortaddrinfo_is_permutation is stated for "
    "every permutation); ares_inet_pton answers are observed inputs of the literal model",
    "harness/h_legacy.c (virtual socket functions scripting the source addresses, #include of "
    "ares_gethostbyname.c to reach the static sort functions), tools/gen_legacy.py, tools/legacy_common.py",
    "Lean compiler (driver_legacy)",
]
ASSUMPTIONS = [
    "PURE PART ONLY: the end-to-end lookups (sub-query merge, hosts file, lookup order, names queried) are tied "
    "by the coordinator's channel simulator",
    "allocation succeeds; non-Windows loopback rule (ares_system_loopback_addrs returns ENOTFOUND)",
]
EXPLANATION = ("Theorems: nodes produced from an answer are exactly its A/AAAA records (class IN) in order with port "
               "and TTL; hostent/addrttl are the family-filtered prefix; both sorts are permutations; reverse-map "
               "names parse back to the address; PTR replies return the PTR targets. Tie: real functions vs the "
               "compiled model on generated answers, sortlists, scripted source addresses.")


def rand_addr(rng, fam):
    return g.rand_a(rng) if fam == 2 else g.rand_aaaa(rng)


def gen_addrinfo(rng, tier):
    n = 350 if tier == "quick" else 12000
    ncap = 8 if tier == "quick" else 64
    cases = []
    for i in range(n):
        lines = ["ainew"]
        nmsg = rng.choice([1, 1, 2, 2, 3])
        big = (i % 50 == 9)
        for _ in range(nmsg):
            msg, meta = g.gen_message(rng, focus=rng.choice([g.T_A, g.T_AAAA]), big=big, nmax=10)
            if rng.random() < 0.05:
                msg = g.mutate(rng, msg)
            lines.append("msg " + g.hexs(msg))
            lines.append("aiadd %d %d" % (rng.choice([0, 53, 80, 65535, rng.randint(0, 65535)]), rng.choice([0, 0, 1])))
        if rng.random() < 0.15:
            lines.append("ailocal %s %d %d" % (b"localhost".hex(), rng.randint(0, 65535), rng.choice([0, 2, 10, 10, 2, 3])))
        for _ in range(rng.randint(1, 3)):
            lines.append("ai2h %d" % rng.choice([0, 2, 10, 2, 10, 7]))
        for _ in range(rng.randint(1, 3)):
            lines.append("ai2t %d %d" % (rng.choice([2, 10, 2, 10, 0]), rng.choice([0, 1, 2, ncap, rng.randint(0, ncap)])))
        # scripted sources: one entry per node (count unknown here: give plenty)
        k = 260 if big else 40
        script = []
        for _ in range(k):
            r = rng.random()
            if r < 0.15:
                script.append("-")
            elif r < 0.2:
                script.append("x")
            else:
                script.append(rand_addr(rng, 2).hex() + "/" + rand_addr(rng, 10).hex())
        if rng.random() < 0.03:
            script[rng.randint(0, 3)] = "0102"      # fatal: getsockname fails
        lines.append("aisort " + ",".join(script))
        lines.append("ai2h 0")
        cases.append(lines)
    return cases


def mon_addrinfo(case, out):
    """addresses of the addrinfo == A/AAAA records (class IN) of the accepted answers, in order, with port and
    TTL; nothing invented/duplicated/dropped by the conversions and by the sort"""
    o = lc.strip_mon(out)
    bad = []
    st, rec = None, None
    exp_nodes = []    # (fam, addr, port, ttl)
    for i, l in enumerate(case):
        if i >= len(o):
            break
        t = l.split(" ")
        if t[0] == "ainew":
            exp_nodes = []
        elif t[0] == "msg":
            st, rec = lc.parse_rec(o[i])
        elif t[0] == "aiadd" and rec is not None and o[i].startswith("st="):
            port = int(t[1])
            stx = int(o[i].split(" ")[0][3:])
            new = []
            for rr in rec["an"]:
                if rr["c"] != 1:
                    continue
                if rr["t"] == 1:
                    new.append("2/%s/%d/%d" % (rr["f"][101], port, lc.i32(rr["ttl"])))
                elif rr["t"] == 28:
                    new.append("10/%s/%d/%d" % (rr["f"][2801], port, lc.i32(rr["ttl"])))
            if stx == 0:
                exp_nodes += new
            elif new:
                bad.append(("addrinfo-dropped", "ares_parse_into_addrinfo returned %d although the answer has A/AAAA records" % stx))
                break
            got = nodes_of(o[i])
            if got != exp_nodes:
                bad.append(("addrinfo-nodes", "nodes %r, the answers contain %r" % (got[:6], exp_nodes[:6])))
                break
        elif t[0] == "ailocal" and o[i].startswith("st=0"):
            exp_nodes = nodes_of(o[i])
        elif t[0] == "aifake" and " res=lit " in o[i]:
            exp_nodes = nodes_of(o[i])
        elif t[0] == "aisort" and o[i].startswith("st="):
            got = nodes_of(o[i])
            if sorted(got) != sorted(exp_nodes):
                bad.append(("sort-not-permutation", "ares_sortaddrinfo: %d nodes in, %d out; multiset differs" % (len(exp_nodes), len(got))))
                break
            exp_nodes = got
        elif t[0] == "ai2h" and o[i].startswith("st=0 host{"):
            fam = int(t[1])
            if fam == 0 and exp_nodes:
                fam = int(exp_nodes[0].split("/")[0])
            want = [x.split("/")[1] for x in exp_nodes if int(x.split("/")[0]) == fam]
            got = o[i].split("addrs=[")[1].split("]")[0]
            got = got.split(",") if got else []
            if got != want:
                bad.append(("hostent-addrs", "hostent addresses %r, addrinfo has %r for family %d" % (got[:6], want[:6], fam)))
                break
        elif t[0] == "ai2t" and o[i].startswith("st=0"):
            fam, cap = int(t[1]), int(t[2])
            want = [x.split("/")[1] for x in exp_nodes if int(x.split("/")[0]) == fam][:cap]
            got = o[i].split("ttls=[")[1].split("]")[0]
            got = [x.split("/")[0] for x in got.split(",")] if got else []
            if got != want:
                bad.append(("addrttl-addrs", "addrttl addresses %r, expected prefix %r (family %d, capacity %d)" % (got[:6], want[:6], fam, cap)))
                break
    return bad


def nodes_of(line):
    s = line.split("nodes=[")[1].split("]")[0]
    return s.split(",") if s else []


def gen_literal(rng, tier):
    n = 250 if tier == "quick" else 12000
    cases = []
    for i in range(n):
        r = rng.random()
        if r < 0.35:
            name = ".".join(str(rng.choice([0, 1, 9, 10, 127, 255, 256, 300, rng.randint(0, 255)])) for _ in range(rng.choice([4, 4, 4, 3, 5])))
        elif r < 0.7:
            a = ipaddress.IPv6Address(g.rand_aaaa(rng))
            name = rng.choice([a.compressed, a.exploded, a.compressed.upper()])
            if rng.random() < 0.1:
                name = "::ffff:1.2.3.4"
        elif r < 0.8:
            name = rng.choice(["1.2.3.4.", "01.2.3.4", "1..2.3", "1.2.3.4a", ":::1", "1:2:3:4:5:6:7:8:9", "example.com", "a.b", "12345", "::"])
        else:
            name = "".join(rng.choice("0123456789.:abcdef") for _ in range(rng.randint(1, 12)))
        if name.endswith("localhost") or not name or name.endswith(".onion"):
            name = "1.2.3.4"
        fam = rng.choice([0, 2, 10, 0, 2, 10, 5])
        lines = ["aifake %s %d %d %d" % (name.encode().hex(), rng.choice([0, 80, 65535]), fam, rng.choice([0, 1, 1, 3])),
                 "ai2h 0", "ai2t 2 3", "ai2t 10 3"]
        if rng.random() < 0.3:
            lines.append("ailocal %s %d %d" % (b"localhost".hex(), rng.randint(0, 65535), rng.choice([0, 2, 10])))
        cases.append(lines)
    return cases


def mon_literal(case, out):
    o = lc.strip_mon(out)
    bad = []
    for i, l in enumerate(case):
        if i >= len(o):
            break
        t = l.split(" ")
        if t[0] == "aifake" and " res=lit " in o[i]:
            name = bytes.fromhex(t[1]).decode("latin1")
            fam = int(t[3])
            nodes = nodes_of(o[i])
            try:
                ip = ipaddress.ip_address(name)
            except ValueError:
                ip = None
            if len(nodes) != 1:
                bad.append(("literal-count", "literal %r produced %d nodes" % (name, len(nodes))))
                break
            nf, na, nport, nttl = nodes[0].split("/")
            if fam != 0 and int(nf) != fam:
                bad.append(("literal-family-not-requested",
                            "ares_getaddrinfo(%r, family=%d) returned a node of family %s" % (name, fam, nf)))
                break
            if ip is not None and na != ip.packed.hex():
                bad.append(("literal-address", "literal %r gave address %s" % (name, na)))
                break
            if int(nport) != int(t[2]):
                bad.append(("literal-port", "literal %r port %s, requested %s" % (name, nport, t[2])))
                break
    return bad


def gen_ptr(rng, tier):
    n = 300 if tier == "quick" else 12000
    cases = []
    for i in range(n):
        fam = rng.choice([2, 10])
        addr = rand_addr(rng, fam)
        lines = ["addr2ptr %d %s" % (fam, addr.hex())]
        if rng.random() < 0.7:
            msg, meta = g.gen_message(rng, focus=g.T_PTR, nmax=8)
            if rng.random() < 0.1:
                msg = g.mutate(rng, msg)
            lines.append("msg " + g.hexs(msg))
            lines.append("leg ptr %s %d" % (addr.hex(), fam))
            lines.append("leg ptr %s %d" % (rng.choice(["~", "-", addr.hex()]), rng.choice([2, 10, 0])))
        cases.append(lines)
    return cases


def mon_ptr(case, out):
    """RFC 1035 3.5 / RFC 3596 2.5 via python's ipaddress; PTR replies: targets of the PTR answers"""
    o = lc.strip_mon(out)
    bad = []
    st, rec = None, None
    for i, l in enumerate(case):
        if i >= len(o):
            break
        t = l.split(" ")
        if t[0] == "addr2ptr":
            ip = ipaddress.ip_address(bytes.fromhex(t[2]))
            want = ip.reverse_pointer.encode().hex()
            if o[i] != want:
                bad.append(("ptr-name", "ares_dns_addr_to_ptr(%s) = %r, RFC reverse-map name %r"
                            % (ip, bytes.fromhex(o[i]) if o[i] not in ("none", "-") else o[i], ip.reverse_pointer)))
                break
        elif t[0] == "msg":
            st, rec = lc.parse_rec(o[i])
        elif t[0] == "leg" and st is not None:
            exp, alts = lc.expected_leg(st, rec, t[1], t[2:])
            if exp is not None and not lc.matches(exp, o[i]):
                bad.append(("ptr-reply", "ares_parse_ptr_reply returned %r, the record API reports %r" % (o[i][:200], exp[:200])))
                break
    return bad


def gen_sortlist(rng, tier):
    n = 300 if tier == "quick" else 12000
    cases = []
    for i in range(n):
        fam = rng.choice([2, 10])
        npat = rng.choice([0, 1, 2, 3, 5, 8])
        pats = []
        bases = []
        for _ in range(npat):
            pf = fam if rng.random() < 0.8 else (12 - fam)
            a = rand_addr(rng, pf)
            bases.append((pf, a))
            mx = 32 if pf == 2 else 128
            mask = rng.choice([0, 1, 7, 8, 9, 16, 24, mx - 1, mx, rng.randint(0, mx), mx + 5 if rng.random() < 0.1 else mx])
            pats.append("%d:%s/%d" % (pf, a.hex(), mask))
        naddr = rng.choice([0, 1, 2, 3, 5, 8, 13, 30]) if i % 30 else rng.randint(100, 200)
        addrs = []
        for _ in range(naddr):
            same = [b for (pf, b) in bases if pf == fam]
            if same and rng.random() < 0.6:
                b = bytearray(rng.choice(same))
                for _ in range(rng.randint(0, 2)):
                    b[rng.randint(len(b) // 2, len(b) - 1)] = rng.randint(0, 255)
                addrs.append(bytes(b).hex())
            else:
                addrs.append(rand_addr(rng, fam).hex())
        cases.append(["sortlist %d %s %s" % (fam, ",".join(pats) or "-", ",".join(addrs) or "-")])
    return cases


def subnet_index(fam, pats, addr):
    a = int.from_bytes(bytes.fromhex(addr), "big")
    bits = 32 if fam == 2 else 128
    for i, p in enumerate(pats):
        pf, rest = p.split(":")
        ph, mask = rest.split("/")
        mask = int(mask)
        if int(pf) != fam or mask > bits:
            continue
        pa = int.from_bytes(bytes.fromhex(ph), "big")
        if mask == 0 or (a >> (bits - mask)) == (pa >> (bits - mask)):
            return i
    return len(pats)


def mon_sortlist(case, out):
    o = lc.strip_mon(out)
    bad = []
    for i, l in enumerate(case):
        if i >= len(o):
            break
        t = l.split(" ")
        if t[0] != "sortlist":
            continue
        fam = int(t[1])
        pats = [] if t[2] == "-" else t[2].split(",")
        addrs = [] if t[3] == "-" else t[3].split(",")
        got = o[i][1:-1].split(",") if len(o[i]) > 2 else []
        if sorted(got) != sorted(addrs):
            bad.append(("sortlist-not-permutation", "sortlist sort: %d addresses in, %d out, multiset differs" % (len(addrs), len(got))))
            break
        want = sorted(addrs, key=lambda a: subnet_index(fam, pats, a))   # python's sort is stable
        if got != want:
            bad.append(("sortlist-order", "sortlist sort returned %r, stable sort by first matching pattern %r" % (got[:8], want[:8])))
            break
    return bad


def opkind(line):
    t = line.split(" ")
    return " ".join(t[:2]) if t[0] == "leg" else t[0]


def mon_hosts_addrs(case, out):
    """hosts-file lookups: when every line of the file is well-formed, no address occurs twice and no line joins two
    existing entries, a name that is found
    must come back with (at least) every address listed for it on any line, whatever the family"""
    import binascii
    import re as _re
    bad = []
    lines = None
    for line, o in zip(case, out):
        t = line.split()
        if t[0] == "file":
            lines = None
            if len(t) < 3 or t[2] == "none":
                continue
            try:
                raw = binascii.unhexlify(t[2]).decode("latin1")
            except Exception:
                continue
            parsed, ok, seen, ents = [], True, set(), []
            for ln in _re.split(r"[\r\n]", raw):
                ln = ln.split("#", 1)[0].strip(" \t")
                if not ln:
                    continue
                tok = ln.split()
                try:
                    ip = ipaddress.ip_address(tok[0])
                except ValueError:
                    ok = False
                    break
                if len(tok) < 2 or ip in seen or not all(_re.fullmatch(r"[A-Za-z0-9._-]{1,60}", n) for n in tok[1:]):
                    ok = False
                    break
                seen.add(ip)
                names = [n.lower() for n in tok[1:]]
                parsed.append((ip, names))
                # the loader merges a line into the entry that already knows one of its names; a line whose names
                # belong to two different entries is merged into the first match only - the monitor does not judge those
                hit = [e for e in ents if e & set(names)]
                if len(hit) > 1:
                    ok = False
                    break
                if hit:
                    hit[0].update(names)
                else:
                    ents.append(set(names))
            lines = parsed if ok else None
        elif t[0] == "hosts" and lines is not None:
            res = o.split(" ")
            for q, r in zip(t[2:], res):
                if not q.startswith("n:") or not r.startswith("ok|"):
                    continue
                name = binascii.unhexlify(q[2:]).decode("latin1").lower()
                got = set()
                m = _re.search(r"ad=([0-9a-f:,]*)", r)
                for a in (m.group(1).split(",") if m and m.group(1) else []):
                    fam, hx = a.split(":")
                    got.add(ipaddress.ip_address(binascii.unhexlify(hx)))
                want = {ip for ip, names in lines if name in names}
                if not want <= got:
                    bad.append(("hosts-address-dropped", "hosts lookup of %r returned %s but the file also lists %s for it"
                                % (name, sorted(map(str, got)), sorted(map(str, want - got)))))
    return bad


def gen_hosts_reload(rng, tier):
    """one channel across rewrites of the hosts file: after every rewrite whose modification time is not older than the
    moment the channel loaded the file, a lookup must answer from the new content (same answer as a fresh channel)"""
    from props import C15 as _c15
    import binascii
    cases = []
    n = 200 if tier == "quick" else 5000
    for _ in range(n):
        now = rng.choice([1000, 50000, 1700000000])
        qs = ["n:" + binascii.hexlify(rng.choice(_c15.HOSTNAMES).encode()).decode() for _ in range(3)]
        ops = ["now %d" % now]
        for _ in range(rng.randint(2, 5)):
            base = [_c15._hosts_line(rng) for _ in range(rng.randint(0, 4))]
            ops.append("file /virt/h " + binascii.hexlify(b"\n".join(base) + b"\n").decode())
            ops.append("hostsk /virt/h " + " ".join(qs))
            ops.append("hosts /virt/h " + " ".join(qs))
            now += rng.choice([0, 0, 0, 1, 2, 61])
            ops.append("now %d" % now)
        cases.append(ops)
    return cases


def mon_hosts_reload(case, out):
    bad = []
    prev = None
    for line, o in zip(case, out):
        t = line.split()
        if t[0] == "hostsk":
            prev = (line, o)
        elif t[0] == "hosts" and prev is not None:
            if prev[1] != o:
                bad.append(("hosts-stale-after-rewrite", "a channel that had the hosts file loaded answers %r after the file was "
                            "rewritten; a fresh read of the file gives %r" % (prev[1][:200], o[:200])))
            prev = None
    return bad


def _hosts_stream():
    from props import C15 as _c15
    return Stream("hosts", "h_text", "driver_text", _c15.gen_hosts, monitor=mon_hosts_addrs, nontrivial=_c15._nontrivial)


STREAMS = [
    Stream("addrinfo", "h_legacy", "driver_legacy", gen_addrinfo, monitor=mon_addrinfo,
           driver_input=lc.driver_input, compare=lc.compare_skip_mon, opkind=opkind),
    Stream("literal", "h_legacy", "driver_legacy", gen_literal, monitor=mon_literal,
           nontrivial=lambda c, o: any("res=lit" in l for l in o),
           driver_input=lc.driver_input, compare=lc.compare_skip_mon, opkind=opkind),
    Stream("ptr", "h_legacy", "driver_legacy", gen_ptr, monitor=mon_ptr,
           driver_input=lc.driver_input, compare=lc.compare_skip_mon, opkind=opkind),
    Stream("sortlist", "h_legacy", "driver_legacy", gen_sortlist, monitor=mon_sortlist,
           driver_input=lc.driver_input, compare=lc.compare_skip_mon, opkind=opkind),
    _hosts_stream(),
    Stream("hosts-reload", "h_text", None, gen_hosts_reload, monitor=mon_hosts_reload,
           nontrivial=lambda c, o: any(x.startswith("ok|") or " ok|" in x for x in o)),
    # end to end through the channel for the front ends the channel model does not cover: reverse-map names asked and
    # PTR targets returned by gethostbyaddr/getnameinfo, addresses of gethostbyname and of getaddrinfo with sorting
    simlib.lookups_stream(simprops.mon_lookups, quick_n=300, thorough_n=8000),
]

LEVEL_TEXT = ("Proof. The completion decision of ares_getaddrinfo (host_callback: when to end with which status, when to go "
              "on to the next candidate) is regenerated from the C source on every run (tools/gen_hostcb.py) and C13c proves "
              "over it: cancel/destroy give no partial result, a recorded allocation failure gives ARES_ENOMEM, success "
              "needs an address, and the channel model's getaddrinfo client decides exactly through that generated chain "
              "(gaiOnCb_follows_generated). End-to-end part at the model level (C13b/C12c): for the channel model's getaddrinfo client the addresses "
              "delivered are exactly those of the successful replies for the winning candidate (A and AAAA sub-queries merged in "
              "arrival order), none invented, duplicated or dropped, none on cancel, and every reply the client sees is an accepted "
              "one or a cached copy of one. Pure part (the end-to-end lookups - merge of the A and AAAA sub-queries, hosts file, lookup "
              "order, names queried - are tied by the coordinator's channel simulator, which imports "
              "Cares.AddrInfo.addrinfoOfAnswer): Lean 4 theorems that ares_parse_into_addrinfo yields exactly the A/AAAA "
              "records (class IN) of an answer in order with port and TTL and appends them to what earlier answers "
              "gave; hostent/addrttl are the family-filtered (and capacity-limited) sublists; the sortlist insertion "
              "sort and the RFC 6724 relink (for every permutation qsort may return) are permutations; literals and "
              "the loopback rule give exactly one/the loopback addresses (family restriction of IPv4 literals under "
              "AF_INET6: partial, kernel-checked counterexample); parsePtrName(addrToPtr a) = a with RFC 1035/3596 "
              "octet and nibble order; PTR replies return the PTR targets. Tie: real functions vs compiled model on "
              "generated answers (CNAME chains, mixed families, 0..200 records, foreign classes), capacities, "
              "sortlists, scripted source addresses; python monitors check multiset preservation, family filters "
              "and reverse names (ipaddress.reverse_pointer) directly on the implementation; the gethostbyname / gethostbyaddr / "
              "getnameinfo / sorted-getaddrinfo front ends are run end to end through a channel (lookups stream, monitor only): "
              "question asked = reverse-map name of the address, PTR target and address returned, sub-query types = requested "
              "family, per family exactly the address set of one scripted reply, no duplicates.")
LEVEL_NOTE = ("Trusted: Lean kernel, hand-written models as far as the correspondence exercises them, libc qsort "
              "(permutes), ares_inet_pton (observed input), harness/h_legacy.c with its virtual socket functions, "
              "the generators, the runner. End-to-end part: see the simulator streams.")
TECHNIQUE = "Lean 4 proof (list equalities / permutations / round trip) + trace-mode differential correspondence"
