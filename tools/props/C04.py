"""C04 - Decoded records say what the wire bytes say (RFC reference agreement)."""
import gen_dns
import gen_tables
from runner import Stream
from props import C02

ID = "C04"
IMPORTS = ["CaresProps.C04"]
LEAN_TARGETS = ["CaresProps.C04", "driver_codec"]
THEOREMS = [
    "Cares.C04.parse_sound",
    "Cares.C04.parse_complete",
    "Cares.C04.parse_iff_decode",
    "Cares.C04.name_agrees",
    "Cares.C04.escape_roundtrip",
    "Cares.C04.escape_roundtrip_needs_nonempty",
    "Cares.C04.split_escape",
    # decide-obligations over the regenerated tables
    "Cares.C04.scripts_match_rfc_formats",
    "Cares.C04.escape_table_ok",
    "Cares.Dns.scriptTable_ok",
]
GENERATORS = [gen_tables.gen_dns_tables] + C02._GEN_SCRIPTS
TRUSTED = [
    "Lean 4.33.0 kernel; axioms allowed: propext, Classical.choice, Quot.sound",
    "the reading of the RFCs in CaresModel/Dns/Rfc.lean (declarative reference decoder, RDATA format table, "
    "`supported`, `toRec`); its independence from the operational model is by construction (different structure) "
    "and is cross-checked by a third artefact: the message generator is a plain RFC encoder from intended values",
    "hand-written operational model of ares_dns_parse (CaresModel/Dns/{Bytes,Escape,Name,Parse}.lean) tied to the code "
    "by the h_codec `parse` stream; ares_split_dns_name model tied by the `names` stream",
    "generated tables (tools/gen_tables.py exhaustive probe; tools/gen_rrscripts.py clang AST field scripts)",
    "harness/h_codec.c, harness/hcodec_dump.h, tools/gen_dns.py, tools/runner.py, tools/props/C04.py, C02.py",
    "Lean compiler (driver_codec is the compiled form of the definitions the kernel checked)",
]
ASSUMPTIONS = [
    "parse flags = 0 in the theorems (the flag-dependent RAW_RR rule is covered by the C02/C04 `parse` stream only)",
    "allocation succeeds",
    "several OPT RRs in one message: the reference ORs their extended-RCODE octets (RFC 6891 allows one OPT only)",
]
EXPLANATION = ("parse_sound / parse_complete: the operational parser model accepts exactly the messages the declarative "
               "RFC reference decodes within the written-out supported subset, and reports exactly the decoded fields; "
               "name layer equality; escape round trip. Tie: implementation vs operational model (`parse`), "
               "implementation vs RFC reference decoder run in the Lean driver (`decode`), implementation vs the values "
               "the generator encoded (monitor), ares_split_dns_name vs model (`names`).")


def gen_names(rng, tier):
    """presentation names: escaped forms of random labels (must split back to the labels), and free text"""
    n = {"quick": 4, "thorough": 100}.get(tier, 1)
    cases = []
    for _ in range(700 * n):
        k = rng.choice([0, 1, 1, 2, 3, 5])
        labels = [gen_dns.rand_label(rng, rng.choice([3, 12, 63])) for _ in range(k)]
        labels = [bytes(c for c in l if c != 0) or b"x" for l in labels]
        text = gen_dns.pres_name(labels)
        if rng.random() < 0.3:
            text += b"."
        if len(text) < 480:
            cases.append(["# labels " + ",".join(hexs(l) for l in labels), "split %s" % hexs(text)])
    alphabet = b'ab.\\019"$ \t\x7f\xff'
    for _ in range(500 * n):
        ln = rng.choice([0, 1, 2, 3, 5, 9, 20, 70, 260])
        text = bytes(rng.choice(alphabet) for _ in range(ln))
        cases.append(["split %s" % hexs(text)])
    for nm in gen_dns.load_name_seeds():
        t = bytes(c for c in nm.strip() if c != 0)[:480]
        cases.append(["split %s" % hexs(t)])
    return cases


def mon_names(case, out):
    """escaping round-trips: the wire labels written for the escaped text are the labels it was made from"""
    bad = []
    labels = None
    for line, o in zip(case, out):
        if line.startswith("# labels "):
            labels = [bytes.fromhex(x) if x != "-" else b"" for x in line[len("# labels "):].split(",") if x]
            continue
        if line.startswith("split ") and labels is not None:
            wire = b"".join(bytes([len(l)]) + l for l in labels) + b"\x00"
            ok_len = all(1 <= len(l) <= 63 for l in labels) and (not labels or sum(len(l) for l in labels) + len(labels) - 1 <= 255)
            want = "st=ok w=" + wire.hex() if ok_len else "st=badresp"
            if o != want:
                bad.append(("escape-roundtrip", "escaped name came back as %s, labels were %s" % (o[:120], want[:120])))
            labels = None
    return bad

hexs = C02.hexs


def gen_decode(rng, tier):
    """messages for flags = 0: clean ones carry the line the intended values demand"""
    n = {"quick": 4, "thorough": 50}.get(tier, 1)
    cases = []
    seeds = gen_dns.load_seeds()
    for data, tag in gen_dns.pointer_games(rng) + gen_dns.edge_messages(rng):
        cases.append(["# %s" % tag, "parse 0 %s" % hexs(data)])
    for s in seeds:
        cases.append(["# seed", "parse 0 %s" % hexs(s)])
    for _ in range(2000 * n):
        b = gen_dns.gen_message(rng, big=rng.random() < 0.01)
        cases.append(["# expect " + gen_dns.expected_line(b, 0), "parse 0 %s" % hexs(b.data)])
        k = rng.random()
        if k < 0.6:
            data, tag = gen_dns.anomalies(rng, b)
            cases.append(["# anomaly-%s" % tag, "parse 0 %s" % hexs(data)])
        if k < 0.3 or k > 0.85:
            cases.append(["# mutated", "parse 0 %s" % hexs(gen_dns.mutate(rng, b.data))])
    for _ in range(400 * n):
        s = rng.choice(seeds) if seeds else b""
        cases.append(["# seed-mutated", "parse 0 %s" % hexs(gen_dns.mutate(rng, s))])
    for t in gen_dns.KNOWN + [99]:
        for _ in range(3 * n):
            b = gen_dns.gen_message(rng, types=[t])
            cases.append(["# expect " + gen_dns.expected_line(b, 0), "parse 0 %s" % hexs(b.data)])
    return cases


def to_rfc(case, impl_out):
    """the Lean driver runs the declarative reference decoder, not the operational model"""
    out = []
    for l in case:
        t = l.split()
        out.append("rfc " + t[2] if t and t[0] == "parse" else l)
    return out


def compare_rfc(impl, model):
    """soundness: impl ok => reference decodes to the same dump; completeness: reference ok => impl ok"""
    n = max(len(impl), len(model))
    for i in range(n):
        x = impl[i] if i < len(impl) else "<missing>"
        y = model[i] if i < len(model) else "<missing>"
        if x.startswith("#") and y.startswith("#"):
            continue
        if x == y:
            continue
        if y.startswith("st=unsup ") and (x == "st=ok " + y[len("st=unsup "):] or x == "st=badresp"):
            continue
        return i
    return None


def mon_intended(case, out):
    """third, independent artefact: the generator is a plain RFC encoder; getters must return the values
    the message was encoded from"""
    bad = []
    expect = None
    for line, o in zip(case, out):
        if line.startswith("# expect "):
            expect = line[len("# expect "):]
            continue
        if line.startswith("parse "):
            if "!result-on-error" in o or "!MON-null-record" in o:
                bad.append(("result-shape", "parser returned %s" % o[:80]))
            if expect is not None and gen_dns.normalise(o) != expect:
                i = next((k for k in range(min(len(o), len(expect))) if o[k] != expect[k]), min(len(o), len(expect)))
                bad.append((C02.intended_sig(expect, o),
                            "getters differ from the values the message was encoded from at char %d: got ...%s  intended ...%s"
                            % (i, o[max(i - 30, 0):i + 60], expect[max(i - 30, 0):i + 60])))
            expect = None
    return bad


STREAMS = [
    Stream("names", "h_codec", "driver_codec", gen_names, monitor=mon_names, nontrivial=C02.nontrivial,
           compare=C02.compare, opkind=lambda l: l.split()[0]),
    # operational model + intended values (all flag words)
    Stream("parse", "h_codec", "driver_codec", lambda rng, tier: C02.gen_parse(rng, tier, 0.5), monitor=mon_intended, nontrivial=C02.nontrivial,
           compare=C02.compare, opkind=C02.STREAMS[0].opkind),
    # declarative reference decoder (flags = 0)
    Stream("decode", "h_codec", "driver_codec", gen_decode, monitor=mon_intended, nontrivial=C02.nontrivial,
           driver_input=to_rfc, compare=compare_rfc, opkind=C02.STREAMS[0].opkind),
]

RULE = C02.RULE
LEVEL_TEXT = ("Proof: Lean 4 theorems, for ALL byte strings, that the operational model of ares_dns_parse (flags 0) and an "
              "independently structured declarative RFC 1035/2535/2782/3403/3596/6698/6891/7553/8659/9460 reference "
              "decoder agree: parse_sound (accepted => reference decodes it and every header/question/RR field equals "
              "the reference's, presented as the record API presents it), parse_complete (reference decodes + explicit "
              "decidable `supported` => accepted), their conjunction as an equivalence, the name layer as an equality, "
              "and escape_roundtrip / split_escape for presentation names. Tie: real ares_dns_parse vs the operational "
              "model and, separately, vs the reference decoder run in the Lean driver; getters vs the values a plain "
              "RFC encoder was given; ares_split_dns_name vs its model.")
LEVEL_NOTE = ("Trusted: Lean kernel (propext, Classical.choice, Quot.sound); the reading of the RFCs in Rfc.lean; the "
              "hand-written operational model as far as the streams exercise it; generated tables; harness, generator, "
              "runner. Theorems are for parse flags = 0; other flag words are covered by correspondence only. "
              "Finding F8 is repaired by a fix commit which the model follows.")
TECHNIQUE = "Lean 4 refinement proof (operational parser = declarative RFC decoder on the supported subset) + three-way differential testing"
