"""C04 - Decoded records say what the wire bytes say (RFC reference agreement)."""
import gen_dns
import gen_tables
from runner import Stream
from props import C02

ID = "C04"
IMPORTS = ["CaresProps.C04"]
LEAN_TARGETS = ["CaresProps.C04", "driver_codec"]
THEOREMS = []
GENERATORS = [gen_tables.gen_dns_tables] + C02._GEN_SCRIPTS
TRUSTED = []
ASSUMPTIONS = []
EXPLANATION = ""

hexs = C02.hexs


def gen_decode(rng, tier):
    """messages for flags = 0: clean ones carry the line the intended values demand"""
    n = {"quick": 4, "thorough": 150}.get(tier, 1)
    cases = []
    seeds = gen_dns.load_seeds()
    for data, tag in gen_dns.pointer_games(rng) + gen_dns.edge_messages(rng):
        cases.append(["# %s" % tag, "parse 0 %s" % hexs(data)])
    for s in seeds:
        cases.append(["# seed", "parse 0 %s" % hexs(s)])
    for _ in range(2000 * n):
        b = gen_dns.gen_message(rng, big=rng.random() < 0.01)
        cases.append(["# expect " + gen_dns.expected_line(b, 0), "parse 0 %s" % hexs(b.data)])
        k = rng.random()
        if k < 0.6:
            data, tag = gen_dns.anomalies(rng, b)
            cases.append(["# anomaly-%s" % tag, "parse 0 %s" % hexs(data)])
        if k < 0.3 or k > 0.85:
            cases.append(["# mutated", "parse 0 %s" % hexs(gen_dns.mutate(rng, b.data))])
    for _ in range(400 * n):
        s = rng.choice(seeds) if seeds else b""
        cases.append(["# seed-mutated", "parse 0 %s" % hexs(gen_dns.mutate(rng, s))])
    for t in gen_dns.KNOWN + [99]:
        for _ in range(3 * n):
            b = gen_dns.gen_message(rng, types=[t])
            cases.append(["# expect " + gen_dns.expected_line(b, 0), "parse 0 %s" % hexs(b.data)])
    return cases


def to_rfc(case, impl_out):
    """the Lean driver runs the declarative reference decoder, not the operational model"""
    out = []
    for l in case:
        t = l.split()
        out.append("rfc " + t[2] if t and t[0] == "parse" else l)
    return out


def compare_rfc(impl, model):
    """soundness: impl ok => reference decodes to the same dump; completeness: reference ok => impl ok"""
    n = max(len(impl), len(model))
    for i in range(n):
        x = impl[i] if i < len(impl) else "<missing>"
        y = model[i] if i < len(model) else "<missing>"
        if x.startswith("#") and y.startswith("#"):
            continue
        if x == y:
            continue
        if y.startswith("st=unsup ") and (x == "st=ok " + y[len("st=unsup "):] or x == "st=badresp"):
            continue
        return i
    return None


def mon_intended(case, out):
    """third, independent artefact: the generator is a plain RFC encoder; getters must return the values
    the message was encoded from"""
    bad = []
    expect = None
    for line, o in zip(case, out):
        if line.startswith("# expect "):
            expect = line[len("# expect "):]
            continue
        if line.startswith("parse "):
            if "!result-on-error" in o or "!MON-null-record" in o:
                bad.append(("result-shape", "parser returned %s" % o[:80]))
            if expect is not None and gen_dns.normalise(o) != expect:
                i = next((k for k in range(min(len(o), len(expect))) if o[k] != expect[k]), min(len(o), len(expect)))
                bad.append((C02.intended_sig(expect, o),
                            "getters differ from the values the message was encoded from at char %d: got ...%s  intended ...%s"
                            % (i, o[max(i - 30, 0):i + 60], expect[max(i - 30, 0):i + 60])))
            expect = None
    return bad


STREAMS = [
    # operational model + intended values (all flag words)
    Stream("parse", "h_codec", "driver_codec", C02.gen_parse, monitor=mon_intended, nontrivial=C02.nontrivial,
           compare=C02.compare, opkind=C02.STREAMS[0].opkind),
    # declarative reference decoder (flags = 0)
    Stream("decode", "h_codec", "driver_codec", gen_decode, monitor=mon_intended, nontrivial=C02.nontrivial,
           driver_input=to_rfc, compare=compare_rfc, opkind=C02.STREAMS[0].opkind),
]

LEVEL_TEXT = ""
LEVEL_NOTE = ""
TECHNIQUE = ""
