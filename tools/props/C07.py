"""C07 - timers are sound and live (channel simulator family)."""
import simlib
import simprops
import os

import gen_evtimeout
import gen_evwake
import gen_timeval
import threadlib
import vlib

ID = "C07"
IMPORTS = [m for m in ("CaresProps.C07", "CaresProps.C07b", "CaresProps.C07c") if os.path.exists(os.path.join(vlib.LEAN, *m.split(".")) + ".lean")]
DRIVER_MODULES = ["Driver.SimMain"]
LEAN_TARGETS = IMPORTS + ["driver_sim"]
THEOREMS = vlib.discover_theorems("CaresProps/C07.lean") + [
    "Cares.C07b.sleep_covers_deadlines", "Cares.C07b.covered_step", "Cares.C07b.covered_init", "Cares.C07b.sleepUntil_covers",
    "Cares.C07b.pinned_loses_wake", "Cares.C07b.pinned_not_covered",
    "Cares.C07b.waitMs_pos", "Cares.C07b.waitMs_le", "Cares.C07b.waitMs_ge", "Cares.C07b.wakeOnSend_covers", "Cares.C07b.wakeOnSend_earliest", "Cares.C07b.wakeOnSend_idle"] + \
    vlib.discover_theorems("CaresProps/C07c.lean")
GENERATORS = [gen_evtimeout.gen_evtimeout, gen_evwake.gen_evwake, gen_timeval.gen_timeval]
TRUSTED = [
    "Lean 4.33.0 kernel; axioms allowed: propext, Classical.choice, Quot.sound",
    "hand-written channel model lean/CaresModel/Chan/{Types,Client,Core}.lean (exec: request life cycle of ares_send.c, "
    "ares_process.c, ares_conn.c, ares_close_sockets.c, ares_cancel.c, ares_destroy.c, ares_query.c, ares_search.c against "
    "a virtual socket layer), tied to the code by the h_sim correspondence stream: same scenario lines to the real channel "
    "(virtual sockets via ares_set_socket_functions_ex, virtual clock and scripted RNG via the guarded hooks) and to the "
    "compiled Lean driver, event lines diffed",
    "harness/h_sim.c (virtual socket layer, virtual server, callback reactions), tools/simlib.py (scenario generator), "
    "tools/simprops.py (direct property monitors), tools/runner.py",
    "free choices of the implementation (query ids, 0x20 case, cookie bytes, rotation pick, probe lottery, jitter) are "
    "observed from the trace, checked against the set the policy allows, and fed to the model; theorems quantify over all of them",
    "Lean compiler (driver_sim is the compiled form of the definitions the kernel checked)",
]
ASSUMPTIONS = [
    "virtual sockets/clock/RNG are representative of real ones; IPv4 servers only; no system configuration is read",
    "allocation succeeds (C14 covers failures); single-threaded use (C11 covers threads)",
    "C-level memory safety is observed under ASan/UBSan on the explored scenarios, not proved",
]
RULE = ("scenarios are generated from VERIF_SEED by tools/simlib.py (channel options, request kinds, per-transmission server "
        "behaviours incl. forged/late replies, timer advances, socket failures, callback reactions that send or cancel); "
        "a case is non-trivial when at least one completion callback fired; distinct by hash of its op lines")
EXPLANATION = "Timeout hint theorems over the channel model's by-timeout index + correspondence (ares_timeout after every op)."


STREAMS = [
    threadlib.timing_stream(),
    simlib.sim_stream("timers", {"timeouts": [250, 300, 999, 1000, 1001, 5000], "maxtimeout_prob": 0.4, "tries": [1, 2, 3]},
                      simprops.mon_c07, quick_n=400, thorough_n=10000, quick_ops=50, thorough_ops=200),
]

LEVEL_TEXT = "Proof (single-threaded part): the time-left computation (ares_timeval_remaining, regenerated from the source on every run) is proved never negative and exactly max(0, deadline - now) for normalised times, hence monotone in the deadline, never growing as the clock advances, and exact under an early wake-up (asking again after d microseconds gives max(0, left - d)); Lean 4 theorems that the timeout hint is never later than the earliest pending deadline nor the caller's maximum and that processing at or after it retries or fails every expired query (by-timeout index sorted as an invariant). Tie: ares_timeout() is evaluated after every simulator op against the deadlines of all pending queries. Event-thread part: Lean 4 theorem over the Event transition system that, in every interleaving, the sleeping event thread either has a wake-up pending or a timeout no later than 1 ms after every pending deadline (kernel-checked counterexample for the pinned tree, F11, repaired), where the millisecond value handed to the backend is the expression re-extracted from ares_event_thread() on every run (tools/gen_evtimeout.py) and proved never to be 0, the backends' wait-forever value, and where the guard under which ares_send_query() wakes the thread is likewise re-extracted (tools/gen_evwake.py) and proved to leave no uncovered deadline; tie: on each backend (epoll, poll, select) a query to a silent server on a fresh / idle kept-open / busy connection must time out by itself within its retry budget, a query arriving while the thread sleeps on a later deadline must be retransmitted at its own deadline, and a deadline that expires during a slow callback must still be served. Partial: the wall-clock bound is observed, OS scheduling is not modelled."
LEVEL_NOTE = "Trusted: Lean kernel; model faithfulness (channel model for the hint, Event transition system for the thread); virtual clock for the single-threaded part, real clock with slack for the thread scenarios; harness/h_thread.c."
TECHNIQUE = 'Lean 4 proof over the sorted deadline index + differential correspondence of ares_timeout()'
