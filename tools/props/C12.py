"""C12 - search-list expansion follows resolv.conf semantics (list part + pure fold over outcomes)."""
import vlib
from runner import Stream
from props import _text as T

ID = "C12"
IMPORTS = ["CaresProps.C12", "CaresProps.C12b", "CaresProps.C12c", "CaresProps.C12cRun"]
# only this slice's modules: other builders' files may be mid-edit in the shared lake project
LEAN_TARGETS = ["CaresProps.C12", "CaresProps.C12b", "CaresProps.C12c", "CaresProps.C12cRun", "driver_text", "driver_sim"]
THEOREMS = [
    "Cares.C12.candidates_order",
    "Cares.C12.only_name_when_not_eligible",
    "Cares.C12.only_alias_when_alias_applies",
    "Cares.C12.alias_only_for_single_label",
    "Cares.C12.candidates_nonempty",
    "Cares.C12.sent_names",
    "Cares.C12.stops_at_first_data_or_hard_error",
    "Cares.C12.final_status",
    "Cares.C12.anyNodata_iff",
    "Cares.C12.pinned_final_status_f21",
]
THEOREMS = THEOREMS + vlib.discover_theorems("CaresProps/C12b.lean") + vlib.discover_theorems("CaresProps/C12c.lean")
TRUSTED = [
    "Lean 4.33.0 kernel; axioms allowed: propext, Classical.choice, Quot.sound",
    "hand-written Lean model of ares_search_name_list / ares_cat_domain / ares_lookup_hostaliases and of the fold performed by "
    "search_callback and next_lookup/host_callback (CaresModel/Proto/Search.lean, CaresModel/Text/Hosts.lean)",
    "harness/h_text.c (`namelist`, `aliases`, `walk` ops: real ares_search_name_list on a channel whose ndots/domains/flags are set "
    "by the op; ares_search / ares_getaddrinfo driven over an in-process virtual socket), tools/props/C12.py (generator, python oracle)",
    "Lean compiler (driver_text is the compiled form of the definitions the kernel checked)",
]
ASSUMPTIONS = [
    "dots are counted as the code and glibc count them (every '.' byte, escaped or not)",
    "allocation succeeds; HOSTALIASES is either unset, names a missing file or a readable file",
    "the end-to-end walk through sockets, retries and timeouts is tied by the channel simulator (h_sim); the `walk` stream here "
    "uses one virtual UDP server that answers every transmitted question immediately with the scripted outcome",
]
EXPLANATION = ("Theorems: candidate order (as-is first iff dots >= ndots, else last; exactly [name] for trailing dot / NOSEARCH; exactly "
               "[alias] when a host alias applies), the walk stops at the first candidate with data or a hard error, sent names = "
               "takeUntilStop candidates, final status = ENODATA if any candidate had no data else the last status. Tie: "
               "ares_search_name_list on generated names/ndots/domains/flags/alias files against the model and an independent python "
               "oracle; ares_search and ares_getaddrinfo over a virtual server against searchWalk / gaiWalk for outcome vectors.")


def _name(rng):
    k = rng.random()
    labs = lambda n: [T.rstr(rng, "abcdefghijklmnopqrstuvwxyzABCDEF0123456789-_", 1, rng.choice([1, 2, 5, 12])) for _ in range(n)]
    if k < 0.25:
        s = labs(1)[0]
    elif k < 0.55:
        s = ".".join(labs(rng.randint(2, 5)))
    elif k < 0.65:
        s = ".".join(labs(rng.randint(1, 4))) + "."
    elif k < 0.72:
        s = rng.choice(["a\\.b", "a\\.b.c", "x\\.", "\\.", "a\\\\.b", "a.b\\."])
    elif k < 0.78:
        s = rng.choice(["", ".", "..", "a..b", ".a", "localhost", "foo", "FOO", "srv"])
    elif k < 0.86:
        s = ".".join(labs(rng.randint(1, 3)))
        s = s + "." + "x" * rng.choice([40, 63, 64, 200, 250]) if rng.random() < 0.5 else ("y" * rng.choice([63, 64, 255, 300]))
    else:
        s = bytes(rng.choice([rng.randrange(1, 256), 46, 46, 97]) for _ in range(rng.randint(1, 12))).decode("latin1")
    return s.encode("latin1").replace(b"\x00", b"a")


def _domains(rng):
    n = rng.choice([0, 0, 1, 1, 2, 3, 6])
    out = []
    for _ in range(n):
        out.append(rng.choice([T.domain(rng), ".", "a.com", "A.COM", "b.example.org", "x" * 100]).encode())
    return out


ALIAS_NAMES = [b"foo", b"FOO", b"srv", b"localhost", b"x"]


def _aliasfile(rng):
    lines = []
    for _ in range(rng.randint(0, 5)):
        nm = rng.choice(ALIAS_NAMES + [b"other", b"y" * 70])
        fq = rng.choice([b"www.example.com", b"h.example.org.", b"bad!name", b"z" * 260, b"", b"a.b c.d", b"UP.Case"])
        lines.append(nm + rng.choice([b" ", b"\t", b"   "]) + fq)
        if rng.random() < 0.2:
            lines.append(rng.choice([b"# comment", b"", b"\xff\xfe", b"foo"]))
    return b"\n".join(lines) + b"\n"


def _alias_oracle(name, text):
    for line in text.split(b"\n"):
        line = line.strip(b" \t\r\x0b\x0c")
        if not line:
            continue
        toks = line.split(None)
        host = toks[0]
        if len(host) > 63 or any(c < 32 or c > 126 for c in host) or host.lower() != name.lower():
            continue
        fq = toks[1] if len(toks) > 1 else b""
        if not fq or len(fq) > 255 or any(c < 32 or c > 126 for c in fq):
            continue
        if any(not (chr(c).isalnum() and c < 128 or c in b"-._/*") for c in fq):
            continue
        return fq
    return None


def oracle(name, ndots, flags, domains, alias_src):
    """the property itself, straight from resolv.conf(5)"""
    if not (flags & 0x40) and b"." not in name and alias_src is not None:
        a = _alias_oracle(name, alias_src)
        if a is not None:
            return [a]
    if name.endswith(b".") or (flags & 0x20):
        return [name]
    cands = [name + b"." + (b"" if d == b"." else d) for d in domains]
    return [name] + cands if name.count(b".") >= ndots else cands + [name]


def gen_namelist(rng, tier):
    ncases = 1500 if tier == "quick" else 40000
    cases = []
    for _ in range(ncases):
        ops = []
        r = rng.random()
        if r < 0.5:
            ops.append("env HOSTALIASES none")
        elif r < 0.6:
            ops.append("env HOSTALIASES " + T.hx("/virt/missing"))
        else:
            ops.append("env HOSTALIASES " + T.hx("/virt/al"))
            ops.append("file /virt/al " + T.hx(_aliasfile(rng)))
        for _ in range(rng.randint(1, 5)):
            nm = rng.choice(ALIAS_NAMES) if rng.random() < 0.25 else _name(rng)
            doms = _domains(rng)
            ops.append("namelist %s %d %s %s" % (T.hx(nm), rng.choice([0, 1, 1, 1, 2, 3, 5, 15, rng.randint(0, 15)]),
                                                rng.choice(["0", "0", "0", "0x20", "0x40", "0x60", "0x100"]),
                                                ",".join(T.hx(d) for d in doms) if doms else "-"))
        cases.append(ops)
    return cases


def mon_namelist(case, out):
    alias = None
    files = {}
    env = None
    bad = []
    for line, o in zip(case, out):
        t = line.split()
        if t[0] == "env":
            env = None if t[2] == "none" else T.unhx(t[2]).decode()
        elif t[0] == "file":
            files[t[1]] = None if t[2] == "none" else T.unhx(t[2])
        elif t[0] == "namelist":
            name = T.unhx(t[1])
            doms = [] if t[4] == "-" else [T.unhx(x) for x in t[4].split(",")]
            src = files.get(env) if env else None
            exp = oracle(name, int(t[2]), int(t[3], 0), doms, src)
            got = o
            want = "st=ok names=[" + ",".join(T.hx(x) for x in exp) + "]"
            if got != want:
                bad.append(("candidate-list", "ares_search_name_list(%r, ndots=%s, flags=%s, domains=%r) gave %s, resolv.conf semantics say %s"
                            % (name, t[2], t[3], doms, got[:300], want[:300])))
                break
    return bad


OUTCOMES = ["noerror", "nodata", "nxdomain", "servfail", "refused", "formerr", "notimp"]


def gen_walk(rng, tier):
    """ares_search / ares_getaddrinfo over a virtual server: every outcome vector up to length 4 (quick) / 6 (thorough)
    for a few name shapes, plus random ones"""
    import itertools
    cases = []
    shapes = [("host", 1, ["a.com", "b.com"]), ("host", 1, ["a.com"]), ("h.x", 1, ["a.com", "b.com"]), ("h.x", 2, ["a.com"]),
              ("host", 0, ["a.com"]), ("host.", 1, ["a.com"]), ("host", 1, []), ("a.b.c", 2, ["d.e", "f", "."])]
    maxlen = 3 if tier == "quick" else 5
    for (nm, nd, doms) in shapes:
        n = len(doms) + 1
        for vec in itertools.product(OUTCOMES[:5] if tier == "quick" else OUTCOMES, repeat=min(n, maxlen)):
            vec = list(vec) + [rng.choice(OUTCOMES) for _ in range(n - len(vec))]
            for api in ("search", "gai"):
                cases.append(["walk %s %s %d 0 %s %s" % (api, T.hx(nm), nd, ",".join(T.hx(d) for d in doms) if doms else "-", ",".join(vec))])
    nrand = 300 if tier == "quick" else 8000
    for _ in range(nrand):
        nm = T.rstr(rng, "abc", 1, 3) + "".join("." + T.rstr(rng, "abc", 1, 3) for _ in range(rng.randint(0, 3))) + rng.choice(["", "", "", "."])
        doms = [rng.choice(["a.com", "b.org", "c", ".", "d.e.f"]) for _ in range(rng.randint(0, 5))]
        vec = [rng.choice(OUTCOMES) for _ in range(len(doms) + 1)]
        cases.append(["walk %s %s %d %s %s %s" % (rng.choice(["search", "gai"]), T.hx(nm), rng.choice([0, 1, 1, 2, 3]), rng.choice(["0", "0", "0x20"]),
                                                 ",".join(T.hx(d) for d in doms) if doms else "-", ",".join(vec))])
    # group a few walks per case to amortise process start-up
    grouped = []
    for i in range(0, len(cases), 8):
        grouped.append([l for c in cases[i:i + 8] for l in c])
    return grouped


SOFT = {"nodata", "nxdomain"}
STATUS = {"noerror": "success", "nodata": "enodata", "nxdomain": "enotfound", "servfail": "eservfail", "refused": "erefused",
          "formerr": "eformerr", "notimp": "enotimp"}


def mon_walk(case, out):
    """the property on the implementation: names seen by the virtual server = candidates up to the first data / hard error,
    final status = that outcome, or ENODATA if any candidate had no data, else the last status"""
    bad = []
    for line, o in zip(case, out):
        t = line.split()
        if t[0] != "walk":
            continue
        name = T.unhx(t[2])
        doms = [] if t[5] == "-" else [T.unhx(x) for x in t[5].split(",")]
        cands = oracle(name, int(t[3]), int(t[4], 0), doms, None)
        vec = t[6].split(",")
        sent, final, anynd = [], None, False
        for i, c in enumerate(cands):
            oc = vec[i] if i < len(vec) else "timeout"
            sent.append(c)
            soft = oc in SOFT or (oc in ("servfail", "refused") and c.count(b".") == 0)
            if not soft:
                final = STATUS.get(oc, oc)
                break
            anynd = anynd or oc == "nodata"
            final = "enodata" if anynd else STATUS[oc]
        wire = [x[:-1] if len(x) > 1 and x.endswith(b".") else x for x in sent]
        want = "sent=[" + ",".join(T.hx(x) for x in wire) + "] st=" + final
        if o != want:
            bad.append(("walk", "%s(%r) with outcomes %s: implementation %s, property says %s" % (t[1], name, t[6], o[:300], want[:300])))
            break
    return bad


def gen_walkconf(rng, tier):
    """the same walk, with ndots taken from the system configuration (resolv.conf `options ndots:N`, N = 0 included),
    optionally followed by a configuration change + ares_reinit(): monitor only (the configuration layer is C15/C16's model)"""
    cases = []
    n = 250 if tier == "quick" else 6000
    for _ in range(n):
        nm = T.rstr(rng, "abc", 1, 3) + "".join("." + T.rstr(rng, "abc", 1, 3) for _ in range(rng.randint(0, 3))) + rng.choice(["", "", "", "."])
        doms = [rng.choice(["a.com", "b.org", "c", "d.e.f"]) for _ in range(rng.randint(1, 3))]
        vec = [rng.choice(OUTCOMES[:3]) for _ in range(len(doms) + 1)]

        def conf(nd):
            lines = ["nameserver 10.0.0.1"]
            if nd is not None:
                lines.append(rng.choice(["options ndots:%d", "options ndots:%d timeout:2", "options rotate ndots:%d"]) % nd)
            if rng.random() < 0.3:
                lines.append("# ndots:7")
            return T.hx("\n".join(lines) + "\n")
        n1 = rng.choice([0, 0, 1, 2, 3, None])
        tok = "conf:" + conf(n1)
        if rng.random() < 0.5:
            tok += ":" + conf(rng.choice([0, 1, 2, 3, None, None]))
        cases.append(["walk %s %s %s 0 %s %s" % (rng.choice(["search", "gai"]), T.hx(nm), tok, ",".join(T.hx(d) for d in doms), ",".join(vec))])
    grouped = []
    for i in range(0, len(cases), 8):
        grouped.append([l for c in cases[i:i + 8] for l in c])
    return grouped


def mon_walkconf(case, out):
    import re as _re
    lines = []
    for line in case:
        t = line.split()
        if t[0] == "walk" and t[3].startswith("conf:"):
            last = T.unhx(t[3][5:].split(":")[-1]).decode("latin1")
            nd = 1
            for ln in last.split("\n"):
                if ln.startswith("options"):
                    m = _re.findall(r"ndots:(\d+)", ln)
                    if m:
                        nd = int(m[-1])
            t[3] = str(nd)
        lines.append(" ".join(t))
    return mon_walk(lines, out)


STREAMS = [
    Stream("walkconf", "h_text", None, gen_walkconf, monitor=mon_walkconf, nontrivial=lambda c, o: any(x.startswith("sent=[") for x in o)),
    Stream("namelist", "h_text", "driver_text", gen_namelist, monitor=mon_namelist,
           nontrivial=lambda c, o: any("names=[" in x for x in o)),
    Stream("walk", "h_text", "driver_text", gen_walk, monitor=mon_walk, nontrivial=lambda c, o: any(x.startswith("sent=[") for x in o)),
]

LEVEL_TEXT = ("Proof: Lean 4 theorems for every name (any byte string: dots, trailing dot, escapes, any length), ndots, domain list "
              "(incl. the root domain), flag setting, alias file and every outcome vector: candidates_order, only_name_when_not_eligible, "
              "only_alias_when_alias_applies, sent_names = takeUntilStop candidates, stops_at_first_data_or_hard_error, final_status "
              "(ENODATA if any candidate existed without data, else the last candidate's status) for the ares_search fold and the "
              "ares_getaddrinfo fold. Tie: the real ares_search_name_list on generated inputs against the compiled model and an independent "
              "python oracle of resolv.conf(5); ares_search/ares_getaddrinfo driven in-process over a virtual UDP server for all outcome "
              "vectors up to length 3 (quick) / 5 (thorough) plus random longer ones, question names and final status compared with "
              "searchWalk/gaiWalk and with the property evaluated directly. The walk through retries, timeouts, TCP and re-entrancy is "
              "tied by the channel simulator of C01, and proved at the model level: over channel runs from an invariant state the "
              "channel model's search and getaddrinfo clients are driven by exec exactly through the pure fold that walks these "
              "candidates (C12b/C12c: search_over_channel, gai_over_channel, causal_of_run).")
LEVEL_NOTE = ("Trusted: Lean kernel (axioms propext, Classical.choice, Quot.sound only); the hand-written model as far as the streams "
              "exercise it; harness/h_text.c incl. its virtual socket layer; the runner. F1 (candidates longer than 255 bytes) is outside "
              "the outcome-fold model and belongs to C01.")
TECHNIQUE = "Lean 4 proofs over an executable model of the search list and walk + differential correspondence with ares_search_name_list / ares_search / ares_getaddrinfo"


# end-to-end walk on the whole channel (coordinator's simulator): names actually queried per request, stop rule and final
# status of ares_search / ares_getaddrinfo against the channel model and against a resolv.conf(5) monitor
import simlib as _simlib
STREAMS = STREAMS + [_simlib.walk_stream()]
DRIVER_MODULES = ["Driver.SimMain"]
