"""C18 - legacy reply parsers agree with the record API and respect caller limits."""
from runner import Stream
import gen_legacy as g
import legacy_common as lc

ID = "C18"
IMPORTS = ["CaresProps.C18"]
LEAN_TARGETS = ["CaresProps.C18", "driver_legacy"]
THEOREMS = [
    "Cares.C18.list_same_records",
    "Cares.C18.caa_same_records",
    "Cares.C18.mx_same_records",
    "Cares.C18.naptr_same_records",
    "Cares.C18.srv_same_records",
    "Cares.C18.uri_same_records",
    "Cares.C18.txt_same_records",
    "Cares.C18.ns_same_records",
    "Cares.C18.ptr_same_records",
    "Cares.C18.soa_same_records",
    "Cares.C18.addr_same_records",
    "Cares.C18.addr_hostent_name_canonical",
    "Cares.C18.addrttl_ttl_rule",
    "Cares.C18.capacity_addrinfo2addrttl",
    "Cares.C18.capacity_parse_addr_reply",
    "Cares.C18.addrttl_is_prefix",
    "Cares.C18.malformed_iff_list",
    "Cares.C18.malformed_iff_addr",
    "Cares.C18.malformed_iff_ns",
    "Cares.C18.malformed_iff_ptr",
    "Cares.C18.soa_malformed_iff_partial",
    "Cares.C18.soa_malformed_iff_fails",
    "Cares.C18.ebadname_is_mapped",
]
TRUSTED = [
    "Lean 4.33.0 kernel; axioms allowed: propext, Classical.choice, Quot.sound",
    "hand-written Lean models of src/lib/legacy/ares_parse_*_reply.c, ares_parse_into_addrinfo.c and "
    "ares_addrinfo2hostent.c (CaresModel/Legacy/*.lean, CaresModel/AddrInfo.lean), tied to the code by the "
    "h_legacy trace-mode stream: the compiled model receives the record dump printed by the implementation "
    "(public getters, harness/hcodec_dump.h) and must reproduce every legacy result byte for byte",
    "ares_dns_parse() itself is an input of these models (its result is observed); it is modelled and "
    "verified under C02-C04",
    "harness/h_legacy.c (counting allocator, painted addrttl arrays), tools/gen_legacy.py, "
    "tools/legacy_common.py (python reference monitor), tools/runner.py",
    "Lean compiler (driver_legacy is the compiled form of the definitions the kernel checked)",
]
ASSUMPTIONS = [
    "allocation succeeds (allocation failure inside the legacy parsers belongs to C14)",
    "alen >= 0 (for alen < 0 every function returns EBADRESP before looking at the buffer)",
    "a parsed record has exactly one question and every field of a typed RR is set (ares_dns_parse guarantees both)",
    "release completeness is observed (allocation ledger + LeakSanitizer), not proved",
]
EXPLANATION = ("Each legacy parser is modelled as ares_dns_parse (input) followed by its conversion loop; the theorems "
               "say the loop returns exactly the filtered/mapped answers in order, with each parser's own no-data "
               "rule, the TTL rule and the capacity bound. The real functions are run on generated and mutated "
               "messages and compared with the model and with a python reference computed from the getters' dump.")

FNS_PLAIN = ["caa", "mx", "naptr", "ns", "soa", "srv", "txt", "txtext", "uri"]


def leg_lines(rng, ncap):
    lines = []
    for fn in ("a", "aaaa"):
        k = rng.choice([0, 1, 2, ncap, rng.randint(0, ncap), rng.randint(0, ncap)])
        lines.append("leg %s 1 %d" % (fn, k))
        r = rng.random()
        if r < 0.3:
            lines.append("leg %s 0 %d" % (fn, rng.randint(0, ncap)))
        elif r < 0.45:
            lines.append("leg %s 1 -" % fn)
        elif r < 0.5:
            lines.append("leg %s 0 -" % fn)
    for fn in FNS_PLAIN:
        lines.append("leg " + fn)
    r = rng.random()
    if r < 0.5:
        lines.append("leg ptr %s 2" % bytes(rng.randint(0, 255) for _ in range(4)).hex())
    elif r < 0.8:
        lines.append("leg ptr %s 10" % bytes(rng.randint(0, 255) for _ in range(16)).hex())
    elif r < 0.9:
        lines.append("leg ptr ~ 2")
    else:
        lines.append("leg ptr - 10")
    return lines


def all_caps(fn, ncap):
    return ["leg %s 1 %d" % (fn, k) for k in range(ncap + 1)]


def gen_legacy(rng, tier):
    n = 450 if tier == "quick" else 16000
    ncap = 8 if tier == "quick" else 64
    cases = []
    for i in range(n):
        big = (i % 40 == 7)
        focus = g.LEGACY_TYPES[i % len(g.LEGACY_TYPES)]
        if i % 5 == 0:
            focus = rng.choice([g.T_A, g.T_AAAA])
        msg, meta = g.gen_message(rng, focus=focus, big=big, nmax=12 if tier == "quick" else 24)
        lines = ["msg " + g.hexs(msg)]
        if i % 25 == 3 and focus in (g.T_A, g.T_AAAA):
            # every capacity 0..N on one message
            lines += all_caps("a" if focus == g.T_A else "aaaa", ncap)
        else:
            lines += leg_lines(rng, ncap)
        cases.append(lines)
    return cases


def gen_bad(rng, tier):
    n = 350 if tier == "quick" else 12000
    ncap = 8 if tier == "quick" else 64
    cases = []
    for i in range(n):
        msg, meta = g.gen_message(rng, nmax=6)
        msg = g.mutate(rng, msg)
        if rng.random() < 0.3:
            msg = g.mutate(rng, msg)
        cases.append(["msg " + g.hexs(msg)] + leg_lines(rng, ncap))
    return cases


def monitor(case, out):
    """the property on the implementation's own outputs: every legacy result vs the getters' dump"""
    o = lc.strip_mon(out)
    bad = []
    st, rec = None, None
    for i, l in enumerate(case):
        if i >= len(o):
            break
        t = l.split(" ")
        if t[0] == "msg":
            st, rec = lc.parse_rec(o[i])
        elif t[0] == "leg" and st is not None:
            fn = t[1]
            exp, alts = lc.expected_leg(st, rec, fn, t[2:])
            if exp is None or lc.matches(exp, o[i]):
                continue
            sig = None
            for s, alt in alts.items():
                if alt == o[i]:
                    sig = s
            if sig is None:
                kind = "status" if exp.split(" ")[1] != o[i].split(" ")[1] else "records"
                if st != 0 or (o[i].split(" ")[1][3:].isdigit() and int(o[i].split(" ")[1][3:]) in lc.MAL):
                    kind = "malformed-iff"
                sig = "legacy-%s-%s" % (fn, kind)
            bad.append((sig, "ares_parse_%s_reply: returned %r, the record API reports %r (parse status %d)"
                        % (fn, o[i][:300], exp[:300], st)))
            break
    return bad


def nontrivial(case, out):
    return any(l.startswith("rec st=0") for l in out) or any(" st=0 " in l for l in out)


def opkind(line):
    t = line.split(" ")
    return t[0] if t[0] == "msg" else " ".join(t[:2])


STREAMS = [
    Stream("legacy", "h_legacy", "driver_legacy", gen_legacy, monitor=monitor, nontrivial=nontrivial,
           driver_input=lc.driver_input, compare=lc.compare_skip_mon, opkind=opkind),
    Stream("legacy_bad", "h_legacy", "driver_legacy", gen_bad, monitor=monitor,
           nontrivial=lambda c, o: True, driver_input=lc.driver_input, compare=lc.compare_skip_mon, opkind=opkind),
]

RULE = ("one case = one generated (or mutated) DNS message followed by every legacy parser at several capacities; "
        "non-trivial when the message parses or a legacy call succeeds; distinct by hash of the op lines")

LEVEL_TEXT = ("Proof: Lean 4 theorems over executable models of all eleven ares_parse_*_reply functions "
              "(+ ares_parse_txt_reply_ext), ares_parse_into_addrinfo and ares_addrinfo2hostent/2addrttl: for every "
              "parsed record each function returns exactly the answers of its type (class IN; CAA/TXT also CHAOS) in "
              "answer order with the getters' field values, each with its own no-data rule as coded; addrttl output "
              "is a prefix of length <= the offered capacity with ttl = min(ttl, min CNAME ttl) (signed 32-bit as "
              "in C); a malformed-class status is returned exactly when ares_dns_parse failed (ares_parse_soa_reply: "
              "partial - it also answers EBADRESP for a well-formed reply without SOA, kernel-checked counterexample). "
              "Tie: the real functions run on generated and mutated messages x capacities 0..N; the compiled model, "
              "fed with the getters' dump of ares_dns_parse's result, must reproduce every result; a python reference "
              "and the harness (painted arrays, allocation ledger) monitor the property directly.")
LEVEL_NOTE = ("Trusted: Lean kernel (axioms propext, Classical.choice, Quot.sound only), faithfulness of the "
              "hand-written models as far as the correspondence stream exercises it, harness/h_legacy.c, "
              "hcodec_dump.h, the generators and the runner. ares_dns_parse is an input here (C02-C04). Complete "
              "release by the matching free function and writes beyond the capacity are observed (ledger, painted "
              "memory, ASan/LSan), not proved.")
TECHNIQUE = "Lean 4 proof (conversion loop = filter/map specification) + trace-mode differential correspondence"
