"""C09 - server selection follows the failover policy (channel simulator family)."""
import simlib
import simprops
import vlib

ID = "C09"
IMPORTS = ["CaresProps.C09", "CaresProps.C09Runs"]
DRIVER_MODULES = ["Driver.SimMain"]
LEAN_TARGETS = ["CaresProps.C09", "CaresProps.C09Runs", "driver_sim"]
THEOREMS = vlib.discover_theorems("CaresProps/C09.lean")
TRUSTED = [
    "Lean 4.33.0 kernel; axioms allowed: propext, Classical.choice, Quot.sound",
    "hand-written channel model lean/CaresModel/Chan/{Types,Client,Core}.lean (exec: request life cycle of ares_send.c, "
    "ares_process.c, ares_conn.c, ares_close_sockets.c, ares_cancel.c, ares_destroy.c, ares_query.c, ares_search.c against "
    "a virtual socket layer), tied to the code by the h_sim correspondence stream: same scenario lines to the real channel "
    "(virtual sockets via ares_set_socket_functions_ex, virtual clock and scripted RNG via the guarded hooks) and to the "
    "compiled Lean driver, event lines diffed",
    "harness/h_sim.c (virtual socket layer, virtual server, callback reactions), tools/simlib.py (scenario generator), "
    "tools/simprops.py (direct property monitors), tools/runner.py",
    "free choices of the implementation (query ids, 0x20 case, cookie bytes, rotation pick, probe lottery, jitter) are "
    "observed from the trace, checked against the set the policy allows, and fed to the model; theorems quantify over all of them",
    "Lean compiler (driver_sim is the compiled form of the definitions the kernel checked)",
]
ASSUMPTIONS = [
    "virtual sockets/clock/RNG are representative of real ones; IPv4 servers only; no system configuration is read",
    "allocation succeeds (C14 covers failures); single-threaded use (C11 covers threads)",
    "C-level memory safety is observed under ASan/UBSan on the explored scenarios, not proved",
]
RULE = ("scenarios are generated from VERIF_SEED by tools/simlib.py (channel options, request kinds, per-transmission server "
        "behaviours incl. forged/late replies, timer advances, socket failures, callback reactions that send or cancel); "
        "a case is non-trivial when at least one completion callback fired; distinct by hash of its op lines")
EXPLANATION = 'Sortedness/selection lemmas for the server list and probe eligibility over the channel model + correspondence on failure histories with rotation and probes.'


STREAMS = [
    simlib.sim_stream("failover", {"nservers": [2, 3, 4, 6], "rotate_prob": 0.5, "probe_prob": 0.6, "tries": [1, 2, 3],
                                   "reply_kinds": [("servfail", 15), ("refused", 6), ("noerror", 25), ("garbage", 3), ("nxdomain", 4)],
                                   "sockfail_w": 0.05}, simprops.mon_c09, quick_n=500, thorough_n=12000, quick_ops=50, thorough_ops=200),
]

LEVEL_TEXT = 'Proof: Lean 4 theorems that the server list order is (failures, index), every non-directed attempt goes to a server with the minimal failure count (the first such without rotation, one of the best with), success resets and failure demotes, probes go only to eligible failed servers as non-retrying cache-bypassing copies; over whole runs: every probe query is created for a failed server whose retry time has passed while the triggering request went to a different failure-free server, the completion of a probe touches nothing but the probe flag of its server, a server flagged as being probed always has a probe query in flight, and failures, cancel and early send failures release the flag (the pinned tree left it set for ever after a failed or cancelled probe: F48/F49-C09, repaired). Tie: correspondence on failure histories; the random pick is observed and checked for membership; monitor recomputes failure counts from the server-state callback stream.'
LEVEL_NOTE = "Trusted: Lean kernel; model faithfulness; RNG hook. Probe non-interference with the user's query is proved only in the restricted form stated in CaresProps/C09.lean."
TECHNIQUE = 'Lean 4 proof (sorted-list and policy lemmas) + differential correspondence with observed random picks'
