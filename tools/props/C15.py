"""C15 - configuration text is parsed robustly and line-independently."""
import re
from runner import Stream
from props import _text as T

ID = "C15"
IMPORTS = ["CaresProps.C15"]
# only this slice's modules: other builders' files may be mid-edit in the shared lake project
LEAN_TARGETS = ["CaresProps.C15", "driver_text"]
THEOREMS = [
    "Cares.C15.split_refines_spec",
    "Cares.C15.lines_append",
    "Cares.C15.line_step_total",
    "Cares.C15.junk_is_noop",
    "Cares.C15.line_independence",
    "Cares.C15.line_independence_bytes",
    "Cares.C15.db_line_step_total",
    "Cares.C15.db_junk_is_noop",
    "Cares.C15.db_line_independence",
    "Cares.C15.hosts_line_independence",
    "Cares.C15.aliases_line_independence",
    "Cares.C15.ranges",
    "Cares.C15.ranges_spelled",
    "Cares.C15.server_ranges",
    "Cares.C15.sortlist_ranges",
    "Cares.C15.fixed_buffers_never_overflow",
    "Cares.C15.pinned_search_comma_drops_config",
    "Cares.C15.pinned_sortlist_junk_erases",
    "Cares.C15.pinned_timeout_wraps",
]
TRUSTED = [
    "Lean 4.33.0 kernel; axioms allowed: propext, Classical.choice, Quot.sound",
    "hand-written Lean models of ares_buf_split/ares_strsplit, the resolv.conf/nsswitch/svc.conf line callbacks, "
    "ares_sysconfig_set_options, ares_parse_sortlist, ares_sconfig_append_fromstr (incl. the ares_uri parser as far as "
    "the server list uses it), inet_pton/ntop, the hosts-file and HOSTALIASES parsers (CaresModel/Text/*.lean), tied to "
    "the code by the h_text correspondence streams (same op lines to harness and compiled Lean driver, outputs diffed)",
    "harness/h_text.c (fopen() interposition serving /etc/resolv.conf, /etc/nsswitch.conf, /etc/netsvc.conf, /etc/svc.conf "
    "and /virt/* from memory; interface name/index table installed into channel->sock_funcs), tools/runner.py, "
    "tools/props/C15.py and _text.py (generators, metamorphic and range monitors, differ)",
    "Lean compiler (driver_text is the compiled form of the definitions the kernel checked)",
    "glibc strtoul/atoi semantics on LP64 as modelled in CaresModel/Text/Basic.lean",
]
ASSUMPTIONS = [
    "allocation succeeds (failure schedules belong to C14); the only ENOMEM of the model is the one the code reports itself "
    "for empty strings / unsplittable values",
    "the hosts-file parser is modelled at line granularity (the C cursor loop never crosses a line feed); this is tied by "
    "correspondence, not proved",
    "crash/leak/hang freedom of the C code is observed under ASan/UBSan/LSan on the generated inputs, not proved",
]
EXPLANATION = ("Theorems over all byte strings: the model of ares_buf_split refines plain splitting; the line callbacks return only "
               "success/ENOMEM; lines that are junk by an explicit decidable predicate leave the configuration unchanged; "
               "parse(pre ++ junk ++ post) = parse(pre ++ post); every parsed number is within its documented range; fixed-size "
               "destination checks. Tie: generated configuration text (grammar + junk stream inserted at every position) run "
               "through the real parsers and the compiled model, plus a metamorphic monitor on the implementation itself.")
RULE = ("cases are generated from VERIF_SEED; a case is non-trivial when at least one op produced a configuration with a server, "
        "domain, sortlist entry, lookup order, option or host entry; distinct by hash of its op lines")


def _eol(rng):
    return lambda: rng.choice([b"\n", b"\n", b"\n", b"\r\n", b"\n\n", b" \n", b"\t\n"])


def _join(rng, lines):
    return T.resolv_text(rng, lines, _eol(rng))


def gen_resolv(rng, tier):
    """valid directives from the grammar + a junk block inserted at every position (metamorphic)"""
    ncases = 1500 if tier == "quick" else 30000
    cases = []
    for _ in range(ncases):
        k = rng.choice([0, 1, 2, 3, 4, 5, 6, 8])
        base = [T.directive(rng) for _ in range(k)]
        ops = [T.IFACES_LINE, "resolv " + T.hx(b"\n".join(base) + (b"\n" if base else b""))]
        for pos in range(k + 1):
            junk = [T.junk_line(rng) for _ in range(rng.choice([1, 1, 2, 3]))]
            var = base[:pos] + junk + base[pos:]
            ops.append("resolv " + T.hx(_join(rng, var)))
        cases.append(ops)
    return cases


def mon_resolv(case, out):
    bad = []
    ref = None
    for i, (line, o) in enumerate(zip(case, out)):
        if not line.startswith("resolv "):
            continue
        bad += [("ranges", "%s on input %s" % (m, line[:200])) for m in T.check_ranges(o, "sysconfig")]
        if not o.startswith("st=ok"):
            bad.append(("line-callback-status", "processing returned %s for %s" % (o.split()[0], line[:200])))
        if ref is None:
            ref = o
        elif o != ref:
            bad.append(("junk-changes-config", "config(pre ++ junk ++ post) = %r differs from config(pre ++ post) = %r" % (o, ref)))
            break
    return bad


def gen_mixed(rng, tier):
    """arbitrary mixtures (valid, invalid, junk, duplicates, extremes): correspondence + ranges"""
    ncases = 1200 if tier == "quick" else 25000
    cases = []
    for _ in range(ncases):
        ops = [T.IFACES_LINE if rng.random() < 0.8 else "ifaces -"]
        for _ in range(rng.randint(1, 4)):
            n = rng.choice([0, 1, 2, 4, 8, 16])
            lines = []
            for _ in range(n):
                r = rng.random()
                if r < 0.45:
                    lines.append(T.directive(rng))
                elif r < 0.65:
                    lines.append(T.junk_line(rng))
                elif r < 0.75:
                    lines.append(("nameserver " + rng.choice([" ", ",", ", "]).join(T.server_entry(rng, False) for _ in range(rng.randint(1, 4)))).encode())
                elif r < 0.83:
                    lines.append(("options " + " ".join(T.option_tok(rng, False) for _ in range(rng.randint(1, 5)))).encode())
                elif r < 0.90:
                    lines.append(("sortlist " + rng.choice([" ", ";"]).join(T.sort_entry(rng, rng.random() < 0.7) for _ in range(rng.randint(1, 4)))).encode())
                elif r < 0.95:
                    lines.append((rng.choice(["search ", "domain "]) + rng.choice(T.SEP_SEARCH).join(
                        rng.choice([T.domain(rng), "dup.example", "DUP.example", "", ","]) for _ in range(rng.randint(1, 8)))).encode())
                else:
                    lines.append((rng.choice(["lookup ", "hostresorder "]) + " ".join(T.lookup_word(rng, rng.random() < 0.6) for _ in range(rng.randint(0, 4)))).encode())
            ops.append("resolv " + T.hx(_join(rng, lines)))
        cases.append(ops)
    return cases


def mon_mixed(case, out):
    bad = []
    for line, o in zip(case, out):
        if line.startswith("resolv "):
            bad += [("ranges", "%s on input %s" % (m, line[:200])) for m in T.check_ranges(o, "sysconfig")]
            if not o.startswith("st=ok"):
                bad.append(("line-callback-status", "processing returned %s for %s" % (o.split()[0], line[:200])))
    return bad


def _dbfile(rng, sep, vsep):
    lines = []
    for _ in range(rng.randint(0, 5)):
        r = rng.random()
        if r < 0.5:
            key = rng.choice(["hosts", "hosts", "hosts", "Hosts", "passwd", "networks", "hosts2", ""])
            words = [T.lookup_word(rng, rng.random() < 0.7) for _ in range(rng.randint(0, 4))]
            lines.append((key + rng.choice(["", " ", "\t"]) + sep + rng.choice(["", " ", "  "]) + vsep.join(words)).encode())
        elif r < 0.7:
            lines.append(rng.choice([b"# hosts: dns", b"#", b"hosts", b"hosts files dns", sep.encode(), (sep * 3).encode(),
                                     ("hosts" + sep).encode(), (sep + "files").encode(), b"x" * 40 + sep.encode() + b"dns"]))
        else:
            lines.append(bytes(rng.randrange(0, 256) for _ in range(rng.randint(1, 30))).replace(b"\n", b" "))
    return _join(rng, lines)


def gen_pieces(rng, tier):
    """the single-string entry points: sortlist, server lists, option strings, environment, db files, pton/ntop"""
    ncases = 1500 if tier == "quick" else 30000
    cases = []
    for _ in range(ncases):
        ops = [T.IFACES_LINE]
        for _ in range(rng.randint(3, 10)):
            r = rng.random()
            if r < 0.18:
                s = rng.choice([" ", ";", "  ", " ; "]).join(T.sort_entry(rng, rng.random() < 0.8) for _ in range(rng.randint(0, 5)))
                if rng.random() < 0.1:
                    s = bytes(rng.randrange(1, 256) for _ in range(rng.randint(0, 20))).decode("latin1")
                ops.append("sortlist " + T.hx(s))
            elif r < 0.42:
                s = rng.choice([" ", ",", ", ", ",,"]).join(T.server_entry(rng, rng.random() < 0.75) for _ in range(rng.randint(0, 6)))
                if rng.random() < 0.08:
                    s = bytes(rng.randrange(1, 256) for _ in range(rng.randint(0, 30))).decode("latin1")
                ops.append("servers %s %d" % (T.hx(s), rng.randint(0, 1)))
            elif r < 0.56:
                s = rng.choice([" ", "\t", "  "]).join(T.option_tok(rng, rng.random() < 0.6) for _ in range(rng.randint(0, 6)))
                ops.append("setopts " + T.hx(s))
            elif r < 0.68:
                ld = rng.choice([None, "", ",", T.domain(rng), T.domain(rng) + " " + T.domain(rng), "a\x01b", "\xff", " x.y ", ", ,"])
                ro = rng.choice([None, "", " ", "ndots:3", "timeout:2 attempts:4 rotate", "use-vc", "timeout:0", "bogus", "ndots:99999999999",
                                 " ".join(T.option_tok(rng, rng.random() < 0.5) for _ in range(3)), "\x01", "ndots:1\tndots:2"])
                ops.append("env LOCALDOMAIN " + ("none" if ld is None else T.hx(ld)))
                ops.append("env RES_OPTIONS " + ("none" if ro is None else T.hx(ro)))
                ops.append("envinit")
            elif r < 0.80:
                for path, sep, vsep in (("/etc/nsswitch.conf", ":", " "), ("/etc/netsvc.conf", "=", ","), ("/etc/svc.conf", "=", ",")):
                    if rng.random() < 0.6:
                        ops.append("file %s %s" % (path, T.hx(_dbfile(rng, sep, rng.choice([vsep, vsep + " ", " " + vsep])))))
                    elif rng.random() < 0.5:
                        ops.append("file %s none" % path)
                if rng.random() < 0.5:
                    ops.append("file /etc/resolv.conf " + T.hx(_join(rng, [T.directive(rng) for _ in range(rng.randint(0, 4))])))
                ops.append("sysfiles %d" % rng.randint(0, 1))
            elif r < 0.92:
                ops.append("pton %s %s" % (rng.choice(["0", "0", "4", "6"]), T.hx(T.ipany(rng, rng.random() < 0.5) +
                                                                                 rng.choice(["", "", "", "/0", "/8", "/32", "/64", "/129", "/08"]))))
            else:
                if rng.random() < 0.4:
                    a = "4:" + bytes(rng.choice([0, 1, 10, 127, 255, rng.randint(0, 255)]) for _ in range(4)).hex()
                else:
                    b = [rng.choice([0, 0, 0, 1, 255, rng.randint(0, 255)]) for _ in range(16)]
                    if rng.random() < 0.3:
                        b[:rng.choice([10, 12, 14])] = [0] * rng.choice([10, 12, 14])
                        b = b[:16]
                    a = "6:" + bytes(b).hex()
                ops.append("ntop " + a)
        cases.append(ops)
    return cases


def mon_pieces(case, out):
    bad = []
    for line, o in zip(case, out):
        op = line.split(" ", 1)[0]
        if op in ("sortlist", "servers", "setopts", "envinit", "sysfiles"):
            bad += [("ranges", "%s on input %s" % (m, line[:200])) for m in T.check_ranges(o, "sysconfig")]
        if op == "sysfiles" and not o.startswith("st=ok"):
            bad.append(("line-callback-status", "ares_init_sysconfig_files returned %s" % o.split()[0]))
        if op == "servers":
            # every link-local server must get its interface from its own entry
            entries = [e for e in re.split(rb"[ ,]", T.unhx(line.split()[1])) if e]
            d = T.kvs(o)
            seen = {}
            for s in T.parse_servers(d.get("servers", "[]")):
                if s["iface"] != "-":
                    seen.setdefault((s["iface"], s["scope"]), []).append(s["addr"])
            for (ifc, scope), addrs in seen.items():
                nm = T.unhx(ifc)
                n = sum(1 for e in entries if (b"%" + nm) in e or (b"%" + str(scope).encode()) in e or (b"%25" + nm) in e)
                if len(addrs) > n:
                    bad.append(("iface-from-other-entry", "%d servers %r use interface %r but only %d entries name it: %r"
                                % (len(addrs), addrs, nm, n, entries)))
        if op == "setopts" and line.split()[1] != "-" and not o.startswith("st=ok"):
            bad.append(("line-callback-status", "ares_sysconfig_set_options returned %s" % o.split()[0]))
    return bad


HOSTNAMES = ["localhost", "lh", "a.example", "b.example", "A.Example", "host1", "host2", "x", "router", "ip6-localhost", "w_w", "star.*"]


def _hosts_line(rng):
    ip = rng.choice(["127.0.0.1", "::1", "10.0.0.1", "10.0.0.2", "010.0.0.1", "2001:db8::1", "2001:DB8:0::1", "192.168.1.1", T.ipany(rng)])
    names = [rng.choice(HOSTNAMES) for _ in range(rng.randint(1, 4))]
    if rng.random() < 0.2:
        names.insert(rng.randint(0, len(names)), rng.choice(["bad!name", "x" * 300, "q\x01", ip]))
    s = rng.choice(["", " ", "\t"]) + ip + rng.choice([" ", "\t", "   "]) + rng.choice([" ", "\t"]).join(names)
    if rng.random() < 0.2:
        s += rng.choice([" # comment", " #", "\t#x y"])
    return s.encode("latin1")


def _hosts_junk(rng):
    k = rng.random()
    if k < 0.2:
        return rng.choice([b"# 1.2.3.4 commented", b"#", b"  # x", b"\t#127.0.0.1 lh"])
    if k < 0.4:
        return (rng.choice(["junk", "1.2.3.4.5", "999.0.0.1", "12345::1", "x" * 60, "1.2.3.256", ":::"]) + " " + rng.choice(HOSTNAMES)).encode()
    if k < 0.55:
        return rng.choice([b"10.9.9.9", b"10.9.9.9   ", b"::9\t", b"10.9.9.9 #only comment", b"10.9.9.9 bad!name", b"10.9.9.9 " + b"y" * 300,
                           b"10.9.9.9 \x01\x02", b"10.9.9.9 bad!name also!bad"])
    if k < 0.8:
        b = bytes(rng.choice([rng.randrange(0, 256), rng.randrange(128, 256)]) for _ in range(rng.randint(1, 30))).replace(b"\n", b"\r")
        return b"\x02" + b
    return rng.choice([b"", b"   ", b"\t", b"\r"])


def gen_hosts(rng, tier):
    ncases = 600 if tier == "quick" else 12000
    cases = []
    for _ in range(ncases):
        k = rng.randint(0, 7)
        base = [_hosts_line(rng) for _ in range(k)]
        qs = ["n:" + T.hx(rng.choice(HOSTNAMES + ["LOCALHOST", "nothere"])) for _ in range(4)] + \
             ["a:" + T.hx(rng.choice(["127.0.0.1", "::1", "10.0.0.1", "10.0.0.2", "2001:db8::1", "0:0:0:0:0:0:0:1", "notanip", "192.168.1.1"])) for _ in range(3)]
        ops = ["file /virt/h " + T.hx(_join(rng, base)), "hosts /virt/h " + " ".join(qs)]
        for pos in range(k + 1):
            junk = [_hosts_junk(rng) for _ in range(rng.choice([1, 2, 3]))]
            var = base[:pos] + junk + base[pos:]
            ops.append("file /virt/h " + T.hx(b"\n".join(var) + rng.choice([b"", b"\n"])))
            ops.append("hosts /virt/h " + " ".join(qs))
        if rng.random() < 0.1:
            ops += ["file /virt/h none", "hosts /virt/h " + " ".join(qs)]
        cases.append(ops)
    return cases


def mon_hosts(case, out):
    ref = None
    for line, o in zip(case, out):
        if line == "file /virt/h none":
            break
        if line.startswith("hosts "):
            if ref is None:
                ref = o
            elif o != ref:
                return [("hosts-junk-changes-result", "lookups %r differ from %r after inserting junk lines" % (o[:300], ref[:300]))]
    return []


def gen_aliases(rng, tier):
    ncases = 400 if tier == "quick" else 8000
    cases = []
    names = ["foo", "bar", "Foo", "srv", "a.b", "x"]
    for _ in range(ncases):
        k = rng.randint(0, 5)
        base = []
        for _ in range(k):
            base.append((rng.choice(names) + rng.choice([" ", "\t", "  "]) + rng.choice(["www.example.com", "h.example.org.", "bad!name", "x" * 260, "", "a.b c.d"])).encode())
        qs = [rng.choice(names) for _ in range(3)]
        ops = ["env HOSTALIASES " + T.hx("/virt/al"), "file /virt/al " + T.hx(_join(rng, base))]
        ops += ["aliases %s %s" % (T.hx(q), rng.choice(["0", "0", "0x40"])) for q in qs]
        for pos in range(k + 1):
            junk = [rng.choice([b"zzz www.zzz.org", b"# foo www.evil.org", b"x" * 70 + b" a.b", b"\x02\xff\x00 foo", b"foo", b"foo   ", b"foo bad!name",
                                b"foo " + b"y" * 300, b"   ", bytes(rng.randrange(128, 256) for _ in range(rng.randint(1, 20)))])
                    for _ in range(rng.choice([1, 2]))]
            var = base[:pos] + junk + base[pos:]
            ops.append("file /virt/al " + T.hx(b"\n".join(var) + b"\n"))
            ops += ["aliases %s 0" % T.hx(q) for q in qs]
        cases.append(ops)
    return cases


def mon_aliases(case, out):
    ref = {}
    for line, o in zip(case, out):
        t = line.split()
        if t[0] == "aliases" and t[2] == "0":
            if t[1] not in ref:
                ref[t[1]] = o
            elif ref[t[1]] != o:
                return [("aliases-junk-changes-result", "alias of %s: %r differs from %r after inserting junk lines" % (t[1], o, ref[t[1]]))]
    return []


def _nontrivial(case, out):
    for o in out:
        if re_search(o):
            return True
    return False


def re_search(o):
    return ("servers=[4" in o or "servers=[6" in o or "sort=[4" in o or "sort=[6" in o or "domains=[" in o or "lookups=6" in o
            or "rotate=1" in o or "usevc=1" in o or " tries=" in o and " tries=0" not in o or " ndots=" in o and " ndots=1 " not in o
            or "ok|" in o or "alias=" in o and "alias=none" not in o or o.startswith("4:") or o.startswith("6:"))


STREAMS = [
    Stream("resolv", "h_text", "driver_text", gen_resolv, monitor=mon_resolv, nontrivial=_nontrivial),
    Stream("mixed", "h_text", "driver_text", gen_mixed, monitor=mon_mixed, nontrivial=_nontrivial),
    Stream("pieces", "h_text", "driver_text", gen_pieces, monitor=mon_pieces, nontrivial=_nontrivial),
    Stream("hosts", "h_text", "driver_text", gen_hosts, monitor=mon_hosts, nontrivial=_nontrivial),
    Stream("aliases", "h_text", "driver_text", gen_aliases, monitor=mon_aliases, nontrivial=_nontrivial),
]

LEVEL_TEXT = ("Proof: Lean 4 theorems over ALL byte strings for the model of the configuration-text layer: ares_buf_split refines plain "
              "splitting (induction over characters); every line callback (resolv.conf, nsswitch.conf, netsvc/svc.conf) returns only "
              "success or ENOMEM (line_step_total); a line that is junk by an explicit decidable predicate leaves the configuration "
              "unchanged (junk_is_noop); parse(pre ++ junk ++ post) = parse(pre ++ post) at line and at byte level (line_independence), "
              "likewise for the hosts file and HOSTALIASES; every parsed number lies in its documented range (ranges); the fixed-size "
              "destinations option[32]/value[512]/ipaddr[46]/portstr[6]/hostname[64]/fqdn[256] never receive more than they hold. "
              "Tie: generated files (directives from a grammar + junk stream: binary, over-long tokens, numeric extremes, duplicates, "
              "comment styles, separators only, inserted at every position) are run through the real parsers in-process (ASan/UBSan/LSan) "
              "and through the compiled model, outputs diffed; a metamorphic monitor evaluates config(pre++junk++post) = config(pre++post) "
              "and the ranges on the implementation itself.")
LEVEL_NOTE = ("Trusted: Lean kernel (axioms propext, Classical.choice, Quot.sound only); faithfulness of the hand-written models as far as "
              "the correspondence streams exercise them; harness/h_text.c incl. its fopen() interposition; glibc strtoul/atoi as modelled; "
              "the runner. Crash/leak/hang freedom is observed under sanitizers, not proved. The hosts-file cursor loop is modelled per line.")
TECHNIQUE = "Lean 4 proofs over an executable model of the text parsers + differential correspondence and metamorphic testing of the C code"
