"""C11 - concurrent use of one channel is race-free and deadlock-free (partial)."""
import os

import gen_evtimeout
import gen_evwake
import gen_locktable
import gen_reinit
import gen_waitempty
import threadlib
import vlib

ID = "C11"
IMPORTS = ["CaresProps.C11", "CaresProps.C11b", "CaresProps.C11c"]
LEAN_TARGETS = ["CaresProps.C11", "CaresProps.C11b", "CaresProps.C11c"]
GENERATORS = [gen_locktable.gen_locktable, gen_evtimeout.gen_evtimeout, gen_evwake.gen_evwake, gen_reinit.gen_reinit,
              gen_waitempty.gen_waitempty]
THEOREMS = vlib.discover_theorems("CaresProps/C11.lean") + vlib.discover_theorems("CaresProps/C11b.lean") + \
    vlib.discover_theorems("CaresProps/C11c.lean") + [
    "Cares.C07b.lockInv_step", "Cares.C07b.lockInv_init", "Cares.C07b.covered_step"]
TRUSTED = [
    "Lean 4.33.0 kernel; axioms allowed: propext, Classical.choice, Quot.sound",
    "hand-written transition system lean/CaresModel/Event.lean (event thread loop, ares_event_update, wake pipe, channel lock and "
    "event mutex as separate acquisition steps), tied to the code by (a) the lock-event log of the real library under the stress "
    "harness (guarded mutex hook): the channel lock is never requested while the event mutex is held, (b) the timing scenarios of C07",
    "translator tools/gen_locktable.py (regex over include/ares.h and src/lib): which public entry points take the channel lock, "
    "and which of them dereference the channel textually before their first lock or after their last unlock",
    "translator tools/gen_reinit.py: the reload thread's straight-line program (readConfig/lock/flush/clearPending/unlock), whether "
    "ares_reinit() and ares_destroy() join it while holding the channel lock; conditional or helper-hidden lock calls are an "
    "extraction failure (committed copy kept, reported in the evidence), not a detected regression",
    "translator tools/gen_waitempty.py: one iteration of the timed and of the untimed branch of the wait loop of "
    "ares_queue_wait_empty() as functions on (status, left-by-break), loop condition / lock / return shape facts; the loop runner "
    "of CaresProps/C11c.lean over observation sequences is hand-written; tie of the concrete behaviour: the waitempty scenario of "
    "h_thread (a waiter notified of a momentarily empty queue must not report success)",
    "hand-written transition system lean/CaresModel/Reinit.lean (N caller threads - any N - calling ares_reinit() any number of times in any interleaving, "
    "one thread calling ares_destroy() once; every reload thread ever spawned), parametric in the generated program",
    "harness/h_thread.c (real event thread on epoll/poll/select, loopback UDP server, client threads), tools/threadlib.py",
    "ThreadSanitizer (thorough tier) is supporting evidence for the data-race part, not a proof",
]
ASSUMPTIONS = [
    "data races in the C memory model, compiler reorderings and scheduler fairness are outside the model: observed under TSan only",
    "one representative client thread in the Lean transition system (client threads only interact through the two locks)",
    "the callback/socket-function setters are used before the channel is shared (documented convention)",
]
EXPLANATION = ("Deadlock-freedom of ares_reinit()/ares_destroy() against the reload thread for every interleaving (program regenerated "
               "from the source), at most one live reload thread; lock-order, no-lost-wake-up and wait-empty theorems over the Event transition system for every interleaving; "
               "lock-discipline obligation over a table regenerated from the source; stress runs with lock-event log, "
               "exactly-once callback counters, deadlock watchdog; TSan flavour in the thorough tier.")
RULE = ("stress cases: N client threads issue query/search/cancel/set_servers/reinit/save_options/dup/wait-empty against a live "
        "event thread on each backend; non-trivial when requests were accepted; distinct by op line (seeded)")


def _streams():
    s = [threadlib.stress_stream("asan")]
    if os.environ.get("VERIF_TIER_INTERNAL") == "thorough":
        s.append(threadlib.stress_stream("tsan", "thread-stress-tsan"))
    return s


STREAMS = [threadlib.stress_stream("asan"), threadlib.stress_stream("tsan", "thread-stress-tsan"), threadlib.waitempty_stream()]

LEVEL_TEXT = ("Proof (partial): Lean 4 theorems over a transition system of the event thread and client threads, for every "
              "interleaving: the only lock nesting is channel lock -> event mutex (no lock-order deadlock; the event thread "
              "always releases its mutex without blocking), no wake-up is lost (C07); ares_queue_wait_empty, over its wait loop as "
              "re-extracted from the source on every run and for every sequence of wake-ups (notified, spurious, timed out), reports "
              "success only when its last check under the lock saw an empty queue, and goes round again when woken with requests outstanding; deadlock-freedom of ares_reinit()/ares_destroy() against the configuration-reload thread for every "
              "interleaving of any number of concurrent callers and reinit calls, with at most one live reload thread, over the reload thread's program "
              "as re-extracted from the source on every run (kernel-checked deadlock schedule for the variant that clears "
              "reinit_pending early); plus decide-obligations over a lock-discipline table regenerated from the source (every public "
              "entry point that touches the channel locks it, and touches it only between its first lock and last unlock - the pinned "
              "tree's ares_search did not: F45-C11, a TSan-confirmed race, repaired). Tie: lock-event log, callback counters and deadlock watchdog of "
              "the real library under multi-threaded stress on epoll/poll/select. NOT proved: freedom from data races in the C "
              "memory model - observed with ThreadSanitizer only; that is why the claim is partial.")
LEVEL_NOTE = ("Trusted: Lean kernel; the Event model's faithfulness (lock acquisition order is checked against the real lock log; "
              "timing against C07's scenarios); the regex translator for the lock table; the thread harness. Real scheduler "
              "behaviour is sampled, not enumerated.")
TECHNIQUE = "Lean 4 invariant proof over a lock/wake-up transition system + regenerated lock-discipline table + threaded stress with lock-order log (TSan as supporting evidence)"
