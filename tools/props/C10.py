"""C10 - sockets are opened, announced, used and closed in a consistent protocol (channel simulator family)."""
import simlib
import simprops
import vlib

ID = "C10"
IMPORTS = ["CaresProps.C10"]
DRIVER_MODULES = ["Driver.SimMain"]
LEAN_TARGETS = ["CaresProps.C10", "driver_sim"]
THEOREMS = vlib.discover_theorems("CaresProps/C10.lean")
TRUSTED = [
    "Lean 4.33.0 kernel; axioms allowed: propext, Classical.choice, Quot.sound",
    "hand-written channel model lean/CaresModel/Chan/{Types,Client,Core}.lean (exec: request life cycle of ares_send.c, "
    "ares_process.c, ares_conn.c, ares_close_sockets.c, ares_cancel.c, ares_destroy.c, ares_query.c, ares_search.c against "
    "a virtual socket layer), tied to the code by the h_sim correspondence stream: same scenario lines to the real channel "
    "(virtual sockets via ares_set_socket_functions_ex, virtual clock and scripted RNG via the guarded hooks) and to the "
    "compiled Lean driver, event lines diffed",
    "harness/h_sim.c (virtual socket layer, virtual server, callback reactions), tools/simlib.py (scenario generator), "
    "tools/simprops.py (direct property monitors), tools/runner.py",
    "free choices of the implementation (query ids, 0x20 case, cookie bytes, rotation pick, probe lottery, jitter) are "
    "observed from the trace, checked against the set the policy allows, and fed to the model; theorems quantify over all of them",
    "Lean compiler (driver_sim is the compiled form of the definitions the kernel checked)",
]
ASSUMPTIONS = [
    "virtual sockets/clock/RNG are representative of real ones; IPv4 servers only; no system configuration is read",
    "allocation succeeds (C14 covers failures); single-threaded use (C11 covers threads)",
    "C-level memory safety is observed under ASan/UBSan on the explored scenarios, not proved",
]
RULE = ("scenarios are generated from VERIF_SEED by tools/simlib.py (channel options, request kinds, per-transmission server "
        "behaviours incl. forged/late replies, timer advances, socket failures, callback reactions that send or cancel); "
        "a case is non-trivial when at least one completion callback fired; distinct by hash of its op lines")
EXPLANATION = 'Socket call-log protocol invariant over the channel model + correspondence with failure injection at every socket call.'


STREAMS = [
    simlib.sim_stream("sockfail", {"sockfail_w": 0.14, "udpmax_prob": 0.5, "flagprobs": {0: 0.3, 4: 0.5, 2: 0.1}, "react_prob": 0.3,
                                   "react_cancel_w": 1, "tcp_ops": 0.5, "pendingwrite_prob": 0.2}, simprops.mon_c10,
                      quick_n=500, thorough_n=12000, quick_ops=50, thorough_ops=200),
    # front ends outside the channel model (sorting probes of getaddrinfo, gethostbyname/addr, getnameinfo): protocol monitors only
    simlib.lookups_stream(lambda c, o: simprops.mon_c10(c, o) + simprops.mon_c01(c, o)),
]

LEVEL_TEXT = "Proof: Lean 4 invariant over the model's socket call log: per descriptor open, then connect/send/recv, at most one close and nothing after it; destroy closes everything; UDP per-socket query limit; notifications never repeat and stop exactly once. Tie: the virtual socket layer names every socket by a never-reused logical id (and, in half of the scenarios, hands the library the lowest free descriptor number as POSIX does), logs every call and injects failures at socket/connect/send/recv; monitor checks the same protocol on the implementation's log, plus the legacy polling set. The throw-away sockets with which getaddrinfo's RFC 6724 sorting probes source addresses, and the gethostbyname/gethostbyaddr/getnameinfo front ends, are outside the model: a monitor-only stream checks the same protocol (every socket opened is closed, none survives destroy) on them, with getsockname/connect/socket failures injected."
LEVEL_NOTE = 'Trusted: Lean kernel; model faithfulness; the virtual socket layer (TCP fast open is reported unsupported by the virtual OS; bind/setsockopt options are not configured in the scenarios).'
TECHNIQUE = 'Lean 4 invariant proof over the socket call log + differential correspondence with socket fault injection'
