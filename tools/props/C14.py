"""C14 - any single allocation failure is survived cleanly (partial)."""
import os
import random
import re

import simlib
import simprops
import vlib
from runner import Stream, write_cases, split_cases

ID = "C14"
IMPORTS = ["CaresProps.C14"]
LEAN_TARGETS = ["CaresProps.C14", "driver_dsa"]
THEOREMS = vlib.discover_theorems("CaresProps/C14.lean")
TRUSTED = [
    "Lean 4.33.0 kernel; axioms allowed: propext, Classical.choice, Quot.sound",
    "container models with an allocation oracle (CaresModel/Dsa/*, Buf) - see C19 for their tie to the code",
    "harness/h_sim.c with a failing allocator installed through ares_library_init_mem (ledger of live allocations, the n-th "
    "allocation made inside a library API call fails once), tools/props/C14.py (scenario family, exhaustive index sweep)",
]
ASSUMPTIONS = [
    "whole-scenario survival is enumerated (every allocation index of every scenario of the family), not proved for all scenarios",
    "allocations made by the virtual server while building replies are not failed (the allocator is armed only inside library API calls)",
    "C-level memory safety under failure is observed with ASan/LSan",
]
EXPLANATION = ("alloc_failure_atomic theorems for the container layer (on failure: abstract value unchanged, invariant kept, failure "
               "reported) + for each scenario of a family and each allocation index n: fail only the n-th allocation, check no "
               "crash, balanced ledger, exactly one callback per accepted request, failure reported or correct progress (an address "
               "lookup that still reports success delivers as many addresses per family as the failure-free run), channel "
               "still usable and destroyable.")
RULE = ("cases = scenario x allocation index (all indexes the unfailed run performs; the quick tier samples them evenly); "
        "non-trivial when the injected failure actually fired; distinct by (scenario, index)")

# usability probe after the failure (UDP answers at once; over TCP the request is only on the wire after two rounds)
PROBE = ["allocfail at=-1", "req tok=99 kind=send name=probe.example type=1", "reply tx=-1 kind=noerror an=1 ttl=30",
         "procall", "procall", "reply tx=-1 kind=noerror an=1 ttl=30 mark=9999", "procall"]

HOSTS_FILE = os.path.join(os.path.dirname(os.path.dirname(os.path.dirname(os.path.abspath(__file__)))), "corpus", "C14",
                          "hosts.scenario")

SCENARIOS = {
    "init+send": ["chan servers=10.0.0.1,10.0.0.2 tries=2 timeout=1000 cache=60 armed=1 domains=example.com,test ndots=1",
                  "req tok=1 kind=send name=www.example.com type=1", "reply tx=-1 kind=noerror an=2 ttl=30,60", "proc r=-1"],
    "query-edns": ["chan servers=10.0.0.1 flags=256 tries=2 timeout=1000 armed=1",
                   "req tok=1 kind=query name=www.example.com type=1", "reply tx=-1 kind=noerror an=1 ttl=30 cookie=new:0102030405060708",
                   "proc r=-1", "req tok=2 kind=query name=b.example.com type=1", "reply tx=-1 kind=badcookie cookie=new:1112131415161718",
                   "proc r=-1", "reply tx=-1 kind=nxdomain soa=60:30", "proc r=-1"],
    "search": ["chan servers=10.0.0.1 tries=2 timeout=1000 domains=a.example,b.example ndots=2",
               "req tok=1 kind=search name=host type=1", "reply tx=-1 kind=nxdomain", "proc r=-1", "reply tx=-1 kind=nodata", "proc r=-1",
               "reply tx=-1 kind=noerror an=1 ttl=5", "proc r=-1"],
    "cache-hit": ["chan servers=10.0.0.1 tries=2 timeout=1000 cache=3600",
                  "req tok=1 kind=send name=www.example.com type=1", "reply tx=-1 kind=noerror an=1 ttl=300", "proc r=-1",
                  "req tok=2 kind=send name=WWW.example.com type=1", "adv 2000", "req tok=3 kind=query name=www.example.com type=1"],
    "timeout-retry": ["chan servers=10.0.0.1,10.0.0.2 tries=2 timeout=300 retrychance=1 retrydelay=0",
                      "req tok=1 kind=send name=www.example.com type=1", "adv 300", "tick", "reply tx=-1 kind=servfail", "proc r=-1",
                      "adv 1000", "tick", "req tok=2 kind=send name=x.example type=1", "adv 5000", "tick", "adv 5000", "tick"],
    "tcp": ["chan servers=10.0.0.1 flags=17 tries=2 timeout=1000",
            "req tok=1 kind=send name=www.example.com type=1", "req tok=2 kind=send name=mail.example.org type=16", "procall",
            "reply tx=0 kind=noerror an=1 ttl=30", "reply tx=1 kind=nodata", "chunks tx=0 sizes=3,40,1", "procall", "procall", "procall", "procall"],
    "tc-upgrade": ["chan servers=10.0.0.1 tries=2 timeout=1000",
                   "req tok=1 kind=send name=www.example.com type=1", "reply tx=-1 kind=tc", "proc r=-1", "procall",
                   "reply tx=-1 kind=noerror an=3 ttl=30", "procall"],
    "tc-then-timeouts": ["chan servers=10.0.0.1,10.0.0.2 tries=2 timeout=1000",
                         "req tok=1 kind=send name=www.example.com type=1", "req tok=2 kind=send name=b.example.com type=1 edns=1",
                         "reply tx=0 kind=tc", "reply tx=1 kind=formerr", "procall", "adv 1000", "tick", "procall", "adv 2000", "tick",
                         "adv 5000", "tick"],
    "reentrant-cancel": ["chan servers=10.0.0.1 tries=2 timeout=1000", "reaction idx=0 kind=send name=n1.example type=1",
                         "reaction idx=1 kind=cancel",
                         "req tok=1 kind=send name=a.example type=1 react=R0,R1", "req tok=2 kind=send name=b.example type=1 react=R0",
                         "req tok=3 kind=search name=c.example type=1", "reply tx=0 kind=noerror an=1 ttl=3", "proc r=0", "cancel"],
    "sockfail": ["chan servers=10.0.0.1,10.0.0.2 tries=2 timeout=1000", "req tok=1 kind=send name=a.example type=1",
                 "sockfail call=sendto nth=1 errno=111", "req tok=2 kind=send name=b.example type=1", "sockfail call=recvfrom nth=1 errno=111",
                 "reply tx=-1 kind=noerror", "proc r=-1", "cancel"],
    "setservers+reinit": ["chan servers=10.0.0.1 tries=2 timeout=1000 cache=60", "req tok=1 kind=send name=a.example type=1",
                          "setservers servers=10.0.0.5,10.0.0.6", "req tok=2 kind=send name=b.example type=1",
                          "reply tx=-1 kind=noerror", "proc r=-1", "reinit", "adv 100", "tick"],
    "getaddrinfo": ["chan servers=10.0.0.1 tries=2 timeout=1000 domains=example.com ndots=1",
                    "req tok=1 kind=gai name=www.example.com fam=0", "reply tx=0 kind=noerror an=2 ttl=30", "reply tx=1 kind=noerror an=1 ttl=30",
                    "procall", "req tok=2 kind=gai name=host fam=2", "reply tx=-1 kind=nxdomain", "proc r=-1", "reply tx=-1 kind=noerror an=1 ttl=3", "proc r=-1",
                    "req tok=3 kind=gai name=127.0.0.1 fam=2", "req tok=4 kind=gai name=localhost fam=0"],
    "getaddrinfo-aaaa-first": ["chan servers=10.0.0.1 tries=2 timeout=1000",
                               "req tok=1 kind=gai name=www.example.com fam=0", "reply tx=1 kind=noerror an=2 ttl=30",
                               "reply tx=0 kind=noerror an=3 ttl=30", "procall",
                               "req tok=2 kind=ghbn name=mail.example.org fam=0", "reply tx=-1 kind=noerror an=2 ttl=30",
                               "reply tx=-2 kind=noerror an=1 ttl=30", "procall",
                               "req tok=3 kind=gai name=a.example fam=0 sort=1", "reply tx=-2 kind=noerror an=2 ttl=30",
                               "reply tx=-1 kind=nodata", "procall"],
    # lookups answered from the hosts file (loaded inside the first request: entries merged by host name and by address),
    # a miss that goes on to DNS, a reverse lookup from the file
    "hostsfile": ["chan servers=10.0.0.1 tries=1 timeout=1000 lookups=fb hosts=" + HOSTS_FILE,
                  "req tok=1 kind=gai name=multi.test fam=0", "reply tx=-1 kind=nxdomain", "reply tx=-2 kind=nxdomain", "procall",
                  "req tok=2 kind=ghbn name=alias.test fam=2", "reply tx=-1 kind=nxdomain", "procall",
                  "req tok=3 kind=ghba name=10.1.2.4", "reply tx=-1 kind=nxdomain", "procall",
                  "req tok=4 kind=gai name=nothere.test fam=2", "reply tx=-1 kind=nxdomain", "procall",
                  "req tok=5 kind=ghbn name=other.test fam=2", "reply tx=-1 kind=nxdomain", "procall", "adv 1000", "tick"],
    "hostby": ["chan servers=10.0.0.1 tries=2 timeout=1000",
               "req tok=1 kind=ghbn name=www.example.com fam=2", "reply tx=-1 kind=noerror an=2 ttl=30", "proc r=-1",
               "req tok=2 kind=ghba name=10.1.2.3", "reply tx=-1 kind=noerror an=1 ttl=30", "proc r=-1",
               "req tok=3 kind=gni name=10.9.8.7", "reply tx=-1 kind=noerror an=1 ttl=30", "proc r=-1"],
}


def _count_allocs(hbin, name, ops):
    wd = os.path.join(vlib.BUILD, "work", "C14")
    os.makedirs(wd, exist_ok=True)
    p = os.path.join(wd, "count.%s.in" % name)
    write_cases(p, [ops + ["alloccount"] + PROBE + ["destroy"]])
    rc, out, err, _ = vlib.run_prog([hbin], p, timeout=60)
    for l in out.split("\n"):
        if l.startswith("allocs="):
            return int(l.split()[0].split("=")[1])
    return 0


def _lookup_counts(data):
    """(number of IPv4 addresses, number of IPv6 addresses) of a getaddrinfo / gethostbyname callback event"""
    m = re.search(r"ai=([^,)]*)", data)
    if m:
        parts = [x for x in m.group(1).split(";") if x and not x.startswith(("name=", "cn="))]
    else:
        m = re.search(r"host=([^,)]*)", data)
        if not m:
            return None
        parts = [x for x in m.group(1).split(";") if x][1:]
    return (sum(1 for x in parts if ":" not in x), sum(1 for x in parts if ":" in x))


def _lookup_cbs(out):
    res = {}
    for l in out:
        for e in simlib.events(l):
            m = re.match(r"cb\((-?\d+),(\w+),", e)
            if m and ("ai=" in e or "host=" in e):
                res.setdefault(int(m.group(1)), (m.group(2), _lookup_counts(e)))
    return res


def _baseline_lookups(hbin, name, ops):
    """what the address lookups of the scenario deliver when no allocation fails: tok -> (v4 count, v6 count)"""
    wd = os.path.join(vlib.BUILD, "work", "C14")
    p = os.path.join(wd, "base.%s.in" % name)
    write_cases(p, [ops + ["destroy"]])
    rc, out, err, _ = vlib.run_prog([hbin], p, timeout=60)
    return {tok: c for tok, (st, c) in _lookup_cbs(out.split("\n")).items() if st == "ok" and c is not None}


def gen(rng, tier):
    hbin, _ = vlib.build_harness("h_sim")
    cases = []
    for name, ops in SCENARIOS.items():
        n = _count_allocs(hbin, name, ops)
        base = _baseline_lookups(hbin, name, ops)
        if base:
            ops = ["# baseline " + " ".join("%d=%d/%d" % (tok, c[0], c[1]) for tok, c in sorted(base.items()))] + ops
        idxs = list(range(n))
        if tier == "quick" and n > 250:
            # quick: every index of the short scenarios, 250 evenly spread + 30 random ones of the long ones
            step = n / 250.0
            idxs = sorted(set(int(i * step) for i in range(250)) | set(rng.sample(range(n), 30)))
        for i in idxs:
            cases.append(["# scenario=%s index=%d of %d" % (name, i, n), "allocfail at=%d" % i] + ops + ["alloccount"] + PROBE + ["destroy"])
    return cases


def monitor(case, out):
    bad = simlib.mon_common(case, out) + simprops.mon_c01(case, out)
    # ares_cancel() needs one allocation (a list head) and cannot report failure: known finding F33-C14
    if any("allocfired(cancel)" in l for l in out):
        bad = [(("cancel-noop-on-alloc-failure", m) if s == "cb-missing-after-cancel" else (s, m)) for s, m in bad]
    fired = any(l.startswith("allocs=") and not l.endswith("fired=0") for l in out)
    joined = "\n".join(out)
    # "reports failure (or proceeds correctly)" for address lookups: a lookup that reports success after the failure
    # delivers as many addresses per family as without the failure - unless a server's answer was not accepted at all
    # (the message could not be parsed for lack of memory: the server is marked failed, like for a garbage reply)
    base = {}
    for l in case:
        if l.startswith("# baseline "):
            base = {int(x.split("=")[0]): tuple(int(y) for y in x.split("=")[1].split("/")) for x in l.split()[2:]}
    # gethostbyname(AF_UNSPEC) returns the family of the first node after sorting; when the (best-effort) sorting step is
    # skipped for lack of memory the other family's complete list is a correct answer too: not compared
    unspec_hostent = set()
    for l in case:
        if l.startswith("req ") and " kind=ghbn " in l + " " and " fam=0" in l + " ":
            unspec_hostent.add(int(l.split("tok=")[1].split()[0]))
    if base and fired and ",down," not in joined:
        for tok, (st, cnt) in _lookup_cbs(out).items():
            if st == "ok" and tok in base and tok not in unspec_hostent and cnt is not None and cnt != base[tok]:
                bad.append(("lookup-partial-success-after-alloc-failure",
                            "request %d reported success with %d IPv4 + %d IPv6 addresses after an allocation failed; "
                            "without the failure the same answers give %d + %d (addresses of an accepted answer were "
                            "dropped silently instead of reporting ARES_ENOMEM)" % (tok, cnt[0], cnt[1], base[tok][0], base[tok][1])))
    chan_failed = any(l.startswith("err:") for l in out[:4]) or "no-channel" in joined
    if not chan_failed and any(l.startswith("req tok=99 ") for l in case):
        # the channel must still work after the failure: the probe request completes successfully
        if "cb(99,ok" not in joined:
            bad.append(("channel-unusable-after-alloc-failure", "probe request after the injected failure did not complete: %s"
                        % [l for l in out if "99" in l][:2]))
    return bad


STREAMS = [
    Stream("allocfail", "h_sim", None, gen, monitor=monitor,
           nontrivial=lambda c, o: any(l.startswith("allocs=") and not l.endswith("fired=0") for l in o),
           opkind=lambda l: l.split()[0] if not l.startswith("#") else
           ("scenario:" + l.split()[1].split("=")[1] if l.startswith("# scenario=") else "#")),
]


def gen_random(rng, tier):
    """random channel histories (the generator of the channel-simulator properties: re-entrant callbacks, TCP, cookies,
    socket failures, timers) with one allocation failure at a random index, ended by cancel + destroy (every request called back once, nothing
    leaked, no sanitizer report)"""
    n = 400 if tier == "quick" else 12000
    prof = {"react_prob": 0.5, "cancel_w": 0.05, "sockfail_w": 0.06, "react_cancel_w": 2, "edns_prob": 0.3, "cache_prob": 0.4,
            "tcp_ops": 0.3, "flagprobs": {0: 0.2, 4: 0.3}, "kinds": [("send", 3), ("query", 1), ("search", 2), ("gai", 2)],
            "fdreuse_prob": 0.5}
    cases = []
    for _ in range(n):
        ops = simlib.gen_case(rng, prof, 25 if tier == "quick" else 60)
        while ops and ops[-1] in ("destroy", "cancel"):
            ops.pop()
        k = rng.choice([rng.randint(0, 120), rng.randint(0, 400), rng.randint(0, 1500)])
        # (no usability probe here: its fixed reply script assumes a quiet UDP channel)
        cases.append(["# scenario=random index=%d" % k, "allocfail at=%d" % k] + ops + ["alloccount", "allocfail at=-1", "cancel", "destroy"])
    return cases


STREAMS = STREAMS + [
    Stream("allocfail-random", "h_sim", None, gen_random, monitor=monitor,
           nontrivial=lambda c, o: any(l.startswith("allocs=") and not l.endswith("fired=0") for l in o),
           opkind=lambda l: l.split()[0] if not l.startswith("#") else "scenario:random"),
]


def _container_streams():
    # the tie of the container-atomicity theorems: the containers under a failing allocator (C19's harness and model)
    from props import C19 as _c19
    return [st for st in _c19.STREAMS if st.name in ("allocfail", "allocfail_typed")]


STREAMS = STREAMS + _container_streams()
DRIVER_MODULES = ["Driver.DsaMain"]

LEVEL_TEXT = ("Proof (partial): Lean 4 theorems that an allocation failure inside the container layer (array growth/insert, hash "
              "table insert/expand, buffer ensure-space/append) is atomic - abstract value unchanged, invariant kept, failure "
              "reported - for every state and operation. Whole-library survival is decided by exhaustive fault enumeration, not "
              "proof: for each scenario of a family (init with options, send/query/search to completion, cache hit, retry and "
              "failover probe, TCP and TC upgrade, re-entrant callbacks and cancel, socket failures, server change and reinit, "
              "getaddrinfo/gethostbyname/gethostbyaddr/getnameinfo) every allocation index of the unfailed run is failed in turn; "
              "checked: no crash or sanitizer report, balanced ledger at destroy, exactly one callback per accepted request, "
              "channel still usable.")
LEVEL_NOTE = ("Trusted: Lean kernel; container models (tied by C19's stream); the failing allocator and ledger in harness/h_sim.c. "
              "Partial: only the scenario family is enumerated; allocation sites not reached by it are not covered.")
TECHNIQUE = "Lean 4 atomicity theorems for the container layer + exhaustive single-allocation-failure enumeration per scenario under ASan with ledger"
