"""C05 - only an authentic, matching response can answer a query (channel simulator family)."""
import simlib
import simprops
import vlib

ID = "C05"
IMPORTS = ["CaresProps.C05"]
DRIVER_MODULES = ["Driver.SimMain"]
LEAN_TARGETS = ["CaresProps.C05", "driver_sim"]
THEOREMS = vlib.discover_theorems("CaresProps/C05.lean")
TRUSTED = [
    "Lean 4.33.0 kernel; axioms allowed: propext, Classical.choice, Quot.sound",
    "hand-written channel model lean/CaresModel/Chan/{Types,Client,Core}.lean (exec: request life cycle of ares_send.c, "
    "ares_process.c, ares_conn.c, ares_close_sockets.c, ares_cancel.c, ares_destroy.c, ares_query.c, ares_search.c against "
    "a virtual socket layer), tied to the code by the h_sim correspondence stream: same scenario lines to the real channel "
    "(virtual sockets via ares_set_socket_functions_ex, virtual clock and scripted RNG via the guarded hooks) and to the "
    "compiled Lean driver, event lines diffed",
    "harness/h_sim.c (virtual socket layer, virtual server, callback reactions), tools/simlib.py (scenario generator), "
    "tools/simprops.py (direct property monitors), tools/runner.py",
    "free choices of the implementation (query ids, 0x20 case, cookie bytes, rotation pick, probe lottery, jitter) are "
    "observed from the trace, checked against the set the policy allows, and fed to the model; theorems quantify over all of them",
    "Lean compiler (driver_sim is the compiled form of the definitions the kernel checked)",
]
ASSUMPTIONS = [
    "virtual sockets/clock/RNG are representative of real ones; IPv4 servers only; no system configuration is read",
    "allocation succeeds (C14 covers failures); single-threaded use (C11 covers threads)",
    "C-level memory safety is observed under ASan/UBSan on the explored scenarios, not proved",
    "'0x20 randomisation is on' is read per transmission: ares_send.c randomises the case of UDP transmissions only, and "
    "same_questions() compares case-sensitively exactly for those; a query (re)sent over TCP carries the name as given and "
    "is matched case-insensitively (theorem case_sensitive_under_0x20 has the hypothesis usingTcp = false)",
]
RULE = ("scenarios are generated from VERIF_SEED by tools/simlib.py (channel options, request kinds, per-transmission server "
        "behaviours incl. forged/late replies, timer advances, socket failures, callback reactions that send or cancel); "
        "a case is non-trivial when at least one completion callback fired; distinct by hash of its op lines")
EXPLANATION = "Theorems about process_answer's acceptance path in the channel model + correspondence on adversarial scenarios (forged ids, names, case, types, source addresses, cookies; late replies)."


STREAMS = [
    simlib.sim_stream("forged", {"forge_prob": 0.5, "flagprobs": {10: 0.5, 4: 0.3, 7: 0.1}, "edns_prob": 0.4, "cache_prob": 0.4},
                      simprops.mon_c05, quick_n=500, thorough_n=12000, quick_ops=40, thorough_ops=120),
    simlib.cookie_rotate_stream(simprops.mon_c05),
]

LEVEL_TEXT = "Proof: Lean 4 theorems that every response accepted by the model's process_answer matched the query id, question (case-sensitively under 0x20 over UDP), passed cookie validation and came from the server's address, and that only accepted responses reach callbacks or the cache; including 'on the connection the query is currently assigned to' (the pinned tree violated it - F9, repaired); the cookie checks are the RFC 7873 state machine of C17 (Cares.Proto.Cookie), used by the channel model as is. Tie: adversarial correspondence stream; monitor: answer markers identify which packet supplied a callback's data."
LEVEL_NOTE = "Trusted: Lean kernel; model faithfulness as exercised by the stream; virtual sockets and RNG. Wire-level parsing of the response is C02/C04's business (messages are abstract here)."
TECHNIQUE = 'Lean 4 proof of acceptance conditions over the channel model + adversarial differential correspondence'
