"""Common machinery for the c-ares verification checks (python3 stdlib only).

build_lib()      compile /repo/src/lib/**/*.c from the CURRENT working tree (hooks on, ASan+UBSan)
build_harness()  link a harness from /verif/harness against those objects
build_lean()     regenerate Generated/*.lean, lake build, return log
audit()          grep for forbidden constructs + #print axioms on the property theorems
run_pair()       run harness and Lean driver on the same op file, return both outputs
"""
import fcntl
import hashlib
import json
import os
import re
import subprocess
import sys
import time
from concurrent.futures import ThreadPoolExecutor

VERIF = os.path.dirname(os.path.dirname(os.path.abspath(__file__)))
REPO = os.environ.get("VERIF_REPO", "/repo")
BUILD = os.path.join(VERIF, ".build")
if os.path.realpath(REPO) != "/repo":
    # scratch worktrees get their own object directory (the lake lock stays shared)
    BUILD = os.path.join(VERIF, ".build", "alt-" + hashlib.sha256(os.path.realpath(REPO).encode()).hexdigest()[:10])
LAKE_LOCK_DIR = os.path.join(VERIF, ".build")
LEAN = os.path.join(VERIF, "lean")
GUARD = "CARES_VERIF_HOOKS"
JOBS = int(os.environ.get("VERIF_JOBS", "16"))

FLAVOURS = {
    "asan": ["-O1", "-g", "-fsanitize=address,undefined", "-fno-sanitize-recover=all",
             "-fno-omit-frame-pointer"],
    "tsan": ["-O1", "-g", "-fsanitize=thread", "-fno-omit-frame-pointer"],
    "plain": ["-O1", "-g"],
}
DEFS = ["-DCARES_BUILDING_LIBRARY", "-DCARES_STATICLIB", "-DHAVE_CONFIG_H=1", "-D_GNU_SOURCE",
        "-D_POSIX_C_SOURCE=200809L", "-D_XOPEN_SOURCE=700", "-D" + GUARD]


def log(*a):
    print(*a, file=sys.stderr, flush=True)


def sh(cmd, **kw):
    return subprocess.run(cmd, stdout=subprocess.PIPE, stderr=subprocess.PIPE, text=True, **kw)


class Lock:
    def __init__(self, name):
        os.makedirs(BUILD, exist_ok=True)
        self.path = os.path.join(LAKE_LOCK_DIR if name == "lake" else BUILD, name + ".lock")

    def __enter__(self):
        self.f = open(self.path, "w")
        fcntl.flock(self.f, fcntl.LOCK_EX)
        return self

    def __exit__(self, *a):
        fcntl.flock(self.f, fcntl.LOCK_UN)
        self.f.close()


def cfg_dir():
    """Directory holding ares_config.h / ares_build.h for this platform."""
    d = os.path.join(BUILD, "cfg")
    os.makedirs(d, exist_ok=True)
    for h in ("ares_config.h", "ares_build.h"):
        dst = os.path.join(d, h)
        src = os.path.join(REPO, "_build", h)
        if not os.path.exists(src):
            src = os.path.join(VERIF, "cfg", h)
        data = open(src).read()
        if not os.path.exists(dst) or open(dst).read() != data:
            open(dst, "w").write(data)
    return d


def includes():
    return ["-I" + cfg_dir(), "-I" + REPO + "/include", "-I" + REPO + "/src/lib",
            "-I" + REPO + "/src/lib/include"]


def lib_sources():
    out = []
    for root, _, files in os.walk(os.path.join(REPO, "src", "lib")):
        for f in files:
            if f.endswith(".c"):
                out.append(os.path.join(root, f))
    return sorted(out)


def tree_hash():
    h = hashlib.sha256()
    for base in ("src/lib", "include"):
        for root, dirs, files in os.walk(os.path.join(REPO, base)):
            dirs.sort()
            for f in sorted(files):
                if f.endswith((".c", ".h")):
                    p = os.path.join(root, f)
                    h.update(p.encode())
                    h.update(open(p, "rb").read())
    return h.hexdigest()


def source_hashes(files):
    return {f: hashlib.sha256(open(os.path.join(REPO, f), "rb").read()).hexdigest()[:16]
            for f in files if os.path.exists(os.path.join(REPO, f))}


def build_lib(flavour="asan"):
    """Compile the library from /repo's current working tree. Returns (archive path, info)."""
    t0 = time.time()
    odir = os.path.join(BUILD, "obj-" + flavour)
    os.makedirs(odir, exist_ok=True)
    flags = FLAVOURS[flavour] + DEFS + ["-std=gnu90", "-fPIC", "-w"] + includes()
    with Lock("lib-" + flavour):
        key = hashlib.sha256((tree_hash() + " ".join(flags)).encode()).hexdigest()
        keyf = os.path.join(odir, "KEY")
        lib = os.path.join(odir, "libcares_verif.a")
        if os.path.exists(keyf) and open(keyf).read() == key and os.path.exists(lib):
            return lib, {"rebuilt": False, "tree": key[:16], "wall_s": round(time.time() - t0, 2)}
        srcs = lib_sources()
        objs = []

        def cc(src):
            rel = os.path.relpath(src, os.path.join(REPO, "src", "lib")).replace("/", "_")
            obj = os.path.join(odir, rel[:-2] + ".o")
            r = sh(["gcc"] + flags + ["-c", src, "-o", obj])
            return src, obj, r

        fails = []
        with ThreadPoolExecutor(JOBS) as ex:
            for src, obj, r in ex.map(cc, srcs):
                if r.returncode != 0:
                    fails.append((src, r.stderr[-2000:]))
                objs.append(obj)
        if fails:
            raise BuildError("library does not compile: " + fails[0][0] + "\n" + fails[0][1])
        if os.path.exists(lib):
            os.unlink(lib)
        r = sh(["ar", "rcs", lib] + objs)
        if r.returncode != 0:
            raise BuildError("ar failed: " + r.stderr)
        open(keyf, "w").write(key)
        return lib, {"rebuilt": True, "tree": key[:16], "files": len(srcs),
                     "wall_s": round(time.time() - t0, 2)}


class BuildError(Exception):
    pass


def build_harness(name, flavour="asan", extra=()):
    """Build /verif/harness/<name>.c(pp) against the freshly built objects."""
    lib, info = build_lib(flavour)
    src = None
    for ext in (".c", ".cpp"):
        p = os.path.join(VERIF, "harness", name + ext)
        if os.path.exists(p):
            src = p
    if src is None:
        raise BuildError("no harness source " + name)
    out = os.path.join(BUILD, "bin-" + flavour, name)
    os.makedirs(os.path.dirname(out), exist_ok=True)
    with Lock("h-" + name + "-" + flavour):
        deps = [src, lib] + [os.path.join(VERIF, "harness", f)
                             for f in sorted(os.listdir(os.path.join(VERIF, "harness")))
                             if f.endswith(".h")]
        h = hashlib.sha256()
        for d in deps:
            h.update(open(d, "rb").read())
        key = h.hexdigest()
        keyf = out + ".key"
        if os.path.exists(out) and os.path.exists(keyf) and open(keyf).read() == key:
            return out, info
        cc = "g++" if src.endswith(".cpp") else "gcc"
        std = ["-std=gnu++17"] if cc == "g++" else ["-std=gnu11"]
        cmd = [cc] + std + FLAVOURS[flavour] + DEFS + ["-w"] + includes() + \
              ["-I" + os.path.join(VERIF, "harness"), src, lib, "-o", out, "-lpthread"] + list(extra)
        r = sh(cmd)
        if r.returncode != 0:
            raise BuildError("harness %s does not build (API used by the harness changed?):\n%s"
                             % (name, r.stderr[-3000:]))
        open(keyf, "w").write(key)
    return out, info


# ----------------------------------------------------------------------------------------------
# Lean side

def lean_env():
    e = dict(os.environ)
    return e


def build_lean(targets=None):
    """lake build (after the generators have rewritten Generated/*). Returns (ok, log, wall)."""
    t0 = time.time()
    with Lock("lake"):
        cmd = ["lake", "build"] + (targets or [])
        r = sh(cmd, cwd=LEAN, env=lean_env())
    return r.returncode == 0, r.stdout + r.stderr, round(time.time() - t0, 2)


FORBIDDEN = re.compile(r"\b(sorry|admit|native_decide|bv_decide|implemented_by|unsafe)\b|^axiom\s|maxHeartbeats\s+0")
ALLOWED_AXIOMS = {"propext", "Classical.choice", "Quot.sound"}


def strip_comments(text):
    # remove /- ... -/ (nested) and -- comments
    out = []
    i, depth = 0, 0
    n = len(text)
    while i < n:
        if text.startswith("/-", i):
            depth += 1
            i += 2
        elif depth and text.startswith("-/", i):
            depth -= 1
            i += 2
        elif depth:
            if text[i] == "\n":
                out.append("\n")
            i += 1
        elif text.startswith("--", i):
            while i < n and text[i] != "\n":
                i += 1
        else:
            out.append(text[i])
            i += 1
    return "".join(out)


def import_closure(mods):
    """project-local modules reachable from `mods` through import lines"""
    seen, todo = [], list(mods)
    while todo:
        m = todo.pop()
        if m in seen:
            continue
        p = os.path.join(LEAN, *m.split(".")) + ".lean"
        if not os.path.exists(p):
            continue
        seen.append(m)
        for line in open(p):
            line = line.strip()
            if line.startswith("import "):
                for im in line[7:].split():
                    if im.split(".")[0] in ("CaresModel", "CaresLemmas", "CaresProps", "Driver"):
                        todo.append(im)
            elif line and not line.startswith(("--", "/-", "set_option", "open ", "-/")) and not line.startswith("import"):
                if not line.startswith("/-") and "import" not in line:
                    pass
    return sorted(seen)


def grep_forbidden(mods=None):
    """forbidden constructs in the modules the property's theorems (and driver) depend on"""
    files = []
    if mods is None:
        for d in ("CaresModel", "CaresLemmas", "CaresProps"):
            for root, _, fs in os.walk(os.path.join(LEAN, d)):
                files += [os.path.join(root, f) for f in fs if f.endswith(".lean")]
    else:
        files = [os.path.join(LEAN, *m.split(".")) + ".lean" for m in import_closure(mods)]
    hits = []
    for p in sorted(files):
        txt = strip_comments(open(p).read())
        # string literals may legitimately contain words; drop them
        txt = re.sub(r'"(\\.|[^"\\])*"', '""', txt)
        for ln, line in enumerate(txt.split("\n"), 1):
            if FORBIDDEN.search(line):
                hits.append("%s:%d: %s" % (os.path.relpath(p, LEAN), ln, line.strip()))
    return hits


def audit(prop, theorems, imports):
    """#print axioms on every property theorem. Returns dict thm -> list of axioms (or None if the
    theorem does not exist / does not check)."""
    adir = os.path.join(BUILD, "audit")
    os.makedirs(adir, exist_ok=True)
    f = os.path.join(adir, prop + ".lean")
    with open(f, "w") as fh:
        for im in imports:
            fh.write("import %s\n" % im)
        for t in theorems:
            fh.write("#print axioms %s\n" % t)
    r = sh(["lake", "env", "lean", f], cwd=LEAN, env=lean_env())
    txt = r.stdout + r.stderr
    res = {t: None for t in theorems}
    # outputs: "'name' depends on axioms: [a, b]" or "'name' does not depend on any axioms"
    for m in re.finditer(r"'(\S+)' depends on axioms: \[([^\]]*)\]", txt, re.S):
        res[m.group(1)] = [a.strip() for a in m.group(2).replace("\n", " ").split(",") if a.strip()]
    for m in re.finditer(r"'(\S+)' does not depend on any axioms", txt):
        res[m.group(1)] = []
    return res, txt


def driver_path():
    return os.path.join(LEAN, ".lake", "build", "bin", "driver")


def run_prog(cmd, inp_path, timeout=600, env=None):
    t0 = time.time()
    e = dict(os.environ)
    e["ASAN_OPTIONS"] = "detect_leaks=1:abort_on_error=0:exitcode=99:allocator_may_return_null=1"
    e["UBSAN_OPTIONS"] = "print_stacktrace=1:halt_on_error=1:exitcode=98"
    if env:
        e.update(env)
    with open(inp_path) as fin:
        try:
            r = subprocess.run(cmd, stdin=fin, stdout=subprocess.PIPE, stderr=subprocess.PIPE,
                               timeout=timeout, env=e)
            rc, out, err = r.returncode, r.stdout, r.stderr
        except subprocess.TimeoutExpired as ex:
            rc, out, err = -999, ex.stdout or b"", (ex.stderr or b"") + b"\nTIMEOUT"
    return rc, out.decode("utf-8", "replace"), err.decode("utf-8", "replace"), time.time() - t0


def discover_theorems(relpath):
    """Fully qualified names of the `theorem`s declared in a CaresProps file (namespace-aware)."""
    p = os.path.join(LEAN, relpath)
    if not os.path.exists(p):
        return []
    txt = strip_comments(open(p).read())
    ns, out = [], []
    for line in txt.split("\n"):
        m = re.match(r"\s*namespace\s+([\w.]+)", line)
        if m:
            ns.append(m.group(1))
            continue
        m = re.match(r"\s*end\s+([\w.]+)\s*$", line)
        if m and ns and ns[-1].split(".")[-1] == m.group(1).split(".")[-1]:
            ns.pop()
            continue
        m = re.match(r"\s*(?:private\s+|protected\s+)?theorem\s+([\w.']+)", line)
        if m and not line.strip().startswith("private"):
            out.append(".".join(ns + [m.group(1)]))
    return out
