"""setup_cmd: build everything that can be built ahead of time (offline)."""
import os
import sys
import vlib


def main():
    lib, info = vlib.build_lib("asan")
    print("library:", info)
    ok, log, s = vlib.build_lean(None)
    print("lake build: ok=%s %.1fs" % (ok, s))
    if not ok:
        print(log[-3000:])
        return 1
    hd = os.path.join(vlib.VERIF, "harness")
    for f in sorted(os.listdir(hd)):
        if f.startswith("h_") and f.endswith((".c", ".cpp")):
            name = f.rsplit(".", 1)[0]
            try:
                vlib.build_harness(name)
                print("harness", name, "ok")
            except vlib.BuildError as e:
                print("harness", name, "FAILED", e)
                return 1
    return 0
