"""setup_cmd: build, offline, everything the registered checks need (and only that):
library objects from /repo with hooks on, regenerated Lean files, the Lean targets and drivers of every
registered property, and their harnesses."""
import importlib
import os
import sys

import vlib


def main():
    lib, info = vlib.build_lib("asan")
    print("library:", info)
    ready = open(os.path.join(vlib.VERIF, "tools", "props", "READY")).read().split()
    targets, harnesses = [], []
    for pid in ready:
        m = importlib.import_module("props." + pid)
        for g in getattr(m, "GENERATORS", []):
            try:
                print("generated:", pid, g())
            except Exception as e:  # an extraction failure is reported by the check itself
                print("generator failed:", pid, e)
        for t in m.LEAN_TARGETS:
            if t not in targets:
                targets.append(t)
        for st in m.STREAMS:
            if (st.harness, st.flavour) not in harnesses:
                harnesses.append((st.harness, st.flavour))
    ok, log, s = vlib.build_lean(targets)
    print("lake build %d targets: ok=%s %.1fs" % (len(targets), ok, s))
    if not ok:
        print(log[-4000:])
        return 1
    for name, flavour in harnesses:
        try:
            vlib.build_harness(name, flavour)
            print("harness", name, flavour, "ok")
        except vlib.BuildError as e:
            print("harness", name, "FAILED", e)
            return 1
    return 0
