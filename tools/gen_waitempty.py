"""Translator for the wait loop of ares_queue_wait_empty() (C11): the function body in src/lib/util/ares_threads.c is
parsed - lock, `while (<queue length>) { if (timeout_ms < 0) { <untimed wait> } else { <timed wait> } }`, unlock,
`return status` - and one iteration of each branch is re-emitted as a Lean function over (status, break-flag):

    Cares.Generated.WaitEmpty.timedIter   (status : Status) (tmsZero : Bool) (waitRes : Status) : Status × Bool
    Cares.Generated.WaitEmpty.untimedIter (status : Status) (waitRes : Status) : Status × Bool

(`tmsZero`: the remaining time computed for this iteration is 0; `waitRes`: what the condition-variable wait returned:
.ok = woken (notified or spuriously), .timeout = timed out; result: the new status and whether the loop was left by
`break`), together with the booleans `condIsQueueLen` (the loop condition is the length of channel->all_queries),
`lockedAroundLoop` (channel lock taken before the loop and released after it), `returnsStatus` and `initStatus`.
lean/CaresModel/Generated/WaitEmpty.lean is rewritten on every run; CaresProps/C11c.lean runs the loop over every
sequence of observations and proves that ARES_SUCCESS is only returned when the last evaluation of the loop condition,
under the lock, saw an empty queue - for whatever the two functions say.

Statement language of a branch: declarations, calls whose result is unused, assignments to other variables than
`status` (ignored: they do not decide), `status = ARES_X;`, `status = ares_thread_cond_timedwait(...)` /
`ares_thread_cond_wait(...)` (as statement or assignment), `if (c) {..} [else {..}]` with c over `tms == 0`,
`status ==/!= ARES_X`, and `break;`.  Anything else is an extraction failure (committed copy kept, reported)."""
import hashlib
import os
import re

import vlib
from gen_locktable import find_body

OUT = os.path.join(vlib.LEAN, "CaresModel", "Generated", "WaitEmpty.lean")
STATUS = {"ARES_SUCCESS": ".ok", "ARES_ETIMEOUT": ".timeout", "ARES_ENOTIMP": ".notimp", "ARES_EFORMERR": ".formerr",
          "ARES_ENOMEM": ".nomem"}
TOKEN = re.compile(r"\s*(&&|\|\||==|!=|<=|>=|->|\+=|-=|[A-Za-z_]\w*|\d+|[-+*/%<>=!&(){}\[\];,?:.])")


class ParseError(Exception):
    pass


def tokenize(s):
    toks, pos = [], 0
    s = s.strip()
    while pos < len(s):
        m = TOKEN.match(s, pos)
        if not m:
            raise ParseError("unsupported token at %r" % s[pos:pos + 30])
        toks.append(m.group(1))
        pos = m.end()
    return toks


class P:
    def __init__(self, toks):
        self.t, self.i = toks, 0

    def peek(self, k=0):
        return self.t[self.i + k] if self.i + k < len(self.t) else None

    def take(self, want=None):
        x = self.peek()
        if x is None or (want is not None and x != want):
            raise ParseError("expected %r, found %r (token %d)" % (want, x, self.i))
        self.i += 1
        return x

    def skip_parens(self):
        """consume a balanced ( ... ) group, return its text"""
        self.take("(")
        depth, txt = 1, ""
        while depth:
            x = self.take()
            if x == "(":
                depth += 1
            elif x == ")":
                depth -= 1
                if not depth:
                    break
            txt += x + " "
        return txt.strip()

    def until_semicolon(self):
        txt = []
        depth = 0
        while True:
            x = self.take()
            if x in "([{":
                depth += 1
            elif x in ")]}":
                depth -= 1
            if x == ";" and depth == 0:
                return txt
            txt.append(x)

    def cond(self):
        """condition of an if inside a branch"""
        txt = self.skip_parens().replace(" ", "")
        m = re.fullmatch(r"tms==0", txt)
        if m:
            return "tmsZero"
        m = re.fullmatch(r"tms!=0|tms>0|tms", txt)
        if m:
            return "!tmsZero"
        m = re.fullmatch(r"status(==|!=)(ARES_\w+)", txt) or re.fullmatch(r"(ARES_\w+)(==|!=)status", txt)
        if m:
            a, b = m.group(1), m.group(2)
            op, name = (a, b) if a in ("==", "!=") else (b, a)
            if name not in STATUS:
                raise ParseError("unknown status %s" % name)
            return "(s.1 %s %s)" % (op, STATUS[name])
        raise ParseError("unknown condition (%s)" % txt)

    def block(self):
        """statements up to the closing brace -> Lean expression transforming s : Status × Bool (status, left by break)"""
        steps = []
        while self.peek() != "}":
            x = self.peek()
            if x is None:
                raise ParseError("unterminated block")
            if x == "if":
                self.take()
                c = self.cond()
                self.take("{")
                a = self.block()
                self.take("}")
                b = "s"
                if self.peek() == "else":
                    self.take()
                    if self.peek() == "if":
                        raise ParseError("else-if inside a wait branch is not translated")
                    self.take("{")
                    b = self.block()
                    self.take("}")
                steps.append("(if %s then %s else %s)" % (c, a, b))
            elif x == "break":
                self.take()
                self.take(";")
                steps.append("(s.1, true)")
            elif x in ("while", "for", "do", "goto", "return", "continue", "switch"):
                raise ParseError("%s inside the wait loop is not translated" % x)
            else:
                st = self.until_semicolon()
                txt = "".join(st)
                m = re.match(r"status=(.*)$", txt)
                if m:
                    rhs = m.group(1)
                    if rhs in STATUS:
                        steps.append("(%s, s.2)" % STATUS[rhs])
                    elif re.match(r"ares_thread_cond_(timed)?wait\(channel->cond_empty,channel->lock", rhs):
                        steps.append("(waitRes, s.2)")
                    else:
                        raise ParseError("unknown value assigned to status: %s" % rhs[:60])
                elif re.match(r"ares_thread_cond_(timed)?wait\(channel->cond_empty,channel->lock", txt):
                    steps.append("s")      # result unused: the wait itself does not change status
                elif "status" in re.findall(r"[A-Za-z_]\w*", txt.split("=")[0]) and "=" in txt:
                    raise ParseError("unsupported update of status: %s" % txt[:60])
                else:
                    steps.append(None)     # declaration / call / assignment to another variable
        # sequence: each step runs only while the loop has not been left by break
        expr = "s"
        out = []
        for st in steps:
            if st is None or st == "s":
                continue
            out.append(st)
        for st in out:
            expr = "(let s := %s; if s.2 then s else %s)" % (expr, st)
        return expr


def gen_waitempty(path=None):
    path = path or os.path.join(vlib.REPO, "src", "lib", "util", "ares_threads.c")
    txt = open(path, errors="replace").read()
    txt = re.sub(r"/\*.*?\*/", " ", txt, flags=re.S)
    _, body = find_body("ares_queue_wait_empty", [(path, txt)])
    if body is None:
        raise ParseError("ares_queue_wait_empty() not found")
    m0 = re.search(r"ares_status_t\s+status\s*=\s*(ARES_\w+)\s*;", body)
    if not m0 or m0.group(1) not in STATUS:
        raise ParseError("initial value of status not found")
    m = re.search(r"while\s*\(", body)
    if not m:
        raise ParseError("wait loop not found")
    toks = tokenize(body[m.start():])
    p = P(toks)
    p.take("while")
    cond = p.skip_parens().replace(" ", "")
    cond_is_len = cond in ("ares_llist_len(channel->all_queries)", "ares_llist_len(channel->all_queries)>0",
                           "ares_llist_len(channel->all_queries)!=0")
    p.take("{")
    p.take("if")
    sel = p.skip_parens().replace(" ", "")
    if sel not in ("timeout_ms<0", "timeout_ms>=0"):
        raise ParseError("the loop body does not start with the timed / untimed selection: (%s)" % sel)
    p.take("{")
    first = p.block()
    p.take("}")
    p.take("else")
    p.take("{")
    second = p.block()
    p.take("}")
    if p.peek() != "}":
        raise ParseError("statements after the timed / untimed selection inside the loop")
    p.take("}")
    rest = "".join(p.t[p.i:])
    before = re.sub(r"\s+", "", body[:m.start()])
    locked = before.endswith("ares_thread_mutex_lock(channel->lock);") and \
        rest.startswith("ares_thread_mutex_unlock(channel->lock);")
    returns_status = re.sub(r"^ares_thread_mutex_unlock\(channel->lock\);", "", rest) in ("returnstatus;}", "returnstatus;")
    untimed, timed = (first, second) if sel == "timeout_ms<0" else (second, first)
    csrc = re.sub(r"\s+", " ", body[m.start():]).strip()
    new = "\n".join([
        "/- GENERATED by tools/gen_waitempty.py from /repo/src/lib/util/ares_threads.c (ares_queue_wait_empty) — do not edit. -/",
        "import CaresModel.Chan.Types",
        "namespace Cares.Generated.WaitEmpty",
        "open Cares.Chan", "",
        "/-- the loop condition is the number of outstanding requests -/",
        "def condIsQueueLen : Bool := %s" % ("true" if cond_is_len else "false"),
        "/-- the channel lock is taken right before the loop and released right after it -/",
        "def lockedAroundLoop : Bool := %s" % ("true" if locked else "false"),
        "/-- the function returns `status` -/",
        "def returnsStatus : Bool := %s" % ("true" if returns_status else "false"),
        "def initStatus : Status := %s" % STATUS[m0.group(1)], "",
        "/-- one iteration with a timeout: (status, left by break) -/",
        "def timedIter (status : Status) (tmsZero : Bool) (waitRes : Status) : Status × Bool :=",
        "  let s : Status × Bool := (status, false)",
        "  " + timed, "",
        "/-- one iteration without a timeout -/",
        "def untimedIter (status : Status) (waitRes : Status) : Status × Bool :=",
        "  let tmsZero := false",
        "  let s : Status × Bool := (status, false)",
        "  " + untimed, "",
        "end Cares.Generated.WaitEmpty", ""])
    if not os.path.exists(OUT) or open(OUT).read() != new:
        os.makedirs(os.path.dirname(OUT), exist_ok=True)
        open(OUT, "w").write(new)
    return {"WaitEmpty.lean": "ares_queue_wait_empty loop (sha256 %s)" % hashlib.sha256(csrc.encode()).hexdigest()[:12]}


if __name__ == "__main__":
    import sys
    args = [a for a in sys.argv[1:] if not a.startswith("--")]
    if "--dry" in sys.argv:
        OUT = "/tmp/WaitEmpty.lean"
    print(gen_waitempty(args[0] if args else None))
    print(open(OUT).read())
