"""Small RFC 1035 message encoder + structure-aware generators for the legacy-parser streams (C18, C13).

Only python stdlib; everything random comes from the `rng` passed in.
(tools/gen_dns.py of the codec slice can replace the encoder later; the interface used by the
property modules is `gen_message(rng, ...) -> bytes`, `mutate(rng, bytes) -> bytes`.)"""
import struct

T_A, T_NS, T_CNAME, T_SOA, T_PTR, T_HINFO, T_MX, T_TXT, T_AAAA, T_SRV, T_NAPTR, T_OPT = \
    1, 2, 5, 6, 12, 13, 15, 16, 28, 33, 35, 41
T_URI, T_CAA = 256, 257
LEGACY_TYPES = [T_A, T_AAAA, T_CAA, T_MX, T_NAPTR, T_NS, T_PTR, T_SOA, T_SRV, T_TXT, T_URI]
C_IN, C_CHAOS, C_HS, C_NONE, C_ANY = 1, 3, 4, 254, 255

LOWER = b"abcdefghijklmnopqrstuvwxyz0123456789-"


def rand_label(rng, special=0.03):
    n = rng.choice([1, 2, 3, 3, 4, 5, 7, 10, 20, 63]) if rng.random() < 0.2 else rng.randint(1, 8)
    r = rng.random()
    if r < special:
        # bytes that need escaping in presentation format (dots, backslashes, non-printables, upper case)
        return bytes(rng.choice([46, 92, 0, 1, 32, 34, 40, 59, 64, 127, 200, 255, 65, 90]) if rng.random() < 0.5
                     else rng.choice(LOWER) for _ in range(n))
    if r < special + 0.05:
        return bytes(rng.choice(b"ABCDEFGHIJKLMNOPQRSTUVWXYZabc") for _ in range(n))
    return bytes(rng.choice(LOWER) for _ in range(n))


def rand_name(rng, maxlabels=4):
    if rng.random() < 0.03:
        return []
    return [rand_label(rng) for _ in range(rng.randint(1, maxlabels))]


def enc_name_raw(labels):
    out = b""
    for l in labels:
        out += bytes([len(l)]) + l
    return out + b"\x00"


class Enc:
    """message under construction; remembers name offsets for compression"""

    def __init__(self, rng, compress=True):
        self.buf = b""
        self.rng = rng
        self.compress = compress
        self.offsets = {}   # tuple(labels lower) -> offset

    def name(self, labels, allow_comp=True):
        out = b""
        labs = list(labels)
        i = 0
        while i < len(labs):
            key = tuple(l.lower() for l in labs[i:])
            pos = len(self.buf) + len(out)
            if self.compress and allow_comp and key in self.offsets and self.rng.random() < 0.8:
                off = self.offsets[key]
                return out + struct.pack(">H", 0xC000 | off)
            if pos < 0x3FFF:
                self.offsets.setdefault(key, pos)
            out += bytes([len(labs[i])]) + labs[i]
            i += 1
        return out + b"\x00"


def charstr(b):
    b = b[:255]
    return bytes([len(b)]) + b


def rand_text(rng, maxlen=20, binary=0.1):
    n = rng.randint(0, maxlen)
    if rng.random() < binary:
        return bytes(rng.randint(0, 255) for _ in range(n))
    return bytes(rng.choice(b"abcdefghijklmnopqrstuvwxyzABCXYZ0123456789 !#$%&()*+,-./:;<=>?@[]^_{|}~\\\"'") for _ in range(n))


def rand_ttl(rng):
    r = rng.random()
    if r < 0.08:
        return rng.choice([0, 1, 0x7FFFFFFF, 0x80000000, 0x80000001, 0xFFFFFFFF])
    if r < 0.5:
        return rng.randint(0, 600)
    return rng.randint(0, 1 << 31)


def rand_a(rng):
    r = rng.random()
    if r < 0.1:
        return bytes(rng.choice([[127, 0, 0, 1], [10, 0, 0, 1], [169, 254, 1, 1], [0, 0, 0, 0], [255, 255, 255, 255],
                                 [192, 168, 1, 1]]))
    return bytes(rng.randint(0, 255) for _ in range(4))


V6_PREFIXES = [bytes(16), bytes(15) + b"\x01", b"\xfe\x80" + bytes(14), b"\xfe\xc0" + bytes(14), b"\xfc" + bytes(15),
               b"\x20\x01" + bytes(14), b"\x20\x02" + bytes(14), b"\x3f\xfe" + bytes(14), b"\xff\x02" + bytes(14),
               bytes(10) + b"\xff\xff" + bytes(4), bytes(12) + b"\x01\x02\x03\x04", b"\x20\x01\x0d\xb8" + bytes(12)]


def rand_aaaa(rng):
    r = rng.random()
    if r < 0.5:
        p = bytearray(rng.choice(V6_PREFIXES))
        for i in range(rng.randint(0, 4)):
            p[rng.randint(2, 15)] = rng.randint(0, 255)
        return bytes(p)
    return bytes(rng.randint(0, 255) for _ in range(16))


def rdata(enc, rng, rtype, target=None):
    """returns RDATA bytes for a well-formed record of `rtype` (names may be compressed where allowed)"""
    nm = target if target is not None else rand_name(rng)
    if rtype == T_A:
        return rand_a(rng)
    if rtype == T_AAAA:
        return rand_aaaa(rng)
    if rtype in (T_NS, T_CNAME, T_PTR):
        return ("name", [nm])
    if rtype == T_MX:
        return ("parts", [struct.pack(">H", rng.choice([0, 1, 10, 65535, rng.randint(0, 65535)])), ("n", nm)])
    if rtype == T_SOA:
        return ("parts", [("n", nm), ("n", rand_name(rng)),
                          struct.pack(">IIIII", *[rng.choice([0, 1, 0xFFFFFFFF, rng.randint(0, 1 << 32 - 1)]) for _ in range(5)])])
    if rtype == T_TXT:
        k = rng.choice([1, 1, 1, 2, 3, 5]) if rng.random() < 0.9 else rng.choice([0, 10, 30])
        out = b""
        for _ in range(k):
            out += charstr(rand_text(rng, rng.choice([0, 5, 20, 255]), binary=0.3))
        return out
    if rtype == T_SRV:
        return ("parts", [struct.pack(">HHH", rng.randint(0, 65535), rng.randint(0, 65535), rng.randint(0, 65535)),
                          ("nc", nm)])
    if rtype == T_NAPTR:
        return ("parts", [struct.pack(">HH", rng.randint(0, 65535), rng.randint(0, 65535)),
                          charstr(rand_text(rng, 6, 0.03)), charstr(rand_text(rng, 12, 0.03)),
                          charstr(rand_text(rng, 30, 0.03)), ("nc", nm)])
    if rtype == T_URI:
        return struct.pack(">HH", rng.randint(0, 65535), rng.randint(0, 65535)) + rand_text(rng, 40, 0.03)
    if rtype == T_CAA:
        tag = bytes(rng.choice(b"abcdefghijklmnopqrstuvwxyz0123456789") for _ in range(rng.randint(1, 10)))
        if rng.random() < 0.03:
            tag = rand_text(rng, 8, 0.5)
        return bytes([rng.choice([0, 128, 1, 255])]) + bytes([len(tag)]) + tag + rand_text(rng, 40, 0.2)
    if rtype == T_HINFO:
        return charstr(rand_text(rng, 10, 0)) + charstr(rand_text(rng, 10, 0))
    # unknown / other type: opaque bytes
    return bytes(rng.randint(0, 255) for _ in range(rng.randint(0, 12)))


def put_rr(enc, rng, name, rtype, rclass, ttl, rd):
    enc.buf += enc.name(name)
    enc.buf += struct.pack(">HHI", rtype & 0xFFFF, rclass, ttl)
    lenpos = len(enc.buf)
    enc.buf += b"\x00\x00"
    if isinstance(rd, tuple):
        kind, parts = rd
        if kind == "name":
            enc.buf += enc.name(parts[0])
        else:
            for p in parts:
                if isinstance(p, tuple):
                    enc.buf += enc.name(p[1], allow_comp=(p[0] == "n"))
                else:
                    enc.buf += p
    else:
        enc.buf += rd
    rdlen = len(enc.buf) - lenpos - 2
    enc.buf = enc.buf[:lenpos] + struct.pack(">H", rdlen & 0xFFFF) + enc.buf[lenpos + 2:]


def gen_message(rng, focus=None, nmax=12, big=False):
    """a mostly well-formed response.  Returns (bytes, meta) where meta describes the shape."""
    focus = focus if focus is not None else rng.choice(LEGACY_TYPES)
    enc = Enc(rng, compress=rng.random() < 0.7)
    qname = rand_name(rng)
    r = rng.random()
    if big:
        nans = rng.randint(30, 200)
    elif r < 0.08:
        nans = 0
    elif r < 0.3:
        nans = 1
    else:
        nans = rng.randint(2, nmax)
    # answers plan
    plan = []
    cur = qname
    ncname = 0
    if rng.random() < 0.35 and nans > 0:
        ncname = rng.randint(1, min(3, nans))
    style = rng.choice(["focus", "focus", "mixed", "othertype", "foreignclass"])
    for i in range(nans):
        if i < ncname:
            tgt = rand_name(rng)
            plan.append((cur, T_CNAME, C_IN if rng.random() < 0.95 else C_CHAOS, tgt))
            cur = tgt
            continue
        if style == "focus":
            t = focus if rng.random() < 0.9 else rng.choice(LEGACY_TYPES + [T_CNAME, T_HINFO])
        elif style == "mixed":
            t = rng.choice([focus, focus] + LEGACY_TYPES + [T_CNAME, T_HINFO, 99])
            if focus in (T_A, T_AAAA) and rng.random() < 0.5:
                t = rng.choice([T_A, T_AAAA])
        elif style == "othertype":
            t = rng.choice([x for x in LEGACY_TYPES + [T_HINFO, 99] if x != focus])
        else:
            t = focus
        c = C_IN
        if style == "foreignclass" and rng.random() < 0.6 or rng.random() < 0.05:
            c = rng.choice([C_CHAOS, C_HS, C_NONE])
        owner = cur if rng.random() < 0.85 else rand_name(rng)
        plan.append((owner, t, c, None))
    nauth = rng.choice([0, 0, 0, 1, 2])
    nadd = rng.choice([0, 0, 0, 1, 2])
    flags = 0x8180 if rng.random() < 0.9 else rng.randint(0, 0xFFFF) & 0xFBFF
    qtype = focus if rng.random() < 0.9 else rng.choice(LEGACY_TYPES)
    enc.buf = struct.pack(">HHHHHH", rng.randint(0, 65535), flags, 1, nans, nauth, nadd)
    enc.buf += enc.name(qname, allow_comp=False) + struct.pack(">HH", qtype, C_IN)
    for (owner, t, c, tgt) in plan:
        put_rr(enc, rng, owner, t, c, rand_ttl(rng), rdata(enc, rng, t, tgt))
    for _ in range(nauth):
        t = rng.choice([T_NS, T_SOA])
        put_rr(enc, rng, qname, t, C_IN, rand_ttl(rng), rdata(enc, rng, t))
    for _ in range(nadd):
        t = rng.choice([T_A, T_AAAA, T_OPT])
        if t == T_OPT:
            enc.buf += b"\x00" + struct.pack(">HHI", T_OPT, 1232, 0) + b"\x00\x00"
        else:
            put_rr(enc, rng, rand_name(rng), t, C_IN, rand_ttl(rng), rdata(enc, rng, t))
    meta = {"focus": focus, "nans": nans, "ncname": ncname, "style": style}
    return enc.buf, meta


def mutate(rng, msg):
    """malformed stream: truncations, bit flips, count changes, garbage"""
    b = bytearray(msg)
    r = rng.random()
    if r < 0.25 and len(b) > 1:
        return bytes(b[:rng.randint(0, len(b) - 1)])
    if r < 0.5 and b:
        for _ in range(rng.randint(1, 4)):
            i = rng.randint(0, len(b) - 1)
            b[i] ^= 1 << rng.randint(0, 7)
        return bytes(b)
    if r < 0.6 and len(b) >= 12:
        i = rng.choice([4, 6, 8, 10])
        v = rng.choice([0, 1, 2, 0xFFFF, rng.randint(0, 300)])
        b[i:i + 2] = struct.pack(">H", v)
        return bytes(b)
    if r < 0.7 and b:
        i = rng.randint(0, len(b) - 1)
        b[i] = rng.choice([0, 0xC0, 0xFF, 0x40, 63, 64])
        return bytes(b)
    if r < 0.8:
        return bytes(b) + bytes(rng.randint(0, 255) for _ in range(rng.randint(1, 20)))
    if r < 0.9 and len(b) > 14:
        i = rng.randint(12, len(b) - 1)
        j = rng.randint(i, min(len(b), i + 10))
        del b[i:j]
        return bytes(b)
    return bytes(rng.randint(0, 255) for _ in range(rng.choice([0, 1, 5, 11, 12, 13, 17, 40, 100])))


def hexs(b):
    return b.hex() if b else "-"
