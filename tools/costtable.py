#!/usr/bin/env python3
"""dev helper: rewrite the measured-cost table of DESIGN.md (section 0.1a) from two soak logs.
usage: tools/costtable.py <quick soak log> <thorough soak log>"""
import os
import re
import sys

VERIF = os.path.dirname(os.path.dirname(os.path.abspath(__file__)))


def parse(path):
    res = {}
    for l in open(path):
        m = re.match(r"seed=\d+ (C\d+) rc=0 \d+s C\d+ \w+: obligations \d+/\d+, cases (\d+) .* ([\d.]+)s$", l.strip())
        if m:
            res[m.group(1)] = (round(float(m.group(3))), int(m.group(2)))
    return res


def main():
    q, t = parse(sys.argv[1]), parse(sys.argv[2])
    p = os.path.join(VERIF, "DESIGN.md")
    s = open(p).read()
    head = "| check | quick: wall s / cases | thorough: wall s / cases |\n|---|---|---|\n"
    i = s.index(head)
    j = i + len(head)
    while s[j:j + 3] == "| C":
        j = s.index("\n", j) + 1
    rows = "".join("| %s | %d / %d | %d / %d |\n" % (c, q[c][0], q[c][1], t[c][0], t[c][1]) for c in sorted(q) if c in t)
    open(p, "w").write(s[:i] + head + rows + s[j:])
    print("rows:", len(rows.split("\n")) - 1)


if __name__ == "__main__":
    main()
