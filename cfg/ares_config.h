/* Copyright (C) The c-ares project and its contributors
 * SPDX-License-Identifier: MIT
 */

/* Generated from ares_config.h.cmake */

/* Define if building universal (internal helper macro) */
#undef AC_APPLE_UNIVERSAL_BUILD

/* Defined for build with symbol hiding. */
/* #undef CARES_SYMBOL_HIDING */

/* Use resolver library to configure cares */
/* #undef CARES_USE_LIBRESOLV */

/* if a /etc/inet dir is being used */
#undef ETC_INET

/* Define to the type of arg 2 for gethostname. */
#define GETHOSTNAME_TYPE_ARG2 size_t

/* Define to the type qualifier of arg 1 for getnameinfo. */
#define GETNAMEINFO_QUAL_ARG1 

/* Define to the type of arg 1 for getnameinfo. */
#define GETNAMEINFO_TYPE_ARG1 struct sockaddr *

/* Define to the type of arg 2 for getnameinfo. */
#define GETNAMEINFO_TYPE_ARG2 socklen_t

/* Define to the type of args 4 and 6 for getnameinfo. */
#define GETNAMEINFO_TYPE_ARG46 socklen_t

/* Define to the type of arg 7 for getnameinfo. */
#define GETNAMEINFO_TYPE_ARG7 int

/* Specifies the number of arguments to getservbyport_r */
#define GETSERVBYPORT_R_ARGS 6

/* Specifies the number of arguments to getservbyname_r */
#define GETSERVBYNAME_R_ARGS 6

/* Define to 1 if you have AF_INET6. */
#define HAVE_AF_INET6 1

/* Define to 1 if you have the <arpa/inet.h> header file. */
#define HAVE_ARPA_INET_H 1

/* Define to 1 if you have the <arpa/nameser_compat.h> header file. */
#define HAVE_ARPA_NAMESER_COMPAT_H 1

/* Define to 1 if you have the <arpa/nameser.h> header file. */
#define HAVE_ARPA_NAMESER_H 1

/* Define to 1 if you have the <assert.h> header file. */
#define HAVE_ASSERT_H 1

/* Define to 1 if you have the clock_gettime function and monotonic timer. */
#define HAVE_CLOCK_GETTIME_MONOTONIC 1

/* Define to 1 if you have the closesocket function. */
/* #undef HAVE_CLOSESOCKET */

/* Define to 1 if you have the CloseSocket camel case function. */
/* #undef HAVE_CLOSESOCKET_CAMEL */

/* Define to 1 if you have the connect function. */
#define HAVE_CONNECT 1

/* Define to 1 if you have the connectx function. */
/* #undef HAVE_CONNECTX */

/* define if the compiler supports basic C++11 syntax */
/* #undef HAVE_CXX11 */

/* Define to 1 if you have the <dlfcn.h> header file. */
#define HAVE_DLFCN_H 1

/* Define to 1 if you have the <errno.h> header file. */
#define HAVE_ERRNO_H 1

/* Define to 1 if you have the <poll.h> header file. */
#define HAVE_POLL_H 1

/* Define to 1 if you have the memmem function. */
#define HAVE_MEMMEM 1

/* Define to 1 if you have the poll function. */
#define HAVE_POLL 1

/* Define to 1 if you have the pipe function. */
#define HAVE_PIPE 1

/* Define to 1 if you have the pipe2 function. */
#define HAVE_PIPE2 1

/* Define to 1 if you have the kqueue function. */
/* #undef HAVE_KQUEUE */

/* Define to 1 if you have the epoll{_create,ctl,wait} functions. */
#define HAVE_EPOLL 1

/* Define to 1 if you have the fcntl function. */
#define HAVE_FCNTL 1

/* Define to 1 if you have the <fcntl.h> header file. */
#define HAVE_FCNTL_H 1

/* Define to 1 if you have a working fcntl O_NONBLOCK function. */
#define HAVE_FCNTL_O_NONBLOCK 1

/* Define to 1 if you have the freeaddrinfo function. */
#define HAVE_FREEADDRINFO 1

/* Define to 1 if you have a working getaddrinfo function. */
#define HAVE_GETADDRINFO 1

/* Define to 1 if the getaddrinfo function is threadsafe. */
/* #undef HAVE_GETADDRINFO_THREADSAFE */

/* Define to 1 if you have the getenv function. */
#define HAVE_GETENV 1

/* Define to 1 if you have the gethostname function. */
#define HAVE_GETHOSTNAME 1

/* Define to 1 if you have the getnameinfo function. */
#define HAVE_GETNAMEINFO 1

/* Define to 1 if you have the getrandom function. */
#define HAVE_GETRANDOM 1

/* Define to 1 if you have the getservbyport_r function. */
#define HAVE_GETSERVBYPORT_R 1

/* Define to 1 if you have the getservbyname_r function. */
#define HAVE_GETSERVBYNAME_R 1

/* Define to 1 if you have the `gettimeofday' function. */
#define HAVE_GETTIMEOFDAY 1

/* Define to 1 if you have the `if_indextoname' function. */
#define HAVE_IF_INDEXTONAME 1

/* Define to 1 if you have the `if_nametoindex' function. */
#define HAVE_IF_NAMETOINDEX 1

/* Define to 1 if you have the `GetBestRoute2' function. */
/* #undef HAVE_GETBESTROUTE2 */

/* Define to 1 if you have the `WSAIoctl' function. */
/* #undef HAVE_WSAIOCTL */

/* Define to 1 if you have the `OVERLAPPED_ENTRY' data type. */
/* #undef HAVE_OVERLAPPED_ENTRY */

/* Define to 1 if you have the `GetQueuedCompletionStatusEx' function. */
/* #undef HAVE_GETQUEUEDCOMPLETIONSTATUSEX */

/* Define to 1 if you have the `ConvertInterfaceIndexToLuid' function. */
/* #undef HAVE_CONVERTINTERFACEINDEXTOLUID */

/* Define to 1 if you have the `ConvertInterfaceLuidToNameA' function. */
/* #undef HAVE_CONVERTINTERFACELUIDTONAMEA */

/* Define to 1 if you have the `NotifyIpInterfaceChange' function. */
/* #undef HAVE_NOTIFYIPINTERFACECHANGE */

/* Define to 1 if you have the `RegisterWaitForSingleObject' function. */
/* #undef HAVE_REGISTERWAITFORSINGLEOBJECT */

/* Define to 1 if you have the `SetFileCompletionNotificationModes' function. */
/* #undef HAVE_SETFILECOMPLETIONNOTIFICATIONMODES */

/* Define to 1 if you have a IPv6 capable working inet_net_pton function. */
/* #undef HAVE_INET_NET_PTON */

/* Define to 1 if you have a IPv6 capable working inet_ntop function. */
#define HAVE_INET_NTOP 1

/* Define to 1 if you have a IPv6 capable working inet_pton function. */
#define HAVE_INET_PTON 1

/* Define to 1 if you have the <inttypes.h> header file. */
#define HAVE_INTTYPES_H 1

/* Define to 1 if you have the ioctl function. */
#define HAVE_IOCTL 1

/* Define to 1 if you have the ioctlsocket function. */
/* #undef HAVE_IOCTLSOCKET */

/* Define to 1 if you have the IoctlSocket camel case function. */
/* #undef HAVE_IOCTLSOCKET_CAMEL */

/* Define to 1 if you have a working IoctlSocket camel case FIONBIO function.
   */
/* #undef HAVE_IOCTLSOCKET_CAMEL_FIONBIO */

/* Define to 1 if you have a working ioctlsocket FIONBIO function. */
/* #undef HAVE_IOCTLSOCKET_FIONBIO */

/* Define to 1 if you have a working ioctl FIONBIO function. */
#define HAVE_IOCTL_FIONBIO 1

/* Define to 1 if you have a working ioctl SIOCGIFADDR function. */
#define HAVE_IOCTL_SIOCGIFADDR 1

/* Define to 1 if you have the `resolve' library (-lresolve). */
/* #undef HAVE_LIBRESOLV */

/* Define to 1 if you have iphlpapi.h */
/* #undef HAVE_IPHLPAPI_H */

/* Define to 1 if you have netioapi.h */
/* #undef HAVE_NETIOAPI_H */

/* Define to 1 if you have the <limits.h> header file. */
#define HAVE_LIMITS_H 1

/* Define to 1 if the compiler supports the 'long long' data type. */
#define HAVE_LONGLONG 1

/* Define to 1 if you have the malloc.h header file. */
#define HAVE_MALLOC_H 1

/* Define to 1 if you have the memory.h header file. */
#define HAVE_MEMORY_H 1

/* Define to 1 if you have the AvailabilityMacros.h header file. */
/* #undef HAVE_AVAILABILITYMACROS_H */

/* Define to 1 if you have the MSG_NOSIGNAL flag. */
#define HAVE_MSG_NOSIGNAL 1

/* Define to 1 if you have the <netdb.h> header file. */
#define HAVE_NETDB_H 1

/* Define to 1 if you have the <netinet/in.h> header file. */
#define HAVE_NETINET_IN_H 1

/* Define to 1 if you have the <netinet6/in6.h> header file. */
/* #undef HAVE_NETINET6_IN6_H */

/* Define to 1 if you have the <netinet/tcp.h> header file. */
#define HAVE_NETINET_TCP_H 1

/* Define to 1 if you have the <net/if.h> header file. */
#define HAVE_NET_IF_H 1

/* Define to 1 if you have PF_INET6. */
#define HAVE_PF_INET6 1

/* Define to 1 if you have the recv function. */
#define HAVE_RECV 1

/* Define to 1 if you have the recvfrom function. */
#define HAVE_RECVFROM 1

/* Define to 1 if you have the send function. */
#define HAVE_SEND 1

/* Define to 1 if you have the sendto function. */
#define HAVE_SENDTO 1

/* Define to 1 if you have the setsockopt function. */
#define HAVE_SETSOCKOPT 1

/* Define to 1 if you have a working setsockopt SO_NONBLOCK function. */
/* #undef HAVE_SETSOCKOPT_SO_NONBLOCK */

/* Define to 1 if you have the <signal.h> header file. */
#define HAVE_SIGNAL_H 1

/* Define to 1 if you have the strnlen function. */
#define HAVE_STRNLEN 1

/* Define to 1 if your struct sockaddr_in6 has sin6_scope_id. */
#define HAVE_STRUCT_SOCKADDR_IN6_SIN6_SCOPE_ID 1

/* Define to 1 if you have the socket function. */
#define HAVE_SOCKET 1

/* Define to 1 if you have the <socket.h> header file. */
/* #undef HAVE_SOCKET_H */

/* Define to 1 if you have the <stdbool.h> header file. */
#define HAVE_STDBOOL_H 1

/* Define to 1 if you have the <stdint.h> header file. */
#define HAVE_STDINT_H 1

/* Define to 1 if you have the <stdlib.h> header file. */
#define HAVE_STDLIB_H 1

/* Define to 1 if you have the strcasecmp function. */
#define HAVE_STRCASECMP 1

/* Define to 1 if you have the strcmpi function. */
/* #undef HAVE_STRCMPI */

/* Define to 1 if you have the strdup function. */
#define HAVE_STRDUP 1

/* Define to 1 if you have the stricmp function. */
/* #undef HAVE_STRICMP */

/* Define to 1 if you have the <strings.h> header file. */
#define HAVE_STRINGS_H 1

/* Define to 1 if you have the <string.h> header file. */
#define HAVE_STRING_H 1

/* Define to 1 if you have the strncasecmp function. */
#define HAVE_STRNCASECMP 1

/* Define to 1 if you have the strncmpi function. */
/* #undef HAVE_STRNCMPI */

/* Define to 1 if you have the strnicmp function. */
/* #undef HAVE_STRNICMP */

/* Define to 1 if you have the <stropts.h> header file. */
/* #undef HAVE_STROPTS_H */

/* Define to 1 if you have struct addrinfo. */
#define HAVE_STRUCT_ADDRINFO 1

/* Define to 1 if you have struct in6_addr. */
#define HAVE_STRUCT_IN6_ADDR 1

/* Define to 1 if you have struct sockaddr_in6. */
#define HAVE_STRUCT_SOCKADDR_IN6 1

/* if struct sockaddr_storage is defined */
#define HAVE_STRUCT_SOCKADDR_STORAGE 1

/* Define to 1 if you have the timeval struct. */
#define HAVE_STRUCT_TIMEVAL 1

/* Define to 1 if you have the <sys/ioctl.h> header file. */
#define HAVE_SYS_IOCTL_H 1

/* Define to 1 if you have the <sys/param.h> header file. */
#define HAVE_SYS_PARAM_H 1

/* Define to 1 if you have the <sys/random.h> header file. */
#define HAVE_SYS_RANDOM_H 1

/* Define to 1 if you have the <sys/event.h> header file. */
/* #undef HAVE_SYS_EVENT_H */

/* Define to 1 if you have the <sys/epoll.h> header file. */
#define HAVE_SYS_EPOLL_H 1

/* Define to 1 if you have the <sys/select.h> header file. */
#define HAVE_SYS_SELECT_H 1

/* Define to 1 if you have the <sys/socket.h> header file. */
#define HAVE_SYS_SOCKET_H 1

/* Define to 1 if you have the <sys/stat.h> header file. */
#define HAVE_SYS_STAT_H 1

/* Define to 1 if you have the <sys/time.h> header file. */
#define HAVE_SYS_TIME_H 1

/* Define to 1 if you have the <sys/types.h> header file. */
#define HAVE_SYS_TYPES_H 1

/* Define to 1 if you have the <sys/uio.h> header file. */
#define HAVE_SYS_UIO_H 1

/* Define to 1 if you have the <time.h> header file. */
#define HAVE_TIME_H 1

/* Define to 1 if you have the <ifaddrs.h> header file. */
#define HAVE_IFADDRS_H 1

/* Define to 1 if you have the <unistd.h> header file. */
#define HAVE_UNISTD_H 1

/* Define to 1 if you have the windows.h header file. */
/* #undef HAVE_WINDOWS_H */

/* Define to 1 if you have the winsock2.h header file. */
/* #undef HAVE_WINSOCK2_H */

/* Define to 1 if you have the winsock.h header file. */
/* #undef HAVE_WINSOCK_H */

/* Define to 1 if you have the mswsock.h header file. */
/* #undef HAVE_MSWSOCK_H */

/* Define to 1 if you have the winternl.h header file. */
/* #undef HAVE_WINTERNL_H */

/* Define to 1 if you have the ntstatus.h header file. */
/* #undef HAVE_NTSTATUS_H */

/* Define to 1 if you have the ntdef.h header file. */
/* #undef HAVE_NTDEF_H */

/* Define to 1 if you have the writev function. */
#define HAVE_WRITEV 1

/* Define to 1 if you have the ws2tcpip.h header file. */
/* #undef HAVE_WS2TCPIP_H */

/* Define to 1 if you have the __system_property_get function */
/* #undef HAVE___SYSTEM_PROPERTY_GET */

/* Define if have arc4random_buf() */
#define HAVE_ARC4RANDOM_BUF 1

/* Define if have getifaddrs() */
#define HAVE_GETIFADDRS 1

/* Define if have stat() */
#define HAVE_STAT 1

/* a suitable file/device to read random data from */
#define CARES_RANDOM_FILE "/dev/urandom"

/* Define to the type qualifier pointed by arg 5 for recvfrom. */
#define RECVFROM_QUAL_ARG5 

/* Define to the type of arg 1 for recvfrom. */
#define RECVFROM_TYPE_ARG1 int

/* Define to the type pointed by arg 2 for recvfrom. */
#define RECVFROM_TYPE_ARG2 void *

/* Define to 1 if the type pointed by arg 2 for recvfrom is void. */
#define RECVFROM_TYPE_ARG2_IS_VOID 0

/* Define to the type of arg 3 for recvfrom. */
#define RECVFROM_TYPE_ARG3 size_t

/* Define to the type of arg 4 for recvfrom. */
#define RECVFROM_TYPE_ARG4 int

/* Define to the type pointed by arg 5 for recvfrom. */
#define RECVFROM_TYPE_ARG5 struct sockaddr *

/* Define to 1 if the type pointed by arg 5 for recvfrom is void. */
#define RECVFROM_TYPE_ARG5_IS_VOID 0

/* Define to the type pointed by arg 6 for recvfrom. */
#define RECVFROM_TYPE_ARG6 socklen_t *

/* Define to 1 if the type pointed by arg 6 for recvfrom is void. */
#define RECVFROM_TYPE_ARG6_IS_VOID 0

/* Define to the function return type for recvfrom. */
#define RECVFROM_TYPE_RETV ssize_t

/* Define to the type of arg 1 for recv. */
#define RECV_TYPE_ARG1 int

/* Define to the type of arg 2 for recv. */
#define RECV_TYPE_ARG2 void *

/* Define to the type of arg 3 for recv. */
#define RECV_TYPE_ARG3 size_t

/* Define to the type of arg 4 for recv. */
#define RECV_TYPE_ARG4 int

/* Define to the function return type for recv. */
#define RECV_TYPE_RETV ssize_t

/* Define to the type of arg 1 for send. */
#define SEND_TYPE_ARG1 int

/* Define to the type of arg 2 for send. */
#define SEND_TYPE_ARG2 const void *

/* Define to the type of arg 3 for send. */
#define SEND_TYPE_ARG3 size_t

/* Define to the type of arg 4 for send. */
#define SEND_TYPE_ARG4 int

/* Define to the function return type for send. */
#define SEND_TYPE_RETV ssize_t

/* Define to disable non-blocking sockets. */
#undef USE_BLOCKING_SOCKETS

/* Define to avoid automatic inclusion of winsock.h */
#undef WIN32_LEAN_AND_MEAN

/* Define to 1 if you have the pthread.h header file. */
#define HAVE_PTHREAD_H 1

/* Define to 1 if you have the pthread_np.h header file. */
/* #undef HAVE_PTHREAD_NP_H */

/* Define to 1 if threads are enabled */
#define CARES_THREADS 1

/* Define to 1 if pthread_init() exists */
/* #undef HAVE_PTHREAD_INIT */

