#ifndef __CARES_BUILD_H
#define __CARES_BUILD_H
/*
 * Copyright (C) The c-ares project and its contributors
 * SPDX-License-Identifier: MIT
 */

#define CARES_TYPEOF_ARES_SOCKLEN_T socklen_t
#define CARES_TYPEOF_ARES_SSIZE_T ssize_t

/* Prefix names with CARES_ to make sure they don't conflict with other config.h
 * files.  We need to include some dependent headers that may be system specific
 * for C-Ares */
#define CARES_HAVE_SYS_TYPES_H
#define CARES_HAVE_SYS_SOCKET_H
#define CARES_HAVE_SYS_SELECT_H
/* #undef CARES_HAVE_WINDOWS_H */
/* #undef CARES_HAVE_WS2TCPIP_H */
/* #undef CARES_HAVE_WINSOCK2_H */
#define CARES_HAVE_ARPA_NAMESER_H
#define CARES_HAVE_ARPA_NAMESER_COMPAT_H

#ifdef CARES_HAVE_SYS_TYPES_H
#  include <sys/types.h>
#endif

#ifdef CARES_HAVE_SYS_SOCKET_H
#  include <sys/socket.h>
#endif

#ifdef CARES_HAVE_SYS_SELECT_H
#  include <sys/select.h>
#endif

#ifdef CARES_HAVE_WINSOCK2_H
#  include <winsock2.h>
#endif

#ifdef CARES_HAVE_WS2TCPIP_H
#  include <ws2tcpip.h>
#endif

#ifdef CARES_HAVE_WINDOWS_H
#  include <windows.h>
#endif

#endif /* __CARES_BUILD_H */
