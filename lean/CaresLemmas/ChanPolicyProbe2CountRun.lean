import CaresLemmas.ChanPolicyProbe2Count
/-!
# C09 — `one_probe_per_send`: budgets of `sendQuery`, `probe`, `sendNolock`, reactions, and the run theorem
-/
namespace Cares.Chan
set_option linter.unusedVariables false

/-- what one `ares_send_query` may create: a probe query — only when no server is requested and the query has not
    been tried yet -/
def sqBudget (rs : Option Nat) (key : Nat) (s : St) : Nat :=
  if rs.isNone && ((s.query? key).map (·.tryCount == 0)).getD false then 1 else 0

/-- what one `ares_send_nolock` may create: the request itself and, unless a server is requested (as for a probe
    itself), one probe -/
def snBudget (rs : Option Nat) : Nat := if rs.isSome then 1 else 2

/-- what is known about the calls a body makes: each spends at most its budget -/
structure GoB (N r0 : Nat) (go : Call → St → St × Ret) : Prop where
  zero : ∀ a, GoZ N r0 a go
  sendQuery : ∀ a rs key s, K N r0 (a + sqBudget rs key s) s → K N r0 a (go (.sendQuery rs key) s).1
  probe : ∀ a x y s, K N r0 (a + 1) s → K N r0 a (go (.probe x y) s).1
  sendNolock : ∀ a rs nc nr spec owner react s, K N r0 (a + snBudget rs) s →
    K N r0 a (go (.sendNolock rs nc nr spec owner react) s).1

section
variable {N r0 a : Nat} {go : Call → St → St × Ret}

/-- `ares_requeue_query` counting a try spends nothing: the query is re-sent with `try_count > 0` or ended -/
theorem bodyRequeue_b (hgo : GoB N r0 go) (key : Nat) (st : Status) (rec : Option Reply) (deferred : Bool) (s : St)
    (h : K N r0 a s) : K N r0 a (bodyRequeue go key st true rec deferred s).1 := by
  unfold bodyRequeue
  split
  · exact K.mfault h
  · rename_i q0 hq
    dsimp only
    generalize hs' : St.modQuery (St.removeFromConn s key) key _ = s'
    have hK : K N r0 a s' := by
      rw [← hs']
      repeat' (k_step (hgo.zero a))
    have hq2 : ∃ q1, s'.query? key = some q1 ∧ 0 < q1.tryCount := by
      rw [← hs', query?_modQuery_self, query?_removeFromConn_self, hq]
      · exact ⟨_, rfl, Nat.succ_pos _⟩
      · intro _; rfl
    obtain ⟨q1, hq1, hpos⟩ := hq2
    rw [hq1]
    simp only [Option.getD_some]
    split
    · split
      · exact K.congr (s := s') rfl rfl rfl hK
      · have hb : sqBudget none key s' = 0 := by
          unfold sqBudget; rw [hq1]
          have : (q1.tryCount == 0) = false := by
            rw [beq_eq_false_iff_ne]; omega
          simp [this]
        apply hgo.sendQuery a none key s'
        rw [hb]; exact hK
    · exact hgo.zero a _ _ (K.modQuery hK)

/-- `ares_probe_failed_server` spends at most one: the probe -/
theorem bodyProbe_b (hgo : GoB N r0 go) (x y : Nat) (s : St) (h : K N r0 (a + 1) s) :
    K N r0 a (bodyProbe go x y s).1 := by
  unfold bodyProbe
  chan_paths
  all_goals first
    | (apply K.drop (b := 1); (repeat' (k_step (hgo.zero (a + 1)))); done)
    | ((with_reducible apply pair_fst; assumption); apply hgo.sendNolock a (some _)
       (repeat' (k_step (hgo.zero (a + 1)))); done)

/-- after the write: the probe lottery (`pd`) is the only thing that may spend -/
theorem sqAfter_b (hgo : GoB N r0 go) (q : Query) (srv : Server) (key fd : Nat) (pd : Bool) (wst : Status) (s : St)
    (h : K N r0 (a + (if pd then 1 else 0)) s) : K N r0 a (sqAfter go q srv key fd pd wst s).1 := by
  cases pd
  · have h : K N r0 a s := h
    have hz := hgo.zero a
    unfold sqAfter
    simp only [Bool.false_eq_true, ↓reduceIte]
    chan_paths
    all_goals (repeat' (first | k_step hz | with_reducible apply sqCommit_z hz | with_reducible apply sqDeadline_z hz))
  · have h : K N r0 (a + 1) s := h
    have hz := hgo.zero (a + 1)
    unfold sqAfter
    simp only [↓reduceIte]
    chan_paths
    all_goals first
      | (apply K.drop (b := 1)
         (repeat' (first | k_step hz | with_reducible apply sqCommit_z hz | with_reducible apply sqDeadline_z hz))
         done)
      | (apply hgo.probe
         (repeat' (first | k_step hz | with_reducible apply sqCommit_z hz | with_reducible apply sqDeadline_z hz))
         done)

/-- `ares_send_query` spends at most `sqBudget` -/
theorem sendQueryBlocks_b (hgo : GoB N r0 go) (rs : Option Nat) (key : Nat) (s : St)
    (h : K N r0 (a + sqBudget rs key s) s) : K N r0 a (sendQueryBlocks go rs key s).1 := by
  have hz := hgo.zero (a + sqBudget rs key s)
  unfold sendQueryBlocks
  split
  · exact K.drop (K.mfault h)
  · rename_i q hq
    extract_lets sorted
    split
    rename_i srv? s1 hch
    have h1 : K N r0 (a + sqBudget rs key s) s1 := pair_snd hch (sqChoose_z hz rs s h)
    split
    · exact K.drop (hz _ _ h1)
    · rename_i srv
      extract_lets s2 pd existing
      have h2 : K N r0 (a + sqBudget rs key s) s2 := K.congr (s := s1) rfl rfl rfl h1
      split
      rename_i connRes s3 hopen
      have h3 : K N r0 (a + sqBudget rs key s) s3 := pair_snd hopen (sqOpen_z hz s2 q srv existing h2)
      split
      · apply K.drop (b := sqBudget rs key s)
        repeat' (k_step hz)
      · rename_i fd
        extract_lets cookie newCk s4 q2
        have h4 : K N r0 (a + sqBudget rs key s) s4 := sqPrep_z hz s3 q srv key fd h3
        split
        rename_i wst s5 hwr
        have h5 : K N r0 (a + sqBudget rs key s) s5 := pair_snd hwr (sqWrite_z hz s4 fd h4)
        apply sqAfter_b hgo q2 srv key fd pd wst s5
        refine K.le ?_ h5
        apply Nat.add_le_add_left
        unfold sqBudget
        rw [hq]
        cases hpd : pd
        · exact Nat.zero_le _
        · simp only [pd, Bool.and_eq_true, beq_iff_eq] at hpd
          simp [hpd.1.1, hpd.2]

theorem bodySendQuery_b (hgo : GoB N r0 go) (rs : Option Nat) (key : Nat) (s : St)
    (h : K N r0 (a + sqBudget rs key s) s) : K N r0 a (bodySendQuery go rs key s).1 := by
  rw [bodySendQuery_eq]; exact sendQueryBlocks_b hgo rs key s h

theorem sqBudget_le (rs : Option Nat) (key : Nat) (s : St) : 1 + sqBudget rs key s ≤ snBudget rs := by
  unfold sqBudget snBudget
  cases rs <;> simp <;> split <;> omega

/-- `ares_send_nolock` spends one for the request and at most one more -/
theorem bodySendNolock_b (hgo : GoB N r0 go) (rs : Option Nat) (nc nr : Bool) (spec : ReqSpec) (owner : Owner)
    (react : List Nat) (s : St) (h : K N r0 (a + snBudget rs) s) :
    K N r0 a (bodySendNolock go rs nc nr spec owner react s).1 := by
  have hz := hgo.zero (a + snBudget rs)
  unfold bodySendNolock
  split
  rename_i qid s0 hg
  have h0 : K N r0 (a + snBudget rs) s0 := by
    have : K N r0 (a + snBudget rs) (genQid 70000 s).2 := by repeat' (k_step hz)
    rw [hg] at this; exact this
  split
  · apply K.drop (b := snBudget rs)
    repeat' (k_step hz)
  · extract_lets s1 key usingTcp sentName nbytes s2 q s3
    have h1 : K N r0 (a + snBudget rs) s1 := by
      show K N r0 _ (if nc = true then s0 else s0.cacheExpire)
      split
      · exact h0
      · exact K.cacheExpire h0
    split
    · apply K.drop (b := snBudget rs)
      repeat' (k_step hz)
    · split
      · apply K.drop (b := snBudget rs)
        repeat' (k_step hz)
      · have h2 : K N r0 (a + snBudget rs) s2 := by
          show K N r0 _ (if _ then (if _ then s1.draw1.2 else if _ then s1.draw2.2 else s1) else s1)
          repeat' (k_step hz)
        apply hgo.sendQuery a rs key s3
        have hb := sqBudget_le rs key s3
        have e1 : s3.nextKey = s1.nextKey + 1 := rfl
        have e2 : s3.reactSeq = s2.reactSeq := rfl
        have e3 : s2.nextKey = s1.nextKey := by
          have h2' : K N r0 (a + snBudget rs) s2 := h2
          show (if _ then (if _ then s1.draw1.2 else if _ then s1.draw2.2 else s1) else s1).nextKey = _
          split
          · split
            · obtain ⟨o, f, e⟩ := draw1_shape s1; rw [e]
            · split
              · obtain ⟨o, f, e⟩ := draw2_shape s1; rw [e]
              · rfl
          · rfl
        refine ⟨h2.1, ?_⟩
        have := h2.2
        rw [e1, e2]
        omega

/-- the reaction list of a user callback: a `send` reaction pays for its request with the two units the increment of
    `reactSeq` provides; a `cancel` reaction spends nothing -/
theorem bodyReactions_b (hgo : GoB N r0 go) (l : List Nat) (s : St) (h : K N r0 a s) :
    K N r0 a (bodyReactions go l s).1 := by
  have hz := hgo.zero a
  unfold bodyReactions
  split
  · exact h
  · split
    · exact h
    · apply hz
      show K N r0 a _
      split
      · exact h
      · split
        · exact hz _ _ (K.emit h)
        · split
          · extract_lets tok sA sB sC
            have hs : K N r0 (a + snBudget none) sC := by
              refine ⟨h.1, ?_⟩
              have := h.2
              show s.nextKey + (a + 2) + 2 * r0 ≤ N + 2 * (s.reactSeq + 1)
              omega
            split
            rename_i s' st heq
            apply K.emit
            exact pair_fst heq (hgo.sendNolock a none _ _ _ _ _ _ hs)
          · exact h

end

/-! ### the run -/

/-- the statement proved by induction over the fuel: budget per call -/
def CountSpec (N r0 : Nat) (c : Call) (s : St) (r : St × Ret) : Prop :=
  match c with
  | .sendQuery rs key => ∀ a, K N r0 (a + sqBudget rs key s) s → K N r0 a r.1
  | .probe _ _ => ∀ a, K N r0 (a + 1) s → K N r0 a r.1
  | .sendNolock rs _ _ _ _ _ => ∀ a, K N r0 (a + snBudget rs) s → K N r0 a r.1
  | c => ∀ a, PreZ N r0 a c s → K N r0 a r.1

theorem GoB.ofSpec {N r0 : Nat} {go : Call → St → St × Ret} (h : ∀ c s, CountSpec N r0 c s (go c s)) :
    GoB N r0 go where
  zero := by
    intro a c s hp
    have := h c s
    cases c <;> first | exact this a hp | exact hp.elim
  sendQuery := fun a rs key s hk => h (.sendQuery rs key) s a hk
  probe := fun a x y s hk => h (.probe x y) s a hk
  sendNolock := fun a rs nc nr spec owner react s hk => h (.sendNolock rs nc nr spec owner react) s a hk

theorem execBody_count {N r0 : Nat} {go : Call → St → St × Ret} (hgo : ∀ c s, CountSpec N r0 c s (go c s))
    (c : Call) (s : St) : CountSpec N r0 c s (execBody go c s) := by
  have hb := GoB.ofSpec hgo
  cases c
  case sendNolock rs nc nr spec owner react => exact fun a hk => bodySendNolock_b hb rs nc nr spec owner react s hk
  case sendQuery rs key => exact fun a hk => bodySendQuery_b hb rs key s hk
  case probe x y => exact fun a hk => bodyProbe_b hb x y s hk
  case requeue key st inc rec d =>
    intro a hp
    obtain ⟨hk, rfl⟩ := hp
    exact bodyRequeue_b hb key st rec d s hk
  case flush fd => exact fun a hp => bodyFlush_z (hb.zero a) fd s hp
  case endQuery a1 a2 a3 a4 => exact fun a hp => bodyEndQuery_z (hb.zero a) a1 a2 a3 a4 s hp
  case callback a1 a2 a3 a4 a5 => exact fun a hp => bodyCallback_z (hb.zero a) a1 a2 a3 a4 a5 s hp
  case userCb a1 a2 a3 a4 a5 => exact fun a hp => bodyUserCb_z (hb.zero a) a1 a2 a3 a4 a5 s hp
  case reactions l => exact fun a hp => bodyReactions_b hb l s hp
  case connError a1 a2 a3 => exact fun a hp => bodyConnError_z (hb.zero a) a1 a2 a3 s hp
  case closeConn a1 a2 => exact fun a hp => bodyCloseConn_z (hb.zero a) a1 a2 s hp
  case closeLoop a1 a2 => exact fun a hp => bodyCloseLoop_z (hb.zero a) a1 a2 s hp
  case cancel => exact fun a hp => bodyCancel_z (hb.zero a) s hp
  case cancelLoop a1 a2 => exact fun a hp => bodyCancelLoop_z (hb.zero a) a1 a2 s hp
  case cleanupConns a1 => exact fun a hp => bodyCleanupConns_z (hb.zero a) a1 s hp
  all_goals exact fun a hp => hp.elim

theorem exec_count (N r0 : Nat) (fuel : Nat) (c : Call) (s : St) : CountSpec N r0 c s (exec fuel c s) := by
  refine exec_induct (P := CountSpec N r0) ?_ (fun go hgo c s => execBody_count hgo c s) fuel c s
  intro c s
  cases c
  case sendNolock => exact fun a hk => K.oof (K.drop hk)
  case sendQuery => exact fun a hk => K.oof (K.drop hk)
  case probe => exact fun a hk => K.oof (K.drop hk)
  all_goals exact fun a hp => K.oof (PreZ.k hp)

/-- the run of one `ares_send_nolock` on a channel without compound requests: at most `snBudget` queries, plus two
    for every request a callback reaction started meanwhile -/
theorem exec_sendNolock_count (fuel : Nat) (rs : Option Nat) (nc nr : Bool) (spec : ReqSpec) (owner : Owner)
    (react : List Nat) (s : St) (hc : s.clients = []) :
    let r := (exec fuel (.sendNolock rs nc nr spec owner react) s).1
    r.clients = [] ∧ r.nextKey + 2 * s.reactSeq ≤ s.nextKey + snBudget rs + 2 * r.reactSeq := by
  have h := exec_count (s.nextKey + snBudget rs) s.reactSeq fuel (.sendNolock rs nc nr spec owner react) s 0
    ⟨hc, by omega⟩
  exact ⟨h.1, by have := h.2; omega⟩

end Cares.Chan
