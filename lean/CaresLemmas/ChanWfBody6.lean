import CaresLemmas.ChanWfBody5
/-!
# C01 — body lemmas VI: `clientStart`, `runActs`
-/
namespace Cares.Chan

/-- the procedure acts for a compound request that did not exist at entry: no exception is visible -/
theorem StepS.drop_xi_fresh {xf d} {a b : Sk} {id : Nat} (h : StepS xf (some id) d a b) (hf : a.nextClient ≤ id) :
    StepS xf none d a b :=
  ⟨h.faults, h.kMono, h.keyMono, h.idxNew, h.unl,
    fun i hi _ hn => h.orphan i hi (fun he => by have := Option.some.inj he; omega) hn, h.debtAlive, h.prog⟩

theorem sk_addClient_st (s : St) (c : Client) :
    ({ s with clients := s.clients ++ [c], nextClient := s.nextClient + 1 } : St).sk = s.sk.addClient c.sk := by
  unfold St.sk Sk.addClient
  simp only [List.map_append, List.map_cons, List.map_nil]

theorem sk_dropClient_st (s : St) (id : Nat) :
    ({ s with clients := s.clients.filter (·.id != id) } : St).sk = s.sk.dropClient id := by
  unfold St.sk Sk.dropClient
  simp only [Sk.mk.injEq, true_and, and_true, List.filter_map]
  rfl

/-! ### `clientStart` -/

theorem good_clientStart {go} (hgo : GoOk go) {d kind tok react spec family s}
    (hpre : Pre d s (.clientStart kind tok react spec family)) :
    GoodO d (.clientStart kind tok react spec family) s (bodyClientStart go kind tok react spec family s) := by
  obtain ⟨hw, hof, hd⟩ := hpre
  unfold bodyClientStart
  simp only
  have hk := clientStart_ok s.cfg s.nextClient kind tok react spec family
  generalize clientStart s.cfg s.nextClient kind tok react spec family = r at hk ⊢
  obtain ⟨c, acts⟩ := r
  obtain ⟨k1, k2, k3⟩ := hk
  simp only at k1 k2 k3
  have hsk1 := sk_addClient_st s c
  generalize ({ s with clients := s.clients ++ [c], nextClient := s.nextClient + 1 } : St) = s1 at hsk1 ⊢
  have hid : c.sk.id = s.sk.nextClient := k1
  have htok : c.sk.tok = tok := k2
  have hw1 : Wf s1 := by
    unfold Wf; rw [hsk1]
    exact wf_addClient hw hid (by rw [htok]; exact hof.1) (by rw [htok]; exact hof.2.1) (by rw [htok]; exact hof.2.2)
  have hact : s1.sk.Active s.nextClient := by
    rw [hsk1]
    exact ⟨c.sk, List.mem_append.mpr (Or.inr (List.mem_singleton.mpr rfl)), hid, by rw [htok]; exact hof.1⟩
  have hfr : d s.nextClient = 0 := hd.fresh _ (Nat.le_refl _)
  have hpre1 : Pre d s1 (.runActs s.nextClient acts) := by
    refine ⟨hw1, ?_⟩
    split
    · rename_i hf
      rw [if_pos hf] at k3
      refine ⟨hact, k3, ?_, hfr, ?_⟩
      · rw [hsk1]; exact noSub_fresh hw (Nat.le_refl _)
      · rw [hsk1]
        refine debt_addClient hw hd hid (fun _ _ => rfl) (fun i hi => hd.fresh i (by show s.nextClient ≤ i; change s.nextClient + 1 ≤ i at hi; omega)) ?_
        intro hx; rw [hid] at hx; exact absurd rfl hx
    · rename_i hf
      rw [if_neg hf] at k3
      refine ⟨?_, fun _ => hact⟩
      rw [hsk1]
      refine debt_addClient hw hd hid (fun i hi => bump_ne _ _ (by rw [hid] at hi; exact hi)) ?_ ?_
      · intro i hi
        change s.nextClient + 1 ≤ i at hi
        rw [bump_ne _ _ (by omega)]
        exact hd.fresh i (by show s.nextClient ≤ i; omega)
      · intro _
        rw [hid]
        show c.outstanding = bump d s.nextClient (sends acts) s.nextClient
        rw [bump_self, hfr, k3]; omega
  rcases hgo.2 d (.runActs s.nextClient acts) s1 hpre1 with hoof | hg
  · exact Or.inl hoof
  refine Or.inr ⟨hg.wf, hg.debt, ?_, trivial⟩
  have h1 : StepS none (some s.nextClient) d s.sk s1.sk := by rw [hsk1]; exact step_addClient
  exact (h1.trans hg.step).drop_xi_fresh (Nat.le_refl _)

/-! ### `runActs` -/

/-- one `.send` / `.sendSlot` action followed by the rest of the list -/
theorem runActs_send {go} (hgo : GoOk go) {d id spec rest s}
    (hw : Wf s) (hf : hasFinish rest = false)
    (hd : DebtOk none (bump d id (sends rest + 1)) s.sk) (ha : s.sk.Active id)
    (post : St → Ret → St) (hpost : ∀ s' r, (post s' r).sk = s'.sk) :
    let r1 := go (.sendNolock none false false spec (.client id) []) s
    let s1 := post r1.1 r1.2
    r1.1.outOfFuel = true ∨ (Wf s1 ∧ Pre d s1 (.runActs id rest) ∧ StepS none (some id) d s.sk s1.sk) := by
  intro r1 s1
  rcases hgo.2 (bump d id (sends rest)) (.sendNolock none false false spec (.client id) []) s
    ⟨hw, ha, by show DebtOk none (bump (bump d id (sends rest)) id 1) s.sk; rw [bump_bump]; exact hd⟩
    with hoof | hg1
  · exact Or.inl hoof
  right
  have hsk : s1.sk = r1.1.sk := hpost _ _
  have hw1 : Wf s1 := Wf.of_sk_eq hsk hg1.wf
  refine ⟨hw1, ⟨hw1, ?_⟩, ?_⟩
  · rw [hf]
    simp only [Bool.false_eq_true, ↓reduceIte]
    rw [hsk]
    refine ⟨hg1.debt, fun hpos => hg1.step.debtAlive id ha ?_⟩
    rw [bump_self]; omega
  · rw [hsk]
    exact hg1.step.weaken (Or.inl rfl) (Or.inr rfl) (fun i => le_bump d id _ i)

theorem good_runActs {go} (hgo : GoOk go) {d id acts s} (hpre : Pre d s (.runActs id acts)) :
    GoodO d (.runActs id acts) s (bodyRunActs go id acts s) := by
  obtain ⟨hw, hpre⟩ := hpre
  unfold bodyRunActs
  split
  · -- []
    simp only [hasFinish, sends, Bool.false_eq_true, ↓reduceIte, bump_zero] at hpre
    exact Good.of_sk_eq hw hpre.1 rfl trivial
  · -- send
    rename_i spec rest
    by_cases hf : hasFinish rest = true
    · simp only [hasFinish, hf, ↓reduceIte, sends] at hpre
      omega
    · have hf' : hasFinish rest = false := by simpa using hf
      simp only [hasFinish, hf', Bool.false_eq_true, ↓reduceIte, sends] at hpre
      rcases runActs_send hgo (spec := spec) hw hf' hpre.1 (hpre.2 (by omega))
        (fun s' _ => s') (fun _ _ => rfl) with hoof | ⟨h1, hp1, hs1⟩
      · exact Or.inl (hgo.1 _ _ hoof)
      simp only at h1 hp1 hs1 ⊢
      rcases hgo.2 d (.runActs id rest) _ hp1 with hoof2 | hg2
      · exact Or.inl hoof2
      exact Or.inr ⟨hg2.wf, hg2.debt, hs1.trans hg2.step, trivial⟩
  · -- sendSlot
    rename_i spec slot rest
    by_cases hf : hasFinish rest = true
    · simp only [hasFinish, hf, ↓reduceIte, sends] at hpre
      omega
    · have hf' : hasFinish rest = false := by simpa using hf
      simp only [hasFinish, hf', Bool.false_eq_true, ↓reduceIte, sends] at hpre
      rcases runActs_send hgo (spec := spec) hw hf' hpre.1 (hpre.2 (by omega))
        (fun s' st => if st == .ok && s'.byQid.any (·.1 == (genQid 70000 s).1) then s'.modClient id fun c =>
          if slot == 0 then { c with qidA := (genQid 70000 s).1 } else { c with qidAAAA := (genQid 70000 s).1 } else s')
        (fun s' st => by
          split
          · apply sk_modClient
            intro c _
            exact sk_setQid c (slot == 0) (genQid 70000 s).1
          · rfl) with hoof | ⟨h1, hp1, hs1⟩
      · refine Or.inl (hgo.1 _ _ ?_)
        split
        · simpa using hoof
        · exact hoof
      simp only at h1 hp1 hs1 ⊢
      rcases hgo.2 d (.runActs id rest) _ hp1 with hoof2 | hg2
      · exact Or.inl hoof2
      exact Or.inr ⟨hg2.wf, hg2.debt, hs1.trans hg2.step, trivial⟩
  · -- noRetry
    rename_i qid rest
    simp only [hasFinish, sends] at hpre
    have key : ∀ s1 : St, s1.sk = s.sk →
        GoodO d (.runActs id (.noRetry qid :: rest)) s (go (.runActs id rest) s1) := by
      intro s1 h1
      refine Good.tail' (hgo.2 d _ _ ⟨Wf.of_sk_eq h1 hw, ?_⟩) (by rw [h1]; exact StepS.refl _ _ _ _) (Or.inl rfl)
        (Or.inr rfl) (fun _ => trivial)
      rw [h1]; exact hpre
    split
    · exact key _ (by rw [sk_modQuery_same]; intro; rfl)
    · exact key _ rfl
  · -- finish
    rename_i st timeouts dg rest
    simp only [hasFinish, ↓reduceIte] at hpre
    obtain ⟨ha, _, hns, hz, hd⟩ := hpre
    obtain ⟨c0, hc0, hid0, hm0, hp0, _⟩ := client?_of_active hw ha
    simp only [hc0]
    have hlt : id < s.sk.nextClient := by have := hw.k.lt c0.sk hm0; rw [← hid0]; exact this
    have hg := hgo.2 d (.userCb c0.tok c0.react st timeouts dg) s
      ⟨hw, ⟨some id, hd, fun c hc he => by
          have hci : c.id = id := Option.some.inj he
          have h1 := hw.tok.tKU c0.sk hm0 c hc
          -- both records have id `id`, hence are the same record
          have : c = c0.sk := eq_of_nodup_map (·.id) s.sk.clients hw.k.nodup c hc c0.sk hm0 (by rw [hci]; exact hid0.symm)
          rw [this]; rfl⟩,
        hp0, fun p hp hpi ho => by
          have := (hw.tok.tQ p hp hpi _ ho).2.2 c0.sk hm0
          exact this rfl,
        fun c hc he => by
          have hci : c0.sk.id = c.id := hw.tok.tKU c0.sk hm0 c hc he.symm hp0
          have : c.id = id := by rw [← hci]; exact hid0
          rw [this]; exact ⟨hns, hz⟩⟩
    generalize go (.userCb c0.tok c0.react st timeouts dg) s = r1 at hg
    obtain ⟨s1, ret1⟩ := r1
    rcases hg with hoof | hg
    · exact Or.inl hoof
    right
    have hns1 : s1.sk.NoSub id := hg.step.orphan id hlt (fun he => by cases he) hns
    have hsk2 := sk_dropClient_st s1 id
    refine ⟨?_, ?_, ?_, trivial⟩
    · show Wf _
      unfold Wf; rw [hsk2]; exact wf_dropClient hg.wf hns1
    · show DebtOk none d _
      rw [hsk2]; exact debt_dropClient hg.debt
    · show StepS none (some id) d s.sk _
      rw [hsk2]
      exact hg.step.weaken'.trans (step_dropClient hz)

end Cares.Chan
