import CaresModel.Dns.NameWrite
/-!
# Name layer of the writer: presentation text ↔ labels

* `splitRun_append`, `splitRun_frame`: the byte-at-a-time splitter composes over `++` and does not look at
  the labels already finished;
* `split_escape`: splitting the text the parser prints for a label list gives the labels back
  (`unescape (escape ls) = ls`);
* `splitRaw_mono`: the host-name check only rejects, it never changes labels;
* `splitRaw_append_dot`: labels of `p ++ "." ++ m` are labels of `p` followed by labels of `m`.
-/
namespace Cares.Dns.NameW
open Cares.Dns

/-! ## the machine over `++` -/

theorem splitRun_append (v : Bool) (s : SplitSt) (a b : BStr) :
    splitRun v s (a ++ b) =
      (match splitRun v s a with | .ok s' => splitRun v s' b | .error e => .error e) := by
  induction a generalizing s with
  | nil => simp [splitRun]
  | cons c rest ih =>
    simp only [List.cons_append, splitRun]
    cases splitStep v s c with
    | error e => rfl
    | ok s' => exact ih s'

/-- prepend finished labels -/
def SplitSt.shift (D : List BStr) (s : SplitSt) : SplitSt := { s with done := D ++ s.done }

theorem splitStep_shift (v : Bool) (D : List BStr) (s : SplitSt) (c : UInt8) :
    splitStep v (s.shift D) c = (splitStep v s c).map (·.shift D) := by
  obtain ⟨d, cu, e⟩ := s
  cases e <;> simp only [splitStep, SplitSt.shift] <;> (repeat' split) <;>
    simp [Except.map, List.append_assoc]

theorem splitRun_shift (v : Bool) (D : List BStr) (s : SplitSt) (a : BStr) :
    splitRun v (s.shift D) a = (splitRun v s a).map (·.shift D) := by
  induction a generalizing s with
  | nil => simp [splitRun, Except.map]
  | cons c rest ih =>
    simp only [splitRun, splitStep_shift]
    cases splitStep v s c with
    | error e => simp [Except.map]
    | ok s' => simpa [Except.map] using ih s'

/-! ## escape, then split -/

theorem digit_facts : ∀ k, k < 10 → isDigit (digit k) = true ∧ (digit k).toNat - 48 = k := by decide

theorem ofNat_toNat_lt : ∀ n, n < 256 → (UInt8.ofNat n).toNat = n := by
  intro n h; simp [UInt8.toNat_ofNat']; omega

theorem reserved_not_digit (c : UInt8) (h : isReservedCh c = true) : isDigit c = false := by
  simp only [isReservedCh, Bool.or_eq_true, decide_eq_true_eq] at h
  simp only [isDigit, Bool.and_eq_false_iff, decide_eq_false_iff_not]
  omega

theorem not_reserved_ne (c : UInt8) (h : isReservedCh c = false) : c ≠ dot ∧ c ≠ backslash := by
  simp only [isReservedCh, Bool.or_eq_false_iff, decide_eq_false_iff_not] at h
  constructor <;> intro hc <;> subst hc <;> simp [dot, backslash] at h

theorem splitRun_escapeByte (d : List BStr) (cu : BStr) (c : UInt8) :
    splitRun false ⟨d, cu, .none⟩ (escapeByte c) = .ok ⟨d, cu ++ [c], .none⟩ := by
  unfold escapeByte
  split
  · -- \DDD
    have hn : c.toNat < 256 := c.toNat_lt
    obtain ⟨h1, e1⟩ := digit_facts (c.toNat / 100) (by omega)
    obtain ⟨h2, e2⟩ := digit_facts (c.toNat % 100 / 10) (by omega)
    obtain ⟨h3, e3⟩ := digit_facts (c.toNat % 10) (by omega)
    have hv : c.toNat / 100 * 10 * 10 + c.toNat % 100 / 10 * 10 + c.toNat % 10 = c.toNat := by omega
    have hb : backslash ≠ dot := by decide
    simp only [splitRun, splitStep, hb, ↓reduceIte, h1, h2, h3, e1, e2, e3, Bool.false_and]
    have hv' : (c.toNat / 100 * 10 + c.toNat % 100 / 10) * 10 + c.toNat % 10 = c.toNat := by omega
    simp only [hv', show ¬ c.toNat > 255 by omega, ↓reduceIte, UInt8.ofNat_toNat]
    rfl
  · split
    · -- \X
      rename_i hr
      have hb : backslash ≠ dot := by decide
      have hd := reserved_not_digit c hr
      simp [splitRun, splitStep, hb, hd]
    · rename_i hr
      obtain ⟨h1, h2⟩ := not_reserved_ne c (by simpa using hr)
      simp [splitRun, splitStep, h1, h2]

theorem splitRun_escapeLabel (d : List BStr) (cu l : BStr) :
    splitRun false ⟨d, cu, .none⟩ (escapeLabel l) = .ok ⟨d, cu ++ l, .none⟩ := by
  induction l generalizing cu with
  | nil => simp [escapeLabel, splitRun]
  | cons c rest ih =>
    have : escapeLabel (c :: rest) = escapeByte c ++ escapeLabel rest := by simp [escapeLabel]
    rw [this, splitRun_append, splitRun_escapeByte]
    simp only [ih, List.append_assoc, List.singleton_append]

theorem splitRun_escapeName (l : BStr) (rest : List BStr) (d : List BStr) (cu : BStr) :
    ∃ d' cu', splitRun false ⟨d, cu, .none⟩ (escapeName (l :: rest)) = .ok ⟨d', cu', .none⟩ ∧
      d' ++ [cu'] = d ++ (cu ++ l) :: rest := by
  induction rest generalizing l d cu with
  | nil => exact ⟨d, cu ++ l, by simp [escapeName, splitRun_escapeLabel], rfl⟩
  | cons l2 rest ih =>
    obtain ⟨d', cu', h1, h2⟩ := ih l2 (d ++ [cu ++ l]) []
    refine ⟨d', cu', ?_, by simpa using h2⟩
    have hd : dot ≠ backslash := by decide
    simp only [escapeName, splitRun_append, splitRun_escapeLabel, splitRun, splitStep, ↓reduceIte]
    exact h1

/-- `splitRaw` undoes `escapeName` (for a non-empty label list; the root is the empty text) -/
theorem splitRaw_escapeName (ls : List BStr) (h : ls ≠ []) : splitRaw false (escapeName ls) = .ok ls := by
  obtain ⟨l, rest, rfl⟩ := List.exists_cons_of_ne_nil h
  obtain ⟨d', cu', h1, h2⟩ := splitRun_escapeName l rest [] []
  simp only [splitRaw, SplitSt.init, h1, ↓reduceIte]
  simpa using h2

theorem trimLabels_of_nonempty (ls : List BStr) (h : ∀ l ∈ ls, l ≠ []) : trimLabels ls = ls := by
  unfold trimLabels
  have h1 : ls.getLast? ≠ some [] := by
    intro hc
    exact h [] (List.mem_of_getLast? hc) rfl
  simp only [h1, ↓reduceIte]
  split
  · rename_i h2
    exact absurd rfl (h [] (by simp [h2]))
  · rfl

theorem labelsOk_nonempty (ls : List BStr) (h : labelsOk ls = true) : ∀ l ∈ ls, l ≠ [] := by
  intro l hl hc
  simp only [labelsOk, Bool.and_eq_true, List.all_eq_true] at h
  have := h.1 l hl
  simp [hc] at this

/-- **`unescape (escape ls) = ls`**: splitting the text the parser prints for a legal label list returns
    exactly those labels -/
theorem split_escape (ls : List BStr) (h : labelsOk ls = true) :
    splitDnsName false (escapeName ls) = .ok ls := by
  by_cases hn : ls = []
  · subst hn; rfl
  · simp only [splitDnsName, splitRaw_escapeName ls hn, ↓reduceIte,
      trimLabels_of_nonempty ls (labelsOk_nonempty ls h), h]

/-! ## the host-name check only rejects -/

theorem splitStep_mono (s s' : SplitSt) (c : UInt8) (h : splitStep true s c = .ok s') :
    splitStep false s c = .ok s' := by
  obtain ⟨d, cu, e⟩ := s
  cases e <;> simp only [splitStep, Bool.true_and, Bool.false_and] at h ⊢ <;>
    (repeat' split at h) <;> simp_all

theorem splitRun_mono (s s' : SplitSt) (a : BStr) (h : splitRun true s a = .ok s') :
    splitRun false s a = .ok s' := by
  induction a generalizing s with
  | nil => simpa [splitRun] using h
  | cons c rest ih =>
    simp only [splitRun] at h ⊢
    cases hs : splitStep true s c with
    | error e => simp [hs] at h
    | ok s1 =>
      rw [hs] at h
      rw [splitStep_mono s s1 c hs]
      exact ih s1 h

theorem splitRaw_mono (v : Bool) (n : BStr) (ls : List BStr) (h : splitRaw v n = .ok ls) :
    splitRaw false n = .ok ls := by
  cases v with
  | false => exact h
  | true =>
    unfold splitRaw at h ⊢
    cases hr : splitRun true .init n with
    | error e => simp [hr] at h
    | ok s => rw [hr] at h; rw [splitRun_mono _ _ _ hr]; exact h

theorem splitDnsName_mono (v ic : Bool) (n : BStr) (ls : List BStr) (h : splitDnsName v n ic = .ok ls) :
    splitDnsName false n ic = .ok ls := by
  unfold splitDnsName at h ⊢
  cases hr : splitRaw v n with
  | error e => simp [hr] at h
  | ok r => rw [hr] at h; rw [splitRaw_mono v n r hr]; exact h

/-! ## labels of `p ++ "." ++ m` -/

theorem splitRaw_ok_iff (v : Bool) (n : BStr) (ls : List BStr) :
    splitRaw v n = .ok ls ↔ ∃ s, splitRun v .init n = .ok s ∧ s.esc = .none ∧ ls = s.done ++ [s.cur] := by
  unfold splitRaw
  cases hr : splitRun v .init n with
  | error e => simp
  | ok s =>
    by_cases he : s.esc = .none
    · simp only [he, ↓reduceIte, Except.ok.injEq]
      constructor
      · intro h; exact ⟨s, rfl, he, h.symm⟩
      · rintro ⟨s2, h1, _, h3⟩; cases h1; exact h3.symm
    · simp only [he, ↓reduceIte]
      constructor
      · intro h; cases h
      · rintro ⟨s2, h1, h2, _⟩; cases h1; exact absurd h2 he

/-- raw labels of a text with an unescaped separator in the middle: the dot is reached in the normal
    state exactly when the part in front of it is a complete text of its own -/
theorem splitRaw_append_dot (p m : BStr) (rp rm : List BStr)
    (hp : splitRaw false p = .ok rp) (hm : splitRaw false m = .ok rm) :
    splitRaw false (p ++ dot :: m) = .ok (rp ++ rm) := by
  obtain ⟨sp, h1, h2, h3⟩ := (splitRaw_ok_iff _ _ _).1 hp
  obtain ⟨sm, g1, g2, g3⟩ := (splitRaw_ok_iff _ _ _).1 hm
  refine (splitRaw_ok_iff _ _ _).2 ⟨sm.shift rp, ?_, g2, ?_⟩
  · rw [splitRun_append, h1]
    obtain ⟨d, cu, e⟩ := sp
    simp only at h2 h3
    subst h2
    simp only [splitRun, splitStep, ↓reduceIte]
    have : (⟨d ++ [cu], [], Esc.none⟩ : SplitSt) = SplitSt.init.shift rp := by
      simp [SplitSt.shift, SplitSt.init, h3]
    rw [this, splitRun_shift, g1]
    rfl
  · simp [SplitSt.shift, g3, List.append_assoc]

end Cares.Dns.NameW
