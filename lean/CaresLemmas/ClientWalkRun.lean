import CaresLemmas.ClientWalkGaiSim
/-! Whole client runs (`clientStart`, then the completions) against `searchWalk` / `gaiWalk` of model (A). -/
namespace Cares.ClientWalk
open Cares.Chan Cares.Text Cares.Proto

theorem nameList_ne_nil (c : Config) (name : Name) (l : List Name) (h : nameList c name = .ok l) : l ≠ [] := by
  unfold nameList at h
  split at h
  · simp only [Except.ok.injEq] at h; subst h; simp
  · split at h
    · simp only [Except.ok.injEq] at h; subst h; simp
    · simp only [Except.ok.injEq] at h
      subst h
      by_cases hd : Cares.Proto.labelCnt name - 1 ≥ c.ndots
      · simp [hd]
      · have : Cares.Proto.labelCnt name - 1 < c.ndots := by omega
        simp [this]
  · simp at h

/-- `ares_search` through the channel model's client = `searchWalk` of model (A) -/
theorem search_run (cfg : Cfg) (c : Config) (hm : CfgMatches cfg c) (name : Name) (hs : Ser name)
    (hal : lookupHostaliases c.noAliases c.aliases name = .error .enotfound)
    (honion : isOnion (hex name) = false)
    (id tok : Nat) (react : List Nat) (spec : ReqSpec) (hspec : spec.name = hex name) (fam : Nat) (evs : List Ev) :
    (clientRun cfg id "search" tok react spec fam evs).sent =
        tagNames spec.qtype (searchWalk c name (evs.map searchOutcome)).1 ∧
    (clientRun cfg id "search" tok react spec fam evs).fin.map (fun f => stMap f.1) =
        if (searchWalk c name (evs.map searchOutcome)).1.length ≤ evs.length
        then some (searchWalk c name (evs.map searchOutcome)).2 else none := by
  obtain ⟨names, hnl, hsn, hser⟩ := searchNames_hex cfg c hm name hs hal
  have hne := nameList_ne_nil c name names hnl
  obtain ⟨cand, rest, rfl⟩ := List.exists_cons_of_ne_nil hne
  unfold clientRun clientStart searchWalk
  simp only [kind_search_ne, Bool.false_eq_true, ↓reduceIte, hspec, honion, hsn, hnl, List.map_cons, searchNextAct,
    applyActs]
  have := search_sim cfg spec.qtype rest cand
    { id := id, kind := "search", tok := tok, react := react, qtype := spec.qtype, qclass := spec.qclass,
      rd := spec.rd, edns := spec.edns, names := rest.map hex, lastName := hex cand } false evs [] (hser cand (by simp))
    (fun n hn => hser n (by simp [hn])) ⟨rfl, rfl, rfl, rfl, rfl⟩
  simpa using this

/-- the lookup order starts (after hosts-file entries) with DNS -/
def DnsFirst (cfg : Cfg) : Prop := ∃ k lr, k ≤ 7 ∧ cfg.lookups.toList = List.replicate k 'f' ++ 'b' :: lr

/-- the DNS part of `ares_getaddrinfo` through the channel model's client = `gaiWalk` of model (A);
    `grps` are the completions grouped by candidate (`famCount fam` each), `tail` an incomplete group -/
theorem gai_run (cfg : Cfg) (c : Config) (hm : CfgMatches cfg c) (name : Name) (hs : Ser name)
    (hal : lookupHostaliases c.noAliases c.aliases name = .error .enotfound)
    (fam : Nat) (hfam : fam = 0 ∨ fam = 2 ∨ fam = 10)
    (honion : isOnion (hex name) = false) (hlit : isV4Literal (hex name) = false)
    (hloc : isLocalhost (hex name) = false) (hdns : DnsFirst cfg)
    (id tok : Nat) (react : List Nat) (spec : ReqSpec) (hspec : spec.name = hex name)
    (grps : List (List Ev)) (tail : List Ev)
    (hlen : ∀ g ∈ grps, g.length = famCount fam) (htail : tail.length < famCount fam) :
    (clientRun cfg id "gai" tok react spec fam (grps.flatten ++ tail)).sent =
        tagFam fam (gaiWalk c name (grps.map grpOutcome)).1 ∧
    (clientRun cfg id "gai" tok react spec fam (grps.flatten ++ tail)).fin.map (fun f => stMap f.1) =
        (if (gaiWalk c name (grps.map grpOutcome)).1.length ≤ grps.length
         then some (gaiWalk c name (grps.map grpOutcome)).2 else none) ∧
    (∀ f, (clientRun cfg id "gai" tok react spec fam (grps.flatten ++ tail)).fin = some f →
        FinOk f (grps.getD ((gaiWalk c name (grps.map grpOutcome)).1.length - 1) [])) := by
  obtain ⟨names, hnl, hsn, hser⟩ := searchNames_hex cfg c hm name hs hal
  have hne := nameList_ne_nil c name names hnl
  obtain ⟨cand, rest, rfl⟩ := List.exists_cons_of_ne_nil hne
  obtain ⟨k, lr, hk, hlook⟩ := hdns
  have hf : (fam != 0 && fam != 2 && fam != 10) = false := by
    rcases hfam with rfl | rfl | rfl <;> rfl
  unfold clientRun clientStart gaiStart gaiWalk
  simp only [beq_self_eq_true, ↓reduceIte, hf, Bool.false_eq_true, hspec, honion, hlit, hsn, hnl, gaiLoop_eq _ hne]
  rw [show (8 : Nat) = (7 - k + 1) + k by omega,
    gaiNextLookup_skip_f cfg k (7 - k + 1) _ .connrefused ('b' :: lr) hlook]
  obtain ⟨c', acts, hnlk, hacts, h1, h2, h3, h4, h5, h6, h7, h8, h9, h10⟩ :=
    gaiNextLookup_dns cfg (7 - k)
      { id := id, kind := "gai", tok := tok, react := react, name := hex name, family := fam,
        lookups := 'b' :: lr, names := (cand :: rest).map hex }
      .connrefused lr (hex cand) (rest.map hex) rfl hloc rfl
  rw [hnlk]
  simp only [hacts]
  have := gai_sim cfg (hex name) fam lr hloc rest cand c' false grps tail [] (hser cand (by simp))
    (fun n hn => hser n (by simp [hn]))
    ⟨by rw [h4], h1, h2, by rw [h5], by rw [h6], by rw [h7], by rw [h8]; rfl, by rw [h3]; simp, by rw [h9],
      by rw [h10]⟩
    hlen htail
  simpa using this

/-! ### the digest of the finishing candidate -/

/-- rendering of an address list by the `gai` client's user callback (`gaiDigest`); no address: `"ai="` -/
def addrDigest (nodes : List String) (ai : String) : String :=
  if nodes.isEmpty then "ai="
  else "ai=" ++ String.join (nodes.map (· ++ ";")) ++ (if ai == "" then "" else "name=" ++ hexToText ai)

theorem candOut_cancel (nodes : List String) (ai : String) (e : Ev)
    (h : effSt e.st e.reply = .cancelled ∨ effSt e.st e.reply = .destruction) :
    candOut nodes e = effSt e.st e.reply ∧ candDigest nodes ai e = "ai=" := by
  unfold candOut candDigest
  rcases h with h | h <;> simp [h]

theorem candDigest_of_ok (nodes : List String) (ai : String) (e : Ev) (h : candOut nodes e = .ok) :
    candDigest nodes ai e = addrDigest nodes ai := by
  unfold candOut at h
  unfold candDigest addrDigest
  split at h
  · rename_i hc
    simp only [Bool.or_eq_true, beq_iff_eq] at hc
    rcases hc with hc | hc <;> rw [hc] at h <;> simp at h
  · rename_i hc
    simp only [hc, Bool.false_eq_true, ↓reduceIte]
    cases nodes <;> simp

theorem candDigest_of_ne_ok (nodes : List String) (ai : String) (e : Ev) (h : candOut nodes e ≠ .ok) :
    candDigest nodes ai e = "ai=" := by
  unfold candOut at h
  unfold candDigest
  split
  · rfl
  · rename_i hc
    simp only [hc, Bool.false_eq_true, ↓reduceIte] at h
    cases nodes with
    | nil => rfl
    | cons a l => simp at h

theorem grpDigest_of_ok (win : List Ev) (h : grpStatus win = .ok) :
    grpDigest win = addrDigest (grpNodes win) (grpAiName win) := by
  unfold grpStatus at h
  unfold grpDigest
  cases he : win.getLast? with
  | none => rw [he] at h; simp at h
  | some e => rw [he] at h; exact candDigest_of_ok _ _ e h

theorem grpDigest_of_ne_ok (win : List Ev) (h : grpStatus win ≠ .ok) : grpDigest win = "ai=" := by
  unfold grpStatus at h
  unfold grpDigest
  cases he : win.getLast? with
  | none => rfl
  | some e => rw [he] at h; exact candDigest_of_ne_ok _ _ e h

/-! ### evaluating concrete `gai` runs (the kernel cannot evaluate `String.splitOn` of `isV4Literal`) -/

theorem gai_run_eval (cfg : Cfg) (id tok : Nat) (react : List Nat) (spec : ReqSpec) (fam : Nat) (evs : List Ev)
    (hf : (fam != 0 && fam != 2 && fam != 10) = false) (ho : isOnion spec.name = false)
    (hl : isV4Literal spec.name = false) :
    clientRun cfg id "gai" tok react spec fam evs =
      (let r := gaiNextLookup cfg 8
        { id := id, kind := "gai", tok := tok, react := react, name := spec.name, family := fam,
          lookups := cfg.lookups.toList, names := searchNames cfg spec.name } .connrefused
       walkFrom cfg r.1 evs (applyActs r.2 {})) := by
  unfold clientRun clientStart gaiStart
  simp [hf, ho, hl]

theorem split_host : "host".splitOn "." = ["host"] := by
  simp only [String.splitOn, show ("." == "") = false by decide, Bool.false_eq_true, ↓reduceIte]
  repeat (rw [String.splitOnAux]; simp (decide := true))

/-- `host` is not an IPv4 literal -/
theorem host_not_literal : isV4Literal "686f7374" = false := by
  unfold isV4Literal
  rw [show hexToText "686f7374" = "host" by decide +kernel]
  simp only [split_host]
  decide

theorem split_localhost : "localhost".splitOn "." = ["localhost"] := by
  simp only [String.splitOn, show ("." == "") = false by decide, Bool.false_eq_true, ↓reduceIte]
  repeat (rw [String.splitOnAux]; simp (decide := true))

theorem localhost_not_literal : isV4Literal "6c6f63616c686f7374" = false := by
  unfold isV4Literal
  rw [show hexToText "6c6f63616c686f7374" = "localhost" by decide +kernel]
  simp only [split_localhost]
  decide

end Cares.ClientWalk
