import CaresModel.Text.Junk
import CaresLemmas.TextSplit
/-! Helper lemmas for C15: junk lines are no-ops of the line callbacks, the callbacks only return
    success / ENOMEM, and a fold over lines is independent of no-op lines. -/
namespace Cares.Text

theorem foldl_noop {α β} (f : α → β → α) (s : α) (l : List β) (h : ∀ x ∈ l, ∀ a, f a x = a) :
    l.foldl f s = s := by
  induction l generalizing s with
  | nil => rfl
  | cons x xs ih =>
    simp only [List.foldl_cons]
    rw [h x (by simp)]
    exact ih s (fun y hy => h y (by simp [hy]))

theorem processOption_noop (sat : Bool) (s : SysConfig) (o : Bytes) (h : optionNoop o = true) :
    (processOption sat s o).2 = s := by
  unfold optionNoop at h
  unfold processOption
  split
  · rfl
  · rename_i kv hkv
    rw [hkv] at h
    cases kv with
    | nil => rfl
    | cons key rest =>
      simp only at h ⊢
      split at h
      · simp at h
      · split at h
        · rename_i h1 h2
          simp only [h1, Bool.false_eq_true, ↓reduceIte, h2]
          have : optValint rest = 0 := by simpa using h
          simp [this]
        · split at h
          · rename_i h1 h2 h3
            simp only [h1, h2, Bool.false_eq_true, ↓reduceIte, h3]
            have : optValint rest = 0 := by simpa using h
            simp [this]
          · split at h
            · simp at h
            · split at h
              · simp at h
              · rename_i h1 h2 h3 h4 h5
                simp [h1, h2, h3, h4, h5]

theorem setOptions_noop (sat : Bool) (s : SysConfig) (v : Bytes) (hne : v.isEmpty = false)
    (h : (bufSplit [32, 9] SplitFlags.trim 0 v).all optionNoop = true) :
    setOptions sat s v = (.success, s) := by
  unfold setOptions
  simp only [hne, Bool.false_eq_true, ↓reduceIte]
  rw [foldl_noop]
  intro o ho a
  exact processOption_noop sat a o (List.all_eq_true.mp h o ho)

theorem sconfigAppend_blacklisted (ifs : Ifaces) (l : Option (List SConfig)) (a : Addr) (u t : Nat) (i : Bytes)
    (h : isBlacklisted a = true) : sconfigAppend ifs l a u t i = l := by
  simp [sconfigAppend, h]

theorem appendEntry_noop (ifs : Ifaces) (l : Option (List SConfig)) (e : Bytes) (h : serverEntryNoop e = true) :
    appendEntry ifs true (.success, l) e = (.success, l) := by
  unfold serverEntryNoop at h
  unfold appendEntry
  simp only [bne_self_eq_false, Bool.false_eq_true, ↓reduceIte]
  split
  · rename_i s hs
    rw [hs] at h
    simp only at h
    rw [sconfigAppend_blacklisted ifs l s.addr s.udp s.tcp s.iface h]
  · rfl

theorem appendFromStr_noop (ifs : Ifaces) (l : Option (List SConfig)) (v : Bytes) (hne : v.isEmpty = false)
    (h : (bufSplit [32, 44] SplitFlags.none 0 v).all serverEntryNoop = true) :
    appendFromStr ifs l v true = (.success, l) := by
  unfold appendFromStr
  simp only [hne, Bool.false_eq_true, ↓reduceIte]
  have hall := List.all_eq_true.mp h
  generalize bufSplit [32, 44] SplitFlags.none 0 v = es at hall
  induction es with
  | nil => rfl
  | cons e es ih =>
    simp only [List.foldl_cons]
    rw [appendEntry_noop ifs l e (hall e (by simp))]
    exact ih (fun x hx => hall x (by simp [hx]))

theorem configLookup_noop (s : SysConfig) (raw : Bytes) (seps : List Nat)
    (h : (match splitStr seps SplitFlags.trim 0 raw with
          | .error _ => true
          | .ok ws => ws.all (fun w => (lookupLetter w).isNone)) = true) :
    configLookup s raw seps = s := by
  unfold configLookup
  split
  · rfl
  · rename_i words hw
    rw [hw] at h
    simp only at h
    have hall := List.all_eq_true.mp h
    have : words.foldl lookupStep [] = [] := by
      apply foldl_noop
      intro w hw a
      have := hall w hw
      unfold lookupStep
      cases hl : lookupLetter w <;> simp_all
    simp [this]

theorem resolvSplit_value_ne (line option value raw : Bytes) (h : resolvSplit line = some (option, value, raw)) :
    value.isEmpty = false := by
  unfold resolvSplit at h
  split at h
  · simp at h
  · simp at h
  · simp only at h
    split at h
    · simp at h
    · split at h
      · simp at h
      · split at h
        · simp at h
        · split at h
          · simp at h
          · rename_i hv
            simp only [Option.some.injEq, Prod.mk.injEq] at h
            rw [← h.2.1]
            simpa using hv

theorem junk_noop (fixed : Bool) (hfix : fixed = true) (ifs : Ifaces) (s : SysConfig) (line : Bytes)
    (h : isJunk line = true) : resolvLineG fixed ifs s line = (.success, s) := by
  subst hfix
  unfold isJunk at h
  unfold resolvLineG
  split
  · rfl
  · rename_i option value raw hs
    have hne := resolvSplit_value_ne line option value raw hs
    rw [hs] at h
    simp only at h
    unfold resolvApply
    split at h
    · -- domain
      rename_i hd
      simp only [hd, ↓reduceIte]
      split
      · simp [configSearch, h]
      · rfl
    · rename_i hd
      simp only [hd, Bool.false_eq_true, ↓reduceIte]
      split at h
      · rename_i hl
        simp only [hl, ↓reduceIte]
        rw [configLookup_noop s raw [32, 9] (by unfold lookupNoop at h; exact h)]
      · rename_i hl
        simp only [hl, Bool.false_eq_true, ↓reduceIte]
        split at h
        · rename_i hse
          simp only [hse, ↓reduceIte]
          simp [configSearch, h]
        · rename_i hse
          simp only [hse, Bool.false_eq_true, ↓reduceIte]
          split at h
          · rename_i hn
            simp only [hn, ↓reduceIte]
            rw [appendFromStr_noop ifs s.sconfig value hne h]
          · rename_i hn
            simp only [hn, Bool.false_eq_true, ↓reduceIte]
            split at h
            · rename_i hso
              simp only [hso, ↓reduceIte]
              simp only [Bool.and_eq_true, bne_iff_ne, ne_eq, Bool.or_eq_true] at h
              obtain ⟨h1, h2⟩ := h
              have e1 : ((parseSortlist value).1 != Status.enomem) = true := by simpa using h1
              simp only [e1, ↓reduceIte]
              cases h2 with
              | inl h2 =>
                have : ((parseSortlist value).1 == Status.success) = false := by simpa using h2
                simp [this]
              | inr h2 => simp [h2]
            · rename_i hso
              simp only [hso, Bool.false_eq_true, ↓reduceIte]
              split at h
              · rename_i ho
                simp only [ho, ↓reduceIte]
                exact setOptions_noop true s value hne h
              · rename_i ho
                simp [ho]

theorem configSearch_status (s : SysConfig) (v : Bytes) (m : Nat) :
    (configSearch s v m).1 = .success ∨ (configSearch s v m).1 = .enomem := by
  unfold configSearch
  split
  · simp
  · split <;> simp

theorem appendEntry_status (ifs : Ifaces) (acc : Status × Option (List SConfig)) (e : Bytes) (h : acc.1 = .success) :
    (appendEntry ifs true acc e).1 = .success := by
  unfold appendEntry
  simp only [h, bne_self_eq_false, Bool.false_eq_true, ↓reduceIte]
  split <;> simp [h]

theorem foldl_appendEntry_status (ifs : Ifaces) (es : List Bytes) (acc : Status × Option (List SConfig))
    (h : acc.1 = .success) : (es.foldl (appendEntry ifs true) acc).1 = .success := by
  induction es generalizing acc with
  | nil => exact h
  | cons e es ih => exact ih _ (appendEntry_status ifs acc e h)

theorem appendFromStr_status (ifs : Ifaces) (l : Option (List SConfig)) (v : Bytes) :
    (appendFromStr ifs l v true).1 = .success ∨ (appendFromStr ifs l v true).1 = .enomem := by
  unfold appendFromStr
  split
  · simp
  · left; exact foldl_appendEntry_status ifs _ _ rfl

theorem setOptions_status (sat : Bool) (s : SysConfig) (v : Bytes) :
    (setOptions sat s v).1 = .success ∨ (setOptions sat s v).1 = .enomem := by
  unfold setOptions
  split <;> simp

theorem resolvLine_status (ifs : Ifaces) (s : SysConfig) (line : Bytes) :
    (resolvLine ifs s line).1 = .success ∨ (resolvLine ifs s line).1 = .enomem := by
  unfold resolvLine resolvLineG
  split
  · simp
  · rename_i option value raw hs
    unfold resolvApply
    simp only [↓reduceIte]
    split
    · split
      · exact configSearch_status s value 1
      · simp
    · split
      · simp
      · split
        · exact configSearch_status s value 0
        · split
          · exact appendFromStr_status ifs s.sconfig value
          · split
            · by_cases h : (parseSortlist value).1 = .enomem
              · simp [h]
              · have : ((parseSortlist value).1 != Status.enomem) = true := by simpa using h
                simp [this]
            · split
              · exact setOptions_status true s value
              · simp

theorem dbLine_status (sep : Nat) (vseps : List Nat) (s : SysConfig) (line : Bytes) :
    (dbLine sep vseps s line).1 = .success := by
  unfold dbLine
  split
  · rfl
  · split
    · split
      · rfl
      · split <;> rfl
    · rfl

theorem foldLines_append_noop (step : SysConfig → Bytes → Status × SysConfig) (s : SysConfig)
    (junk post : List Bytes) (hj : ∀ l ∈ junk, ∀ a, step a l = (.success, a)) :
    foldLines step s (junk ++ post) = foldLines step s post := by
  induction junk with
  | nil => rfl
  | cons j js ih =>
    simp only [List.cons_append, foldLines]
    rw [hj j (by simp)]
    simp only [bne_self_eq_false, Bool.false_eq_true, ↓reduceIte]
    exact ih (fun l hl => hj l (by simp [hl]))

theorem foldLines_independence (step : SysConfig → Bytes → Status × SysConfig) (s : SysConfig)
    (pre junk post : List Bytes) (hj : ∀ l ∈ junk, ∀ a, step a l = (.success, a)) :
    foldLines step s (pre ++ junk ++ post) = foldLines step s (pre ++ post) := by
  induction pre generalizing s with
  | nil => simpa using foldLines_append_noop step s junk post hj
  | cons p ps ih =>
    simp only [List.cons_append, foldLines]
    split
    · rfl
    · exact ih _

theorem foldLines_status (step : SysConfig → Bytes → Status × SysConfig) (P : Status → Prop) (hP : P .success)
    (hs : ∀ a l, P (step a l).1) (s : SysConfig) (ls : List Bytes) : P (foldLines step s ls).1 := by
  induction ls generalizing s with
  | nil => exact hP
  | cons l ls ih =>
    simp only [foldLines]
    split
    · exact hs s l
    · exact ih _

theorem dbJunk_noop (sep : Nat) (vseps : List Nat) (s : SysConfig) (line : Bytes) (h : dbJunk sep vseps line = true) :
    dbLine sep vseps s line = (.success, s) := by
  unfold dbJunk at h
  unfold dbLine
  split
  · rfl
  · rename_i hl
    split at h
    · exact absurd rfl (hl _ )
    · split
      · rename_i k v hkv
        rw [hkv] at h
        simp only at h
        split
        · rfl
        · rename_i option ho
          rw [ho] at h
          simp only at h
          split
          · rename_i hh
            simp only [hh, ↓reduceIte] at h
            rw [configLookup_noop s v vseps h]
          · rfl
      · rfl

theorem hostsStep_junk (hf : HostsFile) (l : Bytes) (h : hostsJunk l = true) : hostsStep hf l = hf := by
  unfold hostsJunk at h
  unfold hostsStep
  cases hl : hostsLine l with
  | none => rfl
  | some e => simp [hl] at h

theorem foldl_append_noop {α β} (f : α → β → α) (s : α) (junk post : List β) (h : ∀ x ∈ junk, ∀ a, f a x = a) :
    (junk ++ post).foldl f s = post.foldl f s := by
  rw [List.foldl_append, foldl_noop f s junk h]

theorem parseHosts_independence (pre junk post : Bytes)
    (hj : ∀ l ∈ rawSplit (· == 10) junk, hostsJunk l = true) :
    parseHosts (pre ++ 10 :: (junk ++ 10 :: post)) = parseHosts (pre ++ 10 :: post) := by
  unfold parseHosts
  rw [rawSplit_append (· == 10) pre _ 10 (by simp), rawSplit_append (· == 10) junk post 10 (by simp),
      rawSplit_append (· == 10) pre post 10 (by simp)]
  simp only [List.foldl_append]
  rw [foldl_noop hostsStep _ _ (fun x hx a => hostsStep_junk a x (hj x hx))]

theorem aliasJunk_none (name l : Bytes) (h : aliasJunk l = true) : aliasLine name l = none := by
  unfold aliasJunk at h
  unfold aliasLine
  simp only at h ⊢
  split
  · rfl
  · rename_i hh hfe
    rw [hfe] at h
    simp only at h
    split
    · rfl
    · split
      · rfl
      · rename_i f hf
        rw [hf] at h
        simp only [Bool.or_eq_true, Bool.not_eq_eq_eq_not, Bool.not_true] at h
        cases h with
        | inl h => simp [h]
        | inr h => simp [h]

theorem findSome?_junk {α β} (f : α → Option β) (pre junk post : List α) (h : ∀ x ∈ junk, f x = none) :
    (pre ++ junk ++ post).findSome? f = (pre ++ post).findSome? f := by
  simp only [List.findSome?_append]
  have : junk.findSome? f = none := by
    rw [List.findSome?_eq_none_iff]; exact h
  simp [this]

theorem aliases_independence (noAl : Bool) (name pre junk post : Bytes)
    (hj : ∀ l ∈ lines junk, aliasJunk l = true) :
    lookupHostaliases noAl (.file (pre ++ 10 :: (junk ++ 10 :: post))) name =
      lookupHostaliases noAl (.file (pre ++ 10 :: post)) name := by
  unfold lookupHostaliases
  simp only
  rw [lines_append pre, lines_append junk, lines_append pre, ← List.append_assoc,
      findSome?_junk (aliasLine name) _ _ _ (fun x hx => aliasJunk_none name x (hj x hx))]

end Cares.Text
