import CaresLemmas.ClientExecLocal
/-!
# The view of one compound request against the flat fold: the invariant and its preservation

`Core cfg c0 a0 E S Fi l` relates, for one compound request started with `(c0, a0) = clientStart …`,

* what has happened so far — the completions `E` delivered to it, the sub-requests `S` started for it, the
  completion(s) `Fi` handed to its user callback — and its current view `l` (stored record, frames in progress)

to the flat fold `foldC cfg c0 E (applyActs a0 {})` (= `walkFrom` on the same completions).  The point is
`Core.walk`: the fold's walk is the actual walk *plus the actions still pending in the frames* (outermost frame
first).  `Core.step` shows every event of the compound request preserves it, provided a completion is only ever
delivered while one is outstanding (`|E| < |S|`, the causality side condition).
-/
namespace Cares.Chan
open Cares.ClientWalk

/-- the actions still to be executed by the frames in progress, outermost frame first -/
def pendOf : List (Option (List ClientAct)) → List ClientAct
  | [] => []
  | some a :: σ => pendOf σ ++ a
  | none :: σ => pendOf σ

def AllQuiet (σ : List (Option (List ClientAct))) : Prop := ∀ a, some a ∈ σ → Quiet a

/-- number of frames that still have something visible to do -/
def nvis : List (Option (List ClientAct)) → Nat
  | [] => 0
  | some a :: σ => (if Quiet a then 0 else 1) + nvis σ
  | none :: σ => nvis σ

theorem allQuiet_of_nvis : ∀ σ, nvis σ = 0 → AllQuiet σ
  | [], _ => fun _ h => by cases h
  | some a :: σ, h => by
    simp only [nvis] at h
    have h1 : Quiet a := by
      by_cases hq : Quiet a
      · exact hq
      · simp [hq] at h
    have h2 : nvis σ = 0 := by omega
    intro b hb
    rcases List.mem_cons.mp hb with e | e
    · cases e; exact h1
    · exact allQuiet_of_nvis σ h2 b e
  | none :: σ, h => by
    intro b hb
    rcases List.mem_cons.mp hb with e | e
    · cases e
    · exact allQuiet_of_nvis σ h b e

theorem quiet_app_iff (l1 l2 : List ClientAct) : Quiet (l1 ++ l2) ↔ Quiet l1 ∧ Quiet l2 := by
  constructor
  · intro ⟨hs, hf⟩
    rw [hasFinish_app, Bool.or_eq_false_iff] at hf
    rw [sends_app _ _ hf.1] at hs
    exact ⟨⟨by omega, hf.1⟩, ⟨by omega, hf.2⟩⟩
  · intro ⟨h1, h2⟩; exact h1.app h2

theorem pendOf_quiet : ∀ σ, AllQuiet σ → Quiet (pendOf σ)
  | [], _ => Quiet.nil
  | some a :: σ, h =>
    (quiet_app_iff _ _).mpr ⟨pendOf_quiet σ (fun b hb => h b (List.mem_cons_of_mem _ hb)), h a (List.mem_cons_self ..)⟩
  | none :: σ, h => pendOf_quiet σ (fun b hb => h b (List.mem_cons_of_mem _ hb))

theorem nvis_of_quiet_pend : ∀ σ, Quiet (pendOf σ) → nvis σ = 0
  | [], _ => rfl
  | some a :: σ, h => by
    have := (quiet_app_iff _ _).mp h
    simp only [nvis, this.2, ↓reduceIte, Nat.zero_add]
    exact nvis_of_quiet_pend σ this.1
  | none :: σ, h => nvis_of_quiet_pend σ h

/-- the stored record agrees with the fold's record except for the two stored query ids -/
def SameQ (c cF : Client) : Prop := setQids cF (some (c.qidA, c.qidAAAA)) = c

theorem SameQ.refl (c : Client) : SameQ c c := rfl

theorem SameQ.setSlot {c cF : Client} (h : SameQ c cF) (slot qid : Nat) : SameQ (setSlot slot qid c) cF := by
  unfold SameQ at *
  unfold Chan.setSlot
  split
  · show setQids cF (some (qid, c.qidAAAA)) = { c with qidA := qid }
    conv => rhs; rw [← h]
    rfl
  · show setQids cF (some (c.qidA, qid)) = { c with qidAAAA := qid }
    conv => rhs; rw [← h]
    rfl

theorem SameQ.outstanding {c cF : Client} (h : SameQ c cF) : c.outstanding = cF.outstanding := by
  rw [← h]; rfl

structure Core (cfg : Cfg) (c0 : Client) (a0 : List ClientAct) (E : List Ev) (S : List (String × Nat))
    (Fi : List (Status × Nat × String)) (l : LSt) : Prop where
  finsLe : Fi.length ≤ 1
  /-- the fold's walk = the actual walk plus what the frames in progress will still do -/
  walk : (foldC cfg c0 E (applyActs a0 {})).2 = applyActs (pendOf l.stack) ⟨S, Fi.head?⟩
  recOk : (foldC cfg c0 E (applyActs a0 {})).2.fin = none →
    ∃ c, l.cur = some c ∧ SameQ c (foldC cfg c0 E (applyActs a0 {})).1
  /-- the record's own count of outstanding sub-requests is exact -/
  count : if (foldC cfg c0 E (applyActs a0 {})).2.fin = none
    then (foldC cfg c0 E (applyActs a0 {})).1.outstanding + E.length = (foldC cfg c0 E (applyActs a0 {})).2.sent.length
    else E.length = (foldC cfg c0 E (applyActs a0 {})).2.sent.length
  oneVis : nvis l.stack ≤ 1
  finQuiet : Fi ≠ [] → AllQuiet l.stack
  recNone : l.cur = none → Fi ≠ []
  mark : none ∈ l.stack → Fi ≠ []

/-- what an action adds to the sub-requests started / to the completions handed to the user callback -/
def sentOfAct : ClientAct → List (String × Nat)
  | .send sp => [(sp.name, sp.qtype)]
  | .sendSlot sp _ => [(sp.name, sp.qtype)]
  | _ => []

def finOfAct : ClientAct → List (Status × Nat × String)
  | .finish st t dg => [(st, t, dg)]
  | _ => []

section
variable {cfg : Cfg} {c0 : Client} {a0 : List ClientAct} {E : List Ev} {S : List (String × Nat)}
  {Fi : List (Status × Nat × String)} {l : LSt}

theorem Core.sent_len (h : Core cfg c0 a0 E S Fi l) :
    (foldC cfg c0 E (applyActs a0 {})).2.sent.length = S.length + sends (pendOf l.stack) := by
  rw [h.walk, applyActs_sent_len]

theorem Core.of_fin_none (h : Core cfg c0 a0 E S Fi l) (hf : (foldC cfg c0 E (applyActs a0 {})).2.fin = none) :
    hasFinish (pendOf l.stack) = false ∧ Fi = [] := by
  constructor
  · cases hp : hasFinish (pendOf l.stack) with
    | false => rfl
    | true =>
      have := applyActs_fin_some (pendOf l.stack) ⟨S, Fi.head?⟩ hp
      rw [← h.walk, hf] at this; cases this
  · cases Fi with
    | nil => rfl
    | cons x t =>
      have := applyActs_fin_mono (pendOf l.stack) ⟨S, (x :: t).head?⟩ rfl
      rw [← h.walk, hf] at this; cases this

/-- **a completion is delivered** -/
theorem Core.cb (h : Core cfg c0 a0 E S Fi l) (c : Client) (hc : l.cur = some c) (st : Status) (t : Nat)
    (rec : Option Reply) (hcausal : E.length < S.length) :
    Core cfg c0 a0 (E ++ [{ st := st, timeouts := t, reply := rec, qids := some (c.qidA, c.qidAAAA) }]) S Fi
      ⟨some (clientOnCb cfg c st t rec).1, some (clientOnCb cfg c st t rec).2 :: l.stack⟩ := by
  have hlen := h.sent_len
  have hcount := h.count
  -- the fold has not finished
  have hfin : (foldC cfg c0 E (applyActs a0 {})).2.fin = none := by
    cases hf : (foldC cfg c0 E (applyActs a0 {})).2.fin with
    | none => rfl
    | some x => rw [hf] at hcount; simp only [reduceCtorEq, ↓reduceIte] at hcount; omega
  rw [if_pos hfin] at hcount
  obtain ⟨hpf, hFi⟩ := h.of_fin_none hfin
  obtain ⟨c1, hc1, hsame⟩ := h.recOk hfin
  rw [hc] at hc1; cases hc1
  have hout : c.outstanding = (foldC cfg c0 E (applyActs a0 {})).1.outstanding := hsame.outstanding
  have hok := clientOnCb_ok cfg c st t rec (by omega)
  -- the fold makes the same step
  have hstep : foldC cfg c0 (E ++ [{ st := st, timeouts := t, reply := rec, qids := some (c.qidA, c.qidAAAA) }])
      (applyActs a0 {}) =
      ((clientOnCb cfg c st t rec).1, applyActs (clientOnCb cfg c st t rec).2 (foldC cfg c0 E (applyActs a0 {})).2) := by
    rw [foldC_snoc]
    have : (foldC cfg c0 E (applyActs a0 {})).2.fin.isSome = false := by rw [hfin]; rfl
    simp only [this, Bool.false_eq_true, ↓reduceIte]
    have hs : setQids (foldC cfg c0 E (applyActs a0 {})).1 (some (c.qidA, c.qidAAAA)) = c := hsame
    rw [hs]
  refine ⟨h.finsLe, ?_, ?_, ?_, ?_, ?_, ?_, ?_⟩
  · rw [hstep]
    show applyActs _ _ = applyActs (pendOf l.stack ++ _) _
    rw [applyActs_app _ _ _ hpf, h.walk]
  · intro _
    rw [hstep]
    exact ⟨_, rfl, SameQ.refl _⟩
  · rw [hstep]
    simp only [List.length_append, List.length_singleton, applyActs_sent_len]
    have hc' := hok.count
    cases hf : hasFinish (clientOnCb cfg c st t rec).2 with
    | true =>
      rw [hf] at hc'
      simp only [↓reduceIte] at hc'
      have := applyActs_fin_some (clientOnCb cfg c st t rec).2 (foldC cfg c0 E (applyActs a0 {})).2 hf
      rw [if_neg (by intro e; rw [e] at this; cases this)]
      omega
    | false =>
      rw [hf] at hc'
      simp only [Bool.false_eq_true, ↓reduceIte] at hc'
      rw [if_pos (by rw [applyActs_fin_keep _ _ hf]; exact hfin)]
      omega
  · show (if Quiet (clientOnCb cfg c st t rec).2 then 0 else 1) + nvis l.stack ≤ 1
    by_cases hq : Quiet (clientOnCb cfg c st t rec).2
    · simp only [hq, ↓reduceIte, Nat.zero_add]; exact h.oneVis
    · have h2 : ¬ 2 ≤ c.outstanding := fun h2 => hq (clientOnCb_quiet cfg c st t rec h2)
      have : nvis l.stack = 0 := nvis_of_quiet_pend _ ⟨by omega, hpf⟩
      simp only [hq, ↓reduceIte, this]; exact Nat.le_refl 1
  · intro hne; exact absurd hFi hne
  · intro hn; cases hn
  · intro hm
    rcases List.mem_cons.mp hm with e | e
    · cases e
    · exact h.mark e

/-- **an action is executed** -/
theorem Core.act (h : Core cfg c0 a0 E S Fi l) (a : ClientAct) (rest : List ClientAct)
    (σ : List (Option (List ClientAct))) (hs : l.stack = some (a :: rest) :: σ) :
    Core cfg c0 a0 E (S ++ sentOfAct a) (Fi ++ finOfAct a) ⟨l.cur, afterActL a rest ++ σ⟩ := by
  have hv := h.oneVis
  rw [hs] at hv
  have hw := h.walk
  rw [hs] at hw
  -- a visible action is executed by the only frame that has anything visible pending, after the completion
  have vis : ¬ Quiet (a :: rest) → Quiet (pendOf σ) ∧ Fi = [] := by
    intro hq
    have h0 : nvis σ = 0 := by simp only [nvis, hq, ↓reduceIte] at hv; omega
    refine ⟨pendOf_quiet σ (allQuiet_of_nvis σ h0), ?_⟩
    cases hFi : Fi with
    | nil => rfl
    | cons x t =>
      have := h.finQuiet (by rw [hFi]; exact List.cons_ne_nil _ _)
      rw [hs] at this
      exact absurd (this _ (List.mem_cons_self ..)) hq
  cases a with
  | noRetry q =>
    simp only [sentOfAct, finOfAct, List.append_nil]
    refine ⟨h.finsLe, ?_, h.recOk, h.count, ?_, ?_, h.recNone, ?_⟩
    · rw [hw]; exact applyActs_mid_noRetry _ _ _ _
    · exact hv
    · intro hne b hb
      have := h.finQuiet hne
      rw [hs] at this
      rcases List.mem_cons.mp hb with e | e
      · cases e; exact (quiet_noRetry_cons q rest).mp (this _ (List.mem_cons_self ..))
      · exact this b (List.mem_cons_of_mem _ e)
    · intro hm
      apply h.mark; rw [hs]
      rcases List.mem_cons.mp hm with e | e
      · cases e
      · exact List.mem_cons_of_mem _ e
  | send sp =>
    obtain ⟨hq, hFi⟩ := vis (by simp [Quiet, sends])
    subst hFi
    simp only [sentOfAct, finOfAct, List.append_nil]
    refine ⟨h.finsLe, ?_, h.recOk, h.count, ?_, fun hne => absurd rfl hne, h.recNone, ?_⟩
    · rw [hw]
      show applyActs (pendOf σ ++ ClientAct.send sp :: rest) _ = applyActs (pendOf σ ++ rest) _
      rw [applyActs_quiet_app _ _ _ hq, applyActs_quiet_app _ _ _ hq]; rfl
    · show (if Quiet rest then 0 else 1) + nvis σ ≤ 1
      rw [nvis_of_quiet_pend σ hq]; split <;> omega
    · intro hm
      apply h.mark; rw [hs]
      rcases List.mem_cons.mp hm with e | e
      · cases e
      · exact List.mem_cons_of_mem _ e
  | sendSlot sp k =>
    obtain ⟨hq, hFi⟩ := vis (by simp [Quiet, sends])
    subst hFi
    simp only [sentOfAct, finOfAct, List.append_nil]
    refine ⟨h.finsLe, ?_, h.recOk, h.count, ?_, fun hne => absurd rfl hne, h.recNone, ?_⟩
    · rw [hw]
      show applyActs (pendOf σ ++ ClientAct.sendSlot sp k :: rest) _ = applyActs (pendOf σ ++ rest) _
      rw [applyActs_quiet_app _ _ _ hq, applyActs_quiet_app _ _ _ hq]; rfl
    · show (if Quiet rest then 0 else 1) + nvis σ ≤ 1
      rw [nvis_of_quiet_pend σ hq]; split <;> omega
    · intro hm
      apply h.mark; rw [hs]
      rcases List.mem_cons.mp hm with e | e
      · cases e
      · exact List.mem_cons_of_mem _ e
  | finish st t dg =>
    obtain ⟨hq, hFi⟩ := vis (by simp [Quiet, hasFinish])
    subst hFi
    simp only [sentOfAct, finOfAct, List.append_nil, List.nil_append]
    have hF : (foldC cfg c0 E (applyActs a0 {})).2 = ⟨S, some (st, t, dg)⟩ := by
      rw [hw]
      show applyActs (pendOf σ ++ ClientAct.finish st t dg :: rest) _ = _
      rw [applyActs_quiet_app _ _ _ hq]; rfl
    refine ⟨Nat.le_refl 1, ?_, ?_, h.count, ?_, ?_, fun _ => List.cons_ne_nil _ _, fun _ => List.cons_ne_nil _ _⟩
    · rw [hF]
      show _ = applyActs (pendOf σ ++ []) _
      rw [applyActs_quiet_app _ _ _ hq]; rfl
    · intro hn; rw [hF] at hn; cases hn
    · simp only [List.nil_append, afterActL, List.cons_append, nvis, Quiet.nil, ↓reduceIte,
        Nat.zero_add, nvis_of_quiet_pend σ hq]
      omega
    · intro _ b hb
      simp only [afterActL, List.cons_append, List.nil_append] at hb
      rcases List.mem_cons.mp hb with e | e
      · cases e
      · rcases List.mem_cons.mp e with e | e
        · cases e; exact Quiet.nil
        · have h0 : nvis σ = 0 := nvis_of_quiet_pend σ hq
          exact allQuiet_of_nvis σ h0 b e

end

end Cares.Chan
