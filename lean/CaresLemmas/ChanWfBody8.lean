import CaresLemmas.ChanWfBody7
/-!
# C01 — body lemmas VIII: `processRead`, `readAnswers`
-/
namespace Cares.Chan

@[simp] theorem sk_modSock_rx (s : St) (fd : Nat) (x : List Reply) :
    (s.modSock fd fun v => { v with rx := x }).sk = s.sk := by rw [sk_modSock]; intro; rfl
@[simp] theorem sk_modSock_chunks (s : St) (fd : Nat) (x : List Nat) :
    (s.modSock fd fun v => { v with chunks := x }).sk = s.sk := by rw [sk_modSock]; intro; rfl
@[simp] theorem sk_modSock_chunks_spos (s : St) (fd : Nat) (x : List Nat) (n : Nat) :
    (s.modSock fd fun v => { v with chunks := x, spos := v.spos + n }).sk = s.sk := by
  rw [sk_modSock]; intro; rfl

theorem sk_sock_conn (s0 : St) (fd : Nat) (f : VSock → VSock) (g : Conn → Conn) (hf : ∀ v, (f v).fd = v.fd)
    (hg : ∀ c, (g c).sk = c.sk) : (((s0.slog fd "recv").modSock fd f).modConn fd g).sk = s0.sk := by
  rw [sk_modConn_same _ _ _ hg, sk_modSock _ _ _ hf]; rfl
theorem sk_sock_only (s0 : St) (fd : Nat) (f : VSock → VSock) (hf : ∀ v, (f v).fd = v.fd) :
    ((s0.slog fd "recv").modSock fd f).sk = s0.sk := by
  rw [sk_modSock _ _ _ hf]; rfl

theorem good_processRead {go} (hgo : GoOk go) {d fd s} (hpre : Pre d s (.processRead fd)) :
    GoodO d (.processRead fd) s (bodyProcessRead go fd s) := by
  obtain ⟨hw, hd⟩ := hpre
  unfold bodyProcessRead
  split
  · rename_i c v hc hv
    split
    · exact Good.of_sk_eq hw hd rfl trivial
    · rename_i hcu
      have hcu' : c.unlinked = false := by simpa using hcu
      have hlive := live_of_conn? hc
      have hhas : s.sk.hasConn fd false := by have := hasConn_of_conn? hc; rwa [hcu'] at this
      -- the three kinds of continuation, from any state with the same skeleton
      have toRA : ∀ s1 : St, s1.sk = s.sk → GoodO d (.processRead fd) s (go (.readAnswers fd) s1) := by
        intro s1 h1
        refine Good.tail' (hgo.2 d _ _ ?_) (by rw [h1]; exact StepS.refl _ _ _ _) (Or.inl rfl) (Or.inl rfl)
          (fun _ => trivial)
        exact ⟨Wf.of_sk_eq h1 hw, by unfold Sk.liveConn; rw [h1]; exact hlive, by rw [h1]; exact hd⟩
      have toPR : ∀ s1 : St, s1.sk = s.sk → GoodO d (.processRead fd) s (go (.processRead fd) s1) := by
        intro s1 h1
        refine Good.tail' (hgo.2 d _ _ ?_) (by rw [h1]; exact StepS.refl _ _ _ _) (Or.inl rfl) (Or.inl rfl)
          (fun _ => trivial)
        exact ⟨Wf.of_sk_eq h1 hw, by rw [h1]; exact hd⟩
      have toCE : ∀ s1 : St, s1.sk = s.sk →
          GoodO d (.processRead fd) s ((go (.connError fd true .connrefused) s1).1, .connrefused) := by
        intro s1 h1
        refine Good.tail (hgo.2 d _ _ ?_) (by rw [h1]; exact StepS.refl _ _ _ _) (Or.inl rfl) (Or.inl rfl) trivial
        exact ⟨Wf.of_sk_eq h1 hw, by rw [h1]; exact hhas, by rw [h1]; exact hd⟩
      have hsk0 := sk_fault s "recvfrom"
      generalize s.fault "recvfrom" = r0 at hsk0 ⊢
      obtain ⟨e, s0⟩ := r0
      simp only at hsk0
      split
      · -- UDP
        simp only
        split
        · split
          · exact toRA _ (by simp [hsk0])
          · exact toCE _ (by simp [hsk0])
        · split
          · exact toRA _ (by simp [hsk0])
          · split
            · exact toRA _ (by simp [hsk0])
            · refine toPR _ ?_
              rw [sk_modConn_same]
              · simp [hsk0]
              · intro; rfl
      · -- TCP
        simp only
        split
        · split
          · exact toRA _ (by simp [hsk0])
          · exact toCE _ (by simp [hsk0])
        · split
          · split
            · exact toCE _ (by simp [hsk0])
            · exact toRA _ (by simp [hsk0])
          · repeat' split
            all_goals
              refine toRA _ ?_
              first
                | (rw [sk_sock_conn]
                   · exact hsk0
                   · intro; rfl
                   · intro; rfl)
                | (rw [sk_sock_only]
                   · exact hsk0
                   · intro; rfl)
  · exact Good.of_sk_eq hw hd rfl trivial

/-! ### `readAnswers` -/

theorem sock?_of_conn {s : St} {hole} {fd : Nat} {c : Conn} (hw : WfS s.sk hole) (hc : s.conn? fd = some c) :
    ∃ v, s.sock? fd = some v := by
  obtain ⟨hcfd, hcm⟩ := conn?_sk hc
  have := hw.c.sock (c.sk.fd, c.sk.queries) (mem_cFQ.mpr ⟨c.sk, hcm, rfl⟩)
  obtain ⟨v, hv, hvfd⟩ := List.mem_map.mp this
  cases hf : s.sock? fd with
  | some v' => exact ⟨v', rfl⟩
  | none =>
    have := List.find?_eq_none.mp hf v hv
    simp only [beq_iff_eq] at this
    exact absurd (hvfd.trans hcfd) this

theorem good_readAnswers {go} (hgo : GoOk go) {d fd s} (hpre : Pre d s (.readAnswers fd)) :
    GoodO d (.readAnswers fd) s (bodyReadAnswers go fd s) := by
  obtain ⟨hw, hl, hd⟩ := hpre
  obtain ⟨c, hc⟩ := conn?_of_live hl
  obtain ⟨v, hv⟩ := sock?_of_conn hw hc
  unfold bodyReadAnswers
  simp only [hc, hv]
  -- continuations from an intermediate state
  have toFR : ∀ s1 : St, MidO d s s1 → GoodO d (.readAnswers fd) s (go .flushRequeue s1) :=
    fun s1 hm => hm.tail hgo (fun hm => ⟨hm.wf, hm.debt⟩) (Or.inl rfl) (Or.inl rfl) (fun _ => trivial)
  split
  · exact toFR s (Or.inr (Mid.refl hw hd))
  · rename_i r _
    have hsk1 : (s.modConn fd fun c => { c with inMsgs := c.inMsgs.drop 1, inBytes := c.inBytes - (2 + r.len) }).sk = s.sk := by
      rw [sk_modConn_same]; intro; rfl
    generalize (s.modConn fd fun c => { c with inMsgs := c.inMsgs.drop 1, inBytes := c.inBytes - (2 + r.len) }) = s1
      at hsk1 ⊢
    have hm1 : Mid d s s1 := Mid.of_sk_eq hw hd hsk1
    have hm2 : MidO d s (go (.processAnswer fd r) s1).1 :=
      hm1.call hgo (.processAnswer fd r) ⟨hm1.wf, by unfold Sk.liveConn; rw [hsk1]; exact hl, hm1.debt⟩ rfl rfl
    generalize go (.processAnswer fd r) s1 = r2 at hm2 ⊢
    obtain ⟨s2, st⟩ := r2
    simp only at hm2 ⊢
    split
    · exact toFR s2 hm2
    · rename_i c' hc'
      split
      · exact toFR s2 hm2
      · rename_i hcu
        have hcu' : c'.unlinked = false := by simpa using hcu
        split
        · refine toFR _ (hm2.bind (hgo.1 _ _) (fun hm2 => ?_))
          exact hm2.call hgo (.connError fd true st)
            ⟨hm2.wf, by have := hasConn_of_conn? hc'; rwa [hcu'] at this, hm2.debt⟩ rfl rfl
        · exact hm2.tail hgo (fun hm2 => ⟨hm2.wf, live_of_conn? hc', hm2.debt⟩) (Or.inl rfl) (Or.inl rfl)
            (fun _ => trivial)

end Cares.Chan
