import CaresLemmas.LegacyLoops
/-! Helper lemmas: `ares_parse_into_addrinfo` on a fresh `struct ares_addrinfo` in closed form. -/
namespace Cares.Legacy
open Cares.AddrInfo

theorem nodeOf_none_of_not (port : Nat) (rr : RR) (h1 : isA rr = false) (h2 : isAaaa rr = false) :
    nodeOf port rr = none := by
  unfold nodeOf
  unfold isA at h1
  unfold isAaaa at h2
  by_cases h : rr.cls ≠ clsIN
  · simp [h]
  · have h' : rr.cls = clsIN := by simpa using h
    simp only [h, ↓reduceIte]
    cases hd : rr.data <;> simp_all

theorem cnameOf_none_of_not (rr : RR) (h1 : isCname rr = false) : cnameOf rr = none := by
  unfold cnameOf
  unfold isCname at h1
  by_cases h : rr.cls ≠ clsIN
  · simp [h]
  · have h' : rr.cls = clsIN := by simpa using h
    simp only [h, ↓reduceIte]
    cases hd : rr.data <;> simp_all

theorem filterMap_nodeOf_nil (port : Nat) (l : List RR) (h1 : l.any isA = false) (h2 : l.any isAaaa = false) :
    l.filterMap (nodeOf port) = [] := by
  induction l with
  | nil => rfl
  | cons rr rest ih =>
    simp only [List.any_cons, Bool.or_eq_false_iff] at h1 h2
    simp [List.filterMap_cons, nodeOf_none_of_not port rr h1.1 h2.1, ih h1.2 h2.2]

theorem filterMap_cnameOf_nil (l : List RR) (h1 : l.any isCname = false) : l.filterMap cnameOf = [] := by
  induction l with
  | nil => rfl
  | cons rr rest ih =>
    simp only [List.any_cons, Bool.or_eq_false_iff] at h1
    simp [List.filterMap_cons, cnameOf_none_of_not rr h1.1, ih h1.2]

/-- the answer section contributes something: an A or AAAA record in class IN, or (unless
    `cname_only_is_enodata`) a CNAME in class IN -/
def usable (cn : Bool) (l : List RR) : Bool := l.any isA || l.any isAaaa || (l.any isCname && !cn)

/-- the name after following the aliases -/
def canonName (q : Bytes) (l : List RR) : Bytes := ((l.filterMap cnameTarget).getLast?).getD q

theorem parseIntoAddrinfo_fresh (r : LRec) (q : Bytes) (qs : List Bytes) (hq : r.questions = q :: qs)
    (cn : Bool) (port : Nat) :
    parseIntoAddrinfo r cn port {} =
      if usable cn r.answers then
        (.success, { cnames := r.answers.filterMap cnameOf, nodes := r.answers.filterMap (nodeOf port),
                     name := some (canonName q r.answers) })
      else (.enodata, {}) := by
  unfold parseIntoAddrinfo
  have hqn : r.queryName = .ok q := by simp [LRec.queryName, hq]
  simp only [hqn]
  by_cases he : r.answers.isEmpty = true
  · have : r.answers = [] := by simpa using he
    simp [this, usable]
  · simp only [he, Bool.false_eq_true, ↓reduceIte]
    simp only [pLoop_gotA, pLoop_gotAaaa, pLoop_gotCname, pLoop_nodes, pLoop_cnames, pLoop_hostname,
      Bool.false_or, List.nil_append]
    cases hA : r.answers.any isA <;> cases hB : r.answers.any isAaaa <;> cases hC : r.answers.any isCname <;>
      cases cn <;> simp [usable, hA, hB, hC, canonName, filterMap_nodeOf_nil, filterMap_cnameOf_nil]


/-! ### ares_addrinfo2hostent / ares_addrinfo2addrttl / ares_parse_a_reply in closed form -/

theorem addrinfo2hostent_closed (ai : AddrInfo) (family : Nat) (hf : family = afINET ∨ family = afINET6) :
    addrinfo2hostent ai family =
      let addrs := (ai.nodes.filter (fun n => n.family = family)).map (·.addr)
      if addrs = [] ∧ ai.cnames = [] then (.enodata, none)
      else (.success, some { name := (ai.cnames.getLast?.map (·.name)).getD ai.name,
                             aliases := ai.cnames.filterMap (·.alias), addrtype := family,
                             length := addrLen family, addrs := addrs }) := by
  have hne : ¬ (family ≠ afINET ∧ family ≠ afINET6) := by
    intro ⟨a, b⟩; rcases hf with h | h <;> contradiction
  have hun : family ≠ afUNSPEC := by rcases hf with h | h <;> subst h <;> decide
  unfold addrinfo2hostent
  simp only [hun, ↓reduceIte, hne]
  by_cases h : (ai.nodes.filter (fun n => n.family = family)).map (·.addr) = [] ∧ ai.cnames = []
  · have h1 : ((ai.nodes.filter (fun n => n.family = family)).map (·.addr)).length = 0 := by simp [h.1]
    have h2 : ai.cnames.length = 0 := by simp [h.2]
    simp [h]
  · have : ¬ (((ai.nodes.filter (fun n => n.family = family)).map (·.addr)).length = 0 ∧ ai.cnames.length = 0) := by
      intro ⟨a, b⟩
      exact h ⟨List.length_eq_zero_iff.mp a, List.length_eq_zero_iff.mp b⟩
    simp only [this, ↓reduceIte, h]

theorem addrinfo2hostent_status (ai : AddrInfo) (family : Nat) (hf : family = afINET ∨ family = afINET6) :
    (addrinfo2hostent ai family).1 = .success ∨ (addrinfo2hostent ai family).1 = .enodata := by
  rw [addrinfo2hostent_closed ai family hf]
  simp only
  split <;> simp

theorem addrinfo2addrttl_closed (ai : AddrInfo) (family cap : Nat) (hf : family = afINET ∨ family = afINET6) :
    (if cap ≠ 0 then (addrinfo2addrttl ai family cap).2 else []) =
      ((ai.nodes.filter (fun n => n.family = family)).map (ttlEntry (cnameTtl ai.cnames))).take cap := by
  have hne : ¬ (family ≠ afINET ∧ family ≠ afINET6) := by
    intro ⟨a, b⟩; rcases hf with h | h <;> contradiction
  by_cases hc : cap = 0
  · simp [hc]
  · simp only [ne_eq, hc, not_false_eq_true, ↓reduceIte, addrinfo2addrttl, hne]
    rw [ttlLoop_eq _ _ _ _ _ (by simp)]
    simp

theorem parseAddrReply_closed (family : Nat) (hf : family = afINET ∨ family = afINET6) (r : LRec)
    (st : Status) (ai : AddrInfo) (hp : parseIntoAddrinfo r false 0 {} = (st, ai))
    (hst : st = .success ∨ st = .enodata) (cap : Nat) :
    parseAddrReply family (.ok r) true (some cap) =
      { status := (addrinfo2hostent ai family).1, host := (addrinfo2hostent ai family).2,
        ttls := ((ai.nodes.filter (fun n => n.family = family)).map (ttlEntry (cnameTtl ai.cnames))).take cap } := by
  unfold parseAddrReply
  simp only [hp]
  have h1 : ¬ (st ≠ .success ∧ st ≠ .enodata) := by
    intro ⟨a, b⟩; rcases hst with h | h <;> contradiction
  simp only [h1, ↓reduceIte]
  have h2 := addrinfo2hostent_status ai family hf
  have h3 : ¬ ((addrinfo2hostent ai family).1 ≠ .success ∧ (addrinfo2hostent ai family).1 ≠ .enodata) := by
    intro ⟨a, b⟩; rcases h2 with h | h <;> contradiction
  have h4 : (addrinfo2hostent ai family).1.compat = (addrinfo2hostent ai family).1 := by
    rcases h2 with h | h <;> rw [h] <;> rfl
  simp only [h3, ↓reduceIte, h4]
  rw [addrinfo2addrttl_closed ai family cap hf]

end Cares.Legacy
